"""
Shared harness machinery: driver process handling, case recording, evidence,
known-findings logic.  Used by ./check and by every harness/cXX.py.

Terminology (DESIGN.md section 5):
  violation      the property itself fails on the real code for a concrete case
                 (oracle: a Lean spec/model proven to satisfy the property, or a
                 predicate evaluated directly on the implementation, e.g. a round trip)
  disagreement   model and implementation differ on an observation the property does
                 not determine uniquely; the harness then evaluates the property
                 predicate itself; if that fails too it is upgraded to a violation,
                 otherwise the correspondence is broken (reported `no-failing-input-found`)
  known finding  a violation whose case lies inside the predicate of an entry of
                 known_findings.json with state "known"
"""
import hashlib
import json
import os
import random
import resource
import subprocess
import sys
import tempfile
import time
import traceback
from collections import Counter

VERIF = os.path.dirname(os.path.dirname(os.path.abspath(__file__)))
REPO = os.environ.get("VERIF_REPO", "/repo")
LEAN = os.path.join(VERIF, "lean")
BIN = os.path.join(LEAN, ".lake", "build", "bin")

REJECT = "REJECT"
BADOP = "bad-op"


class MachineryError(Exception):
    """harness/driver malfunction: exit 2, never a VIOLATION"""


def import_repo():
    """make `import buidl` resolve to REPO's working tree and assert the pure-Python path"""
    if REPO not in sys.path:
        sys.path.insert(0, REPO)
    import buidl  # noqa
    import buidl.ecc

    got = os.path.dirname(os.path.abspath(buidl.__file__))
    want = os.path.join(os.path.abspath(REPO), "buidl")
    if got != want:
        raise MachineryError(f"buidl imported from {got}, expected {want}")
    if buidl.ecc.S256Point.__module__ != "buidl.pecc":
        raise MachineryError("buidl.ecc is not the pure-Python implementation (pecc)")
    return buidl


# ----------------------------------------------------------------------------- tokens
def xb(b):
    """bytes token"""
    return "x" + bytes(b).hex()


def xs(s):
    """string token (hex of UTF-8)"""
    return "s" + s.encode("utf-8").hex()


def unx(tok):
    if not tok.startswith("x"):
        raise MachineryError(f"not a bytes token: {tok[:40]}")
    return bytes.fromhex(tok[1:])


def uns(tok):
    if not tok.startswith("s"):
        raise MachineryError(f"not a string token: {tok[:40]}")
    return bytes.fromhex(tok[1:]).decode("utf-8")


def blist(items):
    """counted list of bytes tokens"""
    return " ".join([str(len(items))] + [xb(i) for i in items])


def canon(fn, *args, fmt=None, **kw):
    """run the implementation; any exception or None/False-as-rejection is REJECT"""
    try:
        r = fn(*args, **kw)
    except Exception:  # the properties only say "rejected"
        return REJECT
    if fmt is not None:
        return fmt(r)
    return r


# ----------------------------------------------------------------------------- driver
def _raise_stack():
    try:
        resource.setrlimit(resource.RLIMIT_STACK, (resource.RLIM_INFINITY, resource.RLIM_INFINITY))
    except Exception:
        try:
            soft, hard = resource.getrlimit(resource.RLIMIT_STACK)
            resource.setrlimit(resource.RLIMIT_STACK, (hard, hard))
        except Exception:
            pass


class Driver:
    """batch interface to a native Lean driver executable (line protocol)"""

    def __init__(self, name):
        self.name = name
        self.path = os.path.join(BIN, name)
        self.calls = 0
        self.lines = 0

    def available(self):
        return os.path.isfile(self.path) and os.access(self.path, os.X_OK)

    def batch(self, lines, timeout=3600):
        lines = list(lines)
        if not lines:
            return []
        for l in lines:
            if "\n" in l:
                raise MachineryError("newline inside a request line")
        if not self.available():
            raise MachineryError(f"driver {self.name} not built")
        d = tempfile.mkdtemp(prefix="verif-drv-")
        try:
            inp = os.path.join(d, "in.txt")
            with open(inp, "w") as f:
                f.write("\n".join(lines))
                f.write("\n")
            with open(inp, "rb") as fin:
                p = subprocess.run(
                    [self.path], stdin=fin, stdout=subprocess.PIPE, stderr=subprocess.PIPE,
                    timeout=timeout, preexec_fn=_raise_stack,
                )
            if p.returncode != 0:
                raise MachineryError(
                    f"driver {self.name} exit {p.returncode}: {p.stderr.decode(errors='replace')[:500]}"
                )
            out = p.stdout.decode("utf-8").split("\n")
            if out and out[-1] == "":
                out.pop()
            if len(out) != len(lines):
                raise MachineryError(f"driver {self.name}: {len(lines)} requests, {len(out)} answers")
            self.calls += 1
            self.lines += len(lines)
            for q, a in zip(lines, out):
                if a == BADOP:
                    raise MachineryError(f"driver {self.name} answered bad-op to: {q[:300]}")
            return out
        finally:
            for fn in os.listdir(d):
                os.unlink(os.path.join(d, fn))
            os.rmdir(d)

    def one(self, line):
        return self.batch([line])[0]


def batch_parallel(driver, lines, workers=16, chunk=None):
    """split a big batch across several driver processes (order preserved)"""
    lines = list(lines)
    if len(lines) < 64 or workers <= 1:
        return driver.batch(lines)
    from concurrent.futures import ThreadPoolExecutor

    n = len(lines)
    k = min(workers, max(1, n // 32))
    size = (n + k - 1) // k
    parts = [lines[i : i + size] for i in range(0, n, size)]
    with ThreadPoolExecutor(max_workers=k) as ex:
        outs = list(ex.map(driver.batch, parts))
    return [a for o in outs for a in o]


# ----------------------------------------------------------------------------- recorder
def _jsonable(x):
    if isinstance(x, (bytes, bytearray)):
        return "x" + bytes(x).hex()
    if isinstance(x, dict):
        return {str(k): _jsonable(v) for k, v in x.items()}
    if isinstance(x, (list, tuple)):
        return [_jsonable(v) for v in x]
    if isinstance(x, (int, str, bool)) or x is None:
        return x
    if isinstance(x, float):
        return repr(x)
    return repr(x)


def _short(x, n=400):
    s = json.dumps(_jsonable(x))
    if len(s) > n:
        return s[: n - 20] + f"...(+{len(s) - n + 20} chars)"
    return s


class Recorder:
    MAX_KEEP = 25

    def __init__(self, prop):
        self.prop = prop
        self.evaluations = 0
        self.distinct = set()
        self.dist = Counter()
        self.samples = {}
        self.violations = []
        self.disagreements = []
        self.cov_lines = {}  # kind -> request lines re-executed under line monitoring (coverage sample)
        self.cov_preds = {}  # kind -> predicate cases re-executed under line monitoring
        self.known = {}  # finding id -> {"reproduces": bool, "count": int, "witness": ...}
        self.notes = []

    # -- counting
    def ok(self, kind, key=None, nontrivial=True, n=1):
        """a case on which the property held"""
        self.evaluations += n
        self.dist[kind] += n
        if nontrivial and key is not None:
            h = hashlib.blake2b(repr((kind, key)).encode(), digest_size=8).digest()
            self.distinct.add(h)

    def count(self, label, n=1):
        self.dist[label] += n

    def sample(self, kind, obj, limit=2):
        l = self.samples.setdefault(kind, [])
        if len(l) < limit:
            l.append(_short(obj))

    def note(self, s):
        self.notes.append(s)

    def cov_pred(self, kind, case):
        """remember a predicate case for the line-coverage sample"""
        l = self.cov_preds.setdefault(kind, [])
        if len(l) < 20:
            l.append(case)

    # -- failures
    def violation(self, kind, case, impl, expected, note="", finding=None):
        """the property fails on the real code for `case`"""
        self.evaluations += 1
        self.dist[kind + ":VIOLATION"] += 1
        v = {"kind": kind, "case": _jsonable(case), "impl": _jsonable(impl),
             "expected": _jsonable(expected), "note": note, "finding": finding}
        # keep at most 20 per (kind, finding) so that one noisy kind (or tagged known-finding
        # cases) cannot crowd out a different violation
        k = (kind, finding)
        self._vcount = getattr(self, "_vcount", Counter())
        self._vcount[k] += 1
        if self._vcount[k] <= 20 and len(self.violations) < 2000:
            self.violations.append(v)

    def disagreement(self, kind, case, impl, model, note=""):
        """model != implementation where the property does not fix the output"""
        self.evaluations += 1
        self.dist[kind + ":DISAGREE"] += 1
        if len(self.disagreements) < 200:
            self.disagreements.append({"kind": kind, "case": _jsonable(case), "impl": _jsonable(impl),
                                       "model": _jsonable(model), "note": note})

    def finding(self, fid, reproduces, witness=None):
        e = self.known.setdefault(fid, {"reproduces": False, "count": 0, "witness": None})
        e["count"] += 1
        if reproduces:
            e["reproduces"] = True
            if e["witness"] is None:
                e["witness"] = _jsonable(witness)

    # -- generic differential helper
    def compare(self, kind, case, impl, model, determined=True, key=None, nontrivial=True, note="",
                finding=None):
        """impl and model are canonical strings.  determined: the model output is what the
        property demands (the model is proved to satisfy the property for this observation)."""
        if isinstance(case, dict) and "line" in case:
            l = self.cov_lines.setdefault(kind, [])
            if len(l) < 40:
                l.append(case["line"])
        if impl == model:
            self.ok(kind, key if key is not None else _short(case, 200), nontrivial)
            return True
        if determined:
            self.violation(kind, case, impl, model, note=note, finding=finding)
        else:
            self.disagreement(kind, case, impl, model, note=note)
        return False


class Ctx:
    def __init__(self, prop, tier, seed, escalated=False):
        self.prop = prop
        self.tier = tier
        self.seed = seed
        self.escalated = escalated
        self.thorough = tier == "thorough"
        self.scale = 20 if self.thorough else (5 if escalated else 1)
        self.rng = random.Random(f"{prop}:{seed}")
        self.rec = Recorder(prop)
        self.workers = int(os.environ.get("VERIF_WORKERS", str(os.cpu_count() or 4)))
        self.findings = {f["id"]: f for f in load_findings() if f["property"] == prop}
        self.t0 = time.time()
        self.drift = []  # anchored functions whose AST fingerprint changed

    def driver(self, name=None):
        return Driver(name or ("drv_" + self.prop.lower()))

    def n(self, quick, thorough=None):
        """case count for this tier: quick, thorough, or (quick tier escalated because a proof,
        the generated constants or an anchored function changed) five times quick"""
        t = thorough if thorough is not None else quick * 20
        if self.tier == "thorough":
            return t
        if self.escalated:
            return max(quick, min(t, quick * 5))
        return quick

    def sub_rng(self, label):
        return random.Random(f"{self.prop}:{self.seed}:{label}")


def load_findings():
    p = os.path.join(VERIF, "known_findings.json")
    if not os.path.exists(p):
        return []
    with open(p) as f:
        return json.load(f)["findings"]


# ----------------------------------------------------------------------------- pool helper
def pmap(fn, items, workers=None, chunksize=None):
    """multiprocessing map with fork (the implementation is CPU-bound pure Python)"""
    items = list(items)
    workers = workers or (os.cpu_count() or 4)
    if len(items) < 2 or workers <= 1:
        return [fn(i) for i in items]
    import multiprocessing as mp

    ctx = mp.get_context("fork")
    with ctx.Pool(min(workers, len(items))) as pool:
        return pool.map(fn, items, chunksize or max(1, len(items) // (workers * 4)))


def boundary_ints():
    N = 0xFFFFFFFFFFFFFFFFFFFFFFFFFFFFFFFEBAAEDCE6AF48A03BBFD25E8CD0364141
    return [0, 1, 2, 0xFC, 0xFD, 0xFE, 0xFF, 0x100, 0xFFFF, 0x10000, 0xFFFFFFFF, 0x100000000,
            2**63 - 1, 2**63, 2**64 - 1, 2**64, 2**128 - 1, 2**128, 2**128 + 1, 2**255 - 1, 2**255,
            2**255 + 1, N - 2, N - 1, N, N + 1, 2**256 - 1]


# ----------------------------------------------------------------------------- line coverage (sys.monitoring)
def _resolve(path, qual):
    """anchor (path under REPO, qualname) -> code object, or None"""
    import importlib
    mod = path[:-3].replace("/", ".")
    try:
        obj = importlib.import_module(mod)
        for part in qual.split("."):
            obj = getattr(obj, part) if not isinstance(obj, dict) else obj[part]
    except Exception:
        return None
    for attr in ("__func__", "fget", "__wrapped__"):
        if hasattr(obj, attr):
            obj = getattr(obj, attr)
    return getattr(obj, "__code__", None)


def line_coverage(anchors, thunk):
    """run thunk() with LINE monitoring restricted to the anchored functions; returns
    {"path:qual": [lines_hit, lines_total]} — a lower bound (only what thunk re-executes)"""
    import sys
    mon = getattr(sys, "monitoring", None)
    codes = {}
    for path, qual in anchors:
        c = _resolve(path, qual)
        if c is not None:
            codes[c] = f"{path}:{qual}"
    if mon is None or not codes:
        thunk()
        return {}
    TOOL = 3
    hit = {c: set() for c in codes}
    try:
        mon.use_tool_id(TOOL, "verif-cov")
    except ValueError:
        thunk()
        return {}

    def on_line(code, line):
        s = hit.get(code)
        if s is not None:
            s.add(line)
        return mon.DISABLE

    try:
        mon.register_callback(TOOL, mon.events.LINE, on_line)
        for c in codes:
            mon.set_local_events(TOOL, c, mon.events.LINE)
        thunk()
    finally:
        for c in codes:
            try:
                mon.set_local_events(TOOL, c, 0)
            except Exception:
                pass
        mon.register_callback(TOOL, mon.events.LINE, None)
        mon.free_tool_id(TOOL)
    res = {}
    for c, name in codes.items():
        total = {l for _, _, l in c.co_lines() if l is not None and l != c.co_firstlineno}
        res[name] = [len(hit[c] & total) if total else len(hit[c]), len(total)]
    return res
