"""
C06 — input verification accepts properly signed spends and nothing unauthorised.

Spends of the eight standard shapes are built and signed THROUGH THE LIBRARY (sign_* / get_sig_* /
finalize_*), then every mutation of the property's catalogue is applied.  For each (mutated) spend:

  impl        Tx.verify_input(i) on the real code -> ACCEPT | REJECT (False or any exception)
  authorised  the property's authorisation predicate, evaluated independently from the spent output's
              commitment (key hash / script keys / taproot openings) and the signatures that are present
              anywhere in the scriptSig or witness; the digest each signature must sign is NOT taken from the
              library: it is the Lean specification's digest (Buidl.Spec.Sighash through drv_c05: spec_legacy /
              spec_bip143 / spec_bip341) of the CURRENT transaction, input, hash type and script code, and the
              signatures are verified against that digest with the real point.verify / verify_schnorr
  model       lean/Buidl/Model/Interp.lean `verifyInput` (driver drv_c06), with the key / signature /
              control-block oracles answered from what the real code computed during the impl run
              (recorded through proxies installed in buidl.op and buidl.witness), so the comparison
              isolates the interpreter logic from the EC arithmetic

  violation      impl = ACCEPT and not authorised (soundness), or a library-built unmutated spend is not
                 accepted (completeness), or verify_input modified the transaction (direct predicate `nomutate`)

The whole case — transaction, spent outputs, every scriptSig and every witness item list — is snapshotted as plain
data BEFORE the implementation runs; the request line, the model's spend line and the oracle's specification requests
are built from that snapshot, never from the objects the implementation has had in its hands.  After the run the
objects are described again and compared with the snapshot (`nomutate`).
  disagreement   impl != model
"""
import hashlib
import random

from harness.common import REJECT, MachineryError, Driver, xb, unx, blist, batch_parallel, pmap
from harness import txtok as T

PROPERTY = "C06"
DRIVERS = ["drv_c06", "drv_c05"]
PROPS_MODULES = ["Buidl.Props.C06", "Buidl.Props.C06Compose"]
ANCHORS = [
    ("buidl/tx.py", "Tx.verify_input"), ("buidl/tx.py", "Tx.sig_hash"), ("buidl/script.py", "Script.evaluate"),
    ("buidl/op.py", "op_checksig"), ("buidl/op.py", "op_checksigverify"), ("buidl/op.py", "op_checkmultisig"),
    ("buidl/op.py", "op_checkmultisigverify"), ("buidl/op.py", "op_checksig_schnorr"),
    ("buidl/op.py", "op_checksigverify_schnorr"), ("buidl/op.py", "op_checksigadd_schnorr"),
    ("buidl/op.py", "op_hash160"), ("buidl/op.py", "op_equal"), ("buidl/op.py", "op_equalverify"),
    ("buidl/op.py", "op_verify"), ("buidl/op.py", "op_dup"),
    ("buidl/witness.py", "Witness.has_annex"), ("buidl/witness.py", "Witness.control_block"),
    ("buidl/witness.py", "Witness.tap_script"), ("buidl/witness.py", "Witness.tap_leaf"),
    ("buidl/taproot.py", "TapLeaf.hash"), ("buidl/taproot.py", "ControlBlock.parse"),
    ("buidl/taproot.py", "ControlBlock.external_pubkey"), ("buidl/taproot.py", "ControlBlock.merkle_root"),
    ("buidl/tx.py", "TxIn.finalize_p2pkh"), ("buidl/tx.py", "TxIn.finalize_p2wpkh"),
    ("buidl/tx.py", "TxIn.finalize_p2sh_multisig"), ("buidl/tx.py", "TxIn.finalize_p2wsh_multisig"),
    ("buidl/tx.py", "TxIn.finalize_p2sh_p2wsh_multisig"), ("buidl/tx.py", "TxIn.finalize_p2tr_keypath"),
    ("buidl/tx.py", "Tx.finalize_p2tr_multisig"),
]
RULE = ("spends are generated from one PRNG seeded by VERIF_SEED (shape, key subset, m-of-n with 1 <= m <= n <= 5, "
        "1..3 inputs/outputs, amounts, tree shape), every spend goes through the whole mutation catalogue (committed "
        "fields, signatures, keys and scripts, small-integer opcodes around a nested redeem script, annexes added / "
        "removed / replaced after signing and signed over); every case is snapshotted before the implementation runs and "
        "compared with the objects afterwards (verify_input does not modify the transaction); plus the "
        "fixed witnesses of F06a-F06g; a case is non-trivial when it is not the unmutated spend; distinct = distinct "
        "(scriptSig, scriptPubKey, witness, transaction digest) tuples")
TRUSTED = ["signature verification, key / signature / control-block parsing and the signature hash enter the theorems "
           "as oracles of the environment (`Env`); C01/C02/C05/C12 are about those functions",
           "hash160 / sha256 are parameters; soundness is stated with collision extraction (an accepted spend with a "
           "different redeem / witness script exhibits a hash collision)"]
ASSUMPTIONS = [
    "authorisation of a script-path spend means: the (script bytes, control block) pair in the witness is one of the "
    "openings of the output's tree (exact bytes), and the leaf's keys signed",
    "MuSig leaves are exercised by C13; here taproot trees consist of k-of-n MultiSigTapScript and P2PKTapScript leaves",
    "consensus-only rules that do not bear on authorisation (witness present on a non-witness input, exactly two items "
    "in a P2WPKH witness, CLEANSTACK, leaf versions other than 0xc0) are not modelled as rejections",
]

CLAUSES = {
    "a spend built and signed through the library is reported valid (eight shapes)":
        "proved over the oracles: complete_p2pkh, complete_p2sh_multisig (any 1 <= m, n <= 16), complete_p2wpkh, "
        "complete_p2sh_p2wpkh, complete_p2wsh_multisig, complete_p2sh_p2wsh_multisig, complete_p2tr_keypath, "
        "complete_p2tr_scriptpath (k-of-n MultiSigTapScript leaf); checked on every library-built spend of the run; "
        "MuSig leaves: correspondence of C13 only",
    "never valid without authorisation, for EVERY scriptSig and witness":
        "proved in the repaired configuration: sound_p2pkh (any opcodes and conditionals in the scriptSig), "
        "sound_p2wpkh, sound_p2sh_p2wpkh, sound_p2sh_multisig, sound_p2wsh_multisig, sound_p2sh_p2wsh_multisig "
        "(collision extraction for hash160 / sha256), sound_p2tr (key path or committed script path), "
        "tapleaf_multisig_sound (exactly k signatures), tapleaf_single_sound",
    "fewer than m valid signatures / a signature by a key outside the script / reordered / duplicated signatures":
        "proved: MultisigAuth = m popped signatures verify for an order-preserving selection of distinct script keys "
        "(SigMatch); F06a_witness shows today's fall-through",
    "a signature over a different transaction / flipped sighash byte":
        "relative to the oracles (sigPre / ecdsaOK / schnorrOK take the hash type; C05 proves what each digest commits "
        "to): correspondence + the authorisation predicate on every field mutation",
    "wrong public key, redeem script, witness script, leaf script or control block":
        "proved with collision extraction (sound_p2sh_*, sound_p2wsh_multisig) and through the tapCommit oracle on the "
        "exact script bytes (sound_p2tr; F06g_witness)",
    "a scriptSig / witness that carries no valid signature whatever other items or opcodes it contains":
        "proved (the soundness theorems quantify over all command lists and witnesses); F06b_fixed, F06c_witness, "
        "F06d_witness, F06e_witness, F06f_witness show the unrepaired behaviour",
}

_S = {"patched": False, "rec": None, "vcache": {}, "keys": None}


# --------------------------------------------------------------------------------- recording proxies
def _code(e):
    if isinstance(e, (ValueError, SyntaxError)):
        return 1
    if isinstance(e, TypeError):
        return 3
    if isinstance(e, IndexError):
        return 4
    if isinstance(e, AttributeError):
        return 5
    return 2


class Recorder:
    def __init__(self):
        self.pk, self.der, self.sh, self.ec, self.xo, self.ss, self.sc, self.cb, self.tc = ({} for _ in range(9))
        self.ecz, self.scz = {}, {}     # (key, digest, signature) -> result, with the digest the library used
        self.last_ht = None

    def tables(self):
        def bc(d):
            return " ".join([str(len(d))] + [f"{xb(k)} {v}" for k, v in d.items()])
        sh = " ".join([str(len(self.sh))] + [f"{k} {v}" for k, v in self.sh.items()])
        ec = " ".join([str(len(self.ec))] + [f"{xb(p)} {h} {xb(s)} {1 if v else 0}" for (p, h, s), v in self.ec.items()])
        sc = " ".join([str(len(self.sc))] + [f"{xb(p)} {h} {xb(s)} {1 if v else 0}" for (p, h, s), v in self.sc.items()])
        tc = " ".join([str(len(self.tc))] + [f"{xb(c)} {xb(l)} {v[0]} {xb(v[1])} {1 if v[2] else 0}"
                                            for (c, l), v in self.tc.items()])
        return " ".join([bc(self.pk), bc(self.der), sh, ec, bc(self.xo), bc(self.ss), sc, bc(self.cb), tc])


def _patch():
    if _S["patched"]:
        return
    import buidl.op as O
    import buidl.script as S
    import buidl.tx as T
    import buidl.witness as W
    import buidl.taproot as TR
    from buidl.ecc import S256Point, Signature, SchnorrSignature

    def quiet(*a, **k):
        return None
    O.print = quiet
    S.print = quiet
    T.print = quiet

    def vcached(kind, key, fn):
        c = _S["vcache"]
        k = (kind, key)
        if k not in c:
            c[k] = fn()
        return c[k]

    class PointP:
        def __init__(self, raw, pt):
            self.raw, self.pt = raw, pt

        def verify(self, z, sig):
            r = vcached("e", (self.raw, z, sig.raw), lambda: self.pt.verify(z, sig.real))
            _S["rec"].ec[(self.raw, _S["rec"].last_ht, sig.raw)] = bool(r)
            _S["rec"].ecz[(self.raw, z, sig.raw)] = bool(r)
            return r

        def verify_schnorr(self, msg, sig):
            r = vcached("s", (self.raw, msg, sig.raw), lambda: self.pt.verify_schnorr(msg, sig.real))
            _S["rec"].sc[(self.raw, _S["rec"].last_ht, sig.raw)] = bool(r)
            _S["rec"].scz[(self.raw, msg, sig.raw)] = bool(r)
            return r

    class SigP:
        def __init__(self, raw, real):
            self.raw, self.real = raw, real

    def parser(table_name, real_fn, wrap):
        def f(b):
            b = bytes(b)
            try:
                r = vcached("p" + table_name, b, lambda: ("ok", real_fn(b)))
            except Exception as e:            # parse errors are not cached objects; re-raise the same kind
                getattr(_S["rec"], table_name)[b] = _code(e)
                raise
            getattr(_S["rec"], table_name)[b] = 0
            return wrap(b, r[1])
        return f

    class PointProxy:
        parse = staticmethod(parser("pk", S256Point.parse, PointP))
        parse_xonly = staticmethod(parser("xo", S256Point.parse_xonly, PointP))

    class SigProxy:
        parse = staticmethod(parser("der", Signature.parse, SigP))

    class SchnorrProxy:
        parse = staticmethod(parser("ss", SchnorrSignature.parse, SigP))

    O.S256Point, O.Signature, O.SchnorrSignature = PointProxy, SigProxy, SchnorrProxy

    orig_sig_hash = T.Tx.sig_hash

    def sig_hash(self, input_index, hash_type):
        rec = _S["rec"]
        try:
            z = orig_sig_hash(self, input_index, hash_type)
        except Exception as e:
            if rec is not None:
                rec.sh[hash_type] = _code(e)
                rec.last_ht = hash_type
            raise
        if rec is not None:
            rec.sh[hash_type] = 0
            rec.last_ht = hash_type
        return z
    T.Tx.sig_hash = sig_hash

    RealCB = TR.ControlBlock

    class CBP:
        def __init__(self, raw, real):
            self.raw, self.real = raw, real
            self.tapleaf_version, self.parity = real.tapleaf_version, real.parity
            self.internal_pubkey, self.hashes = real.internal_pubkey, real.hashes

        def external_pubkey(self, tap_script):
            leaf = tap_script.raw_serialize()
            try:
                pt = vcached("t", (self.raw, leaf), lambda: self.real.external_pubkey(tap_script))
            except Exception as e:
                if _S["rec"] is not None:
                    _S["rec"].tc[(self.raw, leaf)] = (_code(e), b"", False)
                raise
            if _S["rec"] is not None:
                _S["rec"].tc[(self.raw, leaf)] = (0, pt.xonly(), pt.parity == self.parity)
            return pt

        def merkle_root(self, tap_script):
            return self.real.merkle_root(tap_script)

        def serialize(self):
            return self.real.serialize()

    class CBProxy:
        @staticmethod
        def parse(b):
            b = bytes(b)
            try:
                real = RealCB.parse(b)
            except Exception as e:
                if _S["rec"] is not None:
                    _S["rec"].cb[b] = _code(e)
                raise
            if _S["rec"] is not None:
                _S["rec"].cb[b] = 0
            return CBP(b, real)
    W.ControlBlock = CBProxy
    _S["rec"] = Recorder()
    _S["patched"] = True


def keys():
    if _S["keys"] is None:
        from buidl.ecc import PrivateKey
        _S["keys"] = [PrivateKey(0xC06000 + 7919 * i) for i in range(1, 11)]
    return _S["keys"]


# --------------------------------------------------------------------------------- tokens
def fmt_cmds(cmds):
    return " ".join([str(len(cmds))] + [f"o{c}" if isinstance(c, int) else xb(c) for c in cmds])


def spend_line(tx, idx):
    tx_in = tx.tx_ins[idx]
    return (f"{int(tx.locktime)} {int(tx_in.sequence)} {tx.version} {fmt_cmds(tx_in.script_sig.commands)} "
            f"{fmt_cmds(tx_in._script_pubkey.commands)} {blist(tx_in.witness.items)}")


def tx_desc(tx):
    """plain-data description (harness/txtok.py format) of the whole transaction with its spent outputs"""
    return {"version": tx.version, "locktime": int(tx.locktime), "segwit": bool(tx.segwit),
            "ins": [{"prev_tx": ti.prev_tx, "prev_index": ti.prev_index,
                     "script_sig": T.d_script(ti.script_sig.commands, ti.script_sig.raw), "sequence": int(ti.sequence),
                     "witness": list(ti.witness.items), "value": ti._value,
                     "spk": T.d_script(ti._script_pubkey.commands, ti._script_pubkey.raw)} for ti in tx.tx_ins],
            "outs": [{"amount": o.amount, "spk": T.d_script(o.script_pubkey.commands, o.script_pubkey.raw)}
                     for o in tx.tx_outs]}


def request_line(desc, idx):
    """`verify_tx <input index> <transaction tokens>`: everything needed to rebuild the case (impl_line, replay,
    line-coverage sample)"""
    return f"verify_tx {idx} {T.t_tx(desc)}"


def impl_line(line):
    """re-execute one recorded case on the real code -> ACCEPT | REJECT"""
    t = line.split(" ")
    if t[0] != "verify_tx":
        raise MachineryError("unknown request " + t[0])
    ts = T.Toks(t, 2)
    try:
        tx = T.p_tx(ts)
    except MachineryError:
        raise
    except Exception:
        return REJECT
    return run_impl(tx, int(t[1]))[0]


def eval_pred(kind, case):
    """predicate cases: a request line (re-verified), or a job (the spend is built and signed again through the
    library: sign_* / get_sig_* / finalize_*)"""
    if case.get("pred") == "nomutate":
        d = mutation_diff(case["line"])
        return d is None, d or "unchanged", "unchanged"
    if "job" in case:
        seed, i, shape, layout, ht = case["job"]
        _patch()
        sp, tx, idx = build_spend(random.Random(f"C06:{seed}:{i}:{shape}"), shape, tuple(layout), ht)
        return sp["built_ok"], sp["built_ok"], True
    r = impl_line(case["line"])
    return r == case.get("impl", r), r, case.get("impl", r)


def run_impl(tx, idx):
    """verify_input with recording -> (ACCEPT|REJECT, tables)"""
    _patch()
    rec = Recorder()
    _S["rec"] = rec
    try:
        ok = tx.verify_input(idx) is True
    except MachineryError:
        raise
    except Exception:
        ok = False
    finally:
        _S["rec"] = Recorder()     # throw-away recorder for calls outside run_impl (sign_* verify internally)
    _S["last_rec"] = rec
    return ("ACCEPT" if ok else REJECT), rec.tables()


def tx_bytes(tx):
    """the serialisation (witness data included when the transaction is flagged segwit), or how it fails"""
    try:
        return tx.serialize()
    except Exception as e:
        return "raise " + type(e).__name__


def desc_diff(before, after, ser0=None, ser1=None):
    """None when the two plain-data descriptions (and serialisations) agree, else what differs"""
    out = []
    for k in ("version", "locktime", "segwit"):
        if before[k] != after[k]:
            out.append(k)
    if len(before["ins"]) != len(after["ins"]) or len(before["outs"]) != len(after["outs"]):
        out.append("number of inputs/outputs")
    else:
        for j, (a, b) in enumerate(zip(before["ins"], after["ins"])):
            for k in ("prev_tx", "prev_index", "script_sig", "sequence", "witness", "value", "spk"):
                if a[k] != b[k]:
                    out.append(f"in{j}.{k}" + (f" {len(a[k])}->{len(b[k])} items" if k == "witness" else ""))
        for j, (a, b) in enumerate(zip(before["outs"], after["outs"])):
            if a != b:
                out.append(f"out{j}")
    if not out and ser0 != ser1:
        out.append("serialisation")
    return ", ".join(out) if out else None


def mutation_diff(line):
    """direct predicate `nomutate` on a recorded case: rebuild the transaction, snapshot it, run verify_input,
    describe it again -> None (unchanged) | what changed"""
    t = line.split(" ")
    tx = T.p_tx(T.Toks(t, 2))
    before, ser0 = tx_desc(tx), tx_bytes(tx)
    run_impl(tx, int(t[1]))
    return desc_diff(before, tx_desc(tx), ser0, tx_bytes(tx))


# --------------------------------------------------------------------------------- authorisation predicate
def p2pkh_code(h):
    return b"\x76\xa9\x14" + h + b"\x88\xac"


def sig_hash_types(sp, els):
    """hash types of the elements that look like signatures of the spend's kind"""
    hts = set()
    for e in els:
        if sp["shape"] == "p2tr":
            if len(e) == 64:
                hts.add(0)
            elif len(e) == 65:
                hts.add(e[-1])
        elif len(e) >= 9 and e[0] == 0x30:
            hts.add(e[-1])
    return sorted(hts)


def spec_requests(sp, desc, idx, hts):
    """drv_c05 specification requests for the digest that a signature with hash type `ht` has to sign for THIS
    input of THIS transaction: ht -> request line (script code / amount / annex / leaf from the spent output's
    commitment data and the current witness, never from the library's Tx.sig_hash)"""
    stx = T.stx_tokens(desc)
    inp = desc["ins"][idx]
    shape = sp["shape"]
    out = {}
    for ht in hts:
        if shape == "p2pkh":
            out[ht] = f"spec_legacy {stx} {idx} {xb(p2pkh_code(sp['h160']))} {ht}"
        elif shape == "p2sh_ms":
            out[ht] = f"spec_legacy {stx} {idx} {xb(sp['redeem_raw'])} {ht}"
        elif shape in ("p2wpkh", "p2sh_p2wpkh"):
            out[ht] = f"spec_bip143 {stx} {idx} {xb(p2pkh_code(sp['h160']))} {inp['value']} {ht}"
        elif shape in ("p2wsh_ms", "p2sh_p2wsh_ms"):
            out[ht] = f"spec_bip143 {stx} {idx} {xb(sp['wscript_raw'])} {inp['value']} {ht}"
        else:
            w = inp["witness"]
            annex = w[-1] if len(w) >= 2 and w[-1][:1] == b"\x50" else None
            rest = w[:-1] if annex is not None else w
            a = "-" if annex is None else xb(annex)
            if len(rest) >= 2 and len(rest[-1]) >= 1:
                ext = f"L {rest[-1][0] & 0xFE} {xb(rest[-2])}"
            else:
                ext = "-"
            out[ht] = f"spec_bip341 {stx} {T.spent_tokens(desc)} {idx} {ht} {a} {ext}"
    return out


def _valid_ecdsa(pk_raw, sig_raw, z):
    """sig_raw = DER || hash_type, z = the specification's digest (int) for that hash type"""
    from buidl.ecc import S256Point, Signature
    if z is None or len(sig_raw) < 9 or len(pk_raw) not in (33, 65):
        return False
    try:
        pt = _S["vcache"].setdefault(("P", pk_raw), S256Point.parse(pk_raw))
        sig = Signature.parse(sig_raw[:-1])
    except Exception:
        return False
    # the range rule of the specification, independently of S256Point.verify (the oracle must not move with it)
    n_ = 0xFFFFFFFFFFFFFFFFFFFFFFFFFFFFFFFEBAAEDCE6AF48A03BBFD25E8CD0364141
    if not (1 <= sig.r < n_ and 1 <= sig.s < n_):
        return False
    k = ("e", (pk_raw, z, sig_raw[:-1]))
    if k not in _S["vcache"]:
        _S["vcache"][k] = pt.verify(z, sig)
        _S["real_verifies"] = _S.get("real_verifies", 0) + 1
    return bool(_S["vcache"][k])


def _valid_schnorr(xonly, sig_raw, zmap):
    from buidl.ecc import S256Point, SchnorrSignature
    if len(sig_raw) == 64:
        ht, body = 0, sig_raw
    elif len(sig_raw) == 65:
        ht, body = sig_raw[-1], sig_raw[:-1]
    else:
        return False
    msg = zmap.get(ht)
    if msg is None:
        return False
    try:
        pt = _S["vcache"].setdefault(("X", xonly), S256Point.parse_xonly(xonly))
        sig = SchnorrSignature.parse(body)
    except Exception:
        return False
    k = ("s", (xonly, msg, body))
    if k not in _S["vcache"]:
        _S["vcache"][k] = pt.verify_schnorr(msg, sig)
        _S["real_verifies"] = _S.get("real_verifies", 0) + 1
    return bool(_S["vcache"][k])


def elements_of(desc, idx):
    inp = desc["ins"][idx]
    els = [c for c in inp["script_sig"]["cmds"] if isinstance(c, bytes)] + list(inp["witness"])
    seen, out = set(), []
    for e in els:
        if e not in seen:
            seen.add(e)
            out.append(e)
    return out


def parse_spec_answer(shape, ans):
    if ans == REJECT:
        return None
    return unx(ans) if shape == "p2tr" else int(ans)


def authorised(sp, desc, idx, zmap):
    """the property's authorisation predicate for the spent output described by `sp` (commitment data only) on the
    transaction `desc`; zmap: hash type -> specification digest (None: the specification defines none)"""
    from buidl.helper import hash160
    shape = sp["shape"]
    els = elements_of(desc, idx)

    def ecdsa_ok(p, s_):
        return len(s_) >= 9 and _valid_ecdsa(p, s_, zmap.get(s_[-1]))

    if shape in ("p2pkh", "p2wpkh", "p2sh_p2wpkh"):
        h = sp["h160"]
        for p_ in els:
            if len(p_) in (33, 65) and hash160(p_) == h:
                for s_ in els:
                    if ecdsa_ok(p_, s_):
                        return True
        return False
    if shape in ("p2sh_ms", "p2wsh_ms", "p2sh_p2wsh_ms"):
        # keys for which a verification against the specification's digest is already known to succeed first; the
        # remaining (key, signature) pairs are verified for real only while fewer than m keys are satisfied
        def known_true(k):
            return any(len(s_) >= 9 and _S["vcache"].get(("e", (k, zmap.get(s_[-1]), s_[:-1]))) for s_ in els)
        done = [k for k in sp["pubkeys"] if known_true(k)]
        n_ok = len(done)
        for k in sp["pubkeys"]:
            if n_ok >= sp["m"]:
                break
            if k not in done and any(ecdsa_ok(k, s_) for s_ in els):
                n_ok += 1
        return n_ok >= sp["m"]
    if shape == "p2tr":
        wit = list(desc["ins"][idx]["witness"])
        if len(wit) >= 2 and wit[-1][:1] == b"\x50":
            wit = wit[:-1]
        if len(wit) == 1:
            return _valid_schnorr(sp["outkey"], wit[0], zmap)
        if len(wit) >= 2:
            opening = sp["openings"].get((wit[-2], wit[-1]))
            if opening is None:
                return False
            n_ok = sum(1 for k in opening["keys"] if any(_valid_schnorr(k, s_, zmap) for s_ in wit[:-2]))
            return n_ok >= opening["k"]
        return False
    raise MachineryError("unknown shape " + shape)


# --------------------------------------------------------------------------------- spend construction
SHAPES = ["p2pkh", "p2sh_ms", "p2wpkh", "p2sh_p2wpkh", "p2wsh_ms", "p2sh_p2wsh_ms", "p2tr_key", "p2tr_script"]


# (inputs, outputs, index of the input under test): more inputs than outputs with the spend at every index
LAYOUTS = [(1, 1, 0), (2, 1, 1), (2, 1, 0), (3, 1, 2), (3, 2, 2), (3, 1, 1), (2, 2, 1), (3, 3, 0), (1, 2, 0), (2, 0, 1),
           (3, 2, 0), (1, 3, 0)]
ECDSA_HTS = [None, None, 1, 2, 3, 0x81, 0x82, 0x83]     # None: the library's own helpers (SIGHASH_ALL)
TAPROOT_HTS = [0, 0, 1, 2, 3, 0x81, 0x82, 0x83]


def build_spend(rng, shape, layout=None, ht=None):
    """-> (sp, tx, idx); the spent output's commitment data is in sp, the tx is signed by the library:
    through sign_* / get_sig_* (SIGHASH_ALL / the taproot hash type) or, for the other ECDSA hash types, with
    PrivateKey.sign on Tx.sig_hash_legacy / sig_hash_bip143(hash_type=…)"""
    from buidl.tx import Tx, TxIn, TxOut
    from buidl.script import (P2PKHScriptPubKey, P2WPKHScriptPubKey, RedeemScript, WitnessScript, P2TRScriptPubKey)
    from buidl.helper import hash160
    from buidl.taproot import MultiSigTapScript, P2PKTapScript, TapBranch
    from buidl.witness import Witness
    ks = keys()
    if layout is None:
        n_in, n_out = rng.randrange(1, 4), rng.randrange(1, 4)
        idx = rng.randrange(n_in)
    else:
        n_in, n_out, idx = layout
    if ht is not None and shape.startswith("p2tr") and (ht & 3) == 3 and idx >= n_out:
        ht = 0x81 if ht & 0x80 else 1          # BIP341: SIGHASH_SINGLE without a matching output is invalid
    if ht is not None and (ht & 3) == 3 and idx >= n_out and shape in ("p2wpkh", "p2sh_p2wpkh", "p2wsh_ms", "p2sh_p2wsh_ms"):
        pass                                    # BIP143 defines it (hashOutputs = 0)
    tx_ins = []
    for i in range(n_in):
        ti = TxIn(hashlib.sha256(b"c06%d" % rng.getrandbits(32)).digest(), rng.randrange(0, 4),
                  sequence=rng.choice([0xFFFFFFFF, 0xFFFFFFFE, 0xFFFFFFFD, 5]))
        ti._value = rng.randrange(50000, 10 ** 8)
        ti._script_pubkey = P2WPKHScriptPubKey(hashlib.sha256(b"o%d" % i).digest()[:20])
        tx_ins.append(ti)
    tx_outs = [TxOut(rng.randrange(1000, 40000), P2PKHScriptPubKey(hashlib.sha256(b"out%d" % j).digest()[:20]))
               for j in range(n_out)]
    tx = Tx(rng.choice([1, 2]), tx_ins, tx_outs, rng.choice([0, 0, 500000, 1600000000]), network="mainnet", segwit=True)
    ti = tx_ins[idx]
    key = rng.choice(ks)
    sp = {"shape": shape, "ht": ht, "layout": (n_in, n_out, idx)}

    def esig(k, kind, rs=None, ws=None, i=idx):
        """an ECDSA signature by k for input i: the library helper, or PrivateKey.sign over the library's digest
        for the requested hash type"""
        if ht is None:
            if kind == "legacy":
                return tx.get_sig_legacy(i, k, redeem_script=rs)
            return tx.get_sig_segwit(i, k, redeem_script=rs, witness_script=ws)
        if kind == "legacy":
            z = tx.sig_hash_legacy(i, rs, hash_type=ht)
        else:
            z = tx.sig_hash_bip143(i, redeem_script=rs, witness_script=ws, hash_type=ht)
        return k.sign(z).der() + bytes([ht])

    if shape == "p2pkh":
        compressed = rng.random() < 0.8
        key.compressed = compressed
        sec = key.point.sec(compressed=compressed)
        sp.update(h160=hash160(sec))
        ti._script_pubkey = P2PKHScriptPubKey(sp["h160"])
        twin = [j for j in range(n_in) if j != idx]
        if twin and rng.random() < 0.5:
            # a second input spending an output with the SAME Script object, signed as well
            j = rng.choice(twin)
            tx_ins[j]._script_pubkey = ti._script_pubkey
            tx_ins[j].finalize_p2pkh(esig(key, "legacy", i=j), sec)
            sp["twin"] = j
        if ht is None:
            ok = tx.sign_p2pkh(idx, key)
        else:
            ti.finalize_p2pkh(esig(key, "legacy"), sec)
            ok = tx.verify_input(idx)
        key.compressed = True
    elif shape == "p2wpkh":
        sp.update(h160=hash160(key.point.sec()))
        ti._script_pubkey = P2WPKHScriptPubKey(sp["h160"])
        twin = [j for j in range(n_in) if j != idx]
        if twin and rng.random() < 0.5:
            j = rng.choice(twin)
            tx_ins[j]._script_pubkey = ti._script_pubkey
            tx_ins[j].finalize_p2wpkh(esig(key, "segwit", i=j), key.point.sec())
            sp["twin"] = j
        if ht is None:
            ok = tx.sign_p2wpkh(idx, key)
        else:
            ti.finalize_p2wpkh(esig(key, "segwit"), key.point.sec())
            ok = tx.verify_input(idx)
    elif shape == "p2sh_p2wpkh":
        rs = key.point.p2sh_p2wpkh_redeem_script()
        sp.update(h160=hash160(key.point.sec()), redeem=rs, shape="p2sh_p2wpkh")
        ti._script_pubkey = rs.script_pubkey()
        if ht is None:
            ok = tx.sign_p2sh_p2wpkh(idx, key)
        else:
            ti.script_sig = type(ti.script_sig)([rs.raw_serialize()])
            ti.finalize_p2wpkh(esig(key, "segwit", rs=rs), key.point.sec(), rs)
            ok = tx.verify_input(idx)
    elif shape in ("p2sh_ms", "p2wsh_ms", "p2sh_p2wsh_ms"):
        n = rng.randrange(1, 6)
        m = rng.randrange(1, n + 1)
        sub = rng.sample(ks, n)
        pubs = [k.point.sec() for k in sub]
        cmds = [0x50 + m] + pubs + [0x50 + n, 0xAE]
        raw = T.raw_script(T.d_script(cmds))
        signers = sorted(rng.sample(range(n), m))
        sp.update(m=m, pubkeys=pubs)
        if shape == "p2sh_ms":
            rs = RedeemScript(cmds)
            sp.update(redeem=rs, redeem_raw=raw)
            ti._script_pubkey = rs.script_pubkey()
            ti.script_sig = type(ti.script_sig)([0, rs.raw_serialize()])
            sigs = [esig(sub[j], "legacy", rs=rs) for j in signers]
            ti.finalize_p2sh_multisig(sigs, rs)
        elif shape == "p2wsh_ms":
            ws = WitnessScript(cmds)
            sp.update(wscript=ws, wscript_raw=raw)
            ti._script_pubkey = ws.script_pubkey()
            ti.witness = Witness([b"", ws.raw_serialize()])
            sigs = [esig(sub[j], "segwit", ws=ws) for j in signers]
            ti.finalize_p2wsh_multisig(sigs, ws)
        else:
            ws = WitnessScript(cmds)
            rs = ws.script_pubkey().redeem_script()
            sp.update(wscript=ws, redeem=rs, wscript_raw=raw)
            ti._script_pubkey = rs.script_pubkey()
            ti.script_sig = type(ti.script_sig)([rs.raw_serialize()])
            ti.witness = Witness([b"", ws.raw_serialize()])
            sigs = [esig(sub[j], "segwit", rs=rs, ws=ws) for j in signers]
            ti.finalize_p2sh_p2wsh_multisig(sigs, ws)
        sp["signers"] = [pubs[j] for j in signers]
        ok = tx.verify_input(idx)
    else:
        # taproot: internal key + optional tree of MultiSigTapScript / P2PKTapScript leaves
        tht = 0 if ht is None else ht
        internal = key.point
        n_leaves = rng.choice([0, 1, 2, 3]) if shape == "p2tr_key" else rng.choice([1, 2, 3, 4])
        leaves, leafinfo = [], []
        for li_ in range(n_leaves):
            if rng.random() < 0.7 or (li_ == 0 and (n_in, n_out, idx) == (1, 1, 0)):
                n = rng.randrange(1, 6)
                if li_ == 0 and (n_in, n_out, idx) == (1, 1, 0):
                    n = 2                      # a leaf small enough for the library's own finalize_p2tr_multisig
                k = rng.randrange(1, n + 1)
                sub = rng.sample(ks, n)
                ts = MultiSigTapScript([s.point for s in sub], k)
                info = {"keys": [c for c in ts.commands if isinstance(c, bytes) and len(c) == 32], "k": k, "privs": sub,
                        "script": ts}
            else:
                s = rng.choice(ks)
                ts = P2PKTapScript(s.point)
                info = {"keys": [s.point.xonly()], "k": 1, "privs": [s], "script": ts}
            leaves.append(ts.tap_leaf())
            leafinfo.append(info)
        tree = TapBranch.combine(leaves) if leaves else None
        merkle_root = tree.hash() if tree else b""
        outpt = internal.tweaked_key(merkle_root)
        openings = {}
        for lf, info in zip(leaves, leafinfo):
            cb = tree.control_block(internal, lf)
            openings[(T.raw_script(T.d_script(info["script"].commands)), cb.serialize())] = \
                {"keys": info["keys"], "k": info["k"]}
        sp.update(shape="p2tr", outkey=outpt.xonly(), openings=openings)
        ti._script_pubkey = P2TRScriptPubKey(outpt)
        if shape == "p2tr_key":
            tweaked = key.tweaked_key(merkle_root)
            ok = tx.sign_p2tr_keypath(idx, tweaked, hash_type=tht)

            def resign(t, annex):
                """sign input idx of t over `annex` (key path) through the library: witness [sig, annex]"""
                t.tx_ins[idx].witness = Witness([b"", annex])
                sig = t.get_sig_taproot(idx, tweaked, ext_flag=0, hash_type=tht)
                t.tx_ins[idx].witness = Witness([sig, annex])
            sp["_resign"] = resign
        else:
            li = 0 if (n_in, n_out, idx) == (1, 1, 0) else rng.randrange(len(leaves))
            lf, info = leaves[li], leafinfo[li]
            cb = tree.control_block(internal, lf)
            ti.witness = Witness([info["script"].raw_serialize(), cb.serialize()])
            ti.tap_script = info["script"]
            by_x = {p.point.xonly(): p for p in info["privs"]}
            chosen = set(rng.sample(info["keys"], info["k"]))
            sp["leaf"] = (info["script"].raw_serialize(), cb.serialize())
            if len(info["keys"]) == 1:
                sig = tx.get_sig_taproot(idx, by_x[info["keys"][0]], ext_flag=1, hash_type=tht)
                ti.witness.items.insert(0, sig)
            elif len(info["keys"]) <= 2:
                # the library's own finalizer (it verifies every signature against every key: small leaves only)
                ti.witness = Witness([])
                tx.initialize_p2tr_multisig(idx, cb, info["script"])
                sigs = [tx.get_sig_taproot(idx, by_x[x], ext_flag=1, hash_type=tht) if x in chosen else b""
                        for x in info["keys"]]
                tx.finalize_p2tr_multisig(idx, sigs)
            else:
                # witness order: the signature for the LAST key is at the bottom ... first key on top
                for x in info["keys"]:
                    sig = tx.get_sig_taproot(idx, by_x[x], ext_flag=1, hash_type=tht) if x in chosen else b""
                    ti.witness.items.insert(0, sig)
            ok = tx.verify_input(idx)

            def resign(t, annex, info=info, cb=cb, by_x=by_x, chosen=chosen):
                """sign input idx of t over `annex` (script path): witness [sigs..., script, control block, annex]"""
                tail = [info["script"].raw_serialize(), cb.serialize(), annex]
                t.tx_ins[idx].witness = Witness(list(tail))
                t.tx_ins[idx].tap_script = info["script"]
                sigs = [t.get_sig_taproot(idx, by_x[x], ext_flag=1, hash_type=tht) if x in chosen else b""
                        for x in info["keys"]]
                t.tx_ins[idx].witness = Witness(sigs[::-1] + tail)
            sp["_resign"] = resign
    sp["built_ok"] = bool(ok is True)
    return sp, tx, idx


# --------------------------------------------------------------------------------- mutation catalogue
def clone_tx(tx):
    from buidl.tx import Tx, TxIn, TxOut
    from buidl.script import Script
    from buidl.witness import Witness
    ins = []
    for ti in tx.tx_ins:
        c = TxIn(ti.prev_tx, ti.prev_index, Script(list(ti.script_sig.commands)), int(ti.sequence))
        c._value, c._script_pubkey = ti._value, ti._script_pubkey
        c.witness = Witness(list(ti.witness.items))
        c.tap_script = ti.tap_script
        ins.append(c)
    outs = [TxOut(o.amount, o.script_pubkey) for o in tx.tx_outs]
    return Tx(tx.version, ins, outs, int(tx.locktime), network=tx.network, segwit=tx.segwit)


def field_edits(tx):
    """(name, apply(t), revert(t)) for every committed field: version, locktime, each input's outpoint hash /
    index / sequence / spent amount / spent script, each output's amount / script"""
    from buidl.script import P2PKHScriptPubKey
    out = []

    def attr(obj_of, field, new_of, name):
        def ap(t):
            o = obj_of(t)
            setattr(o, "_old_" + field, getattr(o, field))
            setattr(o, field, new_of(getattr(o, field)))

        def rv(t):
            o = obj_of(t)
            setattr(o, field, getattr(o, "_old_" + field))
        out.append((name, ap, rv))
    attr(lambda t: t, "version", lambda v: v + 1, "version")
    attr(lambda t: t, "locktime", lambda v: type(v)((int(v) + 1) % 2 ** 32), "locktime")
    for j in range(len(tx.tx_ins)):
        attr(lambda t, j=j: t.tx_ins[j], "prev_tx", lambda v: v[:-1] + bytes([v[-1] ^ 1]), f"in{j}.prev_tx")
        attr(lambda t, j=j: t.tx_ins[j], "prev_index", lambda v: v + 1, f"in{j}.prev_index")
        attr(lambda t, j=j: t.tx_ins[j], "sequence", lambda v: type(v)((int(v) + 1) % 2 ** 32), f"in{j}.sequence")
        attr(lambda t, j=j: t.tx_ins[j], "_value", lambda v: v + 1, f"in{j}.amount")
        attr(lambda t, j=j: t.tx_ins[j], "_script_pubkey",
             lambda v: P2PKHScriptPubKey(hashlib.sha256(v.raw_serialize()).digest()[:20]), f"in{j}.spk")
    for j in range(len(tx.tx_outs)):
        attr(lambda t, j=j: t.tx_outs[j], "amount", lambda v: v + 1, f"out{j}.amount")
        attr(lambda t, j=j: t.tx_outs[j], "script_pubkey",
             lambda v: P2PKHScriptPubKey(hashlib.sha256(v.raw_serialize()).digest()[:20]), f"out{j}.script")
    return out


def mutations(rng, sp, tx, idx, foreign):
    """yield (name, mutated tx); `foreign(tx)` -> a signature of the right format by a key outside the script"""
    from buidl.script import Script
    from buidl.witness import Witness
    shape = sp["shape"]
    ss = list(tx.tx_ins[idx].script_sig.commands)
    wit = list(tx.tx_ins[idx].witness.items)

    def mk(name, ss2=None, wit2=None, edit=None):
        t = clone_tx(tx)
        if ss2 is not None:
            t.tx_ins[idx].script_sig = Script(ss2)
        if wit2 is not None:
            t.tx_ins[idx].witness = Witness(wit2)
        if edit is not None:
            edit(t)
        return name, t

    # --- committed fields changed after signing: EVERY field of the transaction and of the spent outputs
    for name, ap, _ in field_edits(tx):
        if name != f"in{idx}.spk":          # the spent output of the input under test defines the spend itself
            yield mk("field:" + name, edit=ap)

    # --- signatures: where they live
    in_wit = shape in ("p2wpkh", "p2sh_p2wpkh", "p2wsh_ms", "p2sh_p2wsh_ms", "p2tr")
    items = wit if in_wit else ss
    def is_sig(e):
        if not isinstance(e, bytes):
            return False
        if shape == "p2tr":
            return len(e) in (64, 65) and e not in [k for k in sp.get("leaf", ())]
        return len(e) > 60 and e[0] == 0x30
    sig_pos = [i for i, e in enumerate(items) if is_sig(e)]

    def with_items(name, new):
        return mk(name, wit2=new) if in_wit else mk(name, ss2=new)

    for i in sig_pos[:3]:
        e = items[i]
        yield with_items(f"drop_sig{i}", items[:i] + items[i + 1:])
        yield with_items(f"empty_sig{i}", items[:i] + [b""] + items[i + 1:])
        flipped = e[:-1] + bytes([e[-1] ^ rng.choice([0x01, 0x02, 0x80, 0x03])]) if (shape != "p2tr" or len(e) == 65) \
            else e + b"\x01"
        yield with_items(f"sighash_byte{i}", items[:i] + [flipped] + items[i + 1:])
        pos = rng.randrange(4, len(e) - 1)
        corrupt = e[:pos] + bytes([e[pos] ^ (1 << rng.randrange(8))]) + e[pos + 1:]
        yield with_items(f"corrupt_sig{i}", items[:i] + [corrupt] + items[i + 1:])
        yield with_items(f"foreign_sig{i}", items[:i] + [foreign(tx)] + items[i + 1:])
    if len(sig_pos) >= 2:
        a, b = sig_pos[0], sig_pos[1]
        sw = list(items)
        sw[a], sw[b] = sw[b], sw[a]
        yield with_items("reorder_sigs", sw)
        du = list(items)
        du[b] = du[a]
        yield with_items("duplicate_sig", du)
    if sig_pos and shape != "p2tr":
        # degenerate ECDSA signatures nobody needs a key for: r = s = 0 (u*G + v*P is then the point at infinity),
        # r = s = n, in every signature slot, with the original hash-type byte
        for nm, rs in (("zero", b"\x02\x01\x00\x02\x01\x00"),
                       ("n", b"\x02\x21\x00" + (0xFFFFFFFFFFFFFFFFFFFFFFFFFFFFFFFEBAAEDCE6AF48A03BBFD25E8CD0364141).to_bytes(32, "big") * 1
                        + b"\x02\x21\x00" + (0xFFFFFFFFFFFFFFFFFFFFFFFFFFFFFFFEBAAEDCE6AF48A03BBFD25E8CD0364141).to_bytes(32, "big"))):
            dz = list(items)
            for i in sig_pos:
                dz[i] = bytes([0x30, len(rs)]) + rs + items[i][-1:]
            yield with_items(f"all_{nm}_sigs", dz)
    if sig_pos:
        # all signatures replaced by foreign ones (m-of-n with no valid signature at all)
        al = list(items)
        for i in sig_pos:
            al[i] = foreign(tx)
        yield with_items("all_foreign", al)

    # --- keys and scripts
    ks = keys()
    other = ks[-1]
    if shape in ("p2pkh", "p2wpkh", "p2sh_p2wpkh"):
        pk_i = [i for i, e in enumerate(items) if isinstance(e, bytes) and len(e) in (33, 65)]
        for i in pk_i[:1]:
            yield with_items("wrong_pubkey", items[:i] + [other.point.sec()] + items[i + 1:])
            yield with_items("foreign_pair", items[:i - 1] + [foreign(tx), other.point.sec()] + items[i + 1:])
    if shape in ("p2sh_ms", "p2sh_p2wpkh", "p2sh_p2wsh_ms"):
        redeem = ss[-1]
        yield mk("redeem_bitflip", ss2=ss[:-1] + [redeem[:-1] + bytes([redeem[-1] ^ 1])])
        yield mk("redeem_then_nop", ss2=ss + [0x61])                      # F06d
        yield mk("redeem_then_1", ss2=ss + [0x51])
        yield mk("redeem_only_no_sigs", ss2=[redeem], wit2=[] if shape != "p2sh_ms" else None)
        yield mk("junk_then_redeem", ss2=[b"\x01", redeem], wit2=[] if shape != "p2sh_ms" else None)   # F06e
        yield mk("true_then_redeem_nop", ss2=[0x51, redeem, 0x61])
        yield mk("redeem_twice", ss2=ss + [redeem])
        # small-integer opcodes (OP_0, OP_1NEGATE, OP_1, OP_16: ints, not data pushes) around the public redeem
        # script, without witness and with the attacker's own witness
        nested = shape in ("p2sh_p2wpkh", "p2sh_p2wsh_ms")
        no_wit = [] if nested else None
        for op in (0x00, 0x4F, 0x51, 0x60):
            yield mk(f"smallint_{op:02x}_then_redeem", ss2=[op, redeem], wit2=no_wit)
            yield mk(f"redeem_then_smallint_{op:02x}", ss2=[redeem, op], wit2=no_wit)
        yield mk("smallints_two_then_redeem", ss2=[0x51, 0x51, redeem], wit2=no_wit)
        yield mk("smallints_mixed_then_redeem", ss2=[0x00, 0x4F, 0x60, 0x52, redeem], wit2=no_wit)
        yield mk("smallint_and_junk_then_redeem", ss2=[0x51, b"\x01", redeem], wit2=no_wit)
        yield mk("smallint_around_redeem", ss2=[0x51, redeem, 0x51], wit2=no_wit)
        if nested:
            yield mk("smallint_then_redeem_keep_witness", ss2=[0x51, redeem])
            if shape == "p2sh_p2wpkh":
                try:      # the attacker's own key and signature in the witness
                    att_w = [tx.get_sig_segwit(idx, other, redeem_script=other.point.p2sh_p2wpkh_redeem_script()),
                             other.point.sec()]
                except Exception:
                    att_w = [foreign(tx), other.point.sec()]
            else:
                from buidl.script import WitnessScript as _WS
                a_ws = _WS([0x51, other.point.sec(), 0x51, 0xAE])
                try:
                    att_w = [b"", tx.get_sig_segwit(idx, other, redeem_script=sp.get("redeem"), witness_script=a_ws),
                             a_ws.raw_serialize()]
                except Exception:
                    att_w = [b"", foreign(tx), a_ws.raw_serialize()]
            for op in (0x00, 0x4F, 0x51, 0x60):
                yield mk(f"smallint_{op:02x}_then_redeem_attacker_witness", ss2=[op, redeem], wit2=att_w)
            yield mk("smallints_two_then_redeem_attacker_witness", ss2=[0x51, 0x60, redeem], wit2=att_w)
        att = [0x51, other.point.sec(), 0x51, 0xAE]
        from buidl.script import RedeemScript
        att_rs = RedeemScript(att)
        try:      # a signature that is valid for the ATTACKER's redeem script
            att_sig = tx.get_sig_legacy(idx, other, redeem_script=att_rs)
        except Exception:
            att_sig = foreign(tx)
        yield mk("attacker_redeem", ss2=[0, att_sig, att_rs.raw_serialize()])
    if shape in ("p2wsh_ms", "p2sh_p2wsh_ms"):
        w = wit[-1]
        yield mk("wscript_bitflip", wit2=wit[:-1] + [w[:-1] + bytes([w[-1] ^ 1])])
        yield mk("wscript_missing", wit2=wit[:-1])
        from buidl.script import WitnessScript
        att_ws = WitnessScript([0x51, other.point.sec(), 0x51, 0xAE])
        try:      # a signature that is valid for the ATTACKER's witness script
            att_sig = tx.get_sig_segwit(idx, other, redeem_script=sp.get("redeem"), witness_script=att_ws)
        except Exception:
            att_sig = foreign(tx)
        yield mk("attacker_wscript", wit2=[b"", att_sig, att_ws.raw_serialize()])
    if shape in ("p2wpkh", "p2wsh_ms", "p2tr"):
        yield mk("scriptsig_01", ss2=[b"\x01"], wit2=[])                   # F06c
        yield mk("scriptsig_op1", ss2=[0x51], wit2=[])
        yield mk("scriptsig_01_keep_witness", ss2=[b"\x01"])
        yield mk("no_witness", wit2=[])
    if shape == "p2pkh":
        from buidl.helper import hash160
        hatt = hash160(other.point.sec())
        bad = ss[0][:10] + bytes([ss[0][10] ^ 4]) + ss[0][11:]
        t = clone_tx(tx)
        t.tx_ins[idx].script_sig = Script([0, hatt, bad, ss[1]])
        z = t.sig_hash_legacy(idx)
        t.tx_ins[idx].witness = Witness([other.sign(z).der() + b"\x01", other.point.sec()])
        yield "f06f_attacker_witness", t                                    # F06f
        yield mk("if_swallow", ss2=[0x51, 0x51, 0x63])
        yield mk("scriptsig_true_only", ss2=[0x51])
        yield mk("pk_only", ss2=[ss[1]])
        yield mk("unexpected_witness", wit2=[ss[0], ss[1]])
    if shape in ("p2wpkh", "p2wsh_ms"):
        from buidl.helper import hash160
        hatt = hash160(other.point.sec())
        t = clone_tx(tx)
        t.tx_ins[idx].witness = Witness([b"", hatt, b"\x30\x06\x02\x01\x01\x02\x01\x01\x01", other.point.sec()] + wit)
        yield "nested_program_in_witness", t
    if shape == "p2tr":
        yield mk("annex_only", wit2=[b"\x50"])                              # F06b
        yield mk("annex_only_2", wit2=[b"\x50\x01", b"\x50\x02"])
        yield mk("annex_appended", wit2=wit + [b"\x50\xaa"])
        yield mk("annex_appended_bare", wit2=wit + [b"\x50"])
        yield mk("empty_item", wit2=[b""])
        if len(wit) >= 2 and sp.get("leaf"):
            script, cb = wit[-2], wit[-1]
            yield mk("cb_bitflip", wit2=wit[:-1] + [cb[:-1] + bytes([cb[-1] ^ 1])])
            yield mk("cb_parity", wit2=wit[:-1] + [bytes([cb[0] ^ 1]) + cb[1:]])
            yield mk("cb_truncated", wit2=wit[:-1] + [cb[:-32]] if len(cb) > 33 else wit[:-1] + [cb[:-1]])
            yield mk("leaf_bitflip", wit2=wit[:-2] + [script[:-1] + bytes([script[-1] ^ 1]), cb])
            yield mk("leaf_nonminimal_push", wit2=wit[:-2] + [b"\x4c" + script, cb])            # F06g
            from buidl.taproot import P2PKTapScript
            att = P2PKTapScript(other.point).raw_serialize()
            t = clone_tx(tx)
            t.tx_ins[idx].witness = Witness([b"", att, cb])
            try:
                s = t.get_sig_taproot(idx, other, ext_flag=1)
            except Exception:
                s = b"\x01" * 64
            t.tx_ins[idx].witness = Witness([s, att, cb])
            yield "attacker_leaf", t
            yield mk("sigs_only_no_script", wit2=wit[:-2])
        else:
            yield mk("keypath_sig_twice", wit2=wit + wit)


def foreign_maker(sp, idx):
    other = keys()[-1]
    shape = sp["shape"]

    def f(tx):
        try:
            if shape == "p2pkh":
                return tx.get_sig_legacy(idx, other)
            if shape == "p2sh_ms":
                return tx.get_sig_legacy(idx, other, redeem_script=sp["redeem"])
            if shape in ("p2wpkh", "p2sh_p2wpkh"):
                return tx.get_sig_segwit(idx, other, redeem_script=sp.get("redeem"))
            if shape in ("p2wsh_ms", "p2sh_p2wsh_ms"):
                return tx.get_sig_segwit(idx, other, redeem_script=sp.get("redeem"), witness_script=sp["wscript"])
            return tx.get_sig_taproot(idx, other, ext_flag=1 if sp.get("leaf") else 0)
        except Exception:
            return b"\x30\x06\x02\x01\x01\x02\x01\x01\x01"
    return f


# --------------------------------------------------------------------------------- worker
def slim(sp):
    """the spent output's commitment data as plain values"""
    keep = ("shape", "h160", "redeem_raw", "wscript_raw", "pubkeys", "m", "outkey", "openings", "built_ok")
    return {k: sp[k] for k in keep if k in sp}


def _row(sp, shape, name, t, j, base=False):
    """snapshot the whole case as plain data, THEN run the implementation on input j of t (with recording); the
    request line, the model line and everything the oracle needs come from the snapshot; afterwards the objects are
    described again: `changed` says what verify_input modified (None: nothing)"""
    desc = tx_desc(t)
    line, mline, ser0 = request_line(desc, j), spend_line(t, j), tx_bytes(t)
    impl, tables = run_impl(t, j)
    r = {"name": name, "shape": shape, "idx": j, "line": line, "mline": mline,
         "impl": impl, "auth": None, "tables": tables, "base": base, "built_ok": sp["built_ok"],
         "changed": desc_diff(desc, tx_desc(t), ser0, tx_bytes(t))}
    if impl == "ACCEPT" or base:
        els = elements_of(desc, j)
        rec = _S["last_rec"]
        r["oracle"] = {"desc": desc, "spec": spec_requests(sp, desc, j, sig_hash_types(sp, els)),
                       "ecz": list(rec.ecz.items()), "scz": list(rec.scz.items())}
    return r


def oracle_all(rows, sps, drv5, workers):
    """authorisation of the rows that need it (accepted ones and library-built ones): ONE drv_c05 batch with the
    specification's digests for all of them; signatures are verified against those digests — looked up among the
    verifications the implementation performed when the digest is the same, computed for real otherwise"""
    need = [r for r in rows if "oracle" in r]
    reqs = list(dict.fromkeys(q for r in need for q in r["oracle"]["spec"].values()))
    ans = dict(zip(reqs, batch_parallel(drv5, reqs, workers=workers))) if reqs else {}
    for r in need:
        o = r.pop("oracle")
        sp = sps[r["sp"]]
        zmap = {ht: parse_spec_answer(sp["shape"], ans[q]) for ht, q in o["spec"].items()}
        for (k, z, sg), v in o["ecz"]:
            _S["vcache"].setdefault(("e", (k, z, sg)), v)
        for (k, m_, sg), v in o["scz"]:
            _S["vcache"].setdefault(("s", (k, m_, sg)), v)
        try:
            r["auth"] = bool(authorised(sp, o["desc"], r["idx"], zmap))
        except MachineryError:
            raise
        except Exception:
            r["auth"] = False


def _work(job):
    """one spend, its whole mutation catalogue and the object-reuse sequence -> list of result rows"""
    seed, i, shape, layout, ht = job
    _patch()
    rng = random.Random(f"C06:{seed}:{i}:{shape}")
    try:
        sp, tx, idx = build_spend(rng, shape, layout, ht)
    except MachineryError:
        raise
    except Exception as e:   # the library could not build the spend: completeness failure
        return {"sp": {"shape": shape}, "rows": [
            {"name": "build", "shape": shape, "idx": 0, "line": f"build {shape} {i} {layout} {ht}", "mline": "",
             "impl": "raise " + type(e).__name__, "auth": True, "tables": "", "base": True, "built_ok": False}]}
    cases = list(mutations(rng, sp, tx, idx, foreign_maker(sp, idx)))     # clones, made before any in-place edit
    annexed = []
    if sp.get("_resign"):
        # annex variants in both directions (BIP341 commits to the annex): signed over an annex and kept (valid),
        # the annex removed / replaced / doubled after signing over it
        ann_a, ann_b = b"\x50" + bytes([rng.randrange(256)]) * rng.randrange(0, 4), b"\x50\xbb\x01"
        if ann_a == ann_b:
            ann_b = b"\x50\xbc"
        try:
            t_a = clone_tx(tx)
            sp["_resign"](t_a, ann_a)
            w_a = list(t_a.tx_ins[idx].witness.items)
            annexed.append(("annex_signed_kept", t_a, True))
            for nm, w2 in (("annex_removed_after_signing", w_a[:-1]), ("annex_replaced_after_signing", w_a[:-1] + [ann_b]),
                           ("annex_second_appended", w_a + [ann_b]), ("annex_same_twice", w_a + [ann_a])):
                t2 = clone_tx(t_a)
                t2.tx_ins[idx].witness = type(t_a.tx_ins[idx].witness)(w2)
                annexed.append((nm, t2, False))
            t_b = clone_tx(tx)
            sp["_resign"](t_b, ann_b)
            annexed.append(("annex_other_signed_kept", t_b, True))
        except MachineryError:
            raise
        except Exception as e:
            annexed.append(("annex_signing_raised_" + type(e).__name__, clone_tx(tx), True))
    rows = [_row(sp, shape, "unmutated", tx, idx, base=True)]
    for name, t in cases:
        rows.append(_row(sp, shape, name, t, idx))
    for name, t, valid in annexed:
        rows.append(_row(sp, shape, name, t, idx, base=valid))
        if valid:
            rows.append(_row(sp, shape, name + ":again", t, idx, base=True))    # the same objects once more
    # ---- object reuse: the SAME Tx / Script / Witness objects verified again and again
    rows.append(_row(sp, shape, "reuse:again", tx, idx, base=True))
    edits = [e for e in field_edits(tx) if e[0] != f"in{idx}.spk"]
    for name, ap, rv in rng.sample(edits, min(4, len(edits))):
        ap(tx)
        rows.append(_row(sp, shape, "inplace:" + name, tx, idx))
        rv(tx)
        rows.append(_row(sp, shape, "reverted:" + name, tx, idx, base=True))
    others = [j for j in range(len(tx.tx_ins)) if j != idx]
    for order in (others, others[::-1]):
        for j in order:
            try:
                tx.verify_input(j)
            except Exception:
                pass
        rows.append(_row(sp, shape, "reuse:after_other_inputs", tx, idx, base=True))
    if sp.get("twin") is not None:
        j = sp["twin"]
        rows.append(_row(sp, shape, "twin:shared_script_object", tx, j, base=True))
        rows.append(_row(sp, shape, "twin:first_again", tx, idx, base=True))
        rows.append(_row(sp, shape, "twin:second_again", tx, j, base=True))
    if others and sp["shape"] in ("p2wpkh", "p2wsh_ms", "p2tr"):
        # another input that spends the same Script object and carries the SAME Witness object: its signature is
        # over the other outpoint
        j = others[0]
        tx.tx_ins[j]._script_pubkey = tx.tx_ins[idx]._script_pubkey
        tx.tx_ins[j].script_sig = tx.tx_ins[idx].script_sig
        tx.tx_ins[j].witness = tx.tx_ins[idx].witness
        rows.append(_row(sp, shape, "shared_witness_object", tx, j))
        rows.append(_row(sp, shape, "shared_witness_object:original", tx, idx))
    return {"sp": slim(sp), "rows": rows}


# --------------------------------------------------------------------------------- fixed witnesses of the findings
def finding_cases():
    """(finding id, description, tx, idx, authorised?) — the concrete inputs of DESIGN section 8, F06a..F06g"""
    from buidl.tx import Tx, TxIn, TxOut
    from buidl.script import (Script, P2PKHScriptPubKey, P2WPKHScriptPubKey, P2WSHScriptPubKey, P2TRScriptPubKey,
                              RedeemScript)
    from buidl.witness import Witness
    from buidl.helper import hash160
    from buidl.taproot import TapLeaf, TapScript
    k1, k2, katt = keys()[0], keys()[1], keys()[-1]

    def mk(spk, script_sig=None, witness=None):
        ti = TxIn(b"\x11" * 32, 0, script_sig=script_sig)
        ti._script_pubkey, ti._value = spk, 100000
        if witness is not None:
            ti.witness = Witness(witness)
        return Tx(2, [ti], [TxOut(90000, P2PKHScriptPubKey(b"\x22" * 20))], 0, network="mainnet", segwit=True)
    out = []
    rs = RedeemScript([0x51, k1.point.sec(), k2.point.sec(), 0x52, 0xAE])
    tx = mk(rs.script_pubkey(), Script([0, rs.raw_serialize()]))
    tx.tx_ins[0].finalize_p2sh_multisig([tx.get_sig_legacy(0, katt, redeem_script=rs)], rs)
    out.append(("F06a", "1-of-2 p2sh multisig with a signature by a key outside the script", tx))
    out.append(("F06b", "p2tr, witness [50]", mk(P2TRScriptPubKey(k1.point.xonly()), witness=[b"\x50"])))
    out.append(("F06c", "p2wpkh output, scriptSig [01], no witness",
                mk(P2WPKHScriptPubKey(hash160(k1.point.sec())), Script([b"\x01"]))))
    out.append(("F06c", "p2wsh output, scriptSig [01], no witness", mk(P2WSHScriptPubKey(b"\x33" * 32), Script([b"\x01"]))))
    out.append(("F06c", "p2tr output, scriptSig [01], no witness", mk(P2TRScriptPubKey(k1.point.xonly()), Script([b"\x01"]))))
    rs1 = RedeemScript([k1.point.sec(), 0xAC])
    out.append(("F06d", "p2sh, scriptSig [redeem, OP_NOP]", mk(rs1.script_pubkey(), Script([rs1.raw_serialize(), 0x61]))))
    rs2 = k1.point.p2sh_p2wpkh_redeem_script()
    out.append(("F06e", "p2sh-p2wpkh, scriptSig [junk, redeem], no witness",
                mk(rs2.script_pubkey(), Script([b"\x01", rs2.raw_serialize()]))))
    tx = mk(P2PKHScriptPubKey(hash160(k1.point.sec())))
    tx.tx_ins[0].script_sig = Script([0, hash160(katt.point.sec()), b"\x30\x06\x02\x01\x01\x02\x01\x01\x01", k1.point.sec()])
    tx.tx_ins[0].witness = Witness([katt.sign(tx.sig_hash_legacy(0)).der() + b"\x01", katt.point.sec()])
    out.append(("F06f", "p2pkh, scriptSig [0, h_att, badsig, pk] + attacker witness", tx))
    leaf = TapLeaf(TapScript([b"\xaa", 0x75, 0x51]))
    cb = leaf.control_block(k1.point)
    out.append(("F06g", "script path, witness script 4c01aa7551 against a leaf committed as 01aa7551",
                mk(P2TRScriptPubKey(leaf.external_pubkey(k1.point)), witness=[b"\x4c\x01\xaa\x75\x51", cb.serialize()])))
    return out


# --------------------------------------------------------------------------------- run
CHEAP = {"scriptsig_", "scriptsig_op", "scriptsig__keep_witness", "no_witness", "annex_only", "annex_only_", "empty_item",
         "redeem_then_nop", "redeem_then_", "junk_then_redeem", "true_then_redeem_nop", "redeem_only_no_sigs",
         "if_swallow", "scriptsig_true_only", "pk_only", "wscript_missing", "sigs_only_no_script", "cb_truncated",
         "drop_sig", "empty_sig", "redeem_bitflip", "wscript_bitflip", "leaf_bitflip", "cb_bitflip",
         "leaf_nonminimal_push", "nested_program_in_witness"}


def jobs_for(seed, n):
    """shape x layout x hash type, enumerated so that every shape meets every layout (more inputs than outputs with
    the spend at every index included) and every hash type the library can sign with"""
    jobs = []
    for i in range(n):
        shape = SHAPES[i % len(SHAPES)]
        r = i // len(SHAPES)
        layout = LAYOUTS[r % len(LAYOUTS)]
        hts = TAPROOT_HTS if shape.startswith("p2tr") else ECDSA_HTS
        ht = hts[(r // 2 + i) % len(hts)] if r % 2 else hts[0]
        jobs.append((seed, i, shape, layout, ht))
    return jobs


def run(ctx):
    _patch()
    keys()
    rec = ctx.rec
    drv = ctx.driver("drv_c06")
    # findings: the fixed witnesses (none of them carries an authorising signature)
    rows = []
    for fid, what, tx in finding_cases():
        impl, tables = run_impl(tx, 0)
        line = request_line(tx_desc(tx), 0)
        rec.finding(fid, impl == "ACCEPT", {"line": line, "what": what})
        rows.append({"name": "finding_" + fid, "shape": "finding", "idx": 0, "line": line, "mline": spend_line(tx, 0),
                     "impl": impl, "auth": False, "tables": tables, "base": False, "built_ok": True})
    n = ctx.n(128, 1600)
    jobs = jobs_for(ctx.seed, n)
    import time
    t0 = time.time()
    sps = []
    for part in pmap(_work, jobs, workers=ctx.workers, chunksize=1):
        for r in part["rows"]:
            r["sp"] = len(sps)
        sps.append(part["sp"])
        rows += part["rows"]
    t1 = time.time()
    oracle_all(rows, sps, ctx.driver("drv_c05"), min(4, ctx.workers))
    t2 = time.time()
    rec.count("oracle:signature verifications not already performed by the implementation", _S.get("real_verifies", 0))
    lines = [f"verify r {r['mline']} {r['tables']}" for r in rows if r["tables"] != ""]
    answers = iter(batch_parallel(drv, lines, workers=min(4, ctx.workers)))
    rec.note(f"wall seconds: spends and implementation runs (parallel) {t1 - t0:.0f}, specification digests and "
             f"authorisation {t2 - t1:.0f}, model {time.time() - t2:.0f}")
    for j in jobs[:len(SHAPES)]:
        rec.cov_pred("build", {"job": list(j)})       # line-coverage sample of the signing / finalize_* helpers
    cov_seen = {}
    for r in rows:
        # line-coverage sample: accepted cases (their verifications are already known) and rejections that need no
        # elliptic-curve work, a few per shape and mutation
        if r["tables"] != "" and (r["impl"] == "ACCEPT" or r["name"].split(":")[0].rstrip("0123456789") in CHEAP):
            ck = (r["shape"], r["name"].split(":")[0].rstrip("0123456789"), r["impl"])
            if cov_seen.get(ck, 0) < 2:
                cov_seen[ck] = cov_seen.get(ck, 0) + 1
                rec.cov_pred(r["shape"], {"line": r["line"], "impl": r["impl"]})
                if r["impl"] != "ACCEPT" and len(rec.cov_preds.get("nomutate", [])) < 4:
                    rec.cov_pred("nomutate", {"pred": "nomutate", "line": r["line"]})     # cheap rejections only
        mut = r["name"].split(":")[0].rstrip("0123456789") if not r["name"].startswith("field:") else "field"
        case = {"line": r["line"], "mutation": r["name"], "shape": r["shape"], "idx": r["idx"]}
        ccase = {"request": r["line"], "mutation": r["name"], "shape": r["shape"], "idx": r["idx"]}   # not replayed by
        # the automatic coverage sample (every replay costs elliptic-curve verifications): see cov_pred above
        if r["tables"] == "":
            rec.violation("complete:" + r["shape"], case, r["impl"], "ACCEPT", note="the library could not build the spend")
            continue
        if r.get("changed"):
            rec.violation("nomutate:" + r["shape"], dict(case, pred="nomutate"), "modified: " + r["changed"], "unchanged",
                          note=f"verify_input modified the transaction it verifies ({r['name']}, outcome {r['impl']})")
        else:
            rec.ok("nomutate", None, nontrivial=False)
            rec.count(f"nomutate:{r['impl']}")
        model = next(answers)
        if model == "FUEL":
            raise MachineryError("model out of fuel: " + r["mline"][:200])
        key = hashlib.sha256((r["line"] + r["tables"]).encode()).hexdigest()
        impl = r["impl"]
        if r["base"] and (impl != "ACCEPT" or not r["built_ok"] or not r["auth"]):
            rec.violation("complete:" + r["shape"], case, impl, "ACCEPT",
                          note=f"library-built spend ({r['name']}): sign_* returned {r['built_ok']}, verify_input "
                               f"{impl}, signatures valid for the specification's digest: {r['auth']}")
            continue
        if impl == "ACCEPT" and not r["auth"]:
            rec.violation("sound:" + r["shape"], case, impl, REJECT,
                          note=f"accepted although no signature present verifies for the specification's digest of the "
                               f"current transaction ({r['name']})")
            continue
        if rec.compare(r["shape"], dict(ccase, mline=r["mline"], tables=r["tables"], impl=impl), impl, model,
                       determined=False, key=key, nontrivial=r["name"] != "unmutated"):
            rec.sample(f"{r['shape']}:{mut}:{impl}", {"mutation": r["name"], "spend": r["mline"][:300],
                                                      "authorised": r["auth"]}, limit=1)
        rec.count(f"{r['shape']}:{impl}")
        rec.count(f"mutation:{mut}:{impl}")
        if r["auth"] is not None:
            rec.count("authorised" if r["auth"] else "unauthorised")


def replay(ctx, v):
    """re-execute one recorded case exactly: the request line carries the whole transaction with its spent outputs.
    A soundness / completeness violation still violates when the implementation's answer is unchanged; a
    correspondence case when the model (run on the recorded oracle tables) still differs."""
    case = v["case"]
    line = case.get("line", case.get("request", ""))
    if not line.startswith("verify_tx "):
        return True
    if v["kind"].startswith("nomutate:"):
        return mutation_diff(line) is not None
    impl = impl_line(line)
    if v["kind"].startswith(("sound:", "complete:", "regression:")) or "tables" not in case:
        return impl == v["impl"] if v["kind"].startswith(("sound:", "complete:")) else impl == "ACCEPT"
    return ctx.driver("drv_c06").one(f"verify r {case['mline']} {case['tables']}") != impl
