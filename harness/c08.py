"""
C08 — BIP32 derivation: correspondence between the Lean model (lean/Buidl/Model/HD.lean, PyStr.lean;
driver drv_c08) and buidl/hd.py, blinding.py, helper.py (child_to_path, parse_binary_path), plus
  * the Lean transcription of the BIP32 text (lean/Buidl/Spec/BIP32.lean, ops `spec_*` of the driver) and the
    published BIP32 test vectors found in buidl/test/test_hd.py as independent oracles,
  * the property predicates evaluated directly on the implementation (public/private consistency,
    refusal of hardened public derivation, path composition, serialise/parse round trips for all 20
    version prefixes, blinding = key at the combined path).

Structure as harness/c19.py: impl_line / PREDICATES / run / replay.
"""
import ast
import os

from harness.common import REJECT, REPO, xb, xs, unx, uns, batch_parallel, pmap, MachineryError

PROPERTY = "C08"
DRIVERS = ["drv_c08"]
PROPS_MODULES = ["Buidl.Props.C08", "Buidl.Props.C08Compose"]
ANCHORS = [
    ("buidl/hd.py", "XPRV"), ("buidl/hd.py", "XPUB"),
    ("buidl/hd.py", "ALL_MAINNET_XPRVS"), ("buidl/hd.py", "ALL_MAINNET_XPUBS"),
    ("buidl/hd.py", "ALL_TESTNET_XPRVS"), ("buidl/hd.py", "ALL_TESTNET_XPUBS"),
    ("buidl/hd.py", "HDPrivateKey.__init__"), ("buidl/hd.py", "HDPrivateKey.from_seed"),
    ("buidl/hd.py", "HDPrivateKey.child"), ("buidl/hd.py", "HDPrivateKey.traverse"),
    ("buidl/hd.py", "HDPrivateKey.raw_serialize"), ("buidl/hd.py", "HDPrivateKey.xprv"),
    ("buidl/hd.py", "HDPrivateKey.xpub"), ("buidl/hd.py", "HDPrivateKey.fingerprint"),
    ("buidl/hd.py", "HDPrivateKey.parse"), ("buidl/hd.py", "HDPrivateKey.raw_parse"),
    ("buidl/hd.py", "HDPublicKey.__init__"), ("buidl/hd.py", "HDPublicKey.fingerprint"),
    ("buidl/hd.py", "HDPublicKey.child"), ("buidl/hd.py", "HDPublicKey.traverse"),
    ("buidl/hd.py", "HDPublicKey._serialize"), ("buidl/hd.py", "HDPublicKey.xpub"),
    ("buidl/hd.py", "HDPublicKey.parse"), ("buidl/hd.py", "HDPublicKey.raw_parse"),
    ("buidl/hd.py", "is_valid_bip32_path"),
    ("buidl/blinding.py", "secure_secret_path"), ("buidl/blinding.py", "blind_xpub"),
    ("buidl/blinding.py", "combine_bip32_paths"),
    ("buidl/helper.py", "child_to_path"), ("buidl/helper.py", "parse_binary_path"),
    ("buidl/helper.py", "int_to_byte"), ("buidl/helper.py", "byte_to_int"),
    ("buidl/helper.py", "int_to_big_endian"), ("buidl/helper.py", "big_endian_to_int"),
    ("buidl/helper.py", "is_intable"), ("buidl/helper.py", "hmac_sha512"),
    ("buidl/pecc.py", "PrivateKey.__init__"), ("buidl/pecc.py", "S256Point.__add__"),
    ("buidl/pecc.py", "S256Point.sec"), ("buidl/pecc.py", "S256Point.hash160"), ("buidl/pecc.py", "S256Point.parse"),
]
RULE = ("cases come from one PRNG seeded by VERIF_SEED plus fixed catalogues: the BIP32 test vectors of "
        "buidl/test/test_hd.py, seeds of 16..64 bytes, the four networks (and an unknown one), every one of the 20 "
        "SLIP-132 version prefixes, child indexes 0, 1, 2^31-1, 2^31, 2^32-1, 2^32, -1 and random, paths of depth "
        "0..8 in ', h, H notation with m or M, a catalogue of malformed paths; a case is non-trivial when it reaches "
        "a key derivation or a codec; distinct = distinct request lines / predicate cases; object-reuse histories: one "
        "HDPrivateKey traversed along several paths and one key object per path asked for xprv/xpub in varying prefixes, "
        "raw_serialize(), repeated and different children and public traversals in one process, every answer compared "
        "with the stateless model on the current arguments; keys at every kind of position (depth 0..8 — quick 0,1,2,3,5,8 — "
        "last index 0, 1, 2^31-1, 2^31, 2^31+1, 2^32-1 and random hardened / normal, all 20 prefixes in rotation): parse of "
        "the string and raw_parse of the 78 bytes compared field by field with the model, with the BIP32 layout of the true "
        "fields and with the position, re-serialised, derived from further, and one parsed object per key asked repeatedly")
CLAUSES = {
    "private then public = public derivation, every field (i < 2^31)":
        "proved (pub_priv_child_consistent, pub_priv_child_converse, priv_pub_traverse_consistent; the zero child key / point at "
        "infinity case is pub_priv_child_zero_key) — unconditional: the group-law fact ((a+b) mod n)G = bG + aG is "
        "Buidl.HD.groupAdd, proved from C03's Buidl.Proofs.Secp256k1",
    "hardened derivation from a public key is refused":
        "proved (pub_child_hardened_reject, pub_childI_hardened_reject, pub_traverse_hardened_reject, pub_traverse_hardened_index_reject)",
    "path = components one by one":
        "proved (priv_traverse_append, pub_traverse_append, priv_walk_append, pub_walk_append, priv_traverse_is_fold, pub_traverse_is_fold)",
    "keys, chain codes, fingerprints, depth, child numbers = independent BIP32":
        "proved (priv_child_eq_spec, priv_child_fields_eq_spec, pub_child_eq_spec, from_seed_eq_spec, fingerprint_eq_spec) with the "
        "explicit hypotheses I_L < n and K_i ≠ ∞ (BIP32 'invalid key', probability ≈ 2^-127); plus Spec.BIP32 through the driver and "
        "the published vectors on every run",
    "xprv/xpub incl. SLIP-132 survive serialise/parse":
        "proved (priv_parse_xprv, pub_parse_xpub, parse_rejects_wrong_length, priv_xprv_defined, priv_serialize_eq_spec, pub_serialize_eq_spec, "
        "version_tables_eq_slip132, priv_pub_point_valid) for every hash256 returning ≥ 4 bytes; the Base58Check round trip is "
        "Buidl.HD.b58RoundTrip (from C09's decodeCombined_encodeBase58), parse_sec ∘ sec = id is C03's parsePoint_sec. "
        "As coded, parse cannot recover signet/regtest (network becomes testnet) nor a non-default pub_version of a private key: "
        "the theorem states exactly which record is returned (parsedPriv / parsedPub) and that it re-serialises to the same string",
    "malformed extended keys": "parse_rejects_wrong_length (only 78-byte payloads are accepted) + correspondence on a stream of "
        "re-checksummed malformed payloads (cut by 1..4 bytes, extended by 1 / 33 bytes, wrong version, version of the other "
        "class, key prefix byte 01 / 04 / other, zero key, depth 0 with parent fingerprint or child number, depth 255) and the "
        "direct predicate `whatever parse accepts re-serialises to the same string`.  As coded (recorded, not a finding): "
        "parse does not cross-check depth against parent fingerprint / child number — a depth-0 key with a non-zero fingerprint "
        "or child number, or depth 255, is accepted and round-trips unchanged",
    "blind_xpub = key at the combined path":
        "proved (blind_xpub_spec, combine_paths_traverse_priv, combine_paths_traverse_pub, blind_xpub_is_key_at_combined_path)",
    "F08a": "F08a_witness (the flagged model refuses every path starting with M); pub_traverse_upper_M / priv_traverse_upper_M for the repaired code",
    "secure_secret_path, child_to_path, parse_binary_path": "proved links to traverse (secure_secret_path_traverse, "
        "secure_secret_path_traverse_priv: the path exists for 1 ≤ depth < 32 and traversing it derives the random children "
        "in turn; child_to_path_roundtrip; parse_binary_path_encode, parse_binary_path_traverse: the text written for "
        "4-byte little-endian child numbers is read back by traverse as the same children, hardened included); all three "
        "also modelled and compared on every run, secure_secret_path with explicit randomness",
    "is_valid_bip32_path": "correspondence-only (modelled with Python's int()/strip()/replace semantics and compared on a "
        "catalogue of malformed and random paths on every run; it enters combine_bip32_paths and the blinding theorems)",
}
TRUSTED = ["hmac_sha512, hash160 and hash256 are parameters of every theorem; the driver instantiates them with "
           "Buidl.Model.Hash (checked against hashlib by harness/hash_selftest.py and by every run of this check)",
           "Buidl.Model.EC point arithmetic (C03) and Buidl.Model.Base58 (C09) as executable models"]
ASSUMPTIONS = ["paths and extended keys are ASCII strings (str.lower() and int() are modelled for ASCII)",
               "negligible events are explicit hypotheses: I_L ≥ n, child key 0 (BIP32 'invalid key')",
               "int.to_bytes / int.from_bytes / hmac / hashlib behave as documented"]

N = 0xFFFFFFFFFFFFFFFFFFFFFFFFFFFFFFFEBAAEDCE6AF48A03BBFD25E8CD0364141
PRIV_VERSIONS = ["0488ade4", "049d7878", "04b2430c", "0295b005", "02aa7a99",
                 "04358394", "044a4e28", "045f18bc", "024285b5", "02575048"]
PUB_VERSIONS = ["0488b21e", "049d7cb2", "04b24746", "0295b43f", "02aa7ed3",
                "043587cf", "044a5262", "045f1cf6", "024289ef", "02575483"]
NETS = ["mainnet", "testnet", "signet", "regtest"]
BOUNDARY_INDEXES = [0, 1, 2, 2**31 - 1, 2**31, 2**31 + 1, 2**32 - 1, 2**32, -1]
BAD_PATHS = ["", "m/", "m//0", "m/0/", "/0", "0/1", "n/0", "m/0''", "m/-1", "m/-1'", "m/ 1", "m/1 ", "m/1_0", "m/+1",
             "m/2147483648", "m/2147483648'", "m/4294967295", "m/4294967296", "mm/1", "mx/1", "m/0x10", "m/1h'",
             "m/h", "m/'", "M", "m", "m/1/H", "M/1H/2h/3'", " m/1", "m/1\n", "m/1__0", "m/_1", "m/1_", "m/1.0",
             "m/1e3", "m/0/2147483647'/1/2147483646'/2", "H/1", "h/1", "'/1", "m/00", "m/007'"]


class UnknownOp(Exception):
    pass


def rbytes(rng, n):
    return rng.getrandbits(8 * n).to_bytes(n, "little") if n else b""


# --------------------------------------------------------------------------------- implementation side
def dump_pub(p):
    x = p.xpub()
    fp = p.fingerprint()
    pt = "inf" if p.point.x is None else xb(p.point.sec())
    return (f"{xs(x)} {xb(fp)} {p.depth} {xb(p.parent_fingerprint)} {p.child_number} {xb(p.chain_code)} {pt} "
            f"{xs(p.network)} {xb(p.pub_version)}")


def dump_priv(k):
    return f"{xs(k.xprv())} {k.private_key.secret} {xb(k.priv_version)} {dump_pub(k.pub)}"


def optb(tok):
    return None if tok == "-" else unx(tok)


def _impl(t):
    from buidl.hd import HDPrivateKey, HDPublicKey, is_valid_bip32_path
    from buidl.ecc import PrivateKey, S256Point
    import buidl.blinding as BL
    import buidl.helper as H

    op = t[0]
    if op == "priv_trav":
        k = HDPrivateKey.from_seed(unx(t[1]), network=uns(t[2]), priv_version=optb(t[3]), pub_version=optb(t[4]))
        return dump_priv(k.traverse(uns(t[5])))
    if op == "priv_parse":
        return dump_priv(HDPrivateKey.parse(uns(t[1])))
    if op == "priv_child":
        return dump_priv(HDPrivateKey.parse(uns(t[1])).child(int(t[2])))
    if op == "priv_ser":
        k = HDPrivateKey.parse(uns(t[1]))
        return f"{xs(k.xprv(version=unx(t[2])))} {xs(k.xpub())}"
    if op == "pub_parse":
        return dump_pub(HDPublicKey.parse(uns(t[1])))
    if op == "pub_child":
        return dump_pub(HDPublicKey.parse(uns(t[1])).child(int(t[2])))
    if op == "pub_trav":
        return dump_pub(HDPublicKey.parse(uns(t[1])).traverse(uns(t[2])))
    if op == "pub_ser":
        return xs(HDPublicKey.parse(uns(t[1])).xpub(version=unx(t[2])))
    if op == "consistent":
        k = HDPrivateKey.parse(uns(t[1]))
        i = int(t[2])
        try:
            a = dump_pub(k.child(i).pub)
        except Exception:
            a = REJECT
        try:
            c = k.pub.child(i)
        except Exception:
            b = REJECT
        else:
            try:
                b = dump_pub(c)
            except Exception:
                b = "unserialisable"
        return f"{a} | {b}"
    if op == "px_trav":
        return dump_priv(HDPrivateKey.parse(uns(t[1])).traverse(uns(t[2])))
    if op in ("priv_raw_parse", "pub_raw_parse"):
        import io
        cls = HDPrivateKey if op == "priv_raw_parse" else HDPublicKey
        k = cls.raw_parse(io.BytesIO(unx(t[1])), network=(None if t[2] == "-" else uns(t[2])))
        try:
            addr = xs(k.p2wpkh_address())
        except Exception:
            addr = REJECT
        return (dump_priv(k) if op == "priv_raw_parse" else dump_pub(k)) + " " + addr
    if op == "spec_xprv":      # the implementation re-serialising what it parsed, against the BIP32 layout of the true fields
        return xs(HDPrivateKey.parse(uns(t[7])).xprv())
    if op == "spec_xpub":
        return xs(HDPublicKey.parse(uns(t[7])).xpub())
    if op == "valid_path":
        return "1" if is_valid_bip32_path(uns(t[1])) else "0"
    if op == "combine":
        return xs(BL.combine_bip32_paths(uns(t[1]), uns(t[2])))
    if op == "secret_path":
        k = int(t[1])
        rs = [int(x) for x in t[2:2 + k]]
        if len(rs) != k or len(t) != 2 + k:
            raise MachineryError("malformed secret_path request")
        it = iter(rs)
        old = BL.randbelow
        BL.randbelow = lambda bound: next(it)
        try:
            return xs(BL.secure_secret_path(depth=k))
        finally:
            BL.randbelow = old
    if op == "blind":
        r = BL.blind_xpub(uns(t[1]), uns(t[2]), uns(t[3]))
        return f"{xs(r['blinded_child_xpub'])} {xs(r['blinded_full_path'])}"
    if op == "child_to_path":
        return xs(H.child_to_path(int(t[1])))
    if op == "bin_path":
        return xs(H.parse_binary_path(unx(t[1])))
    # ---- the implementation observed at the interface of the BIP32 specification
    if op == "spec_master":
        try:
            k = HDPrivateKey.from_seed(unx(t[1]))
        except Exception:
            return "invalid"
        return f"ok {k.private_key.secret} {xb(k.chain_code)}"
    if op == "spec_ckdpriv":
        k = HDPrivateKey(private_key=PrivateKey(secret=int(t[1])), chain_code=unx(t[2]))
        try:
            c = k.child(int(t[3]))
        except Exception:
            return "invalid"
        return f"ok {c.private_key.secret} {xb(c.chain_code)}"
    if op == "spec_ckdpub":
        p = HDPublicKey(point=S256Point.parse(unx(t[1])), chain_code=unx(t[2]), depth=0,
                        parent_fingerprint=b"\x00" * 4, child_number=0)
        i = int(t[3])
        try:
            c = p.child(i)
            if c.point.x is None:
                return "invalid"
            return f"ok {xb(c.point.sec())} {xb(c.chain_code)}"
        except Exception:
            return "failure" if i >= 2**31 else "invalid"
    if op == "spec_fp":
        p = HDPublicKey(point=S256Point.parse(unx(t[1])), chain_code=b"\x00" * 32, depth=0,
                        parent_fingerprint=b"\x00" * 4, child_number=0)
        return xb(p.fingerprint())
    raise UnknownOp(op)


def _k_step(op, k, t):
    """one step on a key object `k` (HDPrivateKey at some path): the observation of request `t`"""
    if op == "k_ser":
        res = []
        for f in (lambda: xs(k.xprv(version=optb(t[6]))), lambda: xs(k.xpub(version=optb(t[7]))),
                  lambda: xb(k.pub.raw_serialize())):
            try:
                res.append(f())
            except Exception:
                res.append(REJECT)
        return " ".join(res)
    if op == "k_child":
        return dump_priv(k.child(int(t[6])))
    if op == "k_pubchild":
        return dump_pub(k.pub.child(int(t[6])))
    if op == "k_pubtrav":
        return dump_pub(k.pub.traverse(uns(t[6])))
    raise UnknownOp(op)


K_OPS = ("k_ser", "k_child", "k_pubchild", "k_pubtrav")


def impl_history(lines):
    """evaluate request lines in order in ONE process on SHARED objects: one HDPrivateKey per (seed, network, versions)
    that is traversed again and again along different paths, and one derived key object per (root, path) that is asked
    for xprv / xpub in several version prefixes, raw_serialize(), children and public traversals in sequence.  A memo
    kept on a key object (HDPublicKey._raw) or any other state leaking between calls shows up as an answer that differs
    from the stateless model evaluated on the current arguments."""
    from buidl.hd import HDPrivateKey, HDPublicKey
    roots, keys, parsed, out = {}, {}, {}, []
    for line in lines:
        t = line.split(" ")
        try:
            op = t[0]
            if op == "priv_trav" or op in K_OPS:
                rk = tuple(t[1:5])
                if rk not in roots:
                    roots[rk] = HDPrivateKey.from_seed(unx(t[1]), network=uns(t[2]), priv_version=optb(t[3]), pub_version=optb(t[4]))
                root = roots[rk]
                path = uns(t[5])
                if op == "priv_trav":
                    k = root.traverse(path)            # the shared root is traversed afresh
                    keys.setdefault((rk, path), k)     # the first object at this path serves the later k_* steps
                    out.append(dump_priv(k))
                else:
                    if (rk, path) not in keys:
                        keys[(rk, path)] = root.traverse(path)
                    out.append(_k_step(op, keys[(rk, path)], t))
            elif op in PX_OPS:
                # one object per extended-key string, parsed once and then asked repeatedly
                cls = HDPrivateKey if op in ("priv_parse", "priv_child", "priv_ser", "px_trav") else HDPublicKey
                if (cls.__name__, t[1]) not in parsed:
                    parsed[(cls.__name__, t[1])] = cls.parse(uns(t[1]))
                k = parsed[(cls.__name__, t[1])]
                if op == "priv_parse":
                    out.append(dump_priv(k))
                elif op == "pub_parse":
                    out.append(dump_pub(k))
                elif op == "priv_child":
                    out.append(dump_priv(k.child(int(t[2]))))
                elif op == "pub_child":
                    out.append(dump_pub(k.child(int(t[2]))))
                elif op == "priv_ser":
                    out.append(f"{xs(k.xprv(version=unx(t[2])))} {xs(k.xpub())}")
                elif op == "pub_ser":
                    out.append(xs(k.xpub(version=unx(t[2]))))
                elif op == "px_trav":
                    out.append(dump_priv(k.traverse(uns(t[2]))))
                else:
                    out.append(dump_pub(k.traverse(uns(t[2]))))
            else:
                out.append(_impl(t))
        except (UnknownOp, MachineryError):
            raise
        except Exception:
            out.append(REJECT)
    return out


PX_OPS = ("priv_parse", "priv_child", "priv_ser", "px_trav", "pub_parse", "pub_child", "pub_ser", "pub_trav")


def impl_line(line):
    t = line.split(" ")
    try:
        if t[0] in K_OPS:
            return impl_history([line])[0]
        return _impl(t)
    except (UnknownOp, MachineryError):
        raise
    except Exception:
        return REJECT


def model_line(line):
    return line


# --------------------------------------------------------------------------------- direct predicates
def _fields(p):
    pt = None if p.point.x is None else p.point.sec().hex()
    return [pt, p.chain_code.hex(), p.depth, p.parent_fingerprint.hex(), p.child_number, p.network, p.pub_version.hex()]


def p_consistent(c):
    """(priv.child i).pub = priv.pub.child i in every field, for i < 2^31"""
    from buidl.hd import HDPrivateKey
    k = HDPrivateKey.parse(c["xprv"])
    a = k.child(c["i"]).pub
    b = k.pub.child(c["i"])
    got, want = _fields(b), _fields(a)
    return got == want and a.xpub() == b.xpub() and a.fingerprint() == b.fingerprint(), got, want


def p_hardened_refused(c):
    """pub.child(i) for i ≥ 2^31 and pub.traverse of a path with a hardened component must be refused"""
    from buidl.hd import HDPublicKey
    p = HDPublicKey.parse(c["xpub"])
    try:
        r = p.child(c["i"]) if "i" in c else p.traverse(c["path"])
    except Exception:
        return True, REJECT, REJECT
    return False, r.xpub(), REJECT


def p_compose(c):
    """traverse(p + '/' + rest) = traverse('m/' + rest) after traverse(p); and = fold of child"""
    from buidl.hd import HDPrivateKey, HDPublicKey
    k = HDPrivateKey.parse(c["xprv"])
    if c.get("public"):
        k = k.pub
    whole = k.traverse(c["p"] + "/" + c["rest"])
    parts = k.traverse(c["p"]).traverse("m/" + c["rest"])
    cur = k
    for comp in (c["p"] + "/" + c["rest"]).split("/")[1:]:
        comp = comp.lower().replace("h", "'")
        cur = cur.child(int(comp[:-1]) + 2**31 if comp.endswith("'") else int(comp))
    ser = (lambda x: x.xpub()) if c.get("public") else (lambda x: x.xprv() + " " + x.xpub())
    got = [ser(whole), ser(parts), ser(cur)]
    return got[0] == got[1] == got[2], got, "three equal keys"


def p_roundtrip(c):
    """parse(serialise) returns the same extended key string and fields, for every version prefix"""
    from buidl.hd import HDPrivateKey, HDPublicKey
    if c["kind"] == "priv":
        k = HDPrivateKey.parse(c["x"])
        s = k.xprv(version=bytes.fromhex(c["version"]))
        k2 = HDPrivateKey.parse(s)
        got = [k2.xprv(), k2.private_key.secret, k2.chain_code.hex(), k2.depth, k2.parent_fingerprint.hex(),
               k2.child_number, k2.priv_version.hex()]
        want = [s, k.private_key.secret, k.chain_code.hex(), k.depth, k.parent_fingerprint.hex(), k.child_number, c["version"]]
    else:
        k = HDPublicKey.parse(c["x"])
        s = k.xpub(version=bytes.fromhex(c["version"]))
        k2 = HDPublicKey.parse(s)
        got = [k2.xpub(), k2.point.sec().hex(), k2.chain_code.hex(), k2.depth, k2.parent_fingerprint.hex(),
               k2.child_number, k2.pub_version.hex()]
        want = [s, k.point.sec().hex(), k.chain_code.hex(), k.depth, k.parent_fingerprint.hex(), k.child_number, c["version"]]
    return got == want, got, want


def p_vector(c):
    """published BIP32 test vector"""
    from buidl.hd import HDPrivateKey
    k = HDPrivateKey.from_seed(bytes.fromhex(c["seed"])).traverse(c["path"])
    got = [k.xpub(), k.xprv()]
    return got == [c["xpub"], c["xprv"]], got, [c["xpub"], c["xprv"]]


def p_blind(c):
    """blind_xpub returns the key found at the combined path from the root"""
    from buidl.hd import HDPrivateKey
    from buidl.blinding import blind_xpub
    root = HDPrivateKey.from_seed(bytes.fromhex(c["seed"]), network=c["net"])
    start = root.traverse(c["p"]).xpub(version=bytes.fromhex(c["version"]))
    r = blind_xpub(start, c["p"], c["s"])
    at_full = root.traverse(r["blinded_full_path"]).xpub(version=bytes.fromhex(c["version"]))
    return r["blinded_child_xpub"] == at_full, [r["blinded_child_xpub"], r["blinded_full_path"]], at_full


def p_case_insensitive(c):
    """public and private traverse accept the same spellings of a non-hardened path (F08a)"""
    from buidl.hd import HDPrivateKey
    k = HDPrivateKey.parse(c["xprv"])
    want = k.traverse(c["path"]).xpub()
    got = k.pub.traverse(c["path"]).xpub()
    return got == want, got, want


def p_position(c):
    """an extended key at a given position of the tree (depth 0..8, last index hardened or not), serialised with one of
    the 20 prefixes: parse returns every field BIP32 prescribes for that position, re-serialises to the same string,
    raw_parse of the 78 bytes agrees, and deriving further from the parsed key gives the keys derived from the original"""
    import io
    from buidl.hd import HDPrivateKey, HDPublicKey
    k = HDPrivateKey.parse(c["xprv"])
    p = HDPublicKey.parse(c["xpub"])
    kr = HDPrivateKey.raw_parse(io.BytesIO(bytes.fromhex(c["raw_prv"])))
    pr = HDPublicKey.raw_parse(io.BytesIO(bytes.fromhex(c["raw_pub"])))
    got, want = [], []
    for o in (k, kr):
        got.append([o.depth, o.parent_fingerprint.hex(), o.child_number, o.chain_code.hex(), o.private_key.secret,
                    o.priv_version.hex()])
        want.append([c["depth"], c["pfp"], c["index"], c["cc"], c["secret"], c["pv"]])
    for o in (p, pr):
        got.append([o.depth, o.parent_fingerprint.hex(), o.child_number, o.chain_code.hex(), o.point.sec().hex(),
                    o.pub_version.hex()])
        want.append([c["depth"], c["pfp"], c["index"], c["cc"], c["sec"], c["bv"]])
    if got != want:
        return False, got, want
    got = [k.xprv(), p.xpub(), kr.xprv(), pr.xpub(), k.child(7).xprv(), k.child(2**31 + 7).xprv(), k.traverse("m/1/2h").xprv(),
           p.child(7).xpub(), p.traverse("M/3/4").xpub(), k.xpub(version=bytes.fromhex(c["bv"]))]
    want = [c["xprv"], c["xpub"], c["xprv"], c["xpub"]] + c["derived"] + [c["xpub"]]
    return got == want, got, want


def p_accepts_reserialises(c):
    """whatever extended-key string parse accepts must re-serialise to exactly that string"""
    from buidl.hd import HDPrivateKey, HDPublicKey
    cls = HDPrivateKey if c["kind"] == "priv" else HDPublicKey
    try:
        k = cls.parse(c["s"])
    except Exception:
        return True, REJECT, "REJECT or the same string"
    got = k.xprv() if c["kind"] == "priv" else k.xpub()
    return got == c["s"], got, c["s"]


PREDICATES = {"accepts_reserialises": p_accepts_reserialises, "position": p_position, "consistent": p_consistent, "hardened_refused": p_hardened_refused, "compose": p_compose,
              "roundtrip": p_roundtrip, "vector": p_vector, "blind": p_blind, "case_insensitive": p_case_insensitive}


def eval_pred(kind, case=None):
    """eval_pred(kind, case) or eval_pred((kind, case)) (the latter for pool.map)"""
    if case is None:
        kind, case = kind
    try:
        return PREDICATES[kind](case)
    except Exception as e:
        return False, "raised " + type(e).__name__, "no exception"


# --------------------------------------------------------------------------------- generation
def bip32_vectors():
    """the vectors of HDTest.test_prv_pub in buidl/test/test_hd.py (list of (seed, path, xpub, xprv))"""
    src = open(os.path.join(REPO, "buidl/test/test_hd.py")).read()
    for node in ast.walk(ast.parse(src)):
        if isinstance(node, ast.FunctionDef) and node.name == "test_prv_pub":
            for st in node.body:
                if isinstance(st, ast.Assign) and getattr(st.targets[0], "id", None) == "tests":
                    tests = eval(compile(ast.Expression(st.value), "test_hd.py", "eval"), {"__builtins__": {}, "bytes": bytes})
                    return [(t["seed"], p, xpub, xprv) for t in tests for p, xpub, xprv in t["paths"]]
    return []


def rand_index(rng):
    return rng.choice([0, 1, 2**31 - 1, rng.randrange(2**31), rng.randrange(1000), rng.randrange(2**31)])


def rand_path(rng, maxdepth=8, hardened=True, upper=True):
    comps = []
    for _ in range(rng.randrange(0, maxdepth + 1)):
        c = str(rand_index(rng))
        if hardened and rng.random() < 0.4:
            c += rng.choice(["'", "h", "H"] if upper else ["'", "h"])
        comps.append(c)
    return rng.choice(["m", "M"] if upper else ["m"]) + "".join("/" + c for c in comps)


LAST_INDEXES = [0, 1, 2**31 - 1, 2**31, 2**31 + 1, 2**32 - 1]


def _mk_positions(a):
    """(seed, net, prefix indexes, [(last index, priv version, pub version)]) -> one record per key m/prefix/last with the
    fields BIP32 prescribes for that position (depth = number of derivations, parent fingerprint taken from the parent,
    child number = last index) and the strings derived from the ORIGINAL key object"""
    from buidl.hd import HDPrivateKey
    seed, net, prefix, lasts = a
    parent = HDPrivateKey.from_seed(seed, network=net)
    for i in prefix:
        parent = parent.child(i)
    out = []
    for last, pv, bv in lasts:
        if last is None:      # the root itself
            k, depth, pfp, idx = parent, 0, "00000000", 0
        else:
            k, depth, pfp, idx = parent.child(last), len(prefix) + 1, parent.fingerprint().hex(), last
        vp, vb = bytes.fromhex(pv), bytes.fromhex(bv)
        derived = [k.child(7).xprv(version=vp), k.child(2**31 + 7).xprv(version=vp), k.traverse("m/1/2h").xprv(version=vp),
                   k.pub.child(7).xpub(version=vb), k.pub.traverse("m/3/4").xpub(version=vb)]
        out.append({"xprv": k.xprv(version=vp), "xpub": k.xpub(version=vb), "depth": depth, "pfp": pfp, "index": idx,
                    "cc": k.chain_code.hex(), "secret": k.private_key.secret, "sec": k.pub.point.sec().hex(),
                    "pv": pv, "bv": bv, "derived": derived, "net": net,
                    "raw_prv": k.raw_serialize(vp).hex(), "raw_pub": k.pub._serialize(vb).hex(),
                    "path": "m" + "".join(f"/{i}" for i in list(prefix) + ([] if last is None else [last]))})
    return out


def _mk_key(a):
    """(seed, net, pv, bv, path) -> (xprv, xpub, secret, chain code, sec) computed by the implementation"""
    from buidl.hd import HDPrivateKey
    seed, net, pv, bv, path = a
    k = HDPrivateKey.from_seed(seed, network=net, priv_version=pv, pub_version=bv).traverse(path)
    # the strings in all 20 prefixes come from the ORIGINAL object (never through parse: the generator must not depend
    # on the code path it is about to examine)
    return (k.xprv(), k.xpub(), k.private_key.secret, k.chain_code, k.pub.point.sec(),
            [k.xprv(version=bytes.fromhex(v)) for v in PRIV_VERSIONS], [k.xpub(version=bytes.fromhex(v)) for v in PUB_VERSIONS])


def run(ctx):
    rng, rec = ctx.rng, ctx.rec
    drv = ctx.driver("drv_c08")
    lines = []   # (kind, request line)
    preds = []   # (kind, case)

    # ---- published vectors
    vectors = bip32_vectors()
    if not vectors:
        rec.note("BIP32 vectors not found in buidl/test/test_hd.py")
    for seed, path, xpub, xprv in vectors:
        lines.append(("vector", f"priv_trav {xb(seed)} {xs('mainnet')} - - {xs(path)}"))
        preds.append(("vector", {"seed": seed.hex(), "path": path, "xpub": xpub, "xprv": xprv}))
        lines.append(("spec_master", f"spec_master {xb(seed)}"))

    # ---- from_seed + traverse over random seeds, networks, versions and paths in all notations
    seeds = [rbytes(rng, n) for n in (16, 17, 31, 32, 33, 63, 64)] + [rbytes(rng, rng.randrange(16, 65)) for _ in range(ctx.n(6))]
    for k in range(ctx.n(36)):
        seed = rng.choice(seeds)
        net = rng.choice(NETS + (["nonet"] if k % 9 == 0 else []))
        pv = rng.choice(["-"] * 3 + ["x" + v for v in PRIV_VERSIONS])
        bv = rng.choice(["-"] * 3 + ["x" + v for v in PUB_VERSIONS])
        if net == "nonet" and k % 2:
            pv, bv = "x" + PRIV_VERSIONS[0], "x" + PUB_VERSIONS[0]
        path = rand_path(rng) if k % 6 else rng.choice(BAD_PATHS)
        lines.append(("priv_trav", f"priv_trav {xb(seed)} {xs(net)} {pv} {bv} {xs(path)}"))
    for p in BAD_PATHS:
        lines.append(("priv_trav_bad", f"priv_trav {xb(seeds[0])} {xs('mainnet')} - - {xs(p)}"))
    for seed in seeds + [b"", b"\x00", rbytes(rng, 15), rbytes(rng, 65)]:
        lines.append(("spec_master", f"spec_master {xb(seed)}"))

    # ---- base keys (computed by the implementation) for the per-key operations
    specs = []
    for k in range(ctx.n(10)):
        net = NETS[k % 4]
        specs.append((rng.choice(seeds), net, None, None, rand_path(rng, maxdepth=3, upper=False)))
    keys = pmap(_mk_key, specs, workers=ctx.workers)
    for (xprv, xpub, secret, cc, sec_, _allprv, _allpub) in keys:
        idxs = BOUNDARY_INDEXES[:] if len(lines) < 400 else BOUNDARY_INDEXES[3:7]
        idxs += [rng.randrange(2**31), rng.randrange(2**31, 2**32)]
        for i in idxs:
            lines.append(("priv_child", f"priv_child {xs(xprv)} {i}"))
            lines.append(("pub_child", f"pub_child {xs(xpub)} {i}"))
            if 0 <= i < 2**32:
                lines.append(("spec_ckdpriv", f"spec_ckdpriv {secret} {xb(cc)} {i}"))
                lines.append(("spec_ckdpub", f"spec_ckdpub {xb(sec_)} {xb(cc)} {i}"))
            if 0 <= i < 2**31:
                lines.append(("consistent", f"consistent {xs(xprv)} {i}"))
                preds.append(("consistent", {"xprv": xprv, "i": i}))
            elif i >= 2**31:
                preds.append(("hardened_refused", {"xpub": xpub, "i": i}))
        lines.append(("spec_fp", f"spec_fp {xb(sec_)}"))
        # public traverse: non-hardened paths in both cases of m, hardened components, malformed
        for _ in range(2):
            path = rand_path(rng, maxdepth=4, hardened=False)
            lines.append(("pub_trav", f"pub_trav {xs(xpub)} {xs(path)}"))
            preds.append(("case_insensitive", {"xprv": xprv, "path": path}))
        hp = rand_path(rng, maxdepth=3, hardened=False) + "/" + str(rng.randrange(1000)) + rng.choice(["'", "h", "H"]) + \
            rng.choice(["", "/1"])
        lines.append(("pub_trav_hardened", f"pub_trav {xs(xpub)} {xs(hp)}"))
        preds.append(("hardened_refused", {"xpub": xpub, "path": hp}))
        lines.append(("pub_trav_bad", f"pub_trav {xs(xpub)} {xs(rng.choice(BAD_PATHS))}"))
        # composition
        p = rand_path(rng, maxdepth=3)
        rest = rand_path(rng, maxdepth=3)[2:] or "7"
        preds.append(("compose", {"xprv": xprv, "p": p, "rest": rest}))
        p = rand_path(rng, maxdepth=2, hardened=False)
        rest = rand_path(rng, maxdepth=2, hardened=False)[2:] or "7"
        preds.append(("compose", {"xprv": xprv, "p": p, "rest": rest, "public": True}))
    # ---- codec: every version prefix, corrupted strings
    for vi in range(10):
        xprv, xpub = keys[vi % len(keys)][0], keys[vi % len(keys)][1]
        lines.append(("priv_ser", f"priv_ser {xs(xprv)} x{PRIV_VERSIONS[vi]}"))
        lines.append(("pub_ser", f"pub_ser {xs(xpub)} x{PUB_VERSIONS[vi]}"))
        preds.append(("roundtrip", {"kind": "priv", "x": xprv, "version": PRIV_VERSIONS[vi]}))
        preds.append(("roundtrip", {"kind": "pub", "x": xpub, "version": PUB_VERSIONS[vi]}))
    lines.append(("priv_ser", f"priv_ser {xs(keys[0][0])} x{PUB_VERSIONS[0]}"))   # a public version on a private key
    lines.append(("pub_ser", f"pub_ser {xs(keys[0][1])} x01020304"))
    reser = [(keys[vi % len(keys)][5][vi], keys[vi % len(keys)][6][vi]) for vi in range(10)]
    alphabet = "123456789ABCDEFGHJKLMNPQRSTUVWXYZabcdefghijkmnopqrstuvwxyz0OIl "
    for sprv, spub in reser:
        lines.append(("priv_parse", f"priv_parse {xs(sprv)}"))
        lines.append(("pub_parse", f"pub_parse {xs(spub)}"))
        lines.append(("cross_parse", f"priv_parse {xs(spub)}"))
        lines.append(("cross_parse", f"pub_parse {xs(sprv)}"))
        for s, op in ((sprv, "priv_parse"), (spub, "pub_parse")):
            pos = rng.randrange(len(s))
            bad = s[:pos] + rng.choice(alphabet) + s[pos + 1:]
            lines.append(("parse_corrupt", f"{op} {xs(bad)}"))
            lines.append(("parse_corrupt", f"{op} {xs(s[:rng.randrange(len(s))])}"))
    for s in ("", "1", "11111", "xprv", "3QJmnh"):
        lines.append(("parse_corrupt", f"priv_parse {xs(s)}"))
        lines.append(("parse_corrupt", f"pub_parse {xs(s)}"))

    # ---- paths: is_valid_bip32_path, combine_bip32_paths, secure_secret_path, child_to_path, parse_binary_path
    pathset = list(BAD_PATHS) + ["m/1", "m/1h", "m/48h/1h/0h/2h", "m/1/2/3/4/5", "M/1'/2H", "m//1", "m///1", " m/1 ", "m/1//2",
                                 "m/2147483647h", "m/2147483648h", "m/" + "/".join(["1"] * 255), "m/" + "/".join(["1"] * 256)]
    chars = "mM/0123456789'hH _+-x"
    for _ in range(ctx.n(300)):
        pathset.append(rand_path(rng) if rng.random() < 0.6 else
                       "".join(rng.choice(chars) for _ in range(rng.randrange(0, 10))))
    for p in pathset:
        lines.append(("valid_path", f"valid_path {xs(p)}"))
    for _ in range(ctx.n(400)):
        lines.append(("combine", f"combine {xs(rng.choice(pathset))} {xs(rng.choice(pathset))}"))
    for d in [0, 1, 2, 4, 31, 32, 33] + [rng.randrange(1, 12) for _ in range(ctx.n(10))]:
        rs = [rng.choice([0, 2**31 - 2, rng.randrange(2**31 - 1)]) for _ in range(d)]
        lines.append(("secret_path", "secret_path " + " ".join(str(x) for x in [d] + rs)))
    for n in BOUNDARY_INDEXES[:8] + [rng.randrange(2**32) for _ in range(ctx.n(50))]:
        lines.append(("child_to_path", f"child_to_path {n}"))
    for _ in range(ctx.n(60)):
        ln = rng.choice([0, 4, 8, 12, 20, 3, 5, 7])
        b = b"".join(rng.choice([rbytes(rng, 4), (2**31).to_bytes(4, "little"), (2**31 - 1).to_bytes(4, "little"),
                                 bytes(4), b"\xff" * 4]) for _ in range(ln // 4 + 1))[:ln]
        lines.append(("bin_path", f"bin_path {xb(b)}"))

    # ---- blinding
    for k in range(ctx.n(8)):
        seed = rng.choice(seeds)
        net = NETS[k % 4]
        p = rand_path(rng, maxdepth=4, upper=False).replace("'", "h")
        s = rand_path(rng, maxdepth=4, hardened=False, upper=False)
        vi = rng.randrange(10)
        pub_version = PUB_VERSIONS[vi] if (vi < 5) == (net == "mainnet") else PUB_VERSIONS[(vi + 5) % 10]
        preds.append(("blind", {"seed": seed.hex(), "net": net, "p": p, "s": s, "version": pub_version}))
    for (xprv, xpub, _, _, _, _, _), sp in zip(keys, specs):
        start = sp[4]
        lines.append(("blind", f"blind {xs(xpub)} {xs(start)} {xs(rand_path(rng, maxdepth=3, hardened=False))}"))
        lines.append(("blind_bad", f"blind {xs(xpub)} {xs(start + '/1')} {xs('m/1')}"))
        lines.append(("blind_bad", f"blind {xs(xpub)} {xs(start)} {xs(rng.choice(BAD_PATHS + ['m/1h', 'M/1', 'm/1//2']))}"))

    # ---- keys at every kind of position: depth 0..8, last index hardened / non-hardened incl. the boundaries; each is
    # serialised with one of the 20 prefixes, parsed (string and raw 78 bytes), compared field by field with the model,
    # with the BIP32 layout of the true fields (spec_xprv / spec_xpub) and with the position it was derived at, re-serialised,
    # and derived from further (child, traverse) against the original object
    depths = list(range(1, 9)) if ctx.thorough else [1, 2, 3, 5, 8]
    tasks, vi = [], 0
    for rep in range(ctx.n(1, 3)):
        seed = rng.choice(seeds)
        lasts0 = []
        for d in [0] + depths:
            net = rng.choice(NETS)
            prefix = [rand_index(rng) + (2**31 if rng.random() < 0.5 else 0) for _ in range(max(d - 1, 0))]
            cand = [None] if d == 0 else LAST_INDEXES + [rng.randrange(2**31, 2**32), rng.randrange(2**31)]
            lasts = []
            for last in cand:
                lasts.append((last, PRIV_VERSIONS[vi % 10], PUB_VERSIONS[(vi * 3) % 10]))
                vi += 1
            tasks.append((seed, net, prefix, lasts))
    positions = [r for out in pmap(_mk_positions, tasks, workers=ctx.workers, chunksize=1) for r in out]
    pos_hists = []
    for j, c in enumerate(positions):
        x, y = c["xprv"], c["xpub"]
        lines.append(("position:priv_parse", f"priv_parse {xs(x)}"))
        lines.append(("position:pub_parse", f"pub_parse {xs(y)}"))
        lines.append(("position:spec_xprv", f"spec_xprv x{c['pv']} {c['depth']} x{c['pfp']} {c['index']} x{c['cc']} {c['secret']} {xs(x)}"))
        lines.append(("position:spec_xpub", f"spec_xpub x{c['bv']} {c['depth']} x{c['pfp']} {c['index']} x{c['cc']} x{c['sec']} {xs(y)}"))
        # raw_parse with no and with every explicit network argument; the dump carries .network and a derived address
        nets = ["-"] + [xs(n) for n in NETS] if j % 4 == 0 else ["-", xs(NETS[j % 4])]
        for netarg in nets:
            lines.append(("position:priv_raw_parse", f"priv_raw_parse x{c['raw_prv']} {netarg}"))
            lines.append(("position:pub_raw_parse", f"pub_raw_parse x{c['raw_pub']} {netarg}"))
        if j % 2 == 0:
            lines.append(("position:px_trav", f"px_trav {xs(x)} {xs(rng.choice(['m/0', 'm/2147483648', 'm/1/2h', 'M/5H/6']))}"))
            lines.append(("position:pub_trav", f"pub_trav {xs(y)} {xs(rng.choice(['m/0', 'm/3/4', 'm']))}"))
        preds.append(("position", c))
        if j % 5 == 0:
            v2, b2 = "x" + PRIV_VERSIONS[(j + 3) % 10], "x" + PUB_VERSIONS[(j + 7) % 10]
            pos_hists.append([f"priv_parse {xs(x)}", f"priv_child {xs(x)} 0", f"priv_ser {xs(x)} {v2}", f"px_trav {xs(x)} {xs('m/1/2h')}",
                              f"priv_child {xs(x)} {2**31}", f"priv_child {xs(x)} 0", f"priv_parse {xs(x)}",
                              f"pub_parse {xs(y)}", f"pub_child {xs(y)} 3", f"pub_ser {xs(y)} {b2}", f"pub_trav {xs(y)} {xs('m/3/4')}",
                              f"pub_child {xs(y)} 3", f"pub_parse {xs(y)}", f"priv_ser {xs(x)} x{c['pv']}"])
    rec.count("positions", len(positions))

    # ---- malformed extended keys with a VALID Base58Check checksum (encoded by the model's own encoder): wrong payload
    # length, wrong version, wrong key prefix byte, depth 0 with a parent fingerprint / child number
    mal = []   # (kind of key, label, payload)
    for j, c in enumerate(positions):
        if j % 3 and not ctx.thorough:
            continue
        for kind, raw in (("priv", bytes.fromhex(c["raw_prv"])), ("pub", bytes.fromhex(c["raw_pub"]))):
            for cut in (1, 2, 3, 4):
                mal.append((kind, f"cut{cut}", raw[:-cut]))
            mal.append((kind, "cut_front", raw[1:]))
            mal.append((kind, "ext1", raw + rbytes(rng, 1)))
            mal.append((kind, "ext33", raw + rbytes(rng, 33)))
            mal.append((kind, "ext1_zero", raw + b"\x00"))
            mal.append((kind, "version", bytes.fromhex(rng.choice(["0488b21f", "00000000", "0488ade5", "ffffffff"])) + raw[4:]))
            mal.append((kind, "version_other_class", bytes.fromhex(c["bv"] if kind == "priv" else c["pv"]) + raw[4:]))
            mal.append((kind, "keyprefix", raw[:45] + (b"\x01" if kind == "priv" else b"\x04") + raw[46:]))
            mal.append((kind, "keyprefix", raw[:45] + bytes([rng.choice([5, 6, 7, 0xff])]) + raw[46:]))
            mal.append((kind, "depth0_with_parent", raw[:4] + b"\x00" + raw[5:]))
            mal.append((kind, "depth_ff", raw[:4] + b"\xff" + raw[5:]))
            mal.append((kind, "root_with_child", raw[:4] + b"\x00" + bytes(4) + (2**31 + 5).to_bytes(4, "big") + raw[13:]))
            mal.append((kind, "zero_key", raw[:45] + bytes(33)))
            mal.append((kind, "valid", raw))
    enc = batch_parallel(drv, [f"b58check {xb(pl)}" for _, _, pl in mal], workers=ctx.workers)
    for (kind, label, pl), e in zip(mal, enc):
        if e == REJECT:
            continue
        sx = uns(e)
        lines.append((f"malformed:{label}", f"{'priv_parse' if kind == 'priv' else 'pub_parse'} {xs(sx)}"))
        preds.append(("accepts_reserialises", {"kind": kind, "s": sx, "why": label}))
    rec.count("malformed_xkeys", len(mal))

    # ---- unmarked numeric components in the hardened range must be refused by the public traverse
    for (xprv, xpub, _, _, _, _, _) in keys:
        for path in ("m/2147483648", "m/0/2147483648", "m/4294967295", "M/1/2147483649/2", "m/0/4294967296"):
            lines.append(("pub_trav_hardened_number", f"pub_trav {xs(xpub)} {xs(path)}"))
            preds.append(("hardened_refused", {"xpub": xpub, "path": path}))

    # ---- object-reuse histories: one root object traversed along several paths, one key object per path asked for
    # xprv/xpub in several prefixes, raw_serialize(), the same and different children, public traversals — in sequence
    hists = []
    for k in range(ctx.n(6)):
        seed = rng.choice(seeds)
        net = NETS[k % 4]
        pv = rng.choice(["-", "x" + rng.choice(PRIV_VERSIONS)])
        bv = rng.choice(["-", "x" + rng.choice(PUB_VERSIONS)])
        head = f"{xb(seed)} {xs(net)} {pv} {bv}"
        paths = ["m"] + [rand_path(rng, maxdepth=2, upper=False) for _ in range(2)]
        steps = []
        for path in paths:
            i1, i2 = rng.randrange(2**31), rng.choice([0, 2**31, rng.randrange(2**31, 2**32)])
            zp, zv = "x" + rng.choice(PUB_VERSIONS), "x" + rng.choice(PRIV_VERSIONS)
            sub = rand_path(rng, maxdepth=2, hardened=False, upper=False)
            block = [f"priv_trav {head} {xs(path)}",
                     f"k_ser {head} {xs(path)} - -", f"k_ser {head} {xs(path)} {zv} {zp}", f"k_ser {head} {xs(path)} - -",
                     f"k_ser {head} {xs(path)} - x{rng.choice(PUB_VERSIONS)}",
                     f"k_child {head} {xs(path)} {i1}", f"k_child {head} {xs(path)} {i1}", f"k_child {head} {xs(path)} {i2}",
                     f"k_child {head} {xs(path)} {i1}",
                     f"k_pubchild {head} {xs(path)} {i1}", f"k_pubchild {head} {xs(path)} {i1}",
                     f"k_pubchild {head} {xs(path)} {rng.randrange(2**31)}",
                     f"k_pubtrav {head} {xs(path)} {xs(sub)}", f"k_pubtrav {head} {xs(path)} {xs('m')}",
                     f"k_pubtrav {head} {xs(path)} {xs(sub)}", f"k_ser {head} {xs(path)} - -",
                     f"priv_trav {head} {xs(path)}"]
            steps += block
        # interleave the blocks of the three paths, keeping the order inside each block
        order = sorted(range(len(steps)), key=lambda j: (j % 17) * 3 + rng.random() * 2.5 + (j // 17) * 0.1)
        hists.append([steps[j] for j in order])

    hists += pos_hists   # … and one parsed object per positioned key asked repeatedly

    # ---- run both sides (shuffled so that the EC-heavy requests are spread over all workers)
    rng.shuffle(lines)
    rng.shuffle(preds)
    reqs = [l for _, l in lines]
    import time
    t0 = time.time()
    answers = batch_parallel(drv, [model_line(l) for l in reqs], workers=ctx.workers)
    t1 = time.time()
    impls = pmap(impl_line, reqs, workers=ctx.workers, chunksize=2)
    hist_impl = pmap(impl_history, hists, workers=ctx.workers, chunksize=1)
    hflat = [(hi, si, l) for hi, h in enumerate(hists) for si, l in enumerate(h)]
    hmodel = batch_parallel(drv, [model_line(l) for _, _, l in hflat], workers=ctx.workers)
    for (hi, si, l), model in zip(hflat, hmodel):
        case = {"request": l, "hist": hists[hi], "step": si}
        rec.compare("history", case, hist_impl[hi][si], model, determined=True, key=f"{hi}:{si}:{l[:300]}")
        rec.count("history:" + l.split(" ")[0])
    t2 = time.time()
    seen = {}
    for (kind, line), model, impl in zip(lines, answers, impls):
        kind = kind if kind.startswith(("position", "malformed")) else kind.split(":")[0]
        t = line.split(" ")
        finding = None
        # input predicate of F08a: a public traverse (directly or inside blind_xpub) of a path spelled with `M`
        if (t[0] == "pub_trav" and uns(t[2])[:1] == "M") or (t[0] == "blind" and uns(t[3])[:1] == "M"):
            finding = "F08a"
        seen[kind] = seen.get(kind, 0) + 1
        # the first few requests of each kind carry the key "line": ./check re-executes those under line monitoring
        case = {"line": line} if seen[kind] <= 4 else {"request": line}
        if rec.compare(kind, case, impl, model, determined=True, key=line[:300], finding=finding):
            rec.sample(kind, {"request": line[:200], "answer": model[:200]})
        if impl == REJECT:
            rec.count(kind + ":reject")
    results = pmap(eval_pred, preds, workers=ctx.workers, chunksize=1)
    rec.note(f"timing: model {t1 - t0:.1f}s, implementation {t2 - t1:.1f}s, predicates {time.time() - t2:.1f}s")
    covn = {}
    for (kind, case), (ok, got, want) in zip(preds, results):
        covn[kind] = covn.get(kind, 0) + 1
        if covn[kind] <= 3:
            rec.cov_pred(kind, case)   # small sample re-executed under line monitoring by ./check
        finding = None
        if (kind == "case_insensitive" and case["path"][:1] == "M") or \
                (kind == "compose" and case.get("public") and case["p"][:1] == "M"):
            finding = "F08a"
        if ok:
            rec.ok(kind, repr(case)[:300])
            rec.sample(kind, case, limit=1)
        else:
            rec.violation(kind, dict(case, pred=kind), got, want, finding=finding)

    # ---- finding F08a: replayed on every run (HDPublicKey.traverse refused an upper-case M)
    w = {"xprv": keys[0][0], "path": "M/0/1", "pred": "case_insensitive"}
    ok, got, want = eval_pred("case_insensitive", w)
    flagged = drv.one(f"pub_trav_f08a {xs(keys[0][1])} {xs('M/0/1')}")
    if flagged != REJECT:
        raise MachineryError("the flagged model of F08a does not reproduce the finding")
    rec.finding("F08a", not ok, w)


def replay(ctx, v):
    """re-execute one recorded violation exactly; True if it still violates"""
    case = v["case"]
    if "hist" in case:
        return impl_history(case["hist"])[case["step"]] != ctx.driver("drv_c08").one(model_line(case["request"]))
    line = case.get("line") or case.get("request")
    if line is not None:
        return impl_line(line) != ctx.driver("drv_c08").one(model_line(line))
    ok, _, _ = eval_pred(case["pred"], case)
    return not ok
