"""
C03 — secp256k1 group law and public-key encodings: correspondence between the Lean model
(lean/Buidl/Model/EC.lean; driver drv_c03) and buidl/pecc.py (FieldElement, Point, S256Field,
S256Point), plus the property predicates evaluated directly on the implementation: field axioms on
every small prime field (exhaustively), group axioms on every point pair of small curves, the
scalar-multiplication identities on secp256k1, encoding round trips and rejection of byte strings
that do not encode a curve point.

Structure (the pattern of harness/c19.py):
  impl_line(line)   evaluate one driver request line on the real code -> canonical answer
  PREDICATES[kind]  property predicates evaluated directly on the real code: case -> (ok, got, want)
  run(ctx)          generate request lines / predicate cases, run both sides, record
  replay(ctx, v)    re-execute one recorded violation exactly

Point tokens (see lean/Buidl/Drv/C03.lean): `inf` or `x y` in decimal.  Infinity on the real code
is S256Point(None, None) / Point(None, None, a, b).
"""
import random

from harness.common import REJECT, xb, unx, batch_parallel, pmap

PROPERTY = "C03"
DRIVERS = ["drv_c03"]
E = "buidl/pecc.py"
ANCHORS = [
    (E, "FieldElement.__init__"), (E, "FieldElement.__eq__"), (E, "FieldElement.__add__"),
    (E, "FieldElement.__sub__"), (E, "FieldElement.__mul__"), (E, "FieldElement.__pow__"),
    (E, "FieldElement.__truediv__"), (E, "FieldElement.__rmul__"),
    (E, "Point.__init__"), (E, "Point.__eq__"), (E, "Point.__add__"), (E, "Point.__rmul__"),
    (E, "A"), (E, "B"), (E, "P"), (E, "N"), (E, "G"),
    (E, "S256Field.__init__"), (E, "S256Field.sqrt"),
    (E, "S256Point.__init__"), (E, "S256Point.__eq__"), (E, "S256Point.__rmul__"), (E, "S256Point.__add__"),
    (E, "S256Point.even_point"), (E, "S256Point.sec"), (E, "S256Point.xonly"),
    (E, "S256Point.parse"), (E, "S256Point.parse_sec"), (E, "S256Point.parse_xonly"), (E, "S256Point.combine"),
]
RULE = ("generic classes: every prime 5 <= p <= 61 (thorough: <= 251), the curve y^2 = x^3 + 7 plus seeded random "
        "(a, b); all element pairs for the four field operations, all point pairs of y^2 = x^3 + 7 for p <= 61 and of every curve "
        "for p <= 31 (sampled pairs otherwise), scalar multiples around the group order; field / group axioms are evaluated on the "
        "real classes per field / per curve (one evaluation = one complete field or curve). secp256k1: fixed "
        "boundary catalogue of scalars (0, 1, n-1, n, n+1, negative, >= 2^256, ...) plus seeded random scalars; "
        "points kG; pairs incl. equal / opposite / infinity; encodings of random points and a malformed stream "
        "(every prefix byte, x >= p, non-residue x, wrong y, lengths 0/1/31/34/64/66; boundary x = 0..7, p-2..p+1, "
        "2^256-1 and boundary y incl. 0 for all three encodings with every prefix byte); S256Point.combine with list reuse"
        " / tuple argument / single element. A case is non-trivial "
        "unless all its operands are infinity / zero; distinct = distinct (operation, input) pairs")
CLAUSES = {
    "FieldElement + - * / ** are the field operations of ZMod p (every prime p)":
        "proved (powmod_spec, field_ops, field_div, field_div_mul, field_pow; pow_zero_observation records O03c)",
    "Point.__add__ is a commutative group law on every non-singular curve over every prime p > 3 (closure, "
    "associativity, commutativity, identity, inverses; infinity / opposite / chord / tangent / y = 0 cases)":
        "proved (add_closed, add_comm, add_assoc, add_inf, add_neg, add_double_y_zero, add_is_group_law, on_curve_iff)",
    "Point.__rmul__ is scalar multiplication; P + P = 2P":
        "proved (mul_is_smul, mul_add, mul_mul, double_eq_two_mul, mul_mod_order)",
    "results equal an independent implementation's": "proved: the model equals Mathlib's group law on "
        "WeierstrassCurve.Affine.Point (add_is_group_law, mul_is_smul); model tied to the code by correspondence",
    "secp256k1: P and N prime, curve non-singular, G on the curve of order exactly N": "proved (secp_setup, secp_scalar_inj)",
    "secp256k1: (a+b)G = aG + bG, a(bG) = (ab)G for all integers": "proved (secp_add_hom, secp_mul_assoc, secp_hom_tors)",
    "secp256k1: nQ = infinity, (k mod n)Q = kQ": "proved for Q in <G> (secp_order, secp_mod, secp_mod_nat); for arbitrary "
        "curve points the order needs the Hasse bound, which Mathlib lacks: correspondence-only there",
    "P + (-P) = infinity, P + P = 2P, P + int = P + int*G, group axioms of S256Point.__add__":
        "proved for every curve point (secp_add_neg, secp_double, secp_add_int, secp_add_group)",
    "x(-R) = x(R), parity of y flips, even_point": "proved (secp_neg_xy, secp_no_two_torsion, secp_even_point)",
    "SEC / x-only encodings round-trip for every point": "proved (sec_roundtrip, sec_defined, xonly_roundtrip, "
        "xonly_determines, sqrt_correct, constructor_check)",
    "byte strings that do not encode a curve point are rejected": "proved (parse_sound, parse_sound_coords, "
        "parse_sec_canonical, parse_xonly_canonical, parse_rejects_x_ge_p, parse_rejects_nonresidue, nonresidue_test, "
        "parse_prefix_length; parse_xonly_zero records O03d)",
}
TRUSTED = ["Mathlib's definition of the group law on WeierstrassCurve.Affine.Point is the specification of "
           "'the group law'"]
ASSUMPTIONS = ["Python's three-argument pow and int arithmetic behave as documented",
               "membership of arbitrary curve points in <G> (no Hasse bound in Mathlib): order statements are for "
               "points kG"]

P = 2**256 - 2**32 - 977
N = 0xFFFFFFFFFFFFFFFFFFFFFFFFFFFFFFFEBAAEDCE6AF48A03BBFD25E8CD0364141
GX = 0x79BE667EF9DCBBAC55A06295CE870B07029BFCDB2DCE28D959F2815B16F81798
GY = 0x483ADA7726A3C4655DA4FBFC0E1108A8FD17B448A68554199C47D08FFB10D4B8


class UnknownOp(Exception):
    pass


def primes_upto(lo, hi):
    return [n for n in range(max(lo, 2), hi + 1) if all(n % d for d in range(2, int(n**0.5) + 1))]


# --------------------------------------------------------------------------------- tokens
def pt_tok(pt):
    """token(s) of a Point / S256Point of the real code"""
    if pt.x is None:
        return "inf"
    return f"{pt.x.num} {pt.y.num}"


def c_tok(c):
    """token(s) of a coordinate pair (None = infinity)"""
    return "inf" if c is None else f"{c[0]} {c[1]}"


def take_pt(t, i):
    if t[i] == "inf":
        return None, i + 1
    return (int(t[i]), int(t[i + 1])), i + 2


# --------------------------------------------------------------------------------- implementation side
def _gpoint(c, p, a, b):
    from buidl.pecc import FieldElement, Point
    fa, fb = FieldElement(a, p), FieldElement(b, p)
    if c is None:
        return Point(None, None, fa, fb)
    return Point(FieldElement(c[0], p), FieldElement(c[1], p), fa, fb)


def _spoint(c):
    from buidl.pecc import S256Point
    if c is None:
        return S256Point(None, None)
    return S256Point(c[0], c[1])


def _derive_b(p, a, cs):
    """the b of the curve through the given affine points (0 if all are infinity)"""
    bs = {(c[1] * c[1] - c[0] ** 3 - a * c[0]) % p for c in cs if c is not None}
    if len(bs) > 1:
        raise ValueError("points on different curves")
    return bs.pop() if bs else 0


def _impl(t):
    from buidl.pecc import FieldElement, S256Point, S256Field

    op = t[0]
    if op in ("fadd", "fsub", "fmul", "fdiv"):
        p = int(t[1])
        x, y = FieldElement(int(t[2]), p), FieldElement(int(t[3]), p)
        r = {"fadd": lambda: x + y, "fsub": lambda: x - y, "fmul": lambda: x * y, "fdiv": lambda: x / y}[op]()
        assert isinstance(r, FieldElement) and r.prime == p
        return str(r.num)
    if op == "fpow":
        p = int(t[1])
        r = FieldElement(int(t[2]), p) ** int(t[3])
        return str(r.num)
    if op in ("padd", "paddc"):
        p, a = int(t[1]), int(t[2])
        i = 4 if op == "paddc" else 3
        c1, i = take_pt(t, i)
        c2, i = take_pt(t, i)
        b = int(t[3]) if op == "paddc" else _derive_b(p, a, [c1, c2])
        return pt_tok(_gpoint(c1, p, a, b) + _gpoint(c2, p, a, b))
    if op in ("pmul", "pmulc"):
        p, a = int(t[1]), int(t[2])
        if op == "pmulc":
            b, k, i = int(t[3]), int(t[4]), 5
            c, i = take_pt(t, i)
        else:
            k, i = int(t[3]), 4
            c, i = take_pt(t, i)
            b = _derive_b(p, a, [c])
        return pt_tok(k * _gpoint(c, p, a, b))
    if op == "oncurve":
        p, a, b = int(t[1]), int(t[2]), int(t[3])
        c, _ = take_pt(t, 4)
        try:
            _gpoint(c, p, a, b)
        except ValueError:
            return "0"
        return "1"
    if op == "smul":
        c, _ = take_pt(t, 2)
        return pt_tok(int(t[1]) * _spoint(c))
    if op == "sadd":
        c1, i = take_pt(t, 1)
        c2, i = take_pt(t, i)
        return pt_tok(_spoint(c1) + _spoint(c2))
    if op == "saddint":
        c, i = take_pt(t, 1)
        return pt_tok(_spoint(c) + int(t[i]))
    if op == "evenpoint":
        c, _ = take_pt(t, 1)
        return pt_tok(_spoint(c).even_point())
    if op == "mkpoint":
        return pt_tok(S256Point(int(t[1]), int(t[2])))
    if op == "sec":
        c, i = take_pt(t, 1)
        return xb(_spoint(c).sec(compressed=(t[i] == "1")))
    if op == "xonly":
        c, _ = take_pt(t, 1)
        return xb(_spoint(c).xonly())
    if op == "parse":
        return pt_tok(S256Point.parse(unx(t[1])))
    if op == "parsesec":
        return pt_tok(S256Point.parse_sec(unx(t[1])))
    if op == "parsexonly":
        return pt_tok(S256Point.parse_xonly(unx(t[1])))
    if op == "fsqrt":
        return str(S256Field(int(t[1])).sqrt().num)
    raise UnknownOp(op)


# a call of the real code that does not return (e.g. `while coef:` on a negative int) is a failure; once a
# call has hung in this process the limit drops, so that a broken tree is reported in minutes
CALL_TIMEOUT_S = [20.0, 4.0]
_hung = [False]


class _Timeout(Exception):
    pass


def _alarm(signum, frame):
    raise _Timeout()


def guarded(fn, *args):
    """run fn(*args) with a wall-clock limit; a hang of the real code becomes an exception (= REJECT)"""
    import signal
    import threading
    if threading.current_thread() is not threading.main_thread():
        return fn(*args)
    old = signal.signal(signal.SIGALRM, _alarm)
    signal.setitimer(signal.ITIMER_REAL, CALL_TIMEOUT_S[1] if _hung[0] else CALL_TIMEOUT_S[0])
    try:
        return fn(*args)
    except _Timeout:
        _hung[0] = True
        raise
    finally:
        signal.setitimer(signal.ITIMER_REAL, 0)
        signal.signal(signal.SIGALRM, old)


def impl_line(line):
    t = line.split(" ")
    try:
        return guarded(_impl, t)
    except UnknownOp:
        raise
    except Exception:
        return REJECT


def model_line(line):
    return line


# --------------------------------------------------------------------------------- direct predicates
def p_field_axioms(c):
    """all field axioms on F_p, evaluated on FieldElement: every pair, triples exhaustively for p <= 13
    and sampled above"""
    from buidl.pecc import FieldElement
    p = c["p"]
    F = [FieldElement(i, p) for i in range(p)]
    zero, one = F[0], F[1]

    def bad(what, *args):
        return False, f"{what} fails for {[x.num if isinstance(x, FieldElement) else x for x in args]}", "field axiom"

    for x in F:
        if not (x + zero == x and x * one == x and x - x == zero and x + (zero - x) == zero):
            return bad("identity/additive inverse", x)
        if x != zero and not (x * (one / x) == one and x / x == one and x ** (p - 1) == one and x ** -1 == one / x):
            return bad("multiplicative inverse/Fermat", x)
        acc = one
        for n in range(0, 2 * p + 1):
            if (x != zero or n % (p - 1) != 0 or n == 0) and x ** n != acc:   # O03c: 0 ** k(p-1) is 1 in the code
                return bad("power", x, n)
            acc = acc * x
        acc = zero
        for k in range(0, p + 2):
            if k * x != acc:
                return bad("integer multiple", k, x)
            acc = acc + x
        for y in F:
            s, m, d = x + y, x * y, x - y
            for r in (s, m, d):
                if not (isinstance(r, FieldElement) and r.prime == p and 0 <= r.num < p):
                    return bad("closure", x, y)
            if s != y + x or m != y * x:
                return bad("commutativity", x, y)
            if d != x + (zero - y) or d + y != x:
                return bad("subtraction", x, y)
            if s.num != (x.num + y.num) % p or m.num != (x.num * y.num) % p or d.num != (x.num - y.num) % p:
                return bad("value", x, y)
            if y != zero:
                q = x / y
                if q * y != x or not (0 <= q.num < p):
                    return bad("division", x, y)
    if p <= 13:
        triples = [(x, y, z) for x in F for y in F for z in F]
    else:
        r = random.Random(p)
        triples = [(r.choice(F), r.choice(F), r.choice(F)) for _ in range(4000)]
    for x, y, z in triples:
        if (x + y) + z != x + (y + z) or (x * y) * z != x * (y * z):
            return bad("associativity", x, y, z)
        if x * (y + z) != x * y + x * z:
            return bad("distributivity", x, y, z)
    return True, "ok", "ok"


def curve_points(p, a, b):
    sq = {}
    for y in range(p):
        sq.setdefault(y * y % p, []).append(y)
    return [None] + [(x, y) for x in range(p) for y in sq.get((x**3 + a * x + b) % p, [])]


def p_group_axioms(c):
    """group axioms on all points of a non-singular curve y^2 = x^3 + ax + b over F_p, evaluated on Point"""
    p, a, b = c["p"], c["a"], c["b"]
    cs = curve_points(p, a, b)
    pts = [_gpoint(x, p, a, b) for x in cs]
    inf = pts[0]
    n = len(pts)
    index = {pt_tok(q): i for i, q in enumerate(pts)}

    def bad(what, *args):
        return False, f"{what} fails for {[pt_tok(x) if hasattr(x, 'x') else x for x in args]}", "group axiom"

    table = [[None] * n for _ in range(n)]
    for i, x in enumerate(pts):
        if x + inf != x or inf + x != x:
            return bad("identity", x)
        neg = inf if x.x is None else _gpoint((x.x.num, (-x.y.num) % p), p, a, b)
        if x + neg != inf or neg + x != inf:
            return bad("inverse", x)
        for j, y in enumerate(pts):
            try:
                s = x + y
            except Exception as e:
                return bad("closure (raised " + type(e).__name__ + ")", x, y)
            k = index.get(pt_tok(s))
            if k is None:
                return bad("closure", x, y)
            table[i][j] = k
    for i in range(n):
        for j in range(n):
            if table[i][j] != table[j][i]:
                return bad("commutativity", pts[i], pts[j])
    if n <= 24:
        triples = [(i, j, k) for i in range(n) for j in range(n) for k in range(n)]
    else:
        r = random.Random(p * 1000003 + a * 1009 + b)
        triples = [(r.randrange(n), r.randrange(n), r.randrange(n)) for _ in range(6000)]
    for i, j, k in triples:
        if table[table[i][j]][k] != table[i][table[j][k]]:
            return bad("associativity", pts[i], pts[j], pts[k])
    # scalar multiplication = repeated addition; P + P = 2P; the group order annihilates every point
    for i, x in enumerate(pts):
        acc = 0
        for k in range(0, n + 3):
            got = index.get(pt_tok(k * x))
            if got != acc:
                return bad("k*P = P+...+P", k, x)
            acc = table[acc][i]
        if index.get(pt_tok(2 * x)) != table[i][i]:
            return bad("P+P = 2P", x)
        if (n * x) != inf:
            return bad("order", n, x)
    return True, f"ok ({n} points)", "ok"


def _sG():
    from buidl.pecc import G
    return G


def _eq_pt(x, y):
    return pt_tok(x) == pt_tok(y)


def p_s_add_hom(c):
    G = _sG()
    a, b = c["a"], c["b"]
    got, want = (a + b) * G, a * G + b * G
    return _eq_pt(got, want), pt_tok(got), pt_tok(want)


def p_s_mul_assoc(c):
    G = _sG()
    a, b = c["a"], c["b"]
    got, want = a * (b * G), (a * b) * G
    return _eq_pt(got, want), pt_tok(got), pt_tok(want)


def p_s_order(c):
    """nQ = infinity and (k mod n)Q = kQ"""
    G = _sG()
    Q = c["j"] * G
    k = c["k"]
    r1 = N * Q
    a, b = (k % N) * Q, k * Q
    ok = r1.x is None and _eq_pt(a, b)
    return ok, [pt_tok(r1), pt_tok(a)], ["inf", pt_tok(b)]


def p_s_neg_double(c):
    """P + (-P) = infinity, (-1)P = (x, p - y), P + P = 2P"""
    from buidl.pecc import S256Point
    G = _sG()
    Q = c["k"] * G
    if Q.x is None:
        d = Q + Q
        return d.x is None, pt_tok(d), "inf"
    neg = S256Point(Q.x.num, (P - Q.y.num) % P)
    s, m, d, t = Q + neg, -1 * Q, Q + Q, 2 * Q
    ok = s.x is None and _eq_pt(m, neg) and _eq_pt(d, t) and (neg + Q).x is None
    return ok, [pt_tok(s), pt_tok(m), pt_tok(d)], ["inf", pt_tok(neg), pt_tok(t)]


def p_s_add_int(c):
    G = _sG()
    Q = c["k"] * G
    got, want = Q + c["j"], Q + c["j"] * G
    return _eq_pt(got, want), pt_tok(got), pt_tok(want)


def p_enc_roundtrip(c):
    """compressed / uncompressed / x-only encodings round trip (x-only to the even-y representative)"""
    from buidl.pecc import S256Point
    G = _sG()
    Q = c["k"] * G
    if Q.x is None:
        r = S256Point.parse(Q.xonly())
        return r.x is None, pt_tok(r), "inf"
    r1 = S256Point.parse(Q.sec(True))
    r2 = S256Point.parse(Q.sec(False))
    r3 = S256Point.parse(Q.xonly())
    r4 = S256Point.parse_sec(Q.sec(True))
    r5 = S256Point.parse_xonly(Q.xonly())
    ev = Q.even_point()
    even_ok = ev.y.num % 2 == 0 and ev.x.num == Q.x.num and (ev.y.num == Q.y.num or ev.y.num == P - Q.y.num)
    ok = all(_eq_pt(r, Q) for r in (r1, r2, r4)) and _eq_pt(r3, ev) and _eq_pt(r5, ev) and even_ok \
        and len(Q.sec(True)) == 33 and len(Q.sec(False)) == 65 and len(Q.xonly()) == 32
    return ok, [pt_tok(r) for r in (r1, r2, r3)], [pt_tok(Q), pt_tok(Q), pt_tok(ev)]


def _parse_any(raw):
    """every parser that takes this input; returns the accepted points"""
    from buidl.pecc import S256Point
    acc = []
    fns = [S256Point.parse]
    if len(raw) != 32:
        fns.append(S256Point.parse_sec)
    for fn in fns:
        try:
            acc.append(pt_tok(fn(raw)))
        except Exception:
            pass
    return acc


def p_must_reject(c):
    """a byte string that does not encode a curve point must be refused"""
    acc = _parse_any(unx(c["b"]))
    return not acc, acc or REJECT, REJECT


def p_parsed_is_valid(c):
    """whatever parse accepts is a curve point with coordinates < p (checked with plain integers)"""
    for tok in _parse_any(unx(c["b"])):
        if tok == "inf":
            if unx(c["b"]) != b"\x00" * 32:
                return False, tok, "a curve point or REJECT"
            continue
        x, y = (int(v) for v in tok.split(" "))
        if not (0 <= x < P and 0 <= y < P and (y * y - x**3 - 7) % P == 0):
            return False, tok, "a curve point or REJECT"
    return True, "ok", "ok"


def p_combine(c):
    """S256Point.combine(points) is the sum of the points (left fold of +, itself compared with the model), does not
    modify its argument, gives the same answer when called again on the same list, and accepts a tuple"""
    from buidl.pecc import S256Point
    G = _sG()
    pts = [k * G for k in c["ks"]]
    want = pts[0]
    for q in pts[1:]:
        want = want + q
    lst = list(pts)
    before = [pt_tok(q) for q in lst]
    r1 = S256Point.combine(lst)
    after = [pt_tok(q) for q in lst]
    r2 = S256Point.combine(lst)
    r3 = S256Point.combine(tuple(pts))
    ok = _eq_pt(r1, want) and _eq_pt(r2, want) and _eq_pt(r3, want) and after == before and len(lst) == len(pts)
    return ok, [pt_tok(r1), pt_tok(r2), pt_tok(r3), len(after)], [pt_tok(want)] * 3 + [len(before)]


PREDICATES = {"field_axioms": p_field_axioms, "group_axioms": p_group_axioms, "combine": p_combine,
              "secp_add_hom": p_s_add_hom, "secp_mul_assoc": p_s_mul_assoc, "secp_order": p_s_order,
              "secp_neg_double": p_s_neg_double, "secp_add_int": p_s_add_int,
              "enc_roundtrip": p_enc_roundtrip, "must_reject": p_must_reject, "parsed_is_valid": p_parsed_is_valid}


def eval_pred(kind, case):
    try:
        return guarded(PREDICATES[kind], case) if kind not in ("field_axioms", "group_axioms") else PREDICATES[kind](case)
    except Exception as e:
        return False, "raised " + type(e).__name__, "no exception"


def _eval_pred_pair(kc):
    return eval_pred(kc[0], kc[1])


# --------------------------------------------------------------------------------- known findings
def f03a_reproduces():
    """parse_sec accepted a wrong prefix byte (05‖x) or a 65-byte string with prefix 02"""
    from buidl.pecc import S256Point
    x = GX.to_bytes(32, "big")
    wit = [bytes([5]) + x, bytes([2]) + x + GY.to_bytes(32, "big")]
    for w in wit:
        try:
            S256Point.parse_sec(w)
            return True, xb(w)
        except Exception:
            pass
    return False, xb(wit[0])


def f03b_reproduces():
    """doubling the order-two point (2, 0) of y^2 = x^3 + x over F_5 must give infinity"""
    try:
        q = _gpoint((2, 0), 5, 1, 0)
        r = q + q
        return r.x is not None, "Point(2,0) on y^2=x^3+x over F_5: P+P -> " + pt_tok(r)
    except Exception as e:
        return True, "Point(2,0) on y^2=x^3+x over F_5: P+P raised " + type(e).__name__


# --------------------------------------------------------------------------------- generation
def scalar_catalogue():
    return [0, 1, 2, 3, N - 2, N - 1, N, N + 1, N + 2, 2 * N - 1, 2 * N, 2 * N + 1, -1, -2, -(N - 1), -N, -(N + 1),
            -(2**256), (N - 1) // 2, (N + 1) // 2, P - 1, P, P + 1, 2**255, 2**256 - 1, 2**256, 2**256 + 1,
            2**257 + 12345, 2**512 + 1, -(2**300) - 7, 3 * N + 5, N * N, N * N - 1]


def is_residue(v):
    v %= P
    return v == 0 or pow(v, (P - 1) // 2, P) == 1


def run(ctx):
    rng, rec = ctx.rng, ctx.rec
    drv = ctx.driver("drv_c03")
    lines = []   # (kind, request line, nontrivial)
    preds = []   # (kind, case)

    # ---- known findings: replayed on every run (a reappearance is a regression)
    for fid, fn in (("F03a", f03a_reproduces), ("F03b", f03b_reproduces)):
        rep, wit = fn()
        rec.finding(fid, rep, wit)

    # ---- generic FieldElement / Point on small primes
    pmax = 251 if ctx.thorough else 61
    all_pairs_max = 61
    primes = primes_upto(5, pmax)
    n_curves = 0
    for p in primes:
        preds.append(("field_axioms", {"p": p}))
        if p <= all_pairs_max:
            pairs = [(x, y) for x in range(p) for y in range(p)]
        else:
            pairs = [(rng.randrange(p), rng.randrange(p)) for _ in range(1500)] + [(x, 0) for x in range(0, p, 7)]
        for x, y in pairs:
            for op in ("fadd", "fsub", "fmul", "fdiv"):
                lines.append((op, f"{op} {p} {x} {y}", True))
        exps = [0, 1, 2, 3, p - 2, p - 1, p, 2 * (p - 1), 2 * p - 1] + [rng.randrange(10**6) for _ in range(3)]
        for x in range(p):
            for n in exps:
                lines.append(("fpow", f"fpow {p} {x} {n}", True))
        # curves: y^2 = x^3 + 7 and random (a, b); group axioms only where the curve is non-singular
        curves = [(0, 7 % p)]
        while len(curves) < (4 if p <= all_pairs_max else 3):
            ab = (rng.randrange(p), rng.randrange(p))
            if ab not in curves:
                curves.append(ab)
        for a, b in curves:
            n_curves += 1
            nonsing = (4 * a**3 + 27 * b * b) % p != 0
            if nonsing:
                preds.append(("group_axioms", {"p": p, "a": a, "b": b}))
            cs = curve_points(p, a, b)
            if p <= 31 or (p <= all_pairs_max and (a, b) == curves[0]):
                ppairs = [(c1, c2) for c1 in cs for c2 in cs]
            else:
                ppairs = [(rng.choice(cs), rng.choice(cs)) for _ in range(600)]
                ppairs += [(c1, c1) for c1 in cs[:40]] + [(c1, None) for c1 in cs[:5]] + [(None, c1) for c1 in cs[:5]]
                ppairs += [(c1, (c1[0], (-c1[1]) % p)) for c1 in cs[1:40]]
            for c1, c2 in ppairs:
                lines.append(("paddc", f"paddc {p} {a} {b} {c_tok(c1)} {c_tok(c2)}", not (c1 is None and c2 is None)))
            for c1, c2 in ppairs[:: max(1, len(ppairs) // 40)]:
                lines.append(("padd", f"padd {p} {a} {c_tok(c1)} {c_tok(c2)}", not (c1 is None and c2 is None)))
            n = len(cs)
            ks = [0, 1, 2, 3, n - 1, n, n + 1, 2 * n, 2 * n + 1] + [rng.randrange(4 * n + 4) for _ in range(3)] + [rng.getrandbits(40)]
            for c1 in (cs if p <= 31 else [rng.choice(cs) for _ in range(12)] + [None]):
                for k in ks:
                    lines.append(("pmulc", f"pmulc {p} {a} {b} {k} {c_tok(c1)}", c1 is not None and k != 0))
            lines.append(("pmul", f"pmul {p} {a} {ks[-1]} {c_tok(cs[-1])}", True))
            if p <= 31 or (a, b) == curves[0]:
                cand = [(x, y) for x in range(p) for y in range(p)] if p <= 31 else \
                    [(rng.randrange(p), rng.randrange(p)) for _ in range(200)]
                for c1 in cand:
                    lines.append(("oncurve", f"oncurve {p} {a} {b} {c_tok(c1)}", True))
            lines.append(("oncurve", f"oncurve {p} {a} {b} inf", False))
    rec.note(f"generic classes: {len(primes)} prime fields 5..{pmax}, {n_curves} curves; all element pairs enumerated for "
             f"p <= {all_pairs_max}; all point pairs for y^2 = x^3 + 7 with p <= {all_pairs_max} and for every curve with "
             f"p <= 31; group axioms evaluated on all points of every non-singular curve")

    # ---- secp256k1
    cat = scalar_catalogue()
    rnd_scalars = [rng.getrandbits(256) for _ in range(ctx.n(120, 1200))] + \
                  [rng.getrandbits(rng.choice([8, 64, 128, 255, 257, 300, 520])) for _ in range(ctx.n(40, 400))] + \
                  [-rng.getrandbits(rng.choice([8, 200, 256, 300])) for _ in range(ctx.n(20, 200))]
    scalars = cat + rnd_scalars
    gtok = f"{GX} {GY}"
    # points kG
    pk = [1, 2, 3, N - 1, N - 2, (N - 1) // 2, (N + 1) // 2] + [rng.randrange(1, N) for _ in range(ctx.n(50, 240))]
    # (computed by the model, so that the test points do not depend on the code under test)
    coords = [take_pt(ans.split(" "), 0)[0] for ans in batch_parallel(drv, [f"smul {k} {gtok}" for k in pk], workers=ctx.workers)]
    pts = [None] + coords
    negs = [None if c is None else (c[0], P - c[1]) for c in pts]
    for k in scalars:
        lines.append(("smul", f"smul {k} {gtok}", k % N != 0))
    for i, c in enumerate(pts[: ctx.n(14, 60)]):
        for k in cat[:: 3] + [rng.choice(rnd_scalars) for _ in range(ctx.n(3, 6))]:
            lines.append(("smul", f"smul {k} {c_tok(c)}", c is not None and k % N != 0))
    sel = pts[: ctx.n(12, 40)]
    for i, c1 in enumerate(sel):
        lines.append(("sadd", f"sadd {c_tok(c1)} {c_tok(c1)}", c1 is not None))            # equal
        lines.append(("sadd", f"sadd {c_tok(c1)} {c_tok(negs[i])}", c1 is not None))       # opposite
        lines.append(("sadd", f"sadd {c_tok(c1)} inf", c1 is not None))
        lines.append(("sadd", f"sadd inf {c_tok(c1)}", c1 is not None))
        for c2 in sel:
            lines.append(("sadd", f"sadd {c_tok(c1)} {c_tok(c2)}", not (c1 is None and c2 is None)))
    for _ in range(ctx.n(300, 3000)):
        c1, c2 = rng.choice(pts), rng.choice(pts + negs)
        lines.append(("sadd", f"sadd {c_tok(c1)} {c_tok(c2)}", not (c1 is None and c2 is None)))
    for c in pts[: ctx.n(10, 40)]:
        for k in cat[:: 4] + [rng.choice(rnd_scalars)]:
            lines.append(("saddint", f"saddint {c_tok(c)} {k}", True))
    # int operands around both moduli (the coefficient is reduced mod N, never mod P), negative and huge ones
    tcat = [0, 1, 2, N - 1, N, N + 1, P - 1, P, P + 1, P + N, 2 * P, 2**256 - 1, 2**256, 2**256 + 1, -1, -2, -N, -P,
            -(P + 1), -(2**256), P - N, N - P]
    for c in pts[: ctx.n(4, 12)]:
        for k in tcat:
            lines.append(("saddint", f"saddint {c_tok(c)} {k}", True))
            preds.append(("secp_add_int", {"k": 0 if c is None else pk[pts.index(c) - 1], "j": k}))
    # S256Point.combine: list reuse, tuple argument, single element, infinity and opposite points inside
    for ks in ([1], [0], [1, 2], [1, N - 1], [0, 5, 0], [3, 3, 3], [N - 1, 1, 7], [5, N - 5, 0, 9]):
        preds.append(("combine", {"ks": ks}))
    for _ in range(ctx.n(15, 150)):
        preds.append(("combine", {"ks": [rng.choice(scalars) for _ in range(rng.randrange(1, 6))]}))
    for c in pts + negs[1:]:
        if c is not None:
            lines.append(("evenpoint", f"evenpoint {c_tok(c)}", True))
        lines.append(("sec", f"sec {c_tok(c)} 1", c is not None))
        lines.append(("sec", f"sec {c_tok(c)} 0", c is not None))
        lines.append(("xonly", f"xonly {c_tok(c)}", c is not None))
    # constructor: on-curve, off-curve, out-of-range coordinates
    for c in pts[1: ctx.n(12, 60)]:
        x, y = c
        for xx, yy in ((x, y), (x, P - y), (x, (y + 1) % P), ((x + 1) % P, y), (x + P, y), (x, y + P), (P, y), (x, P),
                       (0, 0), (2**256 - 1, y)):
            lines.append(("mkpoint", f"mkpoint {xx} {yy}", True))
    # square roots
    for _ in range(ctx.n(200, 2000)):
        v = rng.randrange(P)
        lines.append(("fsqrt", f"fsqrt {v}", True))
        lines.append(("fsqrt", f"fsqrt {v * v % P}", True))
    for v in (0, 1, 2, 3, 4, 7, P - 1, P - 2):
        lines.append(("fsqrt", f"fsqrt {v}", True))

    # identities on the real code
    ident = [(a, b) for a in cat[:12] for b in (cat[3], cat[5], cat[12])]
    ident += [(rng.choice(scalars), rng.choice(scalars)) for _ in range(ctx.n(150, 2000))]
    ident += [(a, N - a) for a in (1, 2, rng.randrange(N))] + [(a, -a) for a in (1, rng.randrange(N))]
    for a, b in ident:
        preds.append(("secp_add_hom", {"a": a, "b": b}))
    for a, b in ident[:: 2]:
        preds.append(("secp_mul_assoc", {"a": a, "b": b}))
    for k in cat + [rng.choice(rnd_scalars) for _ in range(ctx.n(60, 600))]:
        preds.append(("secp_order", {"k": k, "j": rng.choice(pk)}))
        preds.append(("secp_neg_double", {"k": k}))
    for _ in range(ctx.n(100, 1000)):
        preds.append(("secp_add_int", {"k": rng.choice(scalars), "j": rng.choice(scalars)}))
    for k in cat + [rng.randrange(N) for _ in range(ctx.n(300, 4000))]:
        preds.append(("enc_roundtrip", {"k": k}))

    # encodings and the malformed stream
    def be32(v):
        return (v % 2**256).to_bytes(32, "big")

    good = []
    for c in pts[1:] + negs[1:]:
        x, y = c
        good += [bytes([2 + (y & 1)]) + be32(x), bytes([4]) + be32(x) + be32(y), be32(x)]
    bad = []   # (bytes, why) — must be rejected

    def nonres_x():
        while True:
            x = rng.randrange(1, P)
            if not is_residue(x**3 + 7):
                return x

    for c in pts[1: ctx.n(8, 40)]:
        x, y = c
        for pre in range(256):
            s33 = bytes([pre]) + be32(x)
            if pre not in (2, 3):
                bad.append((s33, f"33 bytes with prefix {pre:02x}"))
        for pre in (0, 1, 2, 3, 5, 6, 7, 0xFF):
            bad.append((bytes([pre]) + be32(x) + be32(y), f"65 bytes with prefix {pre:02x}"))
        for wy, why in ((y ^ 1, "wrong y (bit flipped)"), ((y + 1) % P, "wrong y (+1)"), (y + P if y + P < 2**256 else P, "y >= p")):
            bad.append((bytes([4]) + be32(x) + be32(wy), "65 bytes, " + why))
        bad.append((bytes([4]) + be32((x + 1) % P) + be32(y), "65 bytes, wrong x"))
        if x + P < 2**256:
            bad.append((bytes([4]) + be32(x + P) + be32(y), "65 bytes, x >= p"))
            bad.append((bytes([2]) + be32(x + P), "33 bytes, x >= p (x + p)"))
            bad.append((be32(x + P), "32 bytes, x >= p (x + p)"))
        enc33, enc65 = bytes([2 + (y & 1)]) + be32(x), bytes([4]) + be32(x) + be32(y)
        for raw, why in ((enc33[:31], "length 31"), (enc33 + b"\x00", "length 34"), (enc65[:64], "length 64"),
                         (enc65 + b"\x00", "length 66"), (enc33[:1], "length 1"), (enc65[:34], "length 34 of uncompressed"),
                         (enc33[1:32], "length 31 of x")):
            bad.append((raw, why))
    bad.append((b"", "empty"))
    # boundary abscissae for every encoding and every prefix byte: x = 0, 1, 2, 3, p-1, p, p+1, 2^256-1 (and y = 0 /
    # boundary y for the 65-byte form).  33 / 65 bytes: must be rejected unless (x, y) is a curve point (x = 0 never
    # is: 7 is a non-residue; y = 0 never is: -7 is not a cube); 32 bytes: compared with the model (all-zero is the
    # point at infinity by design, O03d)
    bxs = [0, 1, 2, 3, 4, 5, 6, 7, P - 1, P - 2, P, P + 1, 2**256 - 1]
    boundary_streams = []

    def lift(xv):
        """(x, y) on the curve for this x, if any (plain integers)"""
        if xv >= P:
            return None
        cc = (xv**3 + 7) % P
        yv = pow(cc, (P + 1) // 4, P)
        return (xv, yv) if yv * yv % P == cc and yv != 0 else None

    for xv in bxs:
        onc = lift(xv)
        boundary_streams.append(be32(xv))
        if onc is None and xv != 0:
            bad.append((be32(xv), f"32 bytes, boundary x = {xv if xv < 8 else hex(xv)} is not an abscissa"))
        for pre in range(256):
            raw = bytes([pre]) + be32(xv)
            boundary_streams.append(raw)
            if not (pre in (2, 3) and onc is not None):
                bad.append((raw, f"33 bytes, prefix {pre:02x}, boundary x = {xv if xv < 8 else hex(xv)}"))
        ys = [0, 1, 2, P - 1, P, 2**256 - 1, GY] + ([onc[1], P - onc[1], onc[1] ^ 1] if onc else [])
        for yv in ys:
            for pre in (0, 2, 3, 4, 5, 6, 7, 0xFF):
                raw = bytes([pre]) + be32(xv) + be32(yv)
                boundary_streams.append(raw)
                if not (pre == 4 and onc is not None and yv in (onc[1], P - onc[1])):
                    bad.append((raw, f"65 bytes, prefix {pre:02x}, boundary x, y = {yv if yv < 8 else hex(yv)}"))
    for c in pts[1: ctx.n(4, 12)]:          # y = 0 / boundary y with a genuine abscissa
        for yv in (0, 1, P, 2**256 - 1):
            bad.append((bytes([4]) + be32(c[0]) + be32(yv), f"65 bytes, genuine x, y = {yv if yv < 8 else hex(yv)}"))
    for xg in (P, P + 1, P + 2, 2**256 - 1, 2**256 - 2):
        for pre in (2, 3):
            bad.append((bytes([pre]) + be32(xg), "33 bytes, x >= p"))
        bad.append((be32(xg), "32 bytes, x >= p"))
        bad.append((bytes([4]) + be32(xg) + be32(GY), "65 bytes, x >= p"))
    for _ in range(ctx.n(150, 1500)):
        x = nonres_x()
        bad.append((bytes([rng.choice([2, 3])]) + be32(x), "33 bytes, x^3+7 is a non-residue"))
        bad.append((be32(x), "32 bytes, x^3+7 is a non-residue"))
    streams = list(good) + [b for b, _ in bad] + [b"\x00" * 32, b"\x00" * 33, b"\x00" * 65, b"\x04" + b"\x00" * 64]
    streams += boundary_streams
    for _ in range(ctx.n(600, 6000)):
        ln = rng.choice([32, 33, 33, 65, 65, rng.choice([0, 1, 31, 34, 64, 66])])
        raw = bytearray(rng.getrandbits(8 * ln).to_bytes(ln, "big")) if ln else bytearray()
        if ln in (33, 65) and rng.random() < 0.8:
            raw[0] = rng.choice([2, 3, 4] if ln == 33 else [4, 4, 2])
        streams.append(bytes(raw))
    for g in good[: ctx.n(30, 90)]:    # single-bit corruptions of valid encodings
        for _ in range(4):
            raw = bytearray(g)
            raw[rng.randrange(len(raw))] ^= 1 << rng.randrange(8)
            streams.append(bytes(raw))
    for raw in streams:
        lines.append(("parse", f"parse {xb(raw)}", len(raw) > 0))
        preds.append(("parsed_is_valid", {"b": xb(raw)}))
        if len(raw) != 32:
            lines.append(("parsesec", f"parsesec {xb(raw)}", len(raw) > 0))
        if len(raw) in (32, 33):
            lines.append(("parsexonly", f"parsexonly {xb(raw[-32:])}", True))
    for raw, why in bad:
        preds.append(("must_reject", {"b": xb(raw), "why": why}))

    # ---- run both sides (implementation spread over the cores: scalar multiplication is 17-45 ms)
    # (requests are dealt out in a seeded random order so that the expensive secp256k1 lines are spread evenly)
    reqs = [l for _, l, _ in lines]
    order = list(range(len(reqs)))
    random.Random(f"C03-order:{ctx.seed}").shuffle(order)
    shuffled = [reqs[i] for i in order]
    ans_s = batch_parallel(drv, [model_line(l) for l in shuffled], workers=ctx.workers)
    imp_s = pmap(impl_line, shuffled, workers=ctx.workers)
    answers, impls = [None] * len(reqs), [None] * len(reqs)
    for pos, i in enumerate(order):
        answers[i], impls[i] = ans_s[pos], imp_s[pos]
    for (kind, line, nontriv), model, impl in zip(lines, answers, impls):
        if rec.compare(kind, {"line": line}, impl, model, determined=True, key=line[:300], nontrivial=nontriv):
            rec.sample(kind, {"request": line[:200], "answer": model[:200]})
        if impl == REJECT:
            rec.count(kind + ":reject")
    heavy = {"group_axioms": 0, "field_axioms": 1}
    preds.sort(key=lambda kc: (heavy.get(kc[0], 2), -kc[1].get("p", 0)))   # stable: long-running cases first
    results = pmap(_eval_pred_pair, preds, workers=ctx.workers, chunksize=1)
    for (kind, case), (ok, got, want) in zip(preds, results):
        if ok:
            rec.ok(kind, repr(case)[:300])
            rec.sample(kind, dict(case, result=got), limit=1)
        else:
            rec.violation(kind, dict(case, pred=kind), got, want, note=case.get("why", ""))


def replay(ctx, v):
    """re-execute one recorded violation exactly; True if it still violates"""
    case = v["case"]
    if isinstance(case, str) or v.get("kind", "").startswith("regression:"):
        fid = v.get("finding")
        fn = {"F03a": f03a_reproduces, "F03b": f03b_reproduces}.get(fid)
        return fn()[0] if fn else True
    if "line" in case:
        return impl_line(case["line"]) != ctx.driver("drv_c03").one(model_line(case["line"]))
    ok, _, _ = eval_pred(case["pred"], {k: w for k, w in case.items() if k != "pred"})
    return not ok
