#!/bin/bash
# tools/seedtest.sh <Cxx> <patch.diff> [tier] [seed] [demo.py]
# Runs ./check Cxx against a scratch worktree of /repo with the patch applied, from an isolated
# copy of /verif (check regenerates lean/Buidl/Gen from the tree it is pointed at, so the copy
# keeps /verif's own build and evidence untouched). Prints the summary + VIOLATION lines and
# "SEEDTEST exit=<n>"; removes the worktree and the copy afterwards.
set -u
P="$1"; PATCH="$(readlink -f "$2")"; TIER="${3:-quick}"; SEED="${4:-0}"; DEMO="${5:-}"
[ -n "$DEMO" ] && DEMO="$(readlink -f "$DEMO")"
VERIF="$(cd "$(dirname "$0")/.." && pwd)"
T="$(mktemp -d /tmp/seedtest.XXXXXX)"
cleanup() { git -C /repo worktree remove --force "$T/repo" >/dev/null 2>&1; rm -rf "$T"; git -C /repo worktree prune; }
trap cleanup EXIT
git -C /repo worktree add --detach "$T/repo" HEAD >/dev/null 2>&1 || { echo "SEEDTEST worktree-failed"; exit 3; }
if [ -n "$DEMO" ]; then (cd "$T/repo" && timeout 900 /venv/bin/python "$DEMO" > "$T/demo_clean.log" 2>&1); dc=$?; fi
if ! git -C "$T/repo" apply "$PATCH"; then echo "SEEDTEST patch-does-not-apply"; exit 3; fi
if [ -n "$DEMO" ]; then (cd "$T/repo" && timeout 900 /venv/bin/python "$DEMO" > "$T/demo_patched.log" 2>&1); dp=$?
  echo "DEMO clean=$dc patched=$dp :: $(tail -1 "$T/demo_patched.log" | cut -c1-200)"; fi
rsync -a --exclude .git --exclude replays --exclude seeded --exclude refactors "$VERIF/" "$T/verif/"
cd "$T/verif"
VERIF_REPO="$T/repo" VERIF_SEED="$SEED" ./check "$P" --tier "$TIER" > "$T/out.log" 2>&1
rc=$?
grep -E "^(VIOLATION|KNOWN-FINDING|$P (quick|thorough))" "$T/out.log" | head -12
python3 - "$T/verif" "$T/out.log" <<'EOF'
import json, sys, glob, os, re
v, log = sys.argv[1], open(sys.argv[2]).read()
kinds = set()
for m in re.finditer(r"replay=(\S+)", log):
    f = os.path.join(v, m.group(1))
    if os.path.exists(f):
        try:
            d = json.load(open(f))
            kinds.add(str(d.get("violation", {}).get("kind") or d.get("kind")))
        except Exception:
            pass
print("KINDS", sorted(kinds))
EOF
[ "$rc" -ne 0 ] && [ "$rc" -ne 1 ] && tail -25 "$T/out.log"
echo "SEEDTEST exit=$rc"
exit $rc
