#!/bin/bash
# tools/seedbatch.sh <outdir-with-<Cxx>-<tag>/{patch.diff,demo.py}> <resdir> <parallel> [names...]
OUT="$1"; RES="$2"; PAR="$3"; shift 3
mkdir -p "$RES"
HERE="$(cd "$(dirname "$0")" && pwd)"
if [ $# -gt 0 ]; then names="$*"; else names="$(ls "$OUT")"; fi
for s in $names; do echo "$s"; done | xargs -P "$PAR" -I{} bash -c \
  'p=$(echo {} | cut -d- -f1); bash '"$HERE"'/seedtest.sh $p '"$OUT"'/{}/patch.diff quick 0 '"$OUT"'/{}/demo.py > '"$RES"'/{}.txt 2>&1'
