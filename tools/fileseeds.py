#!/usr/bin/env python3
"""tools/fileseeds.py <outdir> <resdir> : file evaluated seeded changes under /verif/seeded/<Cxx>-m<K>/
(patch.diff, demo.py, meta.json with the agent's own meta + what seedtest.sh observed) and refresh seeded/RESULTS.json"""
import json, os, re, shutil, sys
out, res = sys.argv[1], sys.argv[2]
res2 = sys.argv[3] if len(sys.argv) > 3 else None      # re-runs after the checks were strengthened
V = os.path.dirname(os.path.dirname(os.path.abspath(__file__)))
S = os.path.join(V, "seeded")
TAG = {"a": 10, "b": 11}
for name in sorted(os.listdir(out)):
    rf = os.path.join(res, name + ".txt")
    if not os.path.exists(rf):
        continue
    txt = open(rf).read()
    m = re.search(r"SEEDTEST exit=(\d+)", txt)
    if not m:
        continue
    first = None
    rf2 = os.path.join(res2, name + ".txt") if res2 else None
    if rf2 and os.path.exists(rf2) and re.search(r"SEEDTEST exit=(\d+)", open(rf2).read()):
        s1 = re.search(r"^C\d\d quick.*$", txt, re.M)
        first = {"exit": m.group(1), "summary": s1.group(0) if s1 else "",
                 "no_failing_input_found": "no-failing-input-found" in txt}
        txt = open(rf2).read()
        m = re.search(r"SEEDTEST exit=(\d+)", txt)
    prop, tag = name.split("-")
    dst = os.path.join(S, f"{prop}-m{TAG[tag]}")
    os.makedirs(dst, exist_ok=True)
    for f in ("patch.diff", "demo.py"):
        shutil.copy(os.path.join(out, name, f), os.path.join(dst, f))
    try:
        meta = json.load(open(os.path.join(out, name, "meta.json")))
    except Exception as e:
        meta = {"property": prop, "note": f"agent meta.json unreadable: {e}"}
    demo = re.search(r"DEMO clean=(\d+) patched=(\d+) :: (.*)", txt)
    summ = re.search(r"^C\d\d quick.*$", txt, re.M)
    viol = re.findall(r"^VIOLATION.*$", txt, re.M)
    km = re.search(r"^KINDS (\[.*\])$", txt, re.M)
    kinds = [k for k in (eval(km.group(1)) if km else []) if k != "input"]
    meta["origin"] = "round 5: written by a fresh sub-agent that saw only the property text and a scratch worktree"
    meta["reconfirmed"] = {"demo_on_clean_worktree": f"exit {demo.group(1)}" if demo else "not run",
                           "demo_with_patch": (f"exit {demo.group(2)}: {demo.group(3)[:300]}" if demo else "not run")}
    meta["check_result"] = {
        "cmd": f"tools/seedtest.sh {prop} patch.diff quick 0 demo.py  (isolated copy of /verif, VERIF_REPO = worktree of /repo "
               "with patch.diff applied)",
        "exit": m.group(1), "violation_lines": viol[:6], "violation_kinds": kinds,
        "no_failing_input_found": any("no-failing-input-found" in v for v in viol),
        "detected": m.group(1) == "1" and bool(viol), "summary": summ.group(0) if summ else ""}
    if first:
        meta["history"] = {"first_run_before_strengthening": first,
                           "note": "the check was strengthened (DESIGN.md section 16.3) and the seed re-run; check_result is the re-run"}
    json.dump(meta, open(os.path.join(dst, "meta.json"), "w"), indent=1)
    print(name, "->", os.path.basename(dst), "exit", m.group(1), "detected" if meta["check_result"]["detected"] else "MISSED")
# RESULTS.json: one line per seed
RJ = os.path.join(S, "RESULTS.json")
rows = json.load(open(RJ)) if os.path.exists(RJ) else {}
for d in sorted(os.listdir(S)):
    if d in rows and "summary" not in rows[d]:
        continue        # filed by an earlier round: keep its entry
    mf = os.path.join(S, d, "meta.json")
    if os.path.exists(mf):
        try:
            cr = json.load(open(mf)).get("check_result", {})
            rows[d] = {"detected": cr.get("detected"), "kinds": cr.get("violation_kinds", []), "exit": cr.get("exit"),
                       "summary": cr.get("summary", "")[:160]}
        except Exception:
            pass
json.dump(rows, open(RJ, "w"), indent=1)
print(len(rows), "seeds;", sum(1 for r in rows.values() if r["detected"]), "detected")
