/-
  Buidl.Spec.RFC6979 — RFC 6979 section 3.2 (deterministic generation of k) over an abstract HMAC,
  for a general group order `q`, and the ECDSA verification predicate over secp256k1.
  Written from the RFC text, not from the code.  No Mathlib.

  Notation of the RFC:  qlen = bit length of q,  rlen = 8 * ceil(qlen / 8),
  hlen = output length of the hash in bits (here: 8 * length of an HMAC output).
-/
import Buidl.Model.EC
namespace Buidl.Spec.RFC6979
open Buidl

/-- 2.3.2 bits2int: the leftmost `qlen` bits of the string as a big-endian integer -/
def bits2int (qlen : Nat) (b : Bytes) : Nat :=
  let blen := 8 * b.length
  if qlen < blen then beToNat b / 2 ^ (blen - qlen) else beToNat b

/-- 2.3.3 int2octets: big-endian, exactly `rlen / 8 = ceil(qlen / 8)` octets (defined for `x < q`) -/
def int2octets (qlen : Nat) (x : Nat) : Bytes := natToBE' ((qlen + 7) / 8) x

/-- 2.3.4 bits2octets: `z1 = bits2int(b)`, `z2 = z1 mod q`, `int2octets(z2)` -/
def bits2octets (q qlen : Nat) (b : Bytes) : Bytes := int2octets qlen (bits2int qlen b % q)

/-- step h.2: `T = empty; while tlen < qlen: V = HMAC_K(V); T = T || V`.
    `n` bounds the number of rounds (⌈qlen / hlen⌉ rounds are needed when hlen > 0). -/
def genT (hmac : Bytes → Bytes → Bytes) (qlen : Nat) (K : Bytes) : Nat → Bytes → Bytes → Bytes × Bytes
  | 0, V, T => (V, T)
  | n + 1, V, T =>
    if 8 * T.length < qlen then
      let V := hmac K V
      genT hmac qlen K n V (T ++ V)
    else (V, T)

/-- step h: repeat until a proper `k` is found (`fuel` attempts; `none` = not found within them) -/
def stepH (hmac : Bytes → Bytes → Bytes) (q qlen : Nat) : Nat → Bytes → Bytes → Option Nat
  | 0, _, _ => none
  | fuel + 1, K, V =>
    let (V, T) := genT hmac qlen K qlen V []
    let k := bits2int qlen T
    if 1 ≤ k ∧ k < q then some k
    else
      let K := hmac K (V ++ [0x00])
      let V := hmac K V
      stepH hmac q qlen fuel K V

/-- RFC 6979 3.2 for private key `x`, order `q` of bit length `qlen`, message hash `h1`
    (`hlen = 8 * hlenBytes`). -/
def generateK (hmac : Bytes → Bytes → Bytes) (q qlen hlenBytes : Nat) (fuel : Nat) (x : Nat) (h1 : Bytes) :
    Option Nat :=
  -- b. V = 0x01 0x01 … (hlen bits)      c. K = 0x00 0x00 … (hlen bits)
  let V := List.replicate hlenBytes (0x01 : UInt8)
  let K := List.replicate hlenBytes (0x00 : UInt8)
  -- d. K = HMAC_K(V || 0x00 || int2octets(x) || bits2octets(h1))     e. V = HMAC_K(V)
  let K := hmac K (V ++ [0x00] ++ int2octets qlen x ++ bits2octets q qlen h1)
  let V := hmac K V
  -- f. K = HMAC_K(V || 0x01 || int2octets(x) || bits2octets(h1))     g. V = HMAC_K(V)
  let K := hmac K (V ++ [0x01] ++ int2octets qlen x ++ bits2octets q qlen h1)
  let V := hmac K V
  stepH hmac q qlen fuel K V

/-- the instance used by Bitcoin: secp256k1 order, SHA-256 (qlen = hlen = 256), the digest given
    as the integer `z < 2^256` whose 32-byte big-endian form is `h1` -/
def rfc6979 (hmac : Bytes → Bytes → Bytes) (fuel : Nat) (d z : Nat) : Option Nat :=
  generateK hmac EC.N 256 32 fuel d (natToBE' 32 z)

end Buidl.Spec.RFC6979

namespace Buidl.Spec.ECDSA
open Buidl Buidl.EC

/-- The ECDSA verification predicate (SEC 1 v2 §4.1.4 / FIPS 186-4 §6.4) for public key `Q`, digest
    integer `z` and signature `(r, s)` on secp256k1: r and s in [1, n-1], and with `w = s⁻¹ mod n`,
    `u₁ = z w`, `u₂ = r w` the point `u₁ G + u₂ Q` is finite and its x coordinate is `r` modulo `n`.
    The inverse is given by its defining equation. -/
def Valid (Q : Pt) (z r s : Nat) : Prop :=
  1 ≤ r ∧ r < N ∧ 1 ≤ s ∧ s < N ∧
  ∃ w, w < N ∧ w * s % N = 1 ∧
    ∃ x y, sadd (smul ((z * w : Nat) : Int) G) (smul ((r * w : Nat) : Int) Q) = .aff x y ∧ x % N = r

/-- modular inverse by the extended Euclidean algorithm (`fuel` division steps):
    invariant `t₀ * a ≡ r₀`, `t₁ * a ≡ r₁ (mod m)`; coefficients kept in `[0, m)` -/
def egcdInv (m : Nat) : Nat → Nat → Nat → Nat → Nat → Option Nat
  | 0, _, _, _, _ => none
  | fuel + 1, r0, r1, t0, t1 =>
    if r1 = 0 then (if r0 = 1 then some t0 else none)
    else
      let q := r0 / r1
      egcdInv m fuel r1 (r0 % r1) t1 ((t0 + (m - q * t1 % m)) % m)

/-- `s⁻¹ mod m` when it exists -/
def modInv (s m : Nat) : Option Nat := egcdInv m (2 * m.log2 + 4) m (s % m) 0 (1 % m)

/-- executable form of `Valid`, computing the inverse independently of the code (Euclid, not Fermat)
    and checking it; used by the driver as the oracle of the correspondence runs -/
def validB (Q : Pt) (z r s : Nat) : Bool :=
  decide (1 ≤ r) && decide (r < N) && decide (1 ≤ s) && decide (s < N) &&
  match modInv s N with
  | none => false
  | some w =>
    decide (w < N) && decide (w * s % N = 1) &&
    match sadd (smul ((z * w : Nat) : Int) G) (smul ((r * w : Nat) : Int) Q) with
    | .inf => false
    | .aff x _ => decide (x % N = r)

end Buidl.Spec.ECDSA
