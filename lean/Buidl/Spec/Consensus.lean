/-
  Buidl.Spec.Consensus — reference interpreter for the opcode subset that buidl implements,
  transcribed from Bitcoin Core `src/script/interpreter.cpp` (`EvalScript`, `CastToBool`,
  `GenericTransactionSignatureChecker::CheckLockTime / CheckSequence`) and `src/script/script.h`
  (`CScriptNum`).  No Mathlib; shares only `Bytes` and `Cmd` with the model.

  What is transcribed: the exec-stack `vfExec` treatment of IF/NOTIF/ELSE/ENDIF, `CScriptNum`
  with the 4-byte operand rule (5 bytes for CLTV/CSV), `CastToBool` (negative zero is false),
  every stack/arithmetic/hash opcode of the subset, CLTV (BIP65) and CSV (BIP112) with the
  consensus flags set, disabled opcodes failing even in unexecuted branches, the final result
  `CastToBool(stack.back())` of `VerifyScript`, unbalanced conditionals failing.

  What is NOT covered (stated in harness/c07.py ASSUMPTIONS): resource limits (script size 10000,
  element size 520, 201 non-push opcodes, 1000 stack+altstack items) — unreachable for the
  programs the property quantifies over; policy-only flags (MINIMALDATA, MINIMALIF, CLEANSTACK,
  DISCOURAGE_UPGRADABLE_NOPS); signature opcodes and OP_CODESEPARATOR (`unsupported`: outside the
  property's opcode set).  A program is a list of parsed commands, so push opcodes 1..78 do not
  occur as `Cmd.op` (`unsupported` if they do).

  Stacks are lists with the HEAD as the top (`stacktop(-1)`); `vfExec` has its back at the head.
-/
import Buidl.Model.Script
namespace Buidl.Spec.Consensus
open Buidl Buidl.Script

/-! ## CScriptNum, CastToBool -/

/-- `CScriptNum::set_vch`: little-endian magnitude, sign in the top bit of the last byte
    (`vch.back() & 0x80` holds exactly when the little-endian value reaches `0x80 << 8*(size-1)`) -/
def scriptNum (b : Bytes) : Int :=
  if b = [] then 0 else
  let v := leToNat b
  let hb := 128 * 256 ^ (b.length - 1)
  if hb ≤ v then - (((v - hb : Nat)) : Int) else (v : Int)

/-- `CScriptNum(vch, fRequireMinimal = false, nMaxNumSize)`: `none` = "script number overflow" -/
def numMax (maxSize : Nat) (b : Bytes) : Option Int :=
  if b.length ≤ maxSize then some (scriptNum b) else none

def num4 := numMax 4
def num5 := numMax 5

/-- the byte loop of `CScriptNum::serialize` (fuel ≥ value) -/
def magLE : Nat → Nat → Bytes
  | 0, _ => []
  | f + 1, n => if n = 0 then [] else UInt8.ofNat (n % 256) :: magLE f (n / 256)

/-- `CScriptNum::serialize` -/
def serialize (n : Int) : Bytes :=
  if n = 0 then [] else
  let r := magLE n.natAbs n.natAbs
  match r.getLast? with
  | none => []
  | some back =>
    if 128 ≤ back.toNat then r ++ [if n < 0 then 0x80 else 0]
    else if n < 0 then r.dropLast ++ [UInt8.ofNat (back.toNat + 128)]
    else r

/-- minimal encoding as tested by `CScriptNum` with `fRequireMinimal` -/
def minimal (b : Bytes) : Bool :=
  match b.reverse with
  | [] => true
  | back :: r =>
    if back.toNat % 128 = 0 then          -- (vch.back() & 0x7f) == 0
      match r with
      | [] => false                        -- vch.size() <= 1
      | prev :: _ => 128 ≤ prev.toNat      -- (vch[size-2] & 0x80) != 0
    else true

/-- `CastToBool`: false for all-zero strings and for negative zero -/
def castToBool : Bytes → Bool
  | [] => false
  | x :: r => if x ≠ 0 then !(r.isEmpty && x == 0x80) else castToBool r

/-- `vchTrue` / `vchFalse` -/
def vchBool (b : Bool) : Bytes := if b then [1] else []

/-! ## transaction context, CheckLockTime, CheckSequence -/

structure Ctx where
  locktime : Nat      -- txTo->nLockTime
  sequence : Nat      -- txTo->vin[nIn].nSequence
  version  : Nat      -- txTo->version
  sha1 : Bytes → Bytes
  ripemd160 : Bytes → Bytes
  sha256 : Bytes → Bytes
  hash160 : Bytes → Bytes
  hash256 : Bytes → Bytes

def LOCKTIME_THRESHOLD : Nat := 500000000
def SEQUENCE_FINAL : Nat := 0xffffffff
def SEQUENCE_LOCKTIME_DISABLE_FLAG : Nat := 1 <<< 31
def SEQUENCE_LOCKTIME_TYPE_FLAG : Nat := 1 <<< 22
def SEQUENCE_LOCKTIME_MASK : Nat := 0x0000ffff

/-- `CheckLockTime(nLockTime)` for a non-negative operand -/
def checkLockTime (ctx : Ctx) (nLockTime : Nat) : Bool :=
  if !((ctx.locktime < LOCKTIME_THRESHOLD && nLockTime < LOCKTIME_THRESHOLD) ||
       (ctx.locktime ≥ LOCKTIME_THRESHOLD && nLockTime ≥ LOCKTIME_THRESHOLD)) then false
  else if nLockTime > ctx.locktime then false
  else if ctx.sequence = SEQUENCE_FINAL then false
  else true

/-- `CheckSequence(nSequence)` for a non-negative operand without the disable flag -/
def checkSequence (ctx : Ctx) (nSequence : Nat) : Bool :=
  if ctx.version < 2 then false
  else if ctx.sequence &&& SEQUENCE_LOCKTIME_DISABLE_FLAG ≠ 0 then false
  else
    let nLockTimeMask := SEQUENCE_LOCKTIME_TYPE_FLAG ||| SEQUENCE_LOCKTIME_MASK
    let txToSequenceMasked := ctx.sequence &&& nLockTimeMask
    let nSequenceMasked := nSequence &&& nLockTimeMask
    if !((txToSequenceMasked < SEQUENCE_LOCKTIME_TYPE_FLAG && nSequenceMasked < SEQUENCE_LOCKTIME_TYPE_FLAG) ||
         (txToSequenceMasked ≥ SEQUENCE_LOCKTIME_TYPE_FLAG && nSequenceMasked ≥ SEQUENCE_LOCKTIME_TYPE_FLAG)) then false
    else if nSequenceMasked > txToSequenceMasked then false
    else true

/-! ## one opcode -/

inductive Res (α : Type) where
  | ok (a : α)
  | fail            -- `return set_error(...)`
  | oversize        -- fails with SCRIPT_ERR_NUM_OVERFLOW-style "script number overflow":
                    -- a numeric operand longer than 4 (5) bytes; still a consensus failure, kept
                    -- apart because the property excludes such operands
  | unsupported     -- signature opcode / OP_CODESEPARATOR / not an opcode: outside the subset
deriving Repr, DecidableEq

def Res.map {α β} (f : α → β) : Res α → Res β
  | .ok a => .ok (f a)
  | .fail => .fail
  | .oversize => .oversize
  | .unsupported => .unsupported

abbrev Stack := List Bytes

/-- unary numeric opcodes: `CScriptNum bn(stacktop(-1), …)` -/
def un4 (f : Int → Bytes) : Stack → Res Stack
  | [] => .fail
  | x :: s => match num4 x with
    | none => .oversize
    | some n => .ok (f n :: s)

/-- binary numeric opcodes: `bn1(stacktop(-2))`, `bn2(stacktop(-1))` -/
def bin4 (f : Int → Int → Bytes) : Stack → Res Stack
  | x2 :: x1 :: s => match num4 x1, num4 x2 with
    | some bn1, some bn2 => .ok (f bn1 bn2 :: s)
    | _, _ => .oversize
  | _ => .fail

/-- `if (CastToBool(stacktop(-1))) popstack(stack); else return set_error(…VERIFY)` -/
def verifyTop : Stack → Res Stack
  | [] => .fail
  | x :: s => if castToBool x then .ok s else .fail

def Res.andThen {α β} (r : Res α) (f : α → Res β) : Res β :=
  match r with
  | .ok a => f a
  | .fail => .fail
  | .oversize => .oversize
  | .unsupported => .unsupported

def hash1 (h : Bytes → Bytes) : Stack → Res Stack
  | [] => .fail
  | x :: s => .ok (h x :: s)

/-- opcodes outside the property's set, and values that are not opcodes of a parsed script -/
def unsupportedOp (c : Nat) : Bool :=
  (1 ≤ c && c ≤ 78) || (171 ≤ c && c ≤ 175) || c > 255

/-- disabled opcodes: fail even in an unexecuted branch -/
def disabledOp (c : Nat) : Bool :=
  c == 126 || c == 127 || c == 128 || c == 129 || c == 131 || c == 132 || c == 133 || c == 134 ||
  c == 141 || c == 142 || c == 149 || c == 150 || c == 151 || c == 152 || c == 153

/-- the `switch (opcode)` of EvalScript for an executed opcode other than IF/NOTIF/ELSE/ENDIF,
    on (stack, altstack) -/
def execOp (ctx : Ctx) (c : Nat) (stack alt : Stack) : Res (Stack × Stack) :=
  let st (r : Res Stack) : Res (Stack × Stack) := r.map (·, alt)
  match c with
  -- OP_0 (a push of the empty vector), OP_1NEGATE, OP_1 … OP_16: `CScriptNum bn((int)opcode - (int)(OP_1 - 1))`
  | 0 => .ok ([] :: stack, alt)
  | 79 => .ok (serialize (-1) :: stack, alt)
  | 81 | 82 | 83 | 84 | 85 | 86 | 87 | 88 | 89 | 90 | 91 | 92 | 93 | 94 | 95 | 96 =>
    .ok (serialize ((c : Int) - 80) :: stack, alt)
  -- OP_NOP, OP_NOP1, OP_NOP4 … OP_NOP10
  | 97 | 176 | 179 | 180 | 181 | 182 | 183 | 184 | 185 => .ok (stack, alt)
  -- OP_CHECKLOCKTIMEVERIFY
  | 177 =>
    match stack with
    | [] => .fail
    | top :: _ =>
      match num5 top with
      | none => .oversize
      | some n =>
        if n < 0 then .fail
        else if !checkLockTime ctx n.toNat then .fail
        else .ok (stack, alt)
  -- OP_CHECKSEQUENCEVERIFY
  | 178 =>
    match stack with
    | [] => .fail
    | top :: _ =>
      match num5 top with
      | none => .oversize
      | some n =>
        if n < 0 then .fail
        else if n.toNat &&& SEQUENCE_LOCKTIME_DISABLE_FLAG ≠ 0 then .ok (stack, alt)   -- behaves as a NOP
        else if !checkSequence ctx n.toNat then .fail
        else .ok (stack, alt)
  -- OP_VERIFY, OP_RETURN
  | 105 => st (verifyTop stack)
  | 106 => .fail
  -- OP_TOALTSTACK, OP_FROMALTSTACK
  | 107 => match stack with
    | [] => .fail
    | x :: s => .ok (s, x :: alt)
  | 108 => match alt with
    | [] => .fail
    | x :: a => .ok (x :: stack, a)
  -- OP_2DROP, OP_2DUP, OP_3DUP, OP_2OVER, OP_2ROT, OP_2SWAP
  | 109 => match stack with
    | _ :: _ :: s => .ok (s, alt)
    | _ => .fail
  | 110 => match stack with
    | x2 :: x1 :: s => .ok (x2 :: x1 :: x2 :: x1 :: s, alt)
    | _ => .fail
  | 111 => match stack with
    | x3 :: x2 :: x1 :: s => .ok (x3 :: x2 :: x1 :: x3 :: x2 :: x1 :: s, alt)
    | _ => .fail
  | 112 => match stack with      -- (x1 x2 x3 x4 -- x1 x2 x3 x4 x1 x2)
    | x4 :: x3 :: x2 :: x1 :: s => .ok (x2 :: x1 :: x4 :: x3 :: x2 :: x1 :: s, alt)
    | _ => .fail
  | 113 => match stack with      -- (x1 x2 x3 x4 x5 x6 -- x3 x4 x5 x6 x1 x2)
    | x6 :: x5 :: x4 :: x3 :: x2 :: x1 :: s => .ok (x2 :: x1 :: x6 :: x5 :: x4 :: x3 :: s, alt)
    | _ => .fail
  | 114 => match stack with      -- (x1 x2 x3 x4 -- x3 x4 x1 x2)
    | x4 :: x3 :: x2 :: x1 :: s => .ok (x2 :: x1 :: x4 :: x3 :: s, alt)
    | _ => .fail
  -- OP_IFDUP, OP_DEPTH, OP_DROP, OP_DUP, OP_NIP, OP_OVER
  | 115 => match stack with
    | [] => .fail
    | x :: s => if castToBool x then .ok (x :: x :: s, alt) else .ok (x :: s, alt)
  | 116 => .ok (serialize (stack.length : Int) :: stack, alt)
  | 117 => match stack with
    | [] => .fail
    | _ :: s => .ok (s, alt)
  | 118 => match stack with
    | [] => .fail
    | x :: s => .ok (x :: x :: s, alt)
  | 119 => match stack with
    | x2 :: _ :: s => .ok (x2 :: s, alt)
    | _ => .fail
  | 120 => match stack with
    | x2 :: x1 :: s => .ok (x1 :: x2 :: x1 :: s, alt)
    | _ => .fail
  -- OP_PICK, OP_ROLL: (xn ... x2 x1 x0 n - xn ... x2 x1 x0 xn) / (… - ... x2 x1 x0 xn)
  | 121 | 122 =>
    match stack with
    | top :: x :: s' =>
      let s := x :: s'
      match num4 top with
      | none => .oversize
      | some n =>
        if n < 0 || n ≥ (s.length : Int) then .fail
        else match s[n.toNat]? with
          | none => .fail
          | some vch => if c = 122 then .ok (vch :: s.eraseIdx n.toNat, alt) else .ok (vch :: s, alt)
    | _ => .fail
  -- OP_ROT (x1 x2 x3 -- x2 x3 x1), OP_SWAP, OP_TUCK (x1 x2 -- x2 x1 x2)
  | 123 => match stack with
    | x3 :: x2 :: x1 :: s => .ok (x1 :: x3 :: x2 :: s, alt)
    | _ => .fail
  | 124 => match stack with
    | x2 :: x1 :: s => .ok (x1 :: x2 :: s, alt)
    | _ => .fail
  | 125 => match stack with
    | x2 :: x1 :: s => .ok (x2 :: x1 :: x2 :: s, alt)
    | _ => .fail
  -- OP_SIZE
  | 130 => match stack with
    | [] => .fail
    | x :: s => .ok (serialize (x.length : Int) :: x :: s, alt)
  -- OP_EQUAL, OP_EQUALVERIFY
  | 135 => match stack with
    | x2 :: x1 :: s => .ok (vchBool (x1 == x2) :: s, alt)
    | _ => .fail
  | 136 => match stack with
    | x2 :: x1 :: s => if x1 == x2 then .ok (s, alt) else .fail
    | _ => .fail
  -- OP_1ADD, OP_1SUB, OP_NEGATE, OP_ABS, OP_NOT, OP_0NOTEQUAL
  | 139 => st (un4 (fun bn => serialize (bn + 1)) stack)
  | 140 => st (un4 (fun bn => serialize (bn - 1)) stack)
  | 143 => st (un4 (fun bn => serialize (-bn)) stack)
  | 144 => st (un4 (fun bn => serialize (if bn < 0 then -bn else bn)) stack)
  | 145 => st (un4 (fun bn => vchBool (bn == 0)) stack)
  | 146 => st (un4 (fun bn => vchBool (bn != 0)) stack)
  -- OP_ADD … OP_MAX
  | 147 => st (bin4 (fun bn1 bn2 => serialize (bn1 + bn2)) stack)
  | 148 => st (bin4 (fun bn1 bn2 => serialize (bn1 - bn2)) stack)
  | 154 => st (bin4 (fun bn1 bn2 => vchBool (bn1 != 0 && bn2 != 0)) stack)
  | 155 => st (bin4 (fun bn1 bn2 => vchBool (bn1 != 0 || bn2 != 0)) stack)
  | 156 => st (bin4 (fun bn1 bn2 => vchBool (bn1 == bn2)) stack)
  | 157 => st ((bin4 (fun bn1 bn2 => vchBool (bn1 == bn2)) stack).andThen verifyTop)
  | 158 => st (bin4 (fun bn1 bn2 => vchBool (bn1 != bn2)) stack)
  | 159 => st (bin4 (fun bn1 bn2 => vchBool (decide (bn1 < bn2))) stack)
  | 160 => st (bin4 (fun bn1 bn2 => vchBool (decide (bn1 > bn2))) stack)
  | 161 => st (bin4 (fun bn1 bn2 => vchBool (decide (bn1 ≤ bn2))) stack)
  | 162 => st (bin4 (fun bn1 bn2 => vchBool (decide (bn1 ≥ bn2))) stack)
  | 163 => st (bin4 (fun bn1 bn2 => serialize (if bn1 < bn2 then bn1 else bn2)) stack)
  | 164 => st (bin4 (fun bn1 bn2 => serialize (if bn1 > bn2 then bn1 else bn2)) stack)
  -- OP_WITHIN (x min max -- out)
  | 165 => match stack with
    | x3 :: x2 :: x1 :: s =>
      match num4 x1, num4 x2, num4 x3 with
      | some bn1, some bn2, some bn3 => .ok (vchBool (decide (bn2 ≤ bn1) && decide (bn1 < bn3)) :: s, alt)
      | _, _, _ => .oversize
    | _ => .fail
  -- OP_RIPEMD160 … OP_HASH256
  | 166 => st (hash1 ctx.ripemd160 stack)
  | 167 => st (hash1 ctx.sha1 stack)
  | 168 => st (hash1 ctx.sha256 stack)
  | 169 => st (hash1 ctx.hash160 stack)
  | 170 => st (hash1 ctx.hash256 stack)
  -- default: SCRIPT_ERR_BAD_OPCODE (OP_RESERVED, OP_VER, OP_VERIF, OP_VERNOTIF, OP_RESERVED1/2,
  -- everything above OP_NOP10 incl. OP_CHECKSIGADD outside tapscript, OP_INVALIDOPCODE)
  | _ => .fail

/-! ## EvalScript -/

structure State where
  stack : Stack
  alt : Stack
  exec : List Bool       -- vfExec, back at the head
deriving Repr, DecidableEq

/-- `fExec = vfExec.all_true()` -/
def fExec (st : State) : Bool := st.exec.all id

/-- one command -/
def step (ctx : Ctx) (st : State) : Cmd → Res State
  | .push b => if fExec st then .ok { st with stack := b :: st.stack } else .ok st
  | .op c =>
    if unsupportedOp c then .unsupported
    else if disabledOp c then .fail
    else if fExec st || (99 ≤ c && c ≤ 104) then
      if c = 99 ∨ c = 100 then
        -- OP_IF / OP_NOTIF
        if fExec st then
          match st.stack with
          | [] => .fail
          | vch :: s =>
            let fValue := castToBool vch
            .ok { st with stack := s, exec := (if c = 100 then !fValue else fValue) :: st.exec }
        else .ok { st with exec := false :: st.exec }
      else if c = 103 then
        match st.exec with
        | [] => .fail
        | e :: es => .ok { st with exec := (!e) :: es }
      else if c = 104 then
        match st.exec with
        | [] => .fail
        | _ :: es => .ok { st with exec := es }
      else if !fExec st then .fail         -- OP_VERIF / OP_VERNOTIF in an unexecuted branch
      else (execOp ctx c st.stack st.alt).map fun (s, a) => { st with stack := s, alt := a }
    else .ok st

inductive Out where
  | accept | reject
  | oversize      -- rejected because a numeric operand exceeded 4 (5) bytes
  | unsupported   -- the program uses an opcode outside the subset
deriving Repr, DecidableEq

/-- the loop of EvalScript followed by the checks of VerifyScript on the final stack -/
def runFrom (ctx : Ctx) (st : State) : List Cmd → Out
  | [] =>
    if st.exec ≠ [] then .reject                 -- SCRIPT_ERR_UNBALANCED_CONDITIONAL
    else match st.stack with
      | [] => .reject                            -- SCRIPT_ERR_EVAL_FALSE (empty stack)
      | top :: _ => if castToBool top then .accept else .reject
  | c :: cs =>
    match step ctx st c with
    | .ok st' => runFrom ctx st' cs
    | .fail => .reject
    | .oversize => .oversize
    | .unsupported => .unsupported

def eval (ctx : Ctx) (prog : List Cmd) : Out := runFrom ctx ⟨[], [], []⟩ prog

end Buidl.Spec.Consensus
