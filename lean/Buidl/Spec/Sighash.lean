/-
  Buidl.Spec.Sighash — the three signature-message algorithms of Bitcoin, written from their
  specifications and independent of the library model (no imports, own data types over raw bytes):

  * `legacy`      Bitcoin Core `SignatureHash` for SigVersion::BASE with
                  `CTransactionSignatureSerializer` (script/interpreter.cpp): input/output pruning for
                  ANYONECANPAY / NONE / SINGLE, zeroed sequences, OP_CODESEPARATOR removal, and the
                  two cases that return the constant `uint256::ONE`;
  * `bip143`      BIP143 "Specification" (double-SHA256 of the ten items);
  * `sigMsg`, `taprootDigest`   BIP341 "Common signature message" `SigMsg(hash_type, ext_flag)` and the
                  BIP342 extension (tapleaf_hash ‖ key_version ‖ codesep_pos);
  * `annexOf`, `scriptPath`, `dispatch`   which algorithm consensus applies to an input, from the
                  spent scriptPubKey, the redeem script and the witness stack (BIP16, BIP141, BIP341).

  Hash functions are parameters.  Integers are serialised by `le` (the low `w` bytes,
  little-endian) — the callers' fields have their C++ widths (uint32 / int64).
-/
namespace Buidl.Spec.Sighash

abbrev Bytes := List UInt8

/-- the low `w` bytes of `n`, least significant first -/
def le : Nat → Nat → Bytes
  | 0, _ => []
  | w + 1, n => UInt8.ofNat (n % 256) :: le w (n / 256)

/-- CompactSize (serialize.h WriteCompactSize) -/
def compactSize (n : Nat) : Bytes :=
  if n < 253 then [UInt8.ofNat n]
  else if n ≤ 0xFFFF then 253 :: le 2 n
  else if n ≤ 0xFFFFFFFF then 254 :: le 4 n
  else 255 :: le 8 n

structure OutPoint where
  hash : Bytes          -- 32 bytes in serialisation order
  n : Nat
deriving DecidableEq, Repr

structure TxIn where
  prevout : OutPoint
  scriptSig : Bytes
  nSequence : Nat
deriving DecidableEq, Repr

structure TxOut where
  nValue : Nat
  scriptPubKey : Bytes
deriving DecidableEq, Repr

structure Tx where
  nVersion : Nat
  vin : List TxIn
  vout : List TxOut
  nLockTime : Nat
deriving DecidableEq, Repr

def serOutPoint (o : OutPoint) : Bytes := o.hash ++ le 4 o.n

/-- a script as a byte vector: CompactSize length, then the bytes -/
def serScript (b : Bytes) : Bytes := compactSize b.length ++ b

def serTxOut (o : TxOut) : Bytes := le 8 o.nValue ++ serScript o.scriptPubKey

/-- `CTxOut()` after `SetNull()`: nValue = -1 (eight 0xff bytes as int64), empty script -/
def nullTxOut : Bytes := List.replicate 8 255 ++ compactSize 0

def zero32 : Bytes := List.replicate 32 0

/-! ## hash type decoding -/

/-- SIGHASH_ALL = 1, SIGHASH_NONE = 2, SIGHASH_SINGLE = 3, SIGHASH_ANYONECANPAY = 0x80 -/
def anyoneCanPay (ht : Nat) : Bool := (ht / 128) % 2 = 1        -- nHashType & 0x80
/-- legacy / BIP143: `nHashType & 0x1f` -/
def isSingle (ht : Nat) : Bool := ht % 32 = 3
def isNone (ht : Nat) : Bool := ht % 32 = 2

/-- the seven standard hash types of the property -/
def stdHashTypes : List Nat := [0, 1, 2, 3, 0x81, 0x82, 0x83]

/-! ## legacy: CTransactionSignatureSerializer -/

/-- one step of `CScript::GetOp` on the bytes after the opcode byte: (header length, data length)
    of a push opcode, `none` when the length bytes are missing -/
def pushHeader (op : Nat) (r : Bytes) : Option (Nat × Nat) :=
  if op ≤ 75 then some (0, op)
  else if op = 76 then (match r with | a :: _ => some (1, a.toNat) | _ => none)
  else if op = 77 then (match r with | a :: b :: _ => some (2, a.toNat + 256 * b.toNat) | _ => none)
  else if op = 78 then
    (match r with
     | a :: b :: c :: d :: _ => some (4, a.toNat + 256 * (b.toNat + 256 * (c.toNat + 256 * d.toNat)))
     | _ => none)
  else some (0, 0)

/-- `SerializeScriptCode` body: the script with every OP_CODESEPARATOR (0xab) opcode removed; when
    `GetOp` fails (a push running past the end) the remaining bytes are kept verbatim.
    Fuel = number of bytes. -/
def stripCodeSep : Nat → Bytes → Bytes
  | 0, s => s
  | _ + 1, [] => []
  | f + 1, op :: r =>
    if op.toNat = 0xab then stripCodeSep f r
    else match pushHeader op.toNat r with
      | none => op :: r
      | some (h, d) =>
        if r.length < h + d then op :: r
        else op :: r.take (h + d) ++ stripCodeSep f (r.drop (h + d))

def serializeScriptCode (code : Bytes) : Bytes :=
  serScript (stripCodeSep code.length code)

inductive LegacyResult where
  | one                       -- `return uint256::ONE`
  | preimage (b : Bytes)      -- the bytes fed to the double-SHA256
deriving DecidableEq, Repr

/-- SerializeInput(nInput) for the input at position `k` -/
def legacyInput (nIn ht : Nat) (code : Bytes) (k : Nat) (inp : TxIn) : Bytes :=
  serOutPoint inp.prevout
    ++ (if k = nIn then serializeScriptCode code else compactSize 0)
    ++ le 4 (if k ≠ nIn ∧ (isSingle ht ∨ isNone ht) then 0 else inp.nSequence)

/-- SerializeOutput(nOutput) -/
def legacyOutput (nIn ht : Nat) (k : Nat) (o : TxOut) : Bytes :=
  if isSingle ht ∧ k ≠ nIn then nullTxOut else serTxOut o

def concatIdx {α} (f : Nat → α → Bytes) (l : List α) : Bytes :=
  (l.zipIdx.map fun (a, k) => f k a).flatten

/-- `SignatureHash(scriptCode, txTo, nIn, nHashType, amount, SigVersion::BASE)` up to the hash -/
def legacy (tx : Tx) (nIn : Nat) (code : Bytes) (ht : Nat) : LegacyResult :=
  if nIn ≥ tx.vin.length then .one
  else if isSingle ht ∧ nIn ≥ tx.vout.length then .one
  else
    let inputs :=
      if anyoneCanPay ht then
        compactSize 1 ++ (match tx.vin[nIn]? with | some inp => legacyInput nIn ht code nIn inp | none => [])
      else compactSize tx.vin.length ++ concatIdx (legacyInput nIn ht code) tx.vin
    let nOutputs := if isNone ht then 0 else if isSingle ht then nIn + 1 else tx.vout.length
    let outputs := compactSize nOutputs ++ concatIdx (legacyOutput nIn ht) (tx.vout.take nOutputs)
    .preimage (le 4 tx.nVersion ++ inputs ++ outputs ++ le 4 tx.nLockTime ++ le 4 ht)

/-- `uint256::ONE` as the 32 bytes handed to the signature check -/
def oneDigest : Bytes := 1 :: List.replicate 31 0

def LegacyResult.digest (hash256 : Bytes → Bytes) : LegacyResult → Bytes
  | .one => oneDigest
  | .preimage b => hash256 b

/-! ## BIP143 -/

/-- the preimage of BIP143 for input `nIn` (`none`: no such input).  `code` is the scriptCode of the
    BIP (for P2WPKH `76 a9 14 <20 bytes> 88 ac`, for P2WSH the witnessScript), `amount` the value of
    the spent output. -/
def bip143 (hash256 : Bytes → Bytes) (tx : Tx) (nIn : Nat) (code : Bytes) (amount ht : Nat) : Option Bytes :=
  match tx.vin[nIn]? with
  | none => none
  | some inp =>
    let hashPrevouts :=
      if ¬ anyoneCanPay ht then hash256 (tx.vin.map fun i => serOutPoint i.prevout).flatten else zero32
    let hashSequence :=
      if ¬ anyoneCanPay ht ∧ ¬ isSingle ht ∧ ¬ isNone ht then hash256 (tx.vin.map fun i => le 4 i.nSequence).flatten
      else zero32
    let hashOutputs :=
      if ¬ isSingle ht ∧ ¬ isNone ht then hash256 (tx.vout.map serTxOut).flatten
      else if isSingle ht ∧ nIn < tx.vout.length then
        (match tx.vout[nIn]? with | some o => hash256 (serTxOut o) | none => zero32)
      else zero32
    some (le 4 tx.nVersion ++ hashPrevouts ++ hashSequence ++ serOutPoint inp.prevout ++ serScript code
      ++ le 8 amount ++ le 4 inp.nSequence ++ hashOutputs ++ le 4 tx.nLockTime ++ le 4 ht)

/-! ## BIP341 / BIP342 -/

/-- "TapSighash" -/
def tagTapSighash : Bytes := [0x54, 0x61, 0x70, 0x53, 0x69, 0x67, 0x68, 0x61, 0x73, 0x68]
/-- "TapLeaf" -/
def tagTapLeaf : Bytes := [0x54, 0x61, 0x70, 0x4c, 0x65, 0x61, 0x66]

/-- BIP340 tagged hash -/
def taggedHash (sha256 : Bytes → Bytes) (tag msg : Bytes) : Bytes :=
  sha256 (sha256 tag ++ sha256 tag ++ msg)

/-- BIP342 extension data -/
structure Ext where
  tapleafHash : Bytes
  keyVersion : Nat := 0
  codesepPos : Nat := 0xFFFFFFFF
deriving DecidableEq, Repr

/-- `SigMsg(hash_type, ext_flag)` of BIP341.  `spent` are the outputs spent by the inputs, in order;
    `annex` is the annex including its 0x50 prefix.  `none`: the BIP says validation fails (hash
    type not one of the seven, SIGHASH_SINGLE without a corresponding output) or the arguments are
    inconsistent (no such input, not one spent output per input). -/
def sigMsg (sha256 : Bytes → Bytes) (tx : Tx) (spent : List TxOut) (nIn ht extFlag : Nat)
    (annex : Option Bytes) : Option Bytes :=
  if ¬ stdHashTypes.contains ht then none
  else if spent.length ≠ tx.vin.length then none
  else match tx.vin[nIn]?, spent[nIn]? with
  | some inp, some sp =>
    let acp := ht / 128 % 2 = 1                  -- hash_type & 0x80 = SIGHASH_ANYONECANPAY
    let outType := if ht = 0 then 1 else ht % 4   -- SIGHASH_DEFAULT behaves as SIGHASH_ALL; hash_type & 3
    let control := [UInt8.ofNat ht]
    let txData := le 4 tx.nVersion ++ le 4 tx.nLockTime
      ++ (if ¬ acp then
            sha256 (tx.vin.map fun i => serOutPoint i.prevout).flatten
            ++ sha256 (spent.map fun o => le 8 o.nValue).flatten
            ++ sha256 (spent.map fun o => serScript o.scriptPubKey).flatten
            ++ sha256 (tx.vin.map fun i => le 4 i.nSequence).flatten
          else [])
      ++ (if outType ≠ 2 ∧ outType ≠ 3 then sha256 (tx.vout.map serTxOut).flatten else [])
    let spendType := extFlag * 2 + (if annex.isSome then 1 else 0)
    let inputData := [UInt8.ofNat spendType]
      ++ (if acp then serOutPoint inp.prevout ++ le 8 sp.nValue ++ serScript sp.scriptPubKey ++ le 4 inp.nSequence
          else le 4 nIn)
      ++ (match annex with | some a => sha256 (compactSize a.length ++ a) | none => [])
    if outType = 3 then
      match tx.vout[nIn]? with
      | some o => some (control ++ txData ++ inputData ++ sha256 (serTxOut o))
      | none => none
    else some (control ++ txData ++ inputData)
  | _, _ => none

/-- the message whose `hash_TapSighash` is signed: `0x00 ‖ SigMsg(hash_type, ext_flag) [‖ ext]` -/
def taprootMsg (sha256 : Bytes → Bytes) (tx : Tx) (spent : List TxOut) (nIn ht : Nat)
    (annex : Option Bytes) (ext : Option Ext) : Option Bytes :=
  match ext with
  | none => (sigMsg sha256 tx spent nIn ht 0 annex).map fun m => 0 :: m
  | some e => (sigMsg sha256 tx spent nIn ht 1 annex).map fun m =>
      0 :: m ++ (e.tapleafHash ++ [UInt8.ofNat e.keyVersion] ++ le 4 e.codesepPos)

def taprootDigest (sha256 : Bytes → Bytes) (tx : Tx) (spent : List TxOut) (nIn ht : Nat)
    (annex : Option Bytes) (ext : Option Ext) : Option Bytes :=
  (taprootMsg sha256 tx spent nIn ht annex ext).map (taggedHash sha256 tagTapSighash)

/-- BIP341: `hash_TapLeaf(v ‖ compact_size(size of s) ‖ s)` -/
def tapleafHash (sha256 : Bytes → Bytes) (leafVersion : Nat) (script : Bytes) : Bytes :=
  taggedHash sha256 tagTapLeaf (UInt8.ofNat leafVersion :: serScript script)

/-! ## which rule applies (BIP16, BIP141, BIP341 "Script validation rules") -/

/-- BIP341: "If there are at least two witness elements, and the first byte of the last element is
    0x50, this last element is called annex" -/
def annexOf (witness : List Bytes) : Option Bytes :=
  if witness.length ≥ 2 then
    match witness.getLast? with
    | some (b :: r) => if b = 0x50 then some (b :: r) else none
    | _ => none
  else none

/-- the witness stack with the annex removed -/
def withoutAnnex (witness : List Bytes) : List Bytes :=
  if (annexOf witness).isSome then witness.dropLast else witness

/-- BIP341: exactly one remaining element = key path; at least two = script path -/
def scriptPath (witness : List Bytes) : Bool := (withoutAnnex witness).length ≥ 2

/-- the `ext_flag` the rules imply: 0 for key path, 1 for script path (tapscript) -/
def extFlagOf (witness : List Bytes) : Nat := if scriptPath witness then 1 else 0

/-- BIP16 pattern `OP_HASH160 <20 bytes> OP_EQUAL` -/
def isP2SH (spk : Bytes) : Bool :=
  match spk with
  | 0xa9 :: 0x14 :: r => r.length = 21 ∧ r.getLast? = some 0x87
  | _ => false

/-- BIP141 witness program: a version opcode (OP_0 or OP_1..OP_16) and one direct push of 2..40
    bytes; returns (version, program) -/
def witnessProgram (spk : Bytes) : Option (Nat × Bytes) :=
  match spk with
  | v :: l :: prog =>
    if (v = 0 ∨ (0x51 ≤ v.toNat ∧ v.toNat ≤ 0x60)) ∧ 2 ≤ l.toNat ∧ l.toNat ≤ 40 ∧ prog.length = l.toNat then
      some (if v = 0 then 0 else v.toNat - 0x50, prog)
    else none
  | _ => none

inductive Rule where
  | legacy (scriptCode : Bytes)
  | bip143 (scriptCode : Bytes)
  | bip341 (extFlag : Nat) (annex : Option Bytes)
deriving DecidableEq, Repr

/-- P2WPKH scriptCode of BIP143: `OP_DUP OP_HASH160 <20> OP_EQUALVERIFY OP_CHECKSIG` -/
def p2pkhCode (h : Bytes) : Bytes := [0x76, 0xa9, 0x14] ++ h ++ [0x88, 0xac]

def witnessRule (prog : Nat × Bytes) (witness : List Bytes) (native : Bool) (fallback : Bytes) : Option Rule :=
  if prog.1 = 0 ∧ prog.2.length = 20 then some (.bip143 (p2pkhCode prog.2))
  else if prog.1 = 0 ∧ prog.2.length = 32 then (witness.getLast?).map Rule.bip143
  else if prog.1 = 1 ∧ prog.2.length = 32 ∧ native then some (.bip341 (extFlagOf witness) (annexOf witness))
  else if prog.1 = 0 then none                    -- BIP141: other v0 lengths fail
  else some (.legacy fallback)                    -- unknown programs: no signature rule of their own

/-- which signature-message algorithm the consensus rules apply to a signature check of an input
    spending `spk`, given the redeem script pushed last by the scriptSig (for P2SH) and the witness -/
def dispatch (spk : Bytes) (redeem : Option Bytes) (witness : List Bytes) : Option Rule :=
  if isP2SH spk then
    match redeem with
    | none => none
    | some rs =>
      match witnessProgram rs with
      | some p => witnessRule p witness false rs
      | none => some (.legacy rs)
  else
    match witnessProgram spk with
    | some p => witnessRule p witness true spk
    | none => some (.legacy spk)

end Buidl.Spec.Sighash
