/-
  Buidl.Spec.Tapscript — the rules of BIP342 ("Validation of Taproot Scripts") that change the opcode table,
  transcribed from the BIP's section "Script execution" and "Rules for signature opcodes".  Lean core only;
  builds on Buidl.Spec.Consensus (the legacy interpreter: `CScriptNum`, `execOp`) because BIP342 defines
  tapscript execution as "the rules … are the same as for legacy scripts, with the following differences".

  What is transcribed
  * OP_SUCCESSx: "If any opcode numbered 80, 98, 126-129, 131-134, 137-138, 141-142, 149-153, 187-254 is
    encountered, validation succeeds (none of the rules below apply).  This is true even if later bytes in the
    tapscript would fail to decode otherwise."  (`isOpSuccess`, `hasOpSuccess`: a pre-scan of the script, before
    and independent of execution.)
  * "Disabled script opcodes: OP_CHECKMULTISIG and OP_CHECKMULTISIGVERIFY … behave in the same way as OP_RETURN,
    by failing and terminating the script immediately when executed, and being ignored when found in unexecuted
    branch of the script."  (`isDisabled`)
  * "Consensus-enforced MINIMALIF: … the input argument to the OP_IF and OP_NOTIF opcodes [must be] exactly 0
    (the empty vector) or exactly 1 (the one-byte vector with value 1)."  (`minimalIfArg`)
  * "Rules for signature opcodes" for OP_CHECKSIG (172), OP_CHECKSIGVERIFY (173) and the new OP_CHECKSIGADD
    (186), sentence by sentence (`sigOutcome`, `execSigOp`).
  * every other opcode: unchanged (`execOp` falls through to `Consensus.execOp`).

  What is NOT covered: the signature validation itself (BIP341 "Signature validation rules": signature size
  64/65, hash type, the BIP340 check against the BIP341 digest) — a parameter `valid : pk → sig → Bool` for
  32-byte keys and non-empty signatures (C02 / C05 are about it); the sigops budget; the resource limits
  (stack + altstack ≤ 1000 elements, element size ≤ 520); OP_CODESEPARATOR (171, `unsupported` as in
  Buidl.Spec.Consensus).  Stacks are lists with the HEAD as the top.
-/
import Buidl.Spec.Consensus
namespace Buidl.Spec.Tapscript
open Buidl Buidl.Script Buidl.Spec

/-! ## OP_SUCCESSx, disabled opcodes, MINIMALIF -/

/-- the opcode numbers BIP342 renames to OP_SUCCESS80 … OP_SUCCESS254 -/
def isOpSuccess (c : Nat) : Bool :=
  c == 80 || c == 98 || (126 ≤ c && c ≤ 129) || (131 ≤ c && c ≤ 134) || (137 ≤ c && c ≤ 138) ||
  (141 ≤ c && c ≤ 142) || (149 ≤ c && c ≤ 153) || (187 ≤ c && c ≤ 254)

/-- "if any [such] opcode … is encountered": anywhere in the script, executed or not -/
def hasOpSuccess (prog : List Cmd) : Bool :=
  prog.any fun c => match c with | .op n => isOpSuccess n | .push _ => false

/-- OP_CHECKMULTISIG, OP_CHECKMULTISIGVERIFY -/
def isDisabled (c : Nat) : Bool := c == 174 || c == 175

/-- the argument OP_IF / OP_NOTIF may be given -/
def minimalIfArg (b : Bytes) : Bool := b == [] || b == [1]

/-! ## rules for signature opcodes -/

/-- "the signature is validated against the public key": BIP341's signature validation for a 32-byte
    public key and a non-empty signature -/
abbrev SigValid := Bytes → Bytes → Bool

/-- what the rules common to the three opcodes conclude from (public key, signature) -/
inductive SigOutcome where
  | fail    -- "the script MUST fail and terminate immediately"
  | empty   -- the signature is the empty vector
  | good    -- the signature is not the empty vector (validated, or of an unknown public key type)
deriving DecidableEq, Repr

/-- * "If the public key size is zero, the script MUST fail and terminate immediately."
    * "If the public key size is 32 bytes, it is considered to be a public key as described in BIP340: If the
      signature is not the empty vector, the signature is validated against the public key …  Validation
      failure in this case immediately terminates script execution with failure."
    * "If the public key size is not zero and not 32 bytes, the public key is of an unknown public key type and
      no actual signature verification is applied.  During script execution of signature opcodes they behave
      exactly as known public key types except that signature validation is considered to be successful." -/
def sigOutcome (valid : SigValid) (pk sig : Bytes) : SigOutcome :=
  if pk.length = 0 then .fail
  else if pk.length = 32 then
    (if sig = [] then .empty else if valid pk sig then .good else .fail)
  else
    (if sig = [] then .empty else .good)

/-- OP_CHECKSIG (172), OP_CHECKSIGVERIFY (173), OP_CHECKSIGADD (186) on a stack:
    * "For OP_CHECKSIGVERIFY and OP_CHECKSIG, the public key (top element) and a signature (second to top
      element) are popped from the stack.  If there are fewer than 2 elements on the stack, the script MUST fail
      and terminate immediately."
    * "For OP_CHECKSIGADD, the public key (top element), a CScriptNum n (second to top element), and a
      signature (third to top element) are popped from the stack.  If there are fewer than 3 elements on the
      stack, the script MUST fail …  If n is larger than 4 bytes, the script MUST fail and terminate immediately."
    * "If the signature is the empty vector: For OP_CHECKSIGVERIFY, the script MUST fail and terminate
      immediately.  For OP_CHECKSIG, an empty vector is pushed onto the stack, and execution continues with the
      next opcode.  For OP_CHECKSIGADD, a CScriptNum with value n is pushed onto the stack …"
    * "If the signature is not the empty vector …: For OP_CHECKSIGVERIFY, execution continues without any
      further changes to the stack.  For OP_CHECKSIG, a 1-byte value 0x01 is pushed onto the stack.  For
      OP_CHECKSIGADD, a CScriptNum with value of n + 1 is pushed onto the stack." -/
def execSigOp (valid : SigValid) (c : Nat) (stack : Consensus.Stack) : Consensus.Res Consensus.Stack :=
  if c = 172 then
    match stack with
    | pk :: sig :: s =>
      match sigOutcome valid pk sig with
      | .fail => .fail
      | .empty => .ok ([] :: s)
      | .good => .ok ([1] :: s)
    | _ => .fail
  else if c = 173 then
    match stack with
    | pk :: sig :: s =>
      match sigOutcome valid pk sig with
      | .fail => .fail
      | .empty => .fail
      | .good => .ok s
    | _ => .fail
  else if c = 186 then
    match stack with
    | pk :: n :: sig :: s =>
      if n.length > 4 then .fail else
      match sigOutcome valid pk sig with
      | .fail => .fail
      | .empty => .ok (Consensus.serialize (Consensus.scriptNum n) :: s)
      | .good => .ok (Consensus.serialize (Consensus.scriptNum n + 1) :: s)
    | _ => .fail
  else .unsupported

/-! ## one executed opcode of a tapscript -/

/-- an executed opcode other than IF/NOTIF/ELSE/ENDIF of a tapscript without OP_SUCCESSx (a script with one
    never gets as far as execution): disabled opcodes fail, the three signature opcodes follow the rules above,
    everything else is the legacy opcode -/
def execOp (ctx : Consensus.Ctx) (valid : SigValid) (c : Nat) (stack alt : Consensus.Stack) :
    Consensus.Res (Consensus.Stack × Consensus.Stack) :=
  if isOpSuccess c then .unsupported
  else if isDisabled c then .fail
  else if c = 172 ∨ c = 173 ∨ c = 186 then (execSigOp valid c stack).map (·, alt)
  else Consensus.execOp ctx c stack alt

end Buidl.Spec.Tapscript
