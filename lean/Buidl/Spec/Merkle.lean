/-
  Buidl.Spec.Merkle — specifications for C17, written from Bitcoin Core's consensus code and BIP37,
  independently of buidl's control flow.  Import-free.  `H` is the double-SHA256 (a parameter).

    levelUp / levelRoot      ComputeMerkleRoot (consensus/merkle.cpp): pairwise hashing, the last
                             element of an odd level is paired with itself
    calcHash / treeRoot      CPartialMerkleTree::CalcHash (merkleblock.cpp) on the *segment* of leaves
                             below a node of the given height; the root is the node of height ⌈log₂ n⌉
    build                    CPartialMerkleTree::TraverseAndBuild (BIP37 "constructing a partial tree")
    extract                  CPartialMerkleTree::TraverseAndExtract (BIP37 "parsing a partial tree")
    setCompact / getCompact  arith_uint256::SetCompact / GetCompact
    nextWorkRequired         CalculateNextWorkRequired (pow.cpp)
    checkProofOfWork         CheckProofOfWork (pow.cpp)
-/
import Buidl.Model.Bytes
namespace Buidl.Spec.Merkle
open Buidl

/-! ### Merkle root -/

/-- one level of ComputeMerkleRoot -/
def levelUp (H : Bytes → Bytes) : List Bytes → List Bytes
  | [] => []
  | [a] => [H (a ++ a)]
  | a :: b :: r => H (a ++ b) :: levelUp H r

theorem levelUp_length (H : Bytes → Bytes) : ∀ l : List Bytes, (levelUp H l).length = (l.length + 1) / 2
  | [] => by simp [levelUp]
  | [_] => by simp [levelUp]
  | _ :: _ :: r => by simp only [levelUp, List.length_cons, levelUp_length H r]; omega

/-- ComputeMerkleRoot: `none` for an empty list (Core returns the zero hash; a block always has a
    coinbase, and the property speaks of non-empty lists) -/
def levelRoot (H : Bytes → Bytes) (l : List Bytes) : Option Bytes :=
  match l with
  | [] => none
  | [a] => some a
  | a :: b :: r => levelRoot H (levelUp H (a :: b :: r))
termination_by l.length
decreasing_by rw [levelUp_length]; simp only [List.length_cons]; omega

/-- smallest `h` with `n ≤ 2^h` (Core: `while (CalcTreeWidth(nHeight) > 1) nHeight++`) -/
def ceilLog2Aux (n : Nat) : Nat → Nat → Nat
  | 0, h => h
  | f + 1, h => if n ≤ 2 ^ h then h else ceilLog2Aux n f (h + 1)

def ceilLog2 (n : Nat) : Nat := ceilLog2Aux n n 0

/-- CalcHash on the segment `seg` of leaves below a node of height `h`
    (`0 < seg.length ≤ 2^h`; the left child covers the first `2^(h-1)` leaves, the right child the
    rest, and a missing right child is replaced by the left one).  The empty segment (never a node
    of a tree) is given the empty string. -/
def calcHash (H : Bytes → Bytes) : Nat → List Bytes → Bytes
  | 0, seg => match seg with
    | [] => []
    | x :: _ => x
  | h + 1, seg =>
    let l := calcHash H h (seg.take (2 ^ h))
    let r := if seg.length > 2 ^ h then calcHash H h (seg.drop (2 ^ h)) else l
    H (l ++ r)

/-- the Merkle root as the hash of the top node -/
def treeRoot (H : Bytes → Bytes) (ids : List Bytes) : Bytes := calcHash H (ceilLog2 ids.length) ids

/-! ### BIP37 partial Merkle trees -/

/-- TraverseAndBuild on the segment below a node of height `h`: flag bits and hashes in
    depth-first order.  Leaves carry their match bit. -/
def build (H : Bytes → Bytes) : Nat → List (Bytes × Bool) → List Bool × List Bytes
  | 0, seg => ([seg.any (·.2)], [calcHash H 0 (seg.map (·.1))])
  | h + 1, seg =>
    if seg.any (·.2) then
      let l := build H h (seg.take (2 ^ h))
      if seg.length > 2 ^ h then
        let r := build H h (seg.drop (2 ^ h))
        (true :: (l.1 ++ r.1), l.2 ++ r.2)
      else (true :: l.1, l.2)
    else ([false], [calcHash H (h + 1) (seg.map (·.1))])

/-- the ids whose match bit is set, in block order -/
def matchedIds (ids : List Bytes) (matched : List Bool) : List Bytes :=
  ((ids.zip matched).filter (·.2)).map (·.1)

/-- pad the flag bits with zeros to a whole number of bytes -/
def padBits (bits : List Bool) : List Bool := bits ++ List.replicate ((8 - bits.length % 8) % 8) false

/-- the partial Merkle tree of a block: (transaction count, hashes, padded flag bits) -/
def buildProof (H : Bytes → Bytes) (ids : List Bytes) (matched : List Bool) : Nat × List Bytes × List Bool :=
  let r := build H (ceilLog2 ids.length) (ids.zip matched)
  (ids.length, r.2, padBits r.1)

/-- TraverseAndExtract at a node of height `h` with `n` leaves below it: returns the node's hash,
    the matched leaves in order, and the unconsumed bits and hashes.  (Core also rejects equal
    left and right hashes — CVE-2012-2459 — which the property does not need.) -/
def extract (H : Bytes → Bytes) : Nat → Nat → List Bool → List Bytes →
    Option (Bytes × List Bytes × List Bool × List Bytes)
  | 0, _, b :: bits, x :: hs => some (x, if b then [x] else [], bits, hs)
  | 0, _, _, _ => none
  | _ + 1, _, [], _ => none
  | _ + 1, _, false :: _, [] => none
  | _ + 1, _, false :: bits, x :: hs => some (x, [], bits, hs)
  | h + 1, n, true :: bits, hs =>
    match extract H h (min n (2 ^ h)) bits hs with
    | none => none
    | some (l, ml, bits, hs) =>
      if n > 2 ^ h then
        match extract H h (n - 2 ^ h) bits hs with
        | none => none
        | some (r, mr, bits, hs) => some (H (l ++ r), ml ++ mr, bits, hs)
      else some (H (l ++ l), ml, bits, hs)

/-- the byte strings hashed when computing CalcHash of a segment (one per inner node of the block's tree) -/
def calcPre (H : Bytes → Bytes) : Nat → List Bytes → List Bytes
  | 0, _ => []
  | h + 1, seg =>
    let l := calcHash H h (seg.take (2 ^ h))
    if seg.length > 2 ^ h then
      (l ++ calcHash H h (seg.drop (2 ^ h))) :: (calcPre H h (seg.take (2 ^ h)) ++ calcPre H h (seg.drop (2 ^ h)))
    else (l ++ l) :: calcPre H h (seg.take (2 ^ h))

/-- the byte strings hashed while parsing a partial tree (one per expanded inner node of the proof) -/
def extractPre (H : Bytes → Bytes) : Nat → Nat → List Bool → List Bytes → List Bytes
  | h + 1, n, true :: bits, hs =>
    match extract H h (min n (2 ^ h)) bits hs with
    | none => []
    | some (l, _, bits1, hs1) =>
      if n > 2 ^ h then
        match extract H h (n - 2 ^ h) bits1 hs1 with
        | none => extractPre H h (min n (2 ^ h)) bits hs
        | some (r, _, _, _) =>
          (l ++ r) :: (extractPre H h (min n (2 ^ h)) bits hs ++ extractPre H h (n - 2 ^ h) bits1 hs1)
      else (l ++ l) :: extractPre H h (min n (2 ^ h)) bits hs
  | _, _, _, _ => []

/-- a hash collision *exhibited* between two given finite lists of byte strings (never an existence claim over
    all strings, which would be vacuous for a hash with bounded output) -/
def CollisionBetween (H : Bytes → Bytes) (A B : List Bytes) : Prop :=
  ∃ a ∈ A, ∃ b ∈ B, a ≠ b ∧ H a = H b

/-- parsing a whole partial tree: all hashes consumed, remaining bits are padding zeros -/
def extractProof (H : Bytes → Bytes) (total : Nat) (bits : List Bool) (hashes : List Bytes) :
    Option (Bytes × List Bytes) :=
  if total = 0 then none else
  match extract H (ceilLog2 total) total bits hashes with
  | some (root, matched, rest, []) => if rest.any id then none else some (root, matched)
  | _ => none

/-! ### compact targets and difficulty adjustment -/

structure Compact where
  value    : Nat      -- the 256-bit result (arith_uint256 truncates)
  negative : Bool
  overflow : Bool
deriving DecidableEq, Repr

/-- arith_uint256::SetCompact -/
def setCompact (nCompact : Nat) : Compact :=
  let nSize := nCompact / 2 ^ 24
  let nWord := nCompact % 2 ^ 24 % 2 ^ 23          -- nCompact & 0x007fffff
  let value := if nSize ≤ 3 then nWord / 2 ^ (8 * (3 - nSize)) else (nWord * 2 ^ (8 * (nSize - 3))) % 2 ^ 256
  { value := value
    negative := nWord ≠ 0 ∧ (nCompact / 2 ^ 23) % 2 = 1
    overflow := nWord ≠ 0 ∧ (nSize > 34 ∨ (nWord > 0xff ∧ nSize > 33) ∨ (nWord > 0xffff ∧ nSize > 32)) }

/-- number of significant bytes: (bits() + 7) / 8 -/
def byteLen : Nat → Nat
  | 0 => 0
  | n + 1 => byteLen ((n + 1) / 256) + 1
decreasing_by omega

/-- arith_uint256::GetCompact (non-negative) -/
def getCompact (target : Nat) : Nat :=
  let nSize := byteLen target
  let nCompact := if nSize ≤ 3 then target * 2 ^ (8 * (3 - nSize)) else target / 2 ^ (8 * (nSize - 3))
  let (nCompact, nSize) := if (nCompact / 2 ^ 23) % 2 = 1 then (nCompact / 2 ^ 8, nSize + 1) else (nCompact, nSize)
  nCompact + nSize * 2 ^ 24

/-- CalculateNextWorkRequired with nPowTargetTimespan = 14 days (arith_uint256 products of
    more than 256 bits are truncated by Core; callers stay below) -/
def nextWorkRequired (nBits : Nat) (actualTimespan : Int) (powLimit : Nat) : Nat :=
  let targetTimespan : Int := 14 * 24 * 60 * 60
  let ts : Int := if actualTimespan < targetTimespan / 4 then targetTimespan / 4 else actualTimespan
  let ts : Int := if ts > targetTimespan * 4 then targetTimespan * 4 else ts
  let bnNew := (setCompact nBits).value * ts.toNat % 2 ^ 256 / targetTimespan.toNat
  let bnNew := if bnNew > powLimit then powLimit else bnNew
  getCompact bnNew

/-- mainnet powLimit: 0x00000000ffff0000…0000 -/
def powLimitMainnet : Nat := 0xFFFF * 2 ^ 208

/-- CheckProofOfWork -/
def checkProofOfWork (hash : Nat) (nBits : Nat) (powLimit : Nat) : Bool :=
  let c := setCompact nBits
  if c.negative ∨ c.value = 0 ∨ c.overflow ∨ c.value > powLimit then false
  else decide (hash ≤ c.value)

end Buidl.Spec.Merkle
