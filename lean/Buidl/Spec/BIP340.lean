/-
  Buidl.Spec.BIP340 — BIP340 (Schnorr signatures for secp256k1) transcribed from the BIP text:
  lift_x, the default signing algorithm and the verification algorithm, over an abstract SHA-256.
  No Mathlib.  Group operations are those of Buidl.Model.EC (`sadd`, `smul`: C03 proves that they are
  the secp256k1 group law); everything else — tagged hashes, even-Y normalisations, byte layout,
  failure conditions — is written from the BIP.

  Notation of the BIP:  bytes(x) = 32-byte big-endian,  int(b) = big-endian integer,
  hash_tag(x) = SHA256(SHA256(tag) ‖ SHA256(tag) ‖ x).
-/
import Buidl.Model.EC
namespace Buidl.Spec.BIP340
open Buidl Buidl.EC

def bytes32 (x : Nat) : Bytes := natToBE' 32 x
def int (b : Bytes) : Nat := beToNat b

/-- "BIP0340/aux" -/
def tagAux : Bytes := [0x42, 0x49, 0x50, 0x30, 0x33, 0x34, 0x30, 0x2f, 0x61, 0x75, 0x78]
/-- "BIP0340/nonce" -/
def tagNonce : Bytes := [0x42, 0x49, 0x50, 0x30, 0x33, 0x34, 0x30, 0x2f, 0x6e, 0x6f, 0x6e, 0x63, 0x65]
/-- "BIP0340/challenge" -/
def tagChallenge : Bytes :=
  [0x42, 0x49, 0x50, 0x30, 0x33, 0x34, 0x30, 0x2f, 0x63, 0x68, 0x61, 0x6c, 0x6c, 0x65, 0x6e, 0x67, 0x65]

#guard tagAux == "BIP0340/aux".toUTF8.toList
#guard tagNonce == "BIP0340/nonce".toUTF8.toList
#guard tagChallenge == "BIP0340/challenge".toUTF8.toList

/-- hash_tag(x) = SHA256(SHA256(tag) ‖ SHA256(tag) ‖ x) -/
def hashTag (sha256 : Bytes → Bytes) (tag x : Bytes) : Bytes := sha256 (sha256 tag ++ sha256 tag ++ x)

/-- byte-wise xor of two byte arrays of equal length -/
def xor (a b : Bytes) : Bytes := List.zipWith (· ^^^ ·) a b

/-- lift_x(x): fail if x ≥ p; c = x³ + 7 mod p; y = c^((p+1)/4) mod p; fail if c ≠ y² mod p;
    return the point with that x whose y is even -/
def liftX (x : Nat) : Option Pt :=
  if x ≥ P then none else
  let c := (x ^ 3 + 7) % P
  let y := powmod c ((P + 1) / 4) P
  if c ≠ y * y % P then none else
  some (.aff x (if y % 2 = 0 then y else P - y))

/-- Verify(pk, m, sig) for a 32-byte `pk`, a message `m` and a 64-byte `sig` -/
def verify (sha256 : Bytes → Bytes) (pk m sig : Bytes) : Bool :=
  match liftX (int pk) with
  | none => false
  | some Pk =>
    let r := int (sig.take 32)
    if r ≥ P then false else
    let s := int ((sig.drop 32).take 32)
    if s ≥ N then false else
    let e := int (hashTag sha256 tagChallenge (bytes32 r ++ xonly Pk ++ m)) % N
    -- R = s⋅G − e⋅P
    match sadd (smul (s : Int) G) (smul ((N - e : Nat) : Int) Pk) with
    | .inf => false                                        -- fail if is_infinite(R)
    | .aff x y => decide (y % 2 = 0) && decide (x = r)     -- fail if not has_even_y(R); fail if x(R) ≠ r

/-- Sign(sk, m, a) with `d' = int(sk)` given as an integer, a 32-byte message `m` and 32 bytes of
    auxiliary randomness `a`; `none` = the algorithm fails -/
def sign (sha256 : Bytes → Bytes) (d' : Nat) (m a : Bytes) : Option Bytes :=
  if d' = 0 ∨ d' ≥ N then none else
  match smul (d' : Int) G with
  | .inf => none
  | .aff px py =>
    let d := if py % 2 = 0 then d' else N - d'
    let t := xor (bytes32 d) (hashTag sha256 tagAux a)
    let rand := hashTag sha256 tagNonce (t ++ bytes32 px ++ m)
    let k' := int rand % N
    if k' = 0 then none else
    match smul (k' : Int) G with
    | .inf => none
    | .aff rx ry =>
      let k := if ry % 2 = 0 then k' else N - k'
      let e := int (hashTag sha256 tagChallenge (bytes32 rx ++ bytes32 px ++ m)) % N
      let sig := bytes32 rx ++ bytes32 ((k + e * d) % N)
      if verify sha256 (bytes32 px) m sig then some sig else none

/-- the value `k'` of the signing algorithm (`none` where the algorithm has failed before computing it) -/
def nonce (sha256 : Bytes → Bytes) (d' : Nat) (m a : Bytes) : Option Nat :=
  if d' = 0 ∨ d' ≥ N then none else
  match smul (d' : Int) G with
  | .inf => none
  | .aff px py =>
    let d := if py % 2 = 0 then d' else N - d'
    let t := xor (bytes32 d) (hashTag sha256 tagAux a)
    some (int (hashTag sha256 tagNonce (t ++ bytes32 px ++ m)) % N)

end Buidl.Spec.BIP340
