/-
  Buidl.Spec.DescriptorChecksum — Bitcoin Core's descriptor checksum
  (src/script/descriptor.cpp: `PolyMod`, `DescriptorChecksum`), transcribed.  Import-free; every
  constant is the literal of Core's source, nothing comes from Buidl.Gen.

  Core's description: the input characters are mapped to positions in INPUT_CHARSET; the position is
  split into a *symbol* (`pos & 31`) and a *class* (`pos >> 5` ∈ {0,1,2}).  The symbols are fed to
  the checksum one by one; after every three characters one extra symbol `9·cls₁ + 3·cls₂ + cls₃`
  is fed; an incomplete final group of one or two characters feeds `cls₁` resp. `3·cls₁ + cls₂`.
  Then eight zero symbols are fed, the state is XORed with 1 and written as eight 5-bit groups,
  most significant first, in CHECKSUM_CHARSET.

  The specification is written as that *symbol stream* followed by a fold of `polyMod`, whereas the
  code under verification interleaves both in one loop with three state variables.
-/
namespace Buidl.Spec.DescriptorChecksum

def INPUT_CHARSET : List Char :=
  ("0123456789()[],'/*abcdefgh@:$%{}" ++
   "IJKLMNOPQRSTUVWXYZ&+-.;<=>?!^_|~" ++
   "ijklmnopqrstuvwxyzABCDEFGH`#\"\\ ").toList

def CHECKSUM_CHARSET : List Char := "qpzry9x8gf2tvdw0s3jn54khce6mua7l".toList

/-- `uint64_t PolyMod(uint64_t c, int val)`:
      uint8_t c0 = c >> 35;
      c = ((c & 0x7ffffffff) << 5) ^ val;
      if (c0 & 1) c ^= 0xf5dee51989;  if (c0 & 2) c ^= 0xa9fdca3312;  if (c0 & 4) c ^= 0x1bab10e32d;
      if (c0 & 8) c ^= 0x3706b1677a;  if (c0 & 16) c ^= 0x644d626ffd; -/
def polyMod (c val : Nat) : Nat :=
  let c0 := c >>> 35
  let c := ((c &&& 0x7ffffffff) <<< 5) ^^^ val
  let c := if c0 &&& 1 ≠ 0 then c ^^^ 0xf5dee51989 else c
  let c := if c0 &&& 2 ≠ 0 then c ^^^ 0xa9fdca3312 else c
  let c := if c0 &&& 4 ≠ 0 then c ^^^ 0x1bab10e32d else c
  let c := if c0 &&& 8 ≠ 0 then c ^^^ 0x3706b1677a else c
  let c := if c0 &&& 16 ≠ 0 then c ^^^ 0x644d626ffd else c
  c

/-- `INPUT_CHARSET.find(ch)`; `none` = `std::string::npos` -/
def position (ch : Char) : List Char → Option Nat
  | [] => none
  | x :: xs => if x = ch then some 0 else (position ch xs).map (· + 1)

/-- all positions, or `none` if some character is outside the charset (Core returns "") -/
def positions (s : List Char) : Option (List Nat) := s.mapM (fun ch => position ch INPUT_CHARSET)

/-- the symbol stream of a list of positions: groups of three characters, each followed by its
    class symbol; a final incomplete group followed by its (shorter) class symbol -/
def symbols : List Nat → List Nat
  | p1 :: p2 :: p3 :: rest =>
    [p1 &&& 31, p2 &&& 31, p3 &&& 31, 9 * (p1 >>> 5) + 3 * (p2 >>> 5) + (p3 >>> 5)] ++ symbols rest
  | [p1, p2] => [p1 &&& 31, p2 &&& 31, 3 * (p1 >>> 5) + (p2 >>> 5)]
  | [p1] => [p1 &&& 31, p1 >>> 5]
  | [] => []

/-- the 40-bit checksum state after the whole stream and the eight zero symbols, XORed with 1 -/
def checksumValue (ps : List Nat) : Nat :=
  ((symbols ps ++ List.replicate 8 0).foldl polyMod 1) ^^^ 1

/-- `ret[j] = CHECKSUM_CHARSET[(c >> (5 * (7 - j))) & 31]` for j = 0..7 -/
def render (c : Nat) : Option (List Char) :=
  [7, 6, 5, 4, 3, 2, 1, 0].mapM fun k => CHECKSUM_CHARSET[(c >>> (5 * k)) &&& 31]?

/-- `DescriptorChecksum(span)`; `none` = Core returns the empty string (invalid character) -/
def descriptorChecksum (s : List Char) : Option (List Char) :=
  match positions s with
  | none => none
  | some ps => render (checksumValue ps)

end Buidl.Spec.DescriptorChecksum
