/-
  Buidl.Spec.BIP32 — BIP-0032 ("Hierarchical Deterministic Wallets") transcribed from the text,
  sections "Conventions", "Child key derivation (CKD) functions", "Master key generation",
  "Serialization format", "Key identifiers".  Import-free.  Written independently of
  Buidl.Model.HD: no constant of Buidl.Gen.HD is used, all widths and thresholds are the
  literals of the BIP.

  Conventions of the BIP:
    point(p)    = p·G (EC point multiplication with the secp256k1 base point)        → `point`
    ser32(i)    = 4 bytes, most significant byte first                               → `ser32`
    ser256(p)   = 32 bytes, most significant byte first                              → `ser256`
    serP(P)     = SEC1 compressed form (0x02 or 0x03) || ser256(x)                   → `serP`
    parse256(p) = 32-byte sequence as a 256-bit number, most significant byte first  → `parse256`
  Point addition and multiplication are those of Buidl.Model.EC (proved in C03 to be the group
  law of secp256k1).  `hmac key data` is HMAC-SHA512, `h160` is RIPEMD160 ∘ SHA256.
-/
import Buidl.Model.Bytes
import Buidl.Model.EC
namespace Buidl.Spec.BIP32
open Buidl Buidl.EC

def point (p : Nat) : Pt := smul (p : Int) G
def ser32 (i : Nat) : Bytes := natToBE' 4 i
def ser256 (p : Nat) : Bytes := natToBE' 32 p
def parse256 (b : Bytes) : Nat := beToNat b

/-- serP; undefined (`none`) for the point at infinity -/
def serP : Pt → Option Bytes
  | .inf => none
  | .aff x y => some ((if y % 2 = 0 then 0x02 else 0x03) :: ser256 x)

/-- the order of the curve, literally as in the BIP's reference to secp256k1 -/
def n : Nat := 0xFFFFFFFFFFFFFFFFFFFFFFFFFFFFFFFEBAAEDCE6AF48A03BBFD25E8CD0364141

/-- "Split I into two 32-byte sequences, I_L and I_R." -/
def IL (I : Bytes) : Bytes := I.take 32
def IR (I : Bytes) : Bytes := I.drop 32

/-- result of a CKD function: the child, or "the resulting key is invalid, and one should proceed
    with the next value for i" -/
inductive Result (α : Type) where
  | ok (v : α)
  | invalid
  | failure          -- CKDpub on a hardened index
deriving DecidableEq, Repr

/-- a derived key when the result is valid -/
def Result.toOption {α : Type} : Result α → Option α
  | .ok v => some v
  | .invalid => none
  | .failure => none

section
variable (hmac : Bytes → Bytes → Bytes)

/-- Private parent key → private child key.  CKDpriv((k_par, c_par), i) → (k_i, c_i):
    * Check whether i ≥ 2^31 (whether the child is a hardened key).
      - If so (hardened child): let I = HMAC-SHA512(Key = c_par, Data = 0x00 || ser256(k_par) || ser32(i)).
      - If not (normal child): let I = HMAC-SHA512(Key = c_par, Data = serP(point(k_par)) || ser32(i)).
    * The returned child key k_i is parse256(I_L) + k_par (mod n).
    * The returned chain code c_i is I_R.
    * In case parse256(I_L) ≥ n or k_i = 0, the resulting key is invalid. -/
def CKDpriv (kpar : Nat) (cpar : Bytes) (i : Nat) : Option (Result (Nat × Bytes)) :=
  let data : Option Bytes :=
    if i ≥ 2 ^ 31 then some (0x00 :: ser256 kpar ++ ser32 i)
    else (serP (point kpar)).map (· ++ ser32 i)
  data.map fun d =>
    let I := hmac cpar d
    let ki := (parse256 (IL I) + kpar) % n
    if parse256 (IL I) ≥ n ∨ ki = 0 then .invalid else .ok (ki, IR I)

/-- Public parent key → public child key.  CKDpub((K_par, c_par), i) → (K_i, c_i):
    * Check whether i ≥ 2^31.  If so (hardened child): return failure.
      If not: let I = HMAC-SHA512(Key = c_par, Data = serP(K_par) || ser32(i)).
    * The returned child key K_i is point(parse256(I_L)) + K_par.
    * The returned chain code c_i is I_R.
    * In case parse256(I_L) ≥ n or K_i is the point at infinity, the resulting key is invalid. -/
def CKDpub (Kpar : Pt) (cpar : Bytes) (i : Nat) : Option (Result (Pt × Bytes)) :=
  if i ≥ 2 ^ 31 then some .failure else
  (serP Kpar).map fun sp =>
    let I := hmac cpar (sp ++ ser32 i)
    let Ki := sadd (point (parse256 (IL I))) Kpar
    if parse256 (IL I) ≥ n ∨ Ki = .inf then .invalid else .ok (Ki, IR I)

/-- N((k, c)) → (K, c): the "neutered" version -/
def neuter (k : Nat) (c : Bytes) : Pt × Bytes := (point k, c)

/-- the ASCII bytes of "Bitcoin seed" -/
def seedKey : Bytes := [0x42, 0x69, 0x74, 0x63, 0x6f, 0x69, 0x6e, 0x20, 0x73, 0x65, 0x65, 0x64]

/-- Master key generation: I = HMAC-SHA512(Key = "Bitcoin seed", Data = S); master secret key
    parse256(I_L), master chain code I_R; invalid if parse256(I_L) is 0 or ≥ n. -/
def master (seed : Bytes) : Result (Nat × Bytes) :=
  let I := hmac seedKey seed
  if parse256 (IL I) = 0 ∨ parse256 (IL I) ≥ n then .invalid else .ok (parse256 (IL I), IR I)

end

/-- Key identifiers: "the first 32 bits of the identifier are called the key fingerprint", the
    identifier being HASH160(serP(K)) -/
def fingerprint (h160 : Bytes → Bytes) (K : Pt) : Option Bytes := (serP K).map fun s => (h160 s).take 4

/-- Serialization format (78 bytes): 4 byte version, 1 byte depth, 4 bytes parent fingerprint,
    4 bytes child number ser32(i), 32 bytes chain code, 33 bytes key data -/
def serializePub (version : Bytes) (depth : Nat) (fp : Bytes) (i : Nat) (c : Bytes) (K : Pt) : Option Bytes :=
  (serP K).map fun sp => version ++ [UInt8.ofNat depth] ++ fp ++ ser32 i ++ c ++ sp

def serializePriv (version : Bytes) (depth : Nat) (fp : Bytes) (i : Nat) (c : Bytes) (k : Nat) : Bytes :=
  version ++ [UInt8.ofNat depth] ++ fp ++ ser32 i ++ c ++ (0x00 :: ser256 k)

/-- the version bytes named in the BIP: mainnet 0x0488B21E public / 0x0488ADE4 private,
    testnet 0x043587CF public / 0x04358394 private -/
def versionMainPub : Bytes := [0x04, 0x88, 0xB2, 0x1E]
def versionMainPriv : Bytes := [0x04, 0x88, 0xAD, 0xE4]
def versionTestPub : Bytes := [0x04, 0x35, 0x87, 0xCF]
def versionTestPriv : Bytes := [0x04, 0x35, 0x83, 0x94]

/-- SLIP-0132 registered version bytes (public, private) per script type:
    mainnet x/y/z/Y/Z and testnet t/u/v/U/V -/
def slip132 : List (String × Bytes × Bytes) := [
  ("xpub", [0x04, 0x88, 0xB2, 0x1E], [0x04, 0x88, 0xAD, 0xE4]),
  ("ypub", [0x04, 0x9D, 0x7C, 0xB2], [0x04, 0x9D, 0x78, 0x78]),
  ("zpub", [0x04, 0xB2, 0x47, 0x46], [0x04, 0xB2, 0x43, 0x0C]),
  ("Ypub", [0x02, 0x95, 0xB4, 0x3F], [0x02, 0x95, 0xB0, 0x05]),
  ("Zpub", [0x02, 0xAA, 0x7E, 0xD3], [0x02, 0xAA, 0x7A, 0x99]),
  ("tpub", [0x04, 0x35, 0x87, 0xCF], [0x04, 0x35, 0x83, 0x94]),
  ("upub", [0x04, 0x4A, 0x52, 0x62], [0x04, 0x4A, 0x4E, 0x28]),
  ("vpub", [0x04, 0x5F, 0x1C, 0xF6], [0x04, 0x5F, 0x18, 0xBC]),
  ("Upub", [0x02, 0x42, 0x89, 0xEF], [0x02, 0x42, 0x85, 0xB5]),
  ("Vpub", [0x02, 0x57, 0x54, 0x83], [0x02, 0x57, 0x50, 0x48])]

end Buidl.Spec.BIP32
