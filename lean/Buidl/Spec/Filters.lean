/-
  Buidl.Spec.Filters — specifications for C18, written from the SipHash paper (Aumasson–Bernstein,
  SipHash-2-4), MurmurHash3_x86_32 (Appleby, smhasher/MurmurHash3.cpp), BIP158 and BIP37.
  Import-free; fixed-width machine words (`UInt64`, `UInt32`) with wrapping arithmetic.
-/
import Buidl.Model.Bytes
namespace Buidl.Spec.Filters
open Buidl

/-! ### SipHash-2-4 -/

def rotl64 (x : UInt64) (r : UInt64) : UInt64 := (x <<< r) ||| (x >>> (64 - r))

structure SipState where
  v0 : UInt64
  v1 : UInt64
  v2 : UInt64
  v3 : UInt64
deriving DecidableEq, Repr

/-- SipRound -/
def sipRound (s : SipState) : SipState :=
  let v0 := s.v0 + s.v1
  let v1 := rotl64 s.v1 13
  let v1 := v1 ^^^ v0
  let v0 := rotl64 v0 32
  let v2 := s.v2 + s.v3
  let v3 := rotl64 s.v3 16
  let v3 := v3 ^^^ v2
  let v0 := v0 + v3
  let v3 := rotl64 v3 21
  let v3 := v3 ^^^ v0
  let v2 := v2 + v1
  let v1 := rotl64 v1 17
  let v1 := v1 ^^^ v2
  let v2 := rotl64 v2 32
  { v0 := v0, v1 := v1, v2 := v2, v3 := v3 }

/-- little-endian 64-bit word of up to 8 bytes -/
def word64 (b : Bytes) : UInt64 := UInt64.ofNat (leToNat b)

/-- process one message word: c = 2 compression rounds -/
def sipCompress (s : SipState) (m : UInt64) : SipState :=
  let s := { s with v3 := s.v3 ^^^ m }
  let s := sipRound (sipRound s)
  { s with v0 := s.v0 ^^^ m }

/-- all complete 8-byte words, then the last word: remaining bytes and `len mod 256` in the top byte -/
def sipWords (s : SipState) (len : Nat) : Bytes → SipState
  | b0 :: b1 :: b2 :: b3 :: b4 :: b5 :: b6 :: b7 :: rest =>
    sipWords (sipCompress s (word64 [b0, b1, b2, b3, b4, b5, b6, b7])) len rest
  | tail => sipCompress s (word64 tail ||| (UInt64.ofNat (len % 256) <<< 56))

/-- SipHash-2-4 of `msg` under the 16-byte key (k0 = first 8 bytes, k1 = last 8, little endian) -/
def sipHash24 (key msg : Bytes) : UInt64 :=
  let k0 := word64 (key.take 8)
  let k1 := word64 ((key.drop 8).take 8)
  let s : SipState := { v0 := k0 ^^^ 0x736f6d6570736575, v1 := k1 ^^^ 0x646f72616e646f6d,
                        v2 := k0 ^^^ 0x6c7967656e657261, v3 := k1 ^^^ 0x7465646279746573 }
  let s := sipWords s msg.length msg
  let s := { s with v2 := s.v2 ^^^ 0xff }
  let s := sipRound (sipRound (sipRound (sipRound s)))    -- d = 4 finalisation rounds
  s.v0 ^^^ s.v1 ^^^ s.v2 ^^^ s.v3

/-! ### MurmurHash3_x86_32 -/

def rotl32 (x : UInt32) (r : UInt32) : UInt32 := (x <<< r) ||| (x >>> (32 - r))

def word32 (b : Bytes) : UInt32 := UInt32.ofNat (leToNat b)

def murmurK (k : UInt32) : UInt32 := (rotl32 (k * 0xcc9e2d51) 15) * 0x1b873593

def fmix32 (h : UInt32) : UInt32 :=
  let h := h ^^^ (h >>> 16)
  let h := h * 0x85ebca6b
  let h := h ^^^ (h >>> 13)
  let h := h * 0xc2b2ae35
  h ^^^ (h >>> 16)

/-- body over the 4-byte blocks, then the tail of 0..3 bytes (a zero-length tail leaves h1 as is) -/
def murmurBody (h1 : UInt32) : Bytes → UInt32
  | b0 :: b1 :: b2 :: b3 :: rest =>
    let h1 := h1 ^^^ murmurK (word32 [b0, b1, b2, b3])
    let h1 := rotl32 h1 13
    murmurBody (h1 * 5 + 0xe6546b64) rest
  | [] => h1
  | tail => h1 ^^^ murmurK (word32 tail)

/-- MurmurHash3_x86_32(key, len, seed) for `len < 2^32` -/
def murmur3_32 (data : Bytes) (seed : UInt32) : UInt32 :=
  fmix32 (murmurBody seed data ^^^ UInt32.ofNat data.length)

/-! ### BIP158 -/

def bip158P : Nat := 19
def bip158M : Nat := 784931

/-- BIP158 golomb_encode: `q = x >> P` one-bits, a zero bit, then the low `P` bits of `x`,
    most significant first -/
def golombEncode (x p : Nat) : List Bool :=
  List.replicate (x / 2 ^ p) true ++ [false] ++ (List.range p).map (fun i => decide ((x / 2 ^ (p - 1 - i)) % 2 = 1))

/-- the bit stream written most-significant-bit first into bytes, the last byte zero padded -/
def bitsToBytes : List Bool → Bytes
  | [] => []
  | b0 :: r =>
    let byte := (b0 :: r).take 8
    let v := (List.range 8).foldl (fun acc i => acc + (if byte.getD i false then 2 ^ (7 - i) else 0)) 0
    UInt8.ofNat v :: bitsToBytes (r.drop 7)
termination_by l => l.length
decreasing_by simp only [List.length_drop, List.length_cons]; omega

/-- deltas of a sorted list starting from 0 -/
def deltas : Nat → List Nat → List Nat
  | _, [] => []
  | last, x :: r => (x - last) :: deltas x r

/-- BIP158 filter of the item list: N as CompactSize, then the Golomb-Rice coded deltas of the
    sorted values `siphash(k, item) * (N * M) >> 64`.  (BIP158 takes a *set* of items: the caller
    removes duplicates.)  `none` when N does not fit a CompactSize. -/
def gcsFilter (sip : Bytes → UInt64) (items : List Bytes) : Option Bytes :=
  let n := items.length
  let f := n * bip158M
  let values := (items.map (fun it => ((sip it).toNat * f) / 2 ^ 64)).mergeSort (fun a b => decide (a ≤ b))
  (encodeVarint n).map (· ++ bitsToBytes ((deltas 0 values).flatMap (fun d => golombEncode d bip158P)))

/-- BIP157 filter header chain: header = double-SHA256(filter hash ‖ previous header) -/
def filterHeader (hash256 : Bytes → Bytes) (filterHash prev : Bytes) : Bytes := hash256 (filterHash ++ prev)

/-! ### BIP37 -/

/-- the bit index of hash function `i`: MurmurHash3 with seed `i * 0xFBA4C795 + nTweak` (32-bit
    wrapping) modulo the filter size in bits -/
def bloomBit (sizeBytes tweak : Nat) (i : Nat) (item : Bytes) : Nat :=
  (murmur3_32 item (UInt32.ofNat (i * 0xFBA4C795 + tweak))).toNat % (sizeBytes * 8)

end Buidl.Spec.Filters
