/-
  Buidl.Spec.PBKDF2 — RFC 2898 (PKCS #5 v2.0) §5.2, transcribed on byte lists.  Import-free.

      PBKDF2 (P, S, c, dkLen)
      1. If dkLen > (2^32 - 1) * hLen, output "derived key too long" and stop.
      2. l = CEIL (dkLen / hLen)
      3. T_i = F (P, S, c, i) = U_1 \xor U_2 \xor ... \xor U_c
           U_1 = PRF (P, S || INT (i)),  U_j = PRF (P, U_{j-1})
      4. DK = T_1 || T_2 || ... || T_l  <0..dkLen-1>
-/
import Buidl.Model.Bytes
namespace Buidl.Spec
open Buidl

/-- INT (i): the four-octet encoding of `i`, most significant octet first -/
def int32be (i : Nat) : Bytes := natToBE' 4 i

def xorBytes (a b : Bytes) : Bytes := List.zipWith (· ^^^ ·) a b

/-- `U prf P S i j` is U_{j+1} of block `i` -/
def U (prf : Bytes → Bytes → Bytes) (P S : Bytes) (i : Nat) : Nat → Bytes
  | 0 => prf P (S ++ int32be i)
  | j + 1 => prf P (U prf P S i j)

/-- F (P, S, c, i) = U_1 ⊕ … ⊕ U_c  (c ≥ 1) -/
def F (prf : Bytes → Bytes → Bytes) (P S : Bytes) (c i : Nat) : Bytes :=
  ((List.range (c - 1)).map fun j => U prf P S i (j + 1)).foldl xorBytes (U prf P S i 0)

/-- T_{i+1} ‖ … ‖ T_{i+m} -/
def blocks (prf : Bytes → Bytes → Bytes) (P S : Bytes) (c i m : Nat) : Bytes :=
  (List.range m).flatMap fun k => F prf P S c (i + k + 1)

/-- PBKDF2 for a PRF with `hLen`-octet output; `none` = "derived key too long" -/
def pbkdf2 (prf : Bytes → Bytes → Bytes) (hLen : Nat) (P S : Bytes) (c dkLen : Nat) : Option Bytes :=
  if dkLen > (2 ^ 32 - 1) * hLen then none
  else
    let l := (dkLen + hLen - 1) / hLen
    some ((blocks prf P S c 0 l).take dkLen)

end Buidl.Spec
