/-
  Buidl.Spec.Wire — the protocol's byte layouts for the one-directional message classes,
  written from the Bitcoin P2P protocol documentation (developer reference / BIP157),
  independently of Buidl.Model.Wire:
    * encoders for the classes the library only parses (headers, cfheaders, cfcheckpt, merkleblock, cfilter)
    * decoders for the classes the library only serialises (getheaders, getdata, getcfilters, getcfcheckpt, version)
  Import-free.
-/
import Buidl.Model.Wire
namespace Buidl.Spec.Wire
open Buidl Buidl.Wire

/-- `headers`: count, then for each header its 80 bytes followed by a zero transaction count -/
def encodeHeaders (raw : List Bytes) : Option Bytes := do
  let n ← encodeVarint raw.length
  pure (n ++ (raw.map (· ++ [0])).flatten)

/-- `cfcheckpt`: filter type, stop hash (internal byte order), count, 32-byte headers -/
def encodeCfcheckpt (ft : UInt8) (stop : Bytes) (hs : List Bytes) : Option Bytes := do
  let n ← encodeVarint hs.length
  pure (ft :: stop.reverse ++ n ++ hs.flatten)

/-- `cfheaders`: filter type, stop hash, previous filter header, count, 32-byte filter hashes -/
def encodeCfheaders (ft : UInt8) (stop prev : Bytes) (hs : List Bytes) : Option Bytes := do
  let n ← encodeVarint hs.length
  pure (ft :: stop.reverse ++ prev ++ n ++ hs.flatten)

/-- `cfilter`: filter type, block hash, var-bytes filter -/
def encodeCfilter (ft : UInt8) (blockHash filter : Bytes) : Option Bytes := do
  let f ← encodeVarstr filter
  pure (ft :: blockHash.reverse ++ f)

/-- `getdata` decoder: count, then (4-byte LE type, 32-byte hash in internal order) -/
def decodeInvItems : Nat → Bytes → Option (List (Nat × Bytes) × Bytes)
  | 0, s => some ([], s)
  | k + 1, s =>
    if s.length < 36 then none else
    match decodeInvItems k (s.drop 36) with
    | none => none
    | some (l, r) => some ((leToNat (s.take 4), ((s.drop 4).take 32).reverse) :: l, r)

def decodeGetData (s : Bytes) : Option (List (Nat × Bytes) × Bytes) := do
  let (n, s) ← readVarint s
  decodeInvItems n s

/-- `getheaders` decoder for a single locator hash: version, hash count, locator, stop hash -/
def decodeGetHeaders1 (s : Bytes) : Option (Nat × Nat × Bytes × Bytes) := do
  let v := leToNat (s.take 4)
  let (n, s) ← readVarint (s.drop 4)
  if s.length ≠ 64 then none else
  pure (v, n, (s.take 32).reverse, (s.drop 32).reverse)

/-- `getcfilters` / `getcfheaders` decoder -/
def decodeGetCFilters (s : Bytes) : Option (Nat × Nat × Bytes) :=
  match s with
  | ft :: r => if r.length ≠ 36 then none else some (ft.toNat, leToNat (r.take 4), (r.drop 4).reverse)
  | [] => none

/-- `getcfcheckpt` decoder -/
def decodeGetCFCheckpt (s : Bytes) : Option (Nat × Bytes) :=
  match s with
  | ft :: r => if r.length ≠ 32 then none else some (ft.toNat, r.reverse)
  | [] => none

/-- `version` decoder (protocol documentation: 4 version, 8 services, 8 timestamp, 26-byte receiver
    address (8 services, 16 IP, 2 port), 26-byte sender address, 8 nonce, var-str user agent,
    4 start height, 1 relay).  The IPv4-mapped prefix `00×10 ff ff` is checked; ports are read
    in the byte order the library writes them (little-endian — the protocol says big-endian for
    ports: observation O19c, the library is self-consistent, and `version` is never parsed by it). -/
def decodeVersion (s : Bytes) : Option Version := do
  if s.length < 85 then none else
  let version := leToNat (s.take 4); let s := s.drop 4
  let services := leToNat (s.take 8); let s := s.drop 8
  let timestamp := leToNat (s.take 8); let s := s.drop 8
  let rsv := leToNat (s.take 8); let s := s.drop 8
  if s.take 12 ≠ ipv4Prefix then none else
  let s := s.drop 12
  let rip := s.take 4; let s := s.drop 4
  let rport := leToNat (s.take 2); let s := s.drop 2
  let ssv := leToNat (s.take 8); let s := s.drop 8
  if s.take 12 ≠ ipv4Prefix then none else
  let s := s.drop 12
  let sip := s.take 4; let s := s.drop 4
  let sport := leToNat (s.take 2); let s := s.drop 2
  let nonce := s.take 8; let s := s.drop 8
  let (ua, s) ← readVarstr s
  if s.length ≠ 5 then none else
  let lb := leToNat (s.take 4)
  match s.drop 4 with
  | [r] => if r = 1 then some ⟨version, services, timestamp, rsv, rip, rport, ssv, sip, sport, nonce, ua, lb, true⟩
           else if r = 0 then some ⟨version, services, timestamp, rsv, rip, rport, ssv, sip, sport, nonce, ua, lb, false⟩
           else none
  | _ => none

/-- `merkleblock`: header, total, count + hashes (internal order), var-bytes flags -/
def encodeMerkleBlock (hdr : Bytes) (total : Nat) (hashes : List Bytes) (flags : Bytes) : Option Bytes := do
  let t ← natToLE total 4
  let n ← encodeVarint hashes.length
  let f ← encodeVarstr flags
  pure (hdr ++ t ++ n ++ (hashes.map List.reverse).flatten ++ f)

end Buidl.Spec.Wire
