/-
  Buidl.Model.Taproot — buidl/taproot.py: TapLeaf, TapBranch, ControlBlock, locktime_commands /
  sequence_commands, P2PKTapScript;  buidl/pecc.py: S256Point.tweak / tweaked_key / p2tr_script,
  PrivateKey.even_secret / tweaked_key;  buidl/script.py: P2TRScriptPubKey;  buidl/witness.py:
  Witness.has_annex / control_block / tap_script / tap_leaf;  buidl/op.py: number_to_op_code,
  encode_num, encode_minimal_num.  Import-free (Lean core only).

  The seven tagged hashes are the fields of `Hashes` — arbitrary functions in every theorem; the
  drivers instantiate them with `Hashes.ofSha256 Buidl.Hash.sha256` (tags from Buidl.Gen.Taproot,
  re-extracted from buidl/phash.py on every run).
  `none` = the Python raises, or returns `None` where the property only says "refused".
-/
import Buidl.Model.EC
import Buidl.Model.Script
import Buidl.Gen.Taproot
namespace Buidl.Taproot
open Buidl Buidl.EC Buidl.Script

/-! ### phash.py -/

/-- the tagged hashes used by taproot.py / pecc.py (hash_tapleaf, hash_tapbranch, hash_taptweak,
    hash_keyagglist, hash_keyaggcoef, hash_musignonce, hash_challenge) -/
structure Hashes where
  tapLeaf : Bytes → Bytes
  tapBranch : Bytes → Bytes
  tapTweak : Bytes → Bytes
  keyAggList : Bytes → Bytes
  keyAggCoef : Bytes → Bytes
  musigNonce : Bytes → Bytes
  challenge : Bytes → Bytes

/-- phash.tagged_hash: `sha256(TAG_HASH_CACHE[tag] + msg)` with `TAG_HASH_CACHE[tag] = sha256(tag) * 2`
    (the memo cache is not observable) -/
def tagged (sha256 : Bytes → Bytes) (tag msg : Bytes) : Bytes :=
  sha256 (sha256 tag ++ sha256 tag ++ msg)

def Hashes.ofSha256 (sha256 : Bytes → Bytes) : Hashes where
  tapLeaf := tagged sha256 Gen.tagTapLeaf
  tapBranch := tagged sha256 Gen.tagTapBranch
  tapTweak := tagged sha256 Gen.tagTapTweak
  keyAggList := tagged sha256 Gen.tagKeyAggList
  keyAggCoef := tagged sha256 Gen.tagKeyAggCoef
  musigNonce := tagged sha256 Gen.tagMusigNonce
  challenge := tagged sha256 Gen.tagChallenge

/-! ### Python `bytes` comparison -/

/-- `a < b` on Python bytes: lexicographic, a proper prefix is smaller -/
def bytesLt : Bytes → Bytes → Bool
  | [], [] => false
  | [], _ :: _ => true
  | _ :: _, [] => false
  | a :: as, b :: bs => if a.toNat < b.toNat then true else if b.toNat < a.toNat then false else bytesLt as bs

/-! ### point attributes that do not exist on the point at infinity -/

/-- `point.parity` (AttributeError on infinity: `S256Point.__init__` returns before setting it) -/
def parityOf : Pt → Option Nat
  | .inf => none
  | .aff _ y => some (y % 2)

/-- S256Point.even_point (`if self.parity:` raises on infinity) -/
def evenPointOf (X : Pt) : Option Pt := do
  let par ← parityOf X
  pure (if par = 1 then smul (-1) X else X)

/-! ### pecc.py: tweaks -/

/-- S256Point.tweak(merkle_root) -/
def tweak (H : Hashes) (X : Pt) (root : Bytes) : Bytes := H.tapTweak (xonly X ++ root)

/-- S256Point.tweaked_key(merkle_root) (tweak = None): `self.even_point() + t` -/
def tweakedKey (H : Hashes) (X : Pt) (root : Bytes) : Option Pt := do
  let t := beToNat (tweak H X root)
  let e ← evenPointOf X
  pure (saddInt e (t : Int))

/-- PrivateKey(secret).point; RuntimeError unless `1 ≤ secret ≤ N - 1` -/
def privPoint (d : Nat) : Option Pt :=
  if d > N - 1 then none else if d < 1 then none else some (smul (d : Int) G)

/-- PrivateKey.even_secret -/
def evenSecret (d : Nat) (pt : Pt) : Option Nat := do
  let par ← parityOf pt
  pure (if par = 1 then N - d else d)

/-- PrivateKey(d).tweaked_key(merkle_root) → (new secret, its point) -/
def privTweakedKey (H : Hashes) (d : Nat) (root : Bytes) : Option (Nat × Pt) := do
  let pt ← privPoint d
  let e ← evenSecret d pt
  let t := beToNat (tweak H pt root)
  let d' := (e + t) % N
  let pt' ← privPoint d'
  pure (d', pt')

/-! ### script.py / taproot.py: script constructors -/

/-- P2TRScriptPubKey(point).commands -/
def p2trCmds (X : Pt) : List Cmd := [.op Gen.p2trOp1, .push (xonly X)]

/-- S256Point.p2tr_script(merkle_root) -/
def p2trScript (H : Hashes) (X : Pt) (root : Bytes) : Option Script := do
  let q ← tweakedKey H X root
  pure { cmds := p2trCmds q }

/-- P2PKTapScript(point).commands -/
def p2pkTapCmds (X : Pt) : List Cmd := [.push (xonly X), .op Gen.p2pkTapOpChecksig]

/-- op.encode_num for `n ≥ 0` (little-endian magnitude, a 0x00 appended when the top bit is set) -/
def encodeNumAux : Nat → Nat → Bytes
  | 0, _ => []
  | fuel + 1, n => if n = 0 then [] else UInt8.ofNat (n % 256) :: encodeNumAux fuel (n / 256)

def encodeNum (n : Nat) : Bytes :=
  if n = 0 then [] else
  let r := encodeNumAux (n + 1) n
  match r.getLast? with
  | some t => if t.toNat ≥ 128 then r ++ [0] else r
  | none => r

/-- op.encode_minimal_num for `n ≥ 0` (Locktime / Sequence are non-negative): an opcode for 0..16
    (number_to_op_code: `0 → 0`, `n → n + 80`), else the minimal number encoding as data -/
def encodeMinimalNum (n : Nat) : Cmd :=
  if n ≤ Gen.minimalNumMax then (if n = 0 then .op 0 else .op (n + Gen.numOpBase)) else .push (encodeNum n)

/-- op.number_to_op_code (`k ≥ 0`); ValueError above 16 -/
def numberToOpCode (k : Nat) : Option Nat :=
  if k > Gen.numOpMax then none else if k = 0 then some 0 else some (k + Gen.numOpBase)

/-- locktime_commands / sequence_commands as selected by the constructors of the TapScript classes:
    both given → ValueError -/
def timelockCmds (locktime sequence : Option Nat) : Option (List Cmd) :=
  match locktime, sequence with
  | some _, some _ => none
  | some l, none => some [encodeMinimalNum l, .op Gen.locktimeOpCltv, .op Gen.locktimeOpDrop]
  | none, some s => some [encodeMinimalNum s, .op Gen.sequenceOpCsv, .op Gen.sequenceOpDrop]
  | none, none => some []

/-! ### TapLeaf / TapBranch -/

/-- TapLeaf(tap_script, tapleaf_version) -/
structure Leaf where
  script : Script
  version : Nat := Gen.tapleafDefaultVersion
deriving DecidableEq, Repr

/-- TapLeaf.__eq__: versions equal and `Script.__eq__` (commands only; `raw` is not compared) -/
def Leaf.eqv (a b : Leaf) : Bool := a.version == b.version && a.script.cmds == b.script.cmds

/-- `leaf in list` -/
def leafIn (l : Leaf) (ls : List Leaf) : Bool := ls.any (fun x => l.eqv x)

/-- the preimage of TapLeaf.hash: `int_to_byte(version) + tap_script.serialize()` -/
def Leaf.preimage (l : Leaf) : Option Bytes := do
  let v ← intToByte l.version
  let s ← Script.serialize l.script
  pure (v ++ s)

/-- TapLeaf.hash -/
def Leaf.hash (H : Hashes) (l : Leaf) : Option Bytes := do
  let m ← l.preimage
  pure (H.tapLeaf m)

/-- the ordered pair hashed by TapBranch.hash and by the loop of ControlBlock.merkle_root:
    `a < b` → `a + b`, else `b + a` -/
def branchPre (a b : Bytes) : Bytes := if bytesLt a b then a ++ b else b ++ a

def branchHash (H : Hashes) (a b : Bytes) : Bytes := H.tapBranch (branchPre a b)

/-- a script tree: TapLeaf | TapBranch(left, right) -/
inductive Tree where
  | leaf (l : Leaf)
  | branch (l r : Tree)
deriving DecidableEq, Repr

/-- TapLeaf.hash / TapBranch.hash (left first, then right) -/
def Tree.hash (H : Hashes) : Tree → Option Bytes
  | .leaf l => l.hash H
  | .branch l r => do
    let lh ← l.hash H
    let rh ← r.hash H
    pure (branchHash H lh rh)

/-- TapLeaf.leaves / TapBranch.leaves (the memo `_leaves` is not observable) -/
def Tree.leaves : Tree → List Leaf
  | .leaf l => [l]
  | .branch l r => l.leaves ++ r.leaves

/-! #### the `_leaves` memo of TapBranch as explicit state

  `TapBranch.leaves()` stores the list it computes in `self._leaves` and returns the stored list on every later
  call.  (It is the only cache of taproot.py: neither the tweaked output key nor the control blocks are kept on
  the tree, and MuSigTapScript keeps nothing that depends on a message, a nonce or a merkle root.)  `MTree` is a
  tree whose branch nodes carry the memo; `leavesM` is the method with its side effect. -/

/-- a tree object with the memo field of every TapBranch node -/
inductive MTree where
  | leaf (l : Leaf)
  | branch (l r : MTree) (memo : Option (List Leaf))
deriving Repr

/-- forget the memos -/
def MTree.erase : MTree → Tree
  | .leaf l => .leaf l
  | .branch l r _ => .branch l.erase r.erase

/-- a freshly constructed tree object (`self._leaves = None` everywhere) -/
def MTree.fresh : Tree → MTree
  | .leaf l => .leaf l
  | .branch l r => .branch (MTree.fresh l) (MTree.fresh r) none

/-- TapLeaf.leaves / TapBranch.leaves with the memo: the answer and the object afterwards -/
def MTree.leavesM : MTree → List Leaf × MTree
  | .leaf l => ([l], .leaf l)
  | .branch l r (some m) => (m, .branch l r (some m))
  | .branch l r none =>
    let a := l.leavesM
    let b := r.leavesM
    (a.1 ++ b.1, .branch a.2 b.2 (some (a.1 ++ b.1)))

/-- the invariant: every stored list is the leaf list of its node -/
def MTree.MemoOK : MTree → Prop
  | .leaf _ => True
  | .branch l r memo => l.MemoOK ∧ r.MemoOK ∧ ∀ m, memo = some m → m = (MTree.branch l r memo).erase.leaves

/-- TapLeaf.path_hashes (always `[]`) / TapBranch.path_hashes; `none` = returns None or raises -/
def Tree.pathHashes (H : Hashes) : Tree → Leaf → Option (List Bytes)
  | .leaf _, _ => some []
  | .branch l r, x =>
    if leafIn x l.leaves then do
      let p ← l.pathHashes H x
      let rh ← r.hash H
      pure (p ++ [rh])
    else if leafIn x r.leaves then do
      let p ← r.pathHashes H x
      let lh ← l.hash H
      pure (p ++ [lh])
    else none

/-- ControlBlock(tapleaf_version, parity, internal_pubkey, hashes) -/
structure ControlBlock where
  version : Nat
  parity : Nat
  internal : Pt
  hashes : List Bytes
deriving DecidableEq, Repr

/-- TapLeaf.external_pubkey / TapBranch.external_pubkey -/
def Tree.externalPubkey (H : Hashes) (t : Tree) (internal : Pt) : Option Pt := do
  let root ← t.hash H
  tweakedKey H internal root

/-- TapLeaf.control_block(internal_pubkey, tap_leaf) (`tap_leaf = none` is the default None) and
    TapBranch.control_block(internal_pubkey, leaf) -/
def Tree.controlBlock (H : Hashes) (t : Tree) (internal : Pt) (x : Option Leaf) : Option ControlBlock :=
  match t with
  | .leaf l =>
    if (match x with | some y => !(y.eqv l) | none => false) then none else do
      let ext ← t.externalPubkey H internal
      let par ← parityOf ext
      pure { version := l.version, parity := par, internal := internal, hashes := [] }
  | .branch _ _ =>
    match x with
    | none => none    -- `None in self.leaves()`: TapLeaf.__eq__ answers False
    | some y =>
      if !(leafIn y t.leaves) then none else do
        let ext ← t.externalPubkey H internal
        let par ← parityOf ext
        let p ← t.pathHashes H y
        pure { version := y.version, parity := par, internal := internal, hashes := p }

/-- the loop of ControlBlock.merkle_root -/
def foldPath (H : Hashes) (cur : Bytes) : List Bytes → Bytes
  | [] => cur
  | h :: hs => foldPath H (branchHash H cur h) hs

/-- ControlBlock.merkle_root(tap_script) -/
def ControlBlock.merkleRoot (H : Hashes) (cb : ControlBlock) (s : Script) : Option Bytes := do
  let cur ← Leaf.hash H { script := s, version := cb.version }
  pure (foldPath H cur cb.hashes)

/-- ControlBlock.external_pubkey(tap_script) -/
def ControlBlock.externalPubkey (H : Hashes) (cb : ControlBlock) (s : Script) : Option Pt := do
  let root ← cb.merkleRoot H s
  tweakedKey H cb.internal root

/-- ControlBlock.serialize: `int_to_byte(version + parity) + xonly + hashes` -/
def ControlBlock.serialize (cb : ControlBlock) : Option Bytes := do
  let b ← intToByte (cb.version + cb.parity)
  pure (b ++ xonly cb.internal ++ cb.hashes.flatten)

/-- `[b[33 + 32 * i : 65 + 32 * i] for i in range(m)]` -/
def cbChunks (b : Bytes) : Nat → Nat → List Bytes
  | 0, _ => []
  | m + 1, i => ((b.drop (Gen.cbHashStart + Gen.cbHashStride * i)).take Gen.cbHashWidth) :: cbChunks b m (i + 1)

/-- ControlBlock.parse(b); `none` = ValueError (length rule, or parse_xonly) -/
def ControlBlock.parse (b : Bytes) : Option ControlBlock :=
  let len := b.length
  if cmpAt Gen.cbParseCmp 0 (len % Gen.cbParseMod) then none
  else if cmpAt Gen.cbParseCmp 1 len || cmpAt Gen.cbParseCmp 2 len then none
  else
    match b with
    | [] => none   -- unreachable after the length check (b[0] would raise IndexError)
    | b0 :: _ =>
      let version := b0.toNat &&& Gen.cbVersionMask
      let parity := b0.toNat &&& Gen.cbParityMask
      match parseXonly ((b.drop Gen.cbKeyLo).take (Gen.cbKeyHi - Gen.cbKeyLo)) with
      | none => none
      | some internal =>
        let m := (len - Gen.cbCountSub) / Gen.cbCountDiv
        some { version := version, parity := parity, internal := internal, hashes := cbChunks b m 0 }

/-- the commitment test of the script-path branch of Script.evaluate (buidl/script.py, witness program
    version 1): the control block parses, the key recomputed from it and the tap script has the parity
    recorded in the block (`tweak_point.parity != control_block.parity` → False) and the x-only encoding
    found in the output (`tweak_point.xonly() != stack.pop()` → False).  Any exception is a refusal. -/
def cbAccepts (H : Hashes) (b : Bytes) (s : Script) (qx : Bytes) : Bool :=
  match ControlBlock.parse b with
  | none => false
  | some cb =>
    match cb.externalPubkey H s with
    | none => false
    | some q =>
      match parityOf q with
      | none => false
      | some par => par == cb.parity && xonly q == qx

/-! ### witness.py -/

/-- Witness.has_annex: `len(items) >= 2 and items[-1][0] == 0x50` (BIP341: the annex is the last of at least
    two witness elements; `none` = IndexError on an empty last item) -/
def hasAnnex (items : List Bytes) : Option Bool :=
  if items.length < 2 then some false else
  match items.getLast? with
  | none => some false
  | some last =>
    match last with
    | [] => none
    | b :: _ => some (b.toNat = 0x50)

/-- `items[-k]` (IndexError → none) -/
def fromEnd (items : List Bytes) (k : Nat) : Option Bytes :=
  if k = 0 ∨ k > items.length then none else items[items.length - k]?

/-- Witness.control_block -/
def witnessControlBlock (items : List Bytes) : Option ControlBlock := do
  let a ← hasAnnex items
  let raw ← fromEnd items (if a then 2 else 1)
  ControlBlock.parse raw

/-- Witness.tap_script: `Script.parse(BytesIO(encode_varstr(raw)))`, then `tap_script.raw = raw`: the leaf
    hash commits to the script bytes exactly as they are in the witness (an empty `raw` is falsy in
    `raw_serialize`, which then serialises the — empty — command list) -/
def witnessTapScript (items : List Bytes) : Option Script := do
  let a ← hasAnnex items
  let raw ← fromEnd items (if a then 3 else 2)
  let s ← encodeVarstr raw
  let (sc, _) ← Script.parse s
  pure { sc with raw := some raw }

/-- Witness.tap_leaf -/
def witnessTapLeaf (items : List Bytes) : Option Leaf := do
  let cb ← witnessControlBlock items
  let s ← witnessTapScript items
  pure { script := s, version := cb.version }

/-- TapBranch.combine(nodes): halving; an empty list recurses without end (RecursionError).
    Fuel = number of nodes (each half of a list of ≥ 2 nodes is strictly shorter). -/
def combineAux : Nat → List Tree → Option Tree
  | 0, _ => none
  | fuel + 1, nodes =>
    match nodes with
    | [] => none
    | [t] => some t
    | _ =>
      let half := nodes.length / 2
      do
        let l ← combineAux fuel (nodes.take half)
        let r ← combineAux fuel (nodes.drop half)
        pure (.branch l r)

def combine (nodes : List Tree) : Option Tree := combineAux nodes.length nodes

end Buidl.Taproot
