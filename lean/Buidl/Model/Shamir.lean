/-
  Buidl.Model.Shamir — SLIP39 (buidl/shamir.py).  Import-free (Lean core only).

  External functions are parameters:
    hmac256 : Bytes → Bytes → Bytes                  `hmac.new(key, msg, "sha256").digest()`
    kdf     : Bytes → Bytes → Nat → Nat → Bytes      `hashlib.pbkdf2_hmac("sha256", password, salt, iterations, dklen)`
    sha256  : Bytes → Bytes                          (only through mnemonic_to_bytes / bytes_to_mnemonic)
  The code's randomness (`secrets.randbits`) is an explicit argument: `id` for `randbits(15)` and a
  list `ρ` of the successive `randbits(8)` results.

  What the code supports, and the model mirrors: `generate_shares` produces a *single-level* split —
  every share is its own group (`group_index = x`, `group_threshold = k`, `group_count = n`) with a
  1-of-1 member (`member_index = 0`, `member_threshold = 1`).  `recover` additionally handles parsed
  shares whose groups have member thresholds > 1 (two-level SLIP39 vectors); that path is modelled too.
  Observation O15a: for `k = 1`, `split_secret` returns the single share `(0, secret)` whatever `n` is.
-/
import Buidl.Model.Slip39Table
namespace Buidl.Shamir
open Buidl Buidl.Mnemonic

/-! ## RS1024 checksum -/

/-- the inner loop `for i in range(10): chk ^= GEN[i] if ((b >> i) & 1) else 0` -/
def rsMix (b : Nat) : List Nat → Nat → Nat → Nat
  | [], _, chk => chk
  | g :: gs, i, chk => rsMix b gs (i + 1) (if (b >>> i) &&& 1 != 0 then chk ^^^ g else chk)

/-- one iteration of the outer loop of rs1024_polymod (`range(10)` covers exactly the ten entries of `GEN`;
    a shorter `GEN` would raise IndexError — see `rsGenOK`) -/
def rsStep (chk v : Nat) : Nat :=
  let b := chk >>> Gen.rsTopShift
  let chk := ((chk &&& Gen.rsLowMask) <<< Gen.rsWordBits) ^^^ v
  rsMix b (Gen.rs1024Gen.take Gen.rsGenCount) 0 chk

/-- shamir.rs1024_polymod -/
def rs1024Polymod (values : List Nat) : Nat := values.foldl rsStep Gen.rsInit

/-- `range(10)` indexes `GEN[0..9]` -/
def rsGenOK : Bool := Gen.rsGenCount ≤ Gen.rs1024Gen.length

/-- shamir.rs1024_verify_checksum -/
def rs1024Verify (cs : Bytes) (data : List Nat) : Bool :=
  rs1024Polymod (cs.map (·.toNat) ++ data) == Gen.rsVerifyConst

/-- shamir.rs1024_create_checksum -/
def rs1024Create (cs : Bytes) (data : List Nat) : List Nat :=
  let polymod := rs1024Polymod (cs.map (·.toNat) ++ data ++ [0, 0, 0]) ^^^ 1
  [(polymod >>> 20) &&& 1023, (polymod >>> 10) &&& 1023, polymod &&& 1023]

/-! ## Share -/

structure Share where
  shareBitLength : Nat
  id : Nat
  exponent : Nat
  groupIndex : Nat
  groupThreshold : Nat
  groupCount : Nat
  memberIndex : Nat
  memberThreshold : Nat
  value : Nat
  /-- `self.bytes = int_to_big_endian(value, share_bit_length // 8)` -/
  bytes : Bytes
deriving DecidableEq, Repr

/-- Share.__init__ (all arguments non-negative integers); `none` = ValueError / OverflowError -/
def Share.new (shareBitLength id exponent groupIndex groupThreshold groupCount memberIndex
    memberThreshold value : Nat) : Option Share :=
  if groupIndex > 15 then none
  else if groupThreshold < 1 ∨ groupThreshold > groupCount then none
  else if groupCount < 1 ∨ groupCount > 16 then none
  else if memberIndex > 15 then none
  else if memberThreshold < 1 ∨ memberThreshold > 16 then none
  else
    match natToBE value (shareBitLength / 8) with
    | none => none
    | some b => some ⟨shareBitLength, id, exponent, groupIndex, groupThreshold, groupCount,
        memberIndex, memberThreshold, value, b⟩

/-- `for index in indices[4:-3]: value = (value << 10) | index` -/
def wordsValue (l : List Nat) : Nat := l.foldl (fun v i => (v <<< 10) ||| i) 0

/-- Share.parse on the index list.  With fewer than 7 indices every path of the code raises
    (bad checksum, IndexError on `indices[3]`, or `value >> share_bit_length` with a negative count /
    "not enough bits"), as it does for 7..19. -/
def Share.ofIndices (indices : List Nat) : Option Share :=
  if !(rs1024Verify Gen.parseCustomization indices) then none
  else if indices.length < 7 then none
  else
    match indices with
    | i0 :: i1 :: i2 :: i3 :: rest =>
      let id := (i0 <<< 5) ||| (i1 >>> 5)
      let exponent := i1 &&& 31
      let groupIndex := i2 >>> 6
      let groupThreshold := ((i2 >>> 2) &&& 15) + 1
      let groupCount := (((i2 &&& 3) <<< 2) ||| (i3 >>> 8)) + 1
      let memberIndex := (i3 >>> 4) &&& 15
      let memberThreshold := (i3 &&& 15) + 1
      let value := wordsValue (rest.take (rest.length - 3))
      let shareBitLength := (indices.length - 7) * 10 / 16 * 16
      if value >>> shareBitLength != 0 then none
      else if shareBitLength < Gen.shareMinBits then none
      else Share.new shareBitLength id exponent groupIndex groupThreshold groupCount memberIndex
        memberThreshold value
    | _ => none

/-- Share.parse -/
def Share.parse (wl : WordList) (mnemonic : PyStr) : Option Share :=
  (lookupAll wl (pySplit mnemonic)).bind Share.ofIndices

/-- `[(all_bits >> 10 * (num_words - i - 1)) & 1023 for i in range(num_words)]` -/
def toWords10 (allBits : Nat) : Nat → List Nat
  | 0 => []
  | n + 1 => ((allBits >>> (10 * n)) &&& 1023) :: toWords10 allBits n

/-- the index list of Share.mnemonic (header, padded value, checksum) -/
def Share.indices (s : Share) : List Nat :=
  let allBits := (s.id <<< 5) ||| s.exponent
  let allBits := (allBits <<< 4) ||| s.groupIndex
  let allBits := (allBits <<< 4) ||| (s.groupThreshold - 1)
  let allBits := (allBits <<< 4) ||| (s.groupCount - 1)
  let allBits := (allBits <<< 4) ||| s.memberIndex
  let allBits := (allBits <<< 4) ||| (s.memberThreshold - 1)
  let padding := 10 - s.shareBitLength % 10
  let allBits := (allBits <<< (padding + s.shareBitLength)) ||| s.value
  let numWords := 4 + (padding + s.shareBitLength) / 10
  let indices := toWords10 allBits numWords
  indices ++ rs1024Create Gen.mnemonicCustomization indices

/-- Share.mnemonic; `none` = IndexError of `SLIP39[index]` (cannot happen for a 1024-word table) -/
def Share.mnemonic (wl : WordList) (s : Share) : Option PyStr :=
  (mapM? wl.word s.indices).map pyJoin

/-! ## GF(256) tables: ShareSet._load -/

structure Tables where
  exp : List Nat
  log : List Nat

/-- `cur = (cur << 1) ^ cur; if cur > 255: cur ^= 0x11B`: multiplication by the generator `x + 1` -/
def gfNext (cur : Nat) : Nat :=
  let cur := (cur <<< Gen.gfShift) ^^^ cur
  if cur > Gen.gfLimit then cur ^^^ Gen.gfReduce else cur

/-- one iteration of the loop of `_load`; `List.set` outside the list is Python's IndexError, which cannot
    occur (`i < 255`, `cur ≤ 255`) -/
def loadStep (st : Tables × Nat) (i : Nat) : Tables × Nat :=
  let (t, cur) := st
  ({ exp := t.exp.set i cur, log := t.log.set cur i }, gfNext cur)

/-- ShareSet._load -/
def load : Tables :=
  ((List.range Gen.gfSteps).foldl loadStep
    ({ exp := List.replicate Gen.gfExpSize 0, log := List.replicate Gen.gfLogSize 0 }, Gen.gfStart)).1

/-- the class attributes `ShareSet.exp`, `ShareSet.log2` (set at import time) -/
def tables : Tables := load

/-- `cls.log2[a]`; `none` = IndexError -/
def log2? (a : Nat) : Option Nat := tables.log[a]?
/-- `cls.exp[i]`; `none` = IndexError -/
def exp? (i : Nat) : Option Nat := tables.exp[i]?

/-! ## interpolation -/

abbrev ShareData := List (Nat × Bytes)

/-- `sum(f(e) for e in l)` over a partial `f` -/
def sumM {α} (f : α → Option Nat) : List α → Option Nat
  | [] => some 0
  | a :: r => match f a, sumM f r with
    | some x, some s => some (x + s)
    | _, _ => none

/-- one byte of the update: `c ^ (exp[(log2[y] + log) % 255] if y > 0 else 0)`; the value must fit a byte -/
def mulAcc (lg : Nat) (y c : UInt8) : Option UInt8 :=
  if y > 0 then
    match log2? y.toNat with
    | none => none
    | some ly =>
      match exp? ((ly + lg) % Gen.gfOrder2) with
      | none => none
      | some e => if e < 256 then some (c ^^^ UInt8.ofNat e) else none
  else some c

/-- `bytes(… for y, c in zip(share_bytes, result))` -/
def zipMulAcc (lg : Nat) : Bytes → Bytes → Option Bytes
  | y :: ys, c :: cs => match mulAcc lg y c, zipMulAcc lg ys cs with
    | some b, some bs => some (b :: bs)
    | _, _ => none
  | _, _ => some []

/-- the body of the `for share_x, share_bytes in share_data` loop of `interpolate` -/
def interpStep (x : Nat) (sd : ShareData) (logProduct : Nat) (result : Bytes) (sh : Nat × Bytes) :
    Option Bytes :=
  match log2? (sh.1 ^^^ x), sumM (fun o : Nat × Bytes => log2? (sh.1 ^^^ o.1)) sd with
  | some lx, some logDen =>
    let logNum : Int := (logProduct : Int) - lx
    let lg := ((logNum - logDen) % (Gen.gfOrder : Int)).toNat
    zipMulAcc lg sh.2 result
  | _, _ => none

def foldM? {α β} (f : β → α → Option β) : β → List α → Option β
  | b, [] => some b
  | b, a :: r => match f b a with
    | none => none
    | some b' => foldM? f b' r

/-- ShareSet.interpolate; `none` = IndexError (empty share list, or an x / xor outside the tables) -/
def interpolate (x : Nat) (sd : ShareData) : Option Bytes :=
  match sumM (fun o : Nat × Bytes => log2? (o.1 ^^^ x)) sd with
  | none => none
  | some logProduct =>
    match sd with
    | [] => none
    | first :: _ => foldM? (interpStep x sd logProduct) (List.replicate first.2.length 0) sd

/-- ShareSet.digest -/
def digest (hmac256 : Bytes → Bytes → Bytes) (random sharedSecret : Bytes) : Bytes :=
  (hmac256 random sharedSecret).take Gen.digestLen

/-- ShareSet.recover_secret; `none` = ValueError("Digest does not match secret") or an IndexError -/
def recoverSecret (hmac256 : Bytes → Bytes → Bytes) (sd : ShareData) : Option Bytes :=
  match interpolate Gen.recSecretX sd, interpolate Gen.recDigestX sd with
  | some sharedSecret, some digestShare =>
    let dg := digestShare.take Gen.recDigestTake
    let random := digestShare.drop Gen.recDigestDrop
    if dg != digest hmac256 random sharedSecret then none else some sharedSecret
  | _, _ => none

/-! ## split_secret -/

/-- `bytes(randbits(8) for _ in range(n))`: takes the next `n` values; `none` = the supplied
    randomness is exhausted (a harness error, not a behaviour of the code), or a value ≥ 256 -/
def takeRandom (n : Nat) (ρ : List Nat) : Option (Bytes × List Nat) :=
  if ρ.length < n then none
  else if (ρ.take n).any (· ≥ 256) then none
  else some ((ρ.take n).map UInt8.ofNat, ρ.drop n)

/-- `[(i, bytes(randbits(8) …)) for i in range(k - 2)]` starting at index `i` -/
def randomShares (numBytes : Nat) : Nat → Nat → List Nat → Option (ShareData × List Nat)
  | 0, _, ρ => some ([], ρ)
  | c + 1, i, ρ =>
    match takeRandom numBytes ρ with
    | none => none
    | some (b, ρ') =>
      match randomShares numBytes c (i + 1) ρ' with
      | none => none
      | some (l, ρ'') => some ((i, b) :: l, ρ'')

/-- `for i in range(k - 2, n): more_data.append((i, cls.interpolate(i, share_data)))` -/
def derivedShares (base : ShareData) : List Nat → Option ShareData
  | [] => some []
  | i :: r => match interpolate i base, derivedShares base r with
    | some y, some l => some ((i, y) :: l)
    | _, _ => none

inductive SplitResult where
  | ok (shares : ShareData) (rest : List Nat)
  | reject                     -- the code raises
  | noRandomness               -- the supplied randomness does not suffice (harness error)
deriving DecidableEq, Repr

/-- ShareSet.split_secret with the randomness `ρ` explicit -/
def splitSecret (hmac256 : Bytes → Bytes → Bytes) (secret : Bytes) (k n : Nat) (ρ : List Nat) : SplitResult :=
  if n < 1 then .reject
  else if n > Gen.splitMaxN then .reject
  else if k < 1 then .reject
  else if k > n then .reject
  else
    let numBytes := secret.length
    if !(Gen.splitLens.contains numBytes) then .reject
    else if k == 1 then .ok [(0, secret)] ρ
    else
      match takeRandom (numBytes - Gen.splitRandShort) ρ with
      | none => .noRandomness
      | some (random, ρ1) =>
        let dg := digest hmac256 random secret
        let digestShare := dg ++ random
        match randomShares numBytes (k - 2) 0 ρ1 with
        | none => .noRandomness
        | some (shareData, ρ2) =>
          let base := shareData ++ [(Gen.splitDigestX, digestShare), (Gen.splitSecretX, secret)]
          match derivedShares base ((List.range n).drop (k - 2)) with
          | none => .reject
          | some more => .ok (shareData ++ more) ρ2

/-! ## encryption: a 4-round Feistel network -/

/-- the loop of `_crypt` -/
def cryptRounds (kdf : Bytes → Bytes → Nat → Nat → Bytes) (salt passphrase : Bytes) (iterations half : Nat) :
    List Nat → Bytes → Bytes → Bytes × Bytes
  | [], l, r => (l, r)
  | i :: is, l, r =>
    let f := kdf (UInt8.ofNat i :: passphrase) (salt ++ r) iterations half
    cryptRounds kdf salt passphrase iterations half is r (binxor l f)

/-- ShareSet._crypt; `none` = ValueError (odd length), OverflowError (`id ≥ 2^16`), or the argument checks
    of `hashlib.pbkdf2_hmac` (every round calls it): `dklen ≥ 1` and `iterations ≤ 2^31 - 1` (a C `int`) -/
def crypt (kdf : Bytes → Bytes → Nat → Nat → Bytes) (payload : Bytes) (id exponent : Nat)
    (passphrase : Bytes) (indices : List Nat) : Option Bytes :=
  if payload.length % 2 != 0 then none
  else
    let half := payload.length / 2
    if half < 1 ∨ Gen.baseIterations <<< exponent > 2147483647 then none else
    match natToBE id Gen.saltIdWidth with
    | none => none
    | some idb =>
      let salt := Gen.cryptSaltPrefix ++ idb
      let (l, r) := cryptRounds kdf salt passphrase (Gen.baseIterations <<< exponent) half indices
        (payload.take half) (payload.drop half)
      some (r ++ l)

/-- ShareSet.encrypt -/
def encrypt (kdf : Bytes → Bytes → Nat → Nat → Bytes) (payload : Bytes) (id exponent : Nat) (passphrase : Bytes) :=
  crypt kdf payload id exponent passphrase Gen.encryptRounds

/-- ShareSet.decrypt (with the object's id and exponent) -/
def decrypt (kdf : Bytes → Bytes → Nat → Nat → Bytes) (payload : Bytes) (id exponent : Nat) (passphrase : Bytes) :=
  crypt kdf payload id exponent passphrase Gen.decryptRounds

/-! ## ShareSet -/

/-- `len({f(s) for s in shares}) == 1` for a non-empty list -/
def allSame {α} [DecidableEq α] (f : Share → α) : List Share → Bool
  | [] => false
  | s :: r => r.all (fun t => f t = f s)

/-- `len(set(l)) == len(l)` -/
def distinct {α} [DecidableEq α] : List α → Bool
  | [] => true
  | a :: r => !r.contains a && distinct r

/-- ShareSet.__init__: the consistency checks; `none` = an exception (including IndexError for `[]`) -/
def ShareSet.new (shares : List Share) : Option (List Share) :=
  match shares with
  | [] => none
  | s0 :: _ =>
    if shares.length > 1 then
      if !allSame (·.id) shares then none
      else if !allSame (·.exponent) shares then none
      else if !allSame (·.groupThreshold) shares then none
      else if !allSame (·.groupCount) shares then none
      else if s0.groupThreshold > s0.groupCount then none
      else if !allSame (·.shareBitLength) shares then none
      else if !distinct (shares.map fun s => (s.groupIndex, s.memberIndex)) then none
      else some shares
    else some shares

/-- the per-group part of `recover`: for group `i` (non-empty) return its share-data entry -/
def groupEntry (hmac256 : Bytes → Bytes → Bytes) (i : Nat) (group : List Share) : Option (Nat × Bytes) :=
  match group with
  | [] => none
  | g0 :: _ =>
    if !allSame (·.memberThreshold) group then none
    else if g0.memberThreshold == 1 then some (i, g0.bytes)
    else if g0.memberThreshold > group.length then none
    else (recoverSecret hmac256 (group.map fun s => (s.memberIndex, s.bytes))).map (i, ·)

/-- the loop over `enumerate(groups)` skipping empty groups -/
def gatherGroups (hmac256 : Bytes → Bytes → Bytes) (shares : List Share) : List Nat → Option ShareData
  | [] => some []
  | i :: r =>
    let group := shares.filter (·.groupIndex = i)
    if group.isEmpty then gatherGroups hmac256 shares r
    else match groupEntry hmac256 i group, gatherGroups hmac256 shares r with
      | some e, some l => some (e :: l)
      | _, _ => none

/-- the body of ShareSet.recover: `id`, `exponent`, `groupThreshold`, `groupCount` are the attributes the object
    copied from `shares[0]` in `__init__`; `shares` is the CURRENT `self.shares` -/
def recoverWith (hmac256 : Bytes → Bytes → Bytes) (kdf : Bytes → Bytes → Nat → Nat → Bytes)
    (id exponent groupThreshold groupCount : Nat) (shares : List Share) (passphrase : Bytes) : Option Bytes :=
  -- `groups[share.group_index].append(share)`: IndexError when group_index ≥ group_count
  if shares.any (fun s => s.groupIndex ≥ groupCount) then none
  else
    match gatherGroups hmac256 shares (List.range groupCount) with
    | none => none
    | some shareData =>
      if groupThreshold == 1 then
        match shareData with
        | [] => none
        | e :: _ => decrypt kdf e.2 id exponent passphrase
      else if groupThreshold > shareData.length then none
      else
        match recoverSecret hmac256 shareData with
        | none => none
        | some sharedSecret => decrypt kdf sharedSecret id exponent passphrase

/-- ShareSet.recover on a freshly constructed object (the share list has passed `ShareSet.new`) -/
def ShareSet.recover (hmac256 : Bytes → Bytes → Bytes) (kdf : Bytes → Bytes → Nat → Nat → Bytes)
    (shares : List Share) (passphrase : Bytes) : Option Bytes :=
  match shares with
  | [] => none
  | s0 :: _ => recoverWith hmac256 kdf s0.id s0.exponent s0.groupThreshold s0.groupCount shares passphrase

/-- a `ShareSet` object: the attributes fixed by `__init__` and the (mutable) `shares` list -/
structure ShareSetObj where
  shares : List Share
  id : Nat
  exponent : Nat
  groupThreshold : Nat
  groupCount : Nat
  shareBitLength : Nat

/-- `ShareSet(shares)` as an object -/
def ShareSetObj.new (shares : List Share) : Option ShareSetObj :=
  match ShareSet.new shares with
  | none => none
  | some ss =>
    match ss with
    | [] => none
    | s0 :: _ => some ⟨ss, s0.id, s0.exponent, s0.groupThreshold, s0.groupCount, s0.shareBitLength⟩

/-- one call on / mutation of a `ShareSet` object -/
inductive SsOp where
  | recover (passphrase : Bytes)
  | setShares (shares : List Share)        -- `obj.shares = [...]` (no re-validation, attributes unchanged)
deriving Repr

/-- a history on ONE object: the answers of the `recover` calls (`none` = raised) -/
def ShareSetObj.run (hmac256 : Bytes → Bytes → Bytes) (kdf : Bytes → Bytes → Nat → Nat → Bytes) :
    ShareSetObj → List SsOp → List (Option Bytes)
  | _, [] => []
  | o, .recover p :: r =>
    recoverWith hmac256 kdf o.id o.exponent o.groupThreshold o.groupCount o.shares p :: ShareSetObj.run hmac256 kdf o r
  | o, .setShares l :: r => ShareSetObj.run hmac256 kdf { o with shares := l } r

/-- the Share objects built by `generate_shares` from the split data -/
def mkShares (numBits id exponent k n : Nat) : ShareData → Option (List Share)
  | [] => some []
  | (gi, b) :: r =>
    match Share.new numBits id exponent gi k n 0 1 (beToNat b), mkShares numBits id exponent k n r with
    | some s, some l => some (s :: l)
    | _, _ => none

inductive GenResult where
  | ok (mnemonics : List PyStr)
  | reject
  | noRandomness
deriving DecidableEq, Repr

/-- ShareSet.generate_shares with `id = randbits(15)` and the byte randomness `ρ` explicit -/
def generateShares (sha256 : Bytes → Bytes) (hmac256 : Bytes → Bytes → Bytes)
    (kdf : Bytes → Bytes → Nat → Nat → Bytes) (bip39 slip39 : WordList)
    (mnemonic : PyStr) (k n : Nat) (passphrase : Bytes) (exponent id : Nat) (ρ : List Nat) : GenResult :=
  match mnemonicToBytes sha256 bip39 mnemonic with
  | none => .reject
  | some secret =>
    let numBits := secret.length * 8
    if !(Gen.genSharesBits.contains numBits) then .reject
    else
      match encrypt kdf secret id exponent passphrase with
      | none => .reject
      | some encrypted =>
        match splitSecret hmac256 encrypted k n ρ with
        | .reject => .reject
        | .noRandomness => .noRandomness
        | .ok data _ =>
          match mkShares numBits id exponent k n data with
          | none => .reject
          | some shares =>
            match mapM? (Share.mnemonic slip39) shares with
            | none => .reject
            | some ms => .ok ms

/-- ShareSet.recover_mnemonic -/
def recoverMnemonic (sha256 : Bytes → Bytes) (hmac256 : Bytes → Bytes → Bytes)
    (kdf : Bytes → Bytes → Nat → Nat → Bytes) (bip39 slip39 : WordList)
    (shareMnemonics : List PyStr) (passphrase : Bytes) : Option PyStr :=
  match mapM? (Share.parse slip39) shareMnemonics with
  | none => none
  | some shares =>
    match ShareSet.new shares with
    | none => none
    | some ss =>
      match ss with
      | [] => none
      | s0 :: _ =>
        match ShareSet.recover hmac256 kdf ss passphrase with
        | none => none
        | some secret => bytesToMnemonic sha256 bip39 secret s0.shareBitLength

end Buidl.Shamir
