/-
  Buidl.Model.Mnemonic — BIP39 (buidl/mnemonic.py), the vendored PBKDF2 (buidl/pbkdf2.py) and the
  seed hand-off of `HDPrivateKey.from_mnemonic` (buidl/hd.py, helper.hmac_sha512_kdf).
  Import-free (Lean core only).

  Python `str` values are modelled as lists of code points (`PyStr = List Nat`): kernel
  computation over Lean's `String` (ByteArray-backed) is slow, and a Python string is a
  sequence of code points anyway.  The driver converts with `String.toList`/`Char.toNat`.

  Hash functions are parameters: `sha256 : Bytes → Bytes`, `prf : Bytes → Bytes → Bytes`
  (HMAC keyed by its first argument).  `secure_mnemonic` is out of scope (time and `secrets`).
-/
import Buidl.Model.Bytes
import Buidl.Gen.Mnemonic
import Buidl.Gen.Pbkdf2
import Buidl.Gen.Bip39Words
namespace Buidl.Mnemonic
open Buidl

abbrev PyStr := List Nat

/-- `str.isspace()` of a one-character string = the separator set of `str.split()` -/
def isSpace (c : Nat) : Bool :=
  (9 ≤ c && c ≤ 13) || (28 ≤ c && c ≤ 32) || c == 0x85 || c == 0xA0 || c == 0x1680 ||
  (0x2000 ≤ c && c ≤ 0x200A) || c == 0x2028 || c == 0x2029 || c == 0x202F || c == 0x205F || c == 0x3000

/-- `s.split()` with the current word accumulated in reverse -/
def splitAux : PyStr → PyStr → List PyStr
  | [], cur => if cur.isEmpty then [] else [cur.reverse]
  | c :: r, cur =>
    if isSpace c then (if cur.isEmpty then splitAux r [] else cur.reverse :: splitAux r [])
    else splitAux r (c :: cur)

/-- `s.split()` -/
def pySplit (s : PyStr) : List PyStr := splitAux s []

/-- `" ".join(words)` -/
def pyJoin : List PyStr → PyStr
  | [] => []
  | [w] => w
  | w :: r => w ++ 32 :: pyJoin r

/-! ## mnemonic.WordList -/

/-- mnemonic.WordList: `words` is `f.read().split()`; the `lookup` dict is represented by the function
    `WordList.lookup` below -/
structure WordList where
  words : List PyStr

/-- the generator (harness/gen_parts/mnemonic.py) hands over `f.read().split()` with every word packed
    into one number, its code points being the base-`Gen.cpBase` digits, most significant first
    (kernel computation over thousands of such numbers is cheap, over `String`s it is not).
    `fuel` bounds the word length; `none` = fuel exhausted (the generator refuses longer words). -/
def decodeWordAux : Nat → Nat → PyStr → Option PyStr
  | _, 0, acc => some acc
  | 0, _ + 1, _ => none
  | fuel + 1, n + 1, acc => decodeWordAux fuel ((n + 1) / Gen.cpBase) ((n + 1) % Gen.cpBase :: acc)

def decodeWord (n : Nat) : Option PyStr := decodeWordAux Gen.cpMaxWord n []

def decodeWords : List Nat → Option (List PyStr)
  | [] => some []
  | n :: r => match decodeWord n, decodeWords r with
    | some w, some ws => some (w :: ws)
    | _, _ => none

/-- mnemonic.WordList.__init__: `none` = ValueError (unexpected number of words) (or an undecodable table) -/
def WordList.load (packed : List Nat) (numWords : Nat) : Option WordList :=
  match decodeWords packed with
  | none => none
  | some ws => if ws.length != numWords then none else some ⟨ws⟩

/-- the keys `WordList.__init__` stores for the word `w`: `w` itself and, if `len(w) > 4`, `w[:4]` -/
def matchesKey (w key : PyStr) : Bool :=
  w == key || (cmpOp Gen.wlPrefixOp w.length Gen.wlPrefixOver && w.take Gen.wlPrefixLen == key)

/-- the dict is filled in list order and later assignments overwrite earlier ones, so `lookup[key]`
    is the LAST index whose word stores `key` -/
def lookupAux (key : PyStr) : List PyStr → Nat → Option Nat → Option Nat
  | [], _, acc => acc
  | w :: r, i, acc => lookupAux key r (i + 1) (if matchesKey w key then some i else acc)

/-- `self[key]` for a `str` key (`self.lookup[key]`); `none` = KeyError -/
def WordList.lookup (wl : WordList) (key : PyStr) : Option Nat := lookupAux key wl.words 0 none

/-- `self[key]` for a non-negative `int` key (`self.words[key]`); `none` = IndexError -/
def WordList.word (wl : WordList) (i : Nat) : Option PyStr := wl.words[i]?

/-- `key in wl` (`WordList.__contains__`: `key in self.words` — full words only, no prefixes) -/
def WordList.contains (wl : WordList) (key : PyStr) : Bool := wl.words.contains key

/-- `str.lower()` restricted to ASCII.  `normalize` is only reached (in `from_mnemonic`) after
    `mnemonic_to_bytes` has looked every word up successfully, i.e. for keys of the table. -/
def asciiLower (s : PyStr) : PyStr := s.map fun c => if 65 ≤ c ∧ c ≤ 90 then c + 32 else c

/-- mnemonic.WordList.normalize: `self[self[word.lower()]]` -/
def WordList.normalize (wl : WordList) (w : PyStr) : Option PyStr :=
  (wl.lookup (asciiLower w)).bind wl.word

/-- `BIP39 = WordList("bip39_words.txt", 2048)`; `none` = the module fails to import -/
def BIP39? : Option WordList := WordList.load Gen.bip39WordNats Gen.bip39Count

/-- `[WL[word] for word in words]`; `none` = KeyError -/
def lookupAll (wl : WordList) : List PyStr → Option (List Nat)
  | [] => some []
  | w :: r => match wl.lookup w, lookupAll wl r with
    | some i, some is => some (i :: is)
    | _, _ => none

/-! ## mnemonic.mnemonic_to_bytes / bytes_to_mnemonic -/

/-- the loop `for word in words: all_bits <<= 11; all_bits += BIP39[word]`; `none` = KeyError -/
def wordsToBits (wl : WordList) : List PyStr → Nat → Option Nat
  | [], acc => some acc
  | w :: r, acc =>
    match wl.lookup w with
    | none => none
    | some i => wordsToBits wl r ((acc <<< Gen.m2bWordBits) + i)

/-- mnemonic.mnemonic_to_bytes on the already split word list.  `none` = any exception:
    InvalidBIP39Length, KeyError (unknown word), InvalidChecksumWordsError; also OverflowError of
    `int_to_big_endian`, IndexError of `sha256(s)[0]` on an empty digest and ValueError of a negative
    shift count, none of which can occur for the extracted constants and a real SHA-256. -/
def wordsToBytes (sha256 : Bytes → Bytes) (wl : WordList) (words : List PyStr) : Option Bytes :=
  if !(Gen.m2bWordCounts.contains words.length) then none else
  let numWords := words.length
  match wordsToBits wl words 0 with
  | none => none
  | some allBits =>
    let numChecksumBits := numWords / Gen.m2bCsDiv
    let checksum := allBits &&& ((1 <<< numChecksumBits) - 1)
    let allBits := allBits >>> numChecksumBits
    let numBytes := (numWords * Gen.m2bWordBits2 - numChecksumBits) / Gen.m2bByteBits
    match natToBE allBits numBytes with
    | none => none
    | some s =>
      match sha256 s with
      | [] => none
      | h0 :: _ =>
        if numChecksumBits > Gen.m2bCsFrom then none else
        let computed := h0.toNat >>> (Gen.m2bCsFrom - numChecksumBits)
        if checksum != computed then none else some s

/-- mnemonic.mnemonic_to_bytes -/
def mnemonicToBytes (sha256 : Bytes → Bytes) (wl : WordList) (mnemonic : PyStr) : Option Bytes :=
  wordsToBytes sha256 wl (pySplit mnemonic)

/-- the loop of bytes_to_mnemonic: `n` times take the low 11 bits, `mnemonic.insert(0, BIP39[current])`,
    shift right; `none` = IndexError (cannot happen when the table has 2^11 entries) -/
def bitsToWords (wl : WordList) : Nat → Nat → List PyStr → Option (List PyStr)
  | 0, _, acc => some acc
  | n + 1, allBits, acc =>
    match wl.word (allBits &&& ((1 <<< Gen.b2mWordBits2) - 1)) with
    | none => none
    | some w => bitsToWords wl n (allBits >>> Gen.b2mWordBits3) (w :: acc)

/-- mnemonic.bytes_to_mnemonic before the final `" ".join`: the word list -/
def bytesToWords (sha256 : Bytes → Bytes) (wl : WordList) (b : Bytes) (numBits : Nat) :
    Option (List PyStr) :=
  if !(Gen.b2mNumBits.contains numBits) then none else
  let preseed := beToNat b
  let numChecksumBits := numBits / Gen.b2mCsDiv
  match sha256 b with
  | [] => none
  | h0 :: _ =>
    if numChecksumBits > Gen.b2mCsFrom then none else
    let checksum := h0.toNat >>> (Gen.b2mCsFrom - numChecksumBits)
    let allBits := (preseed <<< numChecksumBits) ||| checksum
    bitsToWords wl ((numBits + numChecksumBits) / Gen.b2mWordBits) allBits []

/-- mnemonic.bytes_to_mnemonic -/
def bytesToMnemonic (sha256 : Bytes → Bytes) (wl : WordList) (b : Bytes) (numBits : Nat) :
    Option PyStr :=
  (bytesToWords sha256 wl b numBits).map pyJoin

/-! ## the vendored buidl/pbkdf2.py -/

/-- pbkdf2.binxor: `bytes([x ^ y for (x, y) in zip(a, b)])` (truncates to the shorter argument) -/
def binxor (a b : Bytes) : Bytes := List.zipWith (· ^^^ ·) a b

/-- the state of a `PBKDF2` object after `_setup` -/
structure PBKDF2 where
  passphrase : Bytes
  salt : Bytes
  iterations : Nat
  blockNum : Nat
  buf : Bytes

/-- PBKDF2.__init__ / _setup for `bytes` arguments and an `int` iteration count;
    `none` = ValueError("iterations must be at least 1") -/
def PBKDF2.new (passphrase salt : Bytes) (iterations : Nat) : Option PBKDF2 :=
  if iterations < 1 then none
  else some { passphrase := passphrase, salt := salt, iterations := iterations, blockNum := 0, buf := [] }

/-- the loop of `__f`: `for j in xrange(2, 1 + iterations): U = prf(P, U); result = binxor(result, U)` -/
def fLoop (prf : Bytes → Bytes → Bytes) (pass : Bytes) : Nat → Bytes → Bytes → Bytes
  | 0, _, result => result
  | n + 1, u, result =>
    let u' := prf pass u
    fLoop prf pass n u' (binxor result u')

/-- PBKDF2.__f (the caller guarantees `1 ≤ i ≤ 0xffffffff`; `pack("!L", i)` is the 4-byte big-endian `i`) -/
def PBKDF2.f (prf : Bytes → Bytes → Bytes) (st : PBKDF2) (i : Nat) : Bytes :=
  let u := prf st.passphrase (st.salt ++ natToBE' 4 i)
  fLoop prf st.passphrase (st.iterations - 1) u u

/-- the `while size < bytes` loop of `read`; `blocks` is kept joined.
    `none` = OverflowError("derived key too long") -/
def readLoop (prf : Bytes → Bytes → Bytes) (st : PBKDF2) (want : Nat) (i size : Nat) (blocks : Bytes) :
    Option (Nat × Bytes) :=
  if size < want then
    let i' := i + 1
    if _h : i' > Gen.counterMax ∨ i' < 1 then none
    else
      let block := st.f prf i'
      readLoop prf st want i' (size + block.length) (blocks ++ block)
  else some (i, blocks)
termination_by Gen.counterMax + 1 - i
decreasing_by omega

/-- PBKDF2.read(bytes): the returned key bytes and the new state; `none` = OverflowError -/
def PBKDF2.read (prf : Bytes → Bytes → Bytes) (st : PBKDF2) (n : Nat) : Option (Bytes × PBKDF2) :=
  match readLoop prf st n st.blockNum st.buf.length st.buf with
  | none => none
  | some (i, buf) => some (buf.take n, { st with buf := buf.drop n, blockNum := i })

/-- consecutive reads from one object -/
def PBKDF2.reads (prf : Bytes → Bytes → Bytes) : PBKDF2 → List Nat → Option (List Bytes)
  | _, [] => some []
  | st, n :: ns =>
    match st.read prf n with
    | none => none
    | some (out, st') => (PBKDF2.reads prf st' ns).map (out :: ·)

/-- `binascii.b2a_hex(b).decode("us-ascii")`: lower-case hex digits as code points -/
def hexOf : Bytes → PyStr
  | [] => []
  | b :: r =>
    let d := fun (n : Nat) => if n < 10 then 48 + n else 87 + n
    d (b.toNat / 16) :: d (b.toNat % 16) :: hexOf r

/-- PBKDF2.hexread(octets): `b2a_hex(self.read(octets))` -/
def PBKDF2.hexread (prf : Bytes → Bytes → Bytes) (st : PBKDF2) (n : Nat) : Option (PyStr × PBKDF2) :=
  (st.read prf n).map fun (b, st') => (hexOf b, st')

/-- one call on a `PBKDF2` object -/
inductive PbOp where
  | read (n : Nat)
  | hexread (n : Nat)
  | close
deriving DecidableEq, Repr

/-- what one call returns: key bytes, a hex string, `None` (close), or an exception -/
inductive PbOut where
  | bytes (b : Bytes)
  | hex (s : PyStr)
  | unit
  | raised
deriving DecidableEq, Repr

/-- a history of calls on ONE object.  The state is `none` once `close()` has run (`self.closed`; the
    attributes are deleted): `read` then raises ValueError, a second `close()` does nothing.  A `read` that
    raises OverflowError leaves the object unchanged (buffer and block counter are assigned after the loop). -/
def PBKDF2.run (prf : Bytes → Bytes → Bytes) : Option PBKDF2 → List PbOp → List PbOut
  | _, [] => []
  | none, .close :: r => .unit :: PBKDF2.run prf none r
  | none, _ :: r => .raised :: PBKDF2.run prf none r
  | some _, .close :: r => .unit :: PBKDF2.run prf none r
  | some st, .read n :: r =>
    match st.read prf n with
    | none => .raised :: PBKDF2.run prf (some st) r
    | some (b, st') => .bytes b :: PBKDF2.run prf (some st') r
  | some st, .hexread n :: r =>
    match st.hexread prf n with
    | none => .raised :: PBKDF2.run prf (some st) r
    | some (h, st') => .hex h :: PBKDF2.run prf (some st') r

/-- `PBKDF2(passphrase, salt, iterations, …).read(n)` -/
def pbkdf2Vendored (prf : Bytes → Bytes → Bytes) (passphrase salt : Bytes) (iterations n : Nat) :
    Option Bytes :=
  match PBKDF2.new passphrase salt iterations with
  | none => none
  | some st => (st.read prf n).map (·.1)

/-! ## helper.hmac_sha512_kdf and HDPrivateKey.from_mnemonic -/

/-- `str.encode("UTF-8")`; `none` = UnicodeEncodeError (surrogate code points) -/
def utf8Encode : PyStr → Option Bytes
  | [] => some []
  | c :: r =>
    match utf8Encode r with
    | none => none
    | some t =>
      if c < 0x80 then some (UInt8.ofNat c :: t)
      else if c < 0x800 then some (UInt8.ofNat (0xC0 + c / 64) :: UInt8.ofNat (0x80 + c % 64) :: t)
      else if c < 0x10000 then
        if 0xD800 ≤ c ∧ c ≤ 0xDFFF then none
        else some (UInt8.ofNat (0xE0 + c / 4096) :: UInt8.ofNat (0x80 + c / 64 % 64) :: UInt8.ofNat (0x80 + c % 64) :: t)
      else if c < 0x110000 then
        some (UInt8.ofNat (0xF0 + c / 262144) :: UInt8.ofNat (0x80 + c / 4096 % 64)
          :: UInt8.ofNat (0x80 + c / 64 % 64) :: UInt8.ofNat (0x80 + c % 64) :: t)
      else none

/-- helper.hmac_sha512_kdf(msg, salt) with `msg : str`, `salt : bytes`:
    `PBKDF2(msg, salt, iterations=PBKDF2_ROUNDS, macmodule=hmac, digestmodule=sha512).read(64)`;
    `prf` stands for HMAC-SHA512 -/
def hmacSha512Kdf (prf : Bytes → Bytes → Bytes) (msg : PyStr) (salt : Bytes) : Option Bytes :=
  match utf8Encode msg with
  | none => none
  | some m => pbkdf2Vendored prf m salt Gen.kdfIterations Gen.kdfReadLen

def mapM? {α β} (f : α → Option β) : List α → Option (List β)
  | [] => some []
  | a :: r => match f a, mapM? f r with
    | some b, some bs => some (b :: bs)
    | _, _ => none

/-- the part of HDPrivateKey.from_mnemonic before `cls.from_seed(seed, …).traverse(path)`:
    validity check, normalisation of four-letter prefixes to full words, salt, KDF → the seed -/
def mnemonicToSeed (sha256 : Bytes → Bytes) (prf : Bytes → Bytes → Bytes) (wl : WordList)
    (mnemonic : PyStr) (password : Bytes) : Option Bytes :=
  match mnemonicToBytes sha256 wl mnemonic with
  | none => none
  | some _ =>
    match mapM? wl.normalize (pySplit mnemonic) with
    | none => none
    | some ws => hmacSha512Kdf prf (pyJoin ws) (Gen.seedSaltPrefix ++ password)

/-- HDPrivateKey.from_mnemonic with the BIP32 master derivation (`from_seed`, property C08) as a parameter -/
def fromMnemonic {K} (sha256 : Bytes → Bytes) (prf : Bytes → Bytes → Bytes) (fromSeed : Bytes → Option K)
    (wl : WordList) (mnemonic : PyStr) (password : Bytes) : Option K :=
  (mnemonicToSeed sha256 prf wl mnemonic password).bind fromSeed

end Buidl.Mnemonic
