/-
  Buidl.Model.Mnemonic — BIP39 (buidl/mnemonic.py), the vendored PBKDF2 (buidl/pbkdf2.py) and the
  seed hand-off of `HDPrivateKey.from_mnemonic` (buidl/hd.py, helper.hmac_sha512_kdf).
  Import-free (Lean core only).

  Python `str` values are modelled as lists of code points (`PyStr = List Nat`): kernel
  computation over Lean's `String` (ByteArray-backed) is slow, and a Python string is a
  sequence of code points anyway.  The driver converts with `String.toList`/`Char.toNat`.

  Hash functions are parameters: `sha256 : Bytes → Bytes`, `prf : Bytes → Bytes → Bytes`
  (HMAC keyed by its first argument).  `secure_mnemonic` is out of scope (time and `secrets`).
-/
import Buidl.Model.Bytes
import Buidl.Gen.Mnemonic
import Buidl.Gen.Pbkdf2
import Buidl.Gen.Bip39Text
namespace Buidl.Mnemonic
open Buidl

abbrev PyStr := List Nat

/-- `str.isspace()` of a one-character string = the separator set of `str.split()` -/
def isSpace (c : Nat) : Bool :=
  (9 ≤ c && c ≤ 13) || (28 ≤ c && c ≤ 32) || c == 0x85 || c == 0xA0 || c == 0x1680 ||
  (0x2000 ≤ c && c ≤ 0x200A) || c == 0x2028 || c == 0x2029 || c == 0x202F || c == 0x205F || c == 0x3000

/-- `s.split()` with the current word accumulated in reverse -/
def splitAux : PyStr → PyStr → List PyStr
  | [], cur => if cur.isEmpty then [] else [cur.reverse]
  | c :: r, cur =>
    if isSpace c then (if cur.isEmpty then splitAux r [] else cur.reverse :: splitAux r [])
    else splitAux r (c :: cur)

/-- `s.split()` -/
def pySplit (s : PyStr) : List PyStr := splitAux s []

/-- `" ".join(words)` -/
def pyJoin : List PyStr → PyStr
  | [] => []
  | [w] => w
  | w :: r => w ++ 32 :: pyJoin r

/-! ## mnemonic.WordList -/

/-- mnemonic.WordList: `words` is `f.read().split()`; the `lookup` dict is represented by the function
    `WordList.lookup` below -/
structure WordList where
  words : List PyStr

/-- mnemonic.WordList.__init__: `none` = ValueError (unexpected number of words) -/
def WordList.load (text : PyStr) (numWords : Nat) : Option WordList :=
  let ws := pySplit text
  if ws.length != numWords then none else some ⟨ws⟩

/-- the keys `WordList.__init__` stores for the word `w`: `w` itself and, if `len(w) > 4`, `w[:4]` -/
def matchesKey (w key : PyStr) : Bool :=
  w == key || (cmpOp Gen.wlPrefixOp w.length Gen.wlPrefixOver && w.take Gen.wlPrefixLen == key)

/-- the dict is filled in list order and later assignments overwrite earlier ones, so `lookup[key]`
    is the LAST index whose word stores `key` -/
def lookupAux (key : PyStr) : List PyStr → Nat → Option Nat → Option Nat
  | [], _, acc => acc
  | w :: r, i, acc => lookupAux key r (i + 1) (if matchesKey w key then some i else acc)

/-- `self[key]` for a `str` key (`self.lookup[key]`); `none` = KeyError -/
def WordList.lookup (wl : WordList) (key : PyStr) : Option Nat := lookupAux key wl.words 0 none

/-- `self[key]` for a non-negative `int` key (`self.words[key]`); `none` = IndexError -/
def WordList.word (wl : WordList) (i : Nat) : Option PyStr := wl.words[i]?

/-- `str.lower()` restricted to ASCII.  `normalize` is only reached (in `from_mnemonic`) after
    `mnemonic_to_bytes` has looked every word up successfully, i.e. for keys of the table. -/
def asciiLower (s : PyStr) : PyStr := s.map fun c => if 65 ≤ c ∧ c ≤ 90 then c + 32 else c

/-- mnemonic.WordList.normalize: `self[self[word.lower()]]` -/
def WordList.normalize (wl : WordList) (w : PyStr) : Option PyStr :=
  (wl.lookup (asciiLower w)).bind wl.word

def bip39Text : PyStr :=
  Gen.bip39Text0 ++ Gen.bip39Text1 ++ Gen.bip39Text2 ++ Gen.bip39Text3 ++ Gen.bip39Text4 ++ Gen.bip39Text5

/-- `BIP39 = WordList("bip39_words.txt", 2048)`; `none` = the module fails to import -/
def BIP39? : Option WordList := WordList.load bip39Text Gen.bip39Count

end Buidl.Mnemonic
