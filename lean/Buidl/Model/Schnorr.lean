/-
  Buidl.Model.Schnorr — buidl/phash.py: tagged_hash with TAG_HASH_CACHE as explicit state;
  buidl/pecc.py: PrivateKey.even_secret / bip340_k / sign_schnorr, S256Point.verify_schnorr,
  SchnorrSignature (__init__, parse, serialize).  No Mathlib.

  `sha256 : Bytes → Bytes` is a parameter everywhere (hashlib.sha256(·).digest()).
  `none` = the Python raises.  Every function that hashes takes the cache and returns the new one.
-/
import Buidl.Model.EC
import Buidl.Gen.Schnorr
namespace Buidl.Schnorr
open Buidl Buidl.EC

/-! ### phash.py -/

/-- TAG_HASH_CACHE: a dict in insertion order -/
abbrev Cache := List (Bytes × Bytes)

/-- `TAG_HASH_CACHE.get(tag)` -/
def cacheGet : Cache → Bytes → Option Bytes
  | [], _ => none
  | (k, v) :: rest, tag => if k = tag then some v else cacheGet rest tag

/-- `TAG_HASH_CACHE[tag] = v` (an existing key keeps its position) -/
def cacheSet : Cache → Bytes → Bytes → Cache
  | [], tag, v => [(tag, v)]
  | (k, w) :: rest, tag, v => if k = tag then (k, v) :: rest else (k, w) :: cacheSet rest tag v

/-- phash.tagged_hash: `none` would be the KeyError of `TAG_HASH_CACHE[tag]` -/
def taggedHash (sha256 : Bytes → Bytes) (c : Cache) (tag msg : Bytes) : Option (Bytes × Cache) :=
  let c' := match cacheGet c tag with
    | none => cacheSet c tag (sha256 tag ++ sha256 tag)   -- `hashlib.sha256(tag).digest() * 2`
    | some _ => c
  match cacheGet c' tag with
  | none => none
  | some pre => some (sha256 (pre ++ msg), c')

/-- a history of tagged_hash calls `(tag, msg)` starting from the cache `c`: all digests and the final cache -/
def taggedHistory (sha256 : Bytes → Bytes) : Cache → List (Bytes × Bytes) → Option (List Bytes × Cache)
  | c, [] => some ([], c)
  | c, (tag, msg) :: rest =>
    match taggedHash sha256 c tag msg with
    | none => none
    | some (d, c) =>
      match taggedHistory sha256 c rest with
      | none => none
      | some (ds, c) => some (d :: ds, c)

def hashAux (sha256 : Bytes → Bytes) (c : Cache) (msg : Bytes) := taggedHash sha256 c Gen.schnorrTagAux msg
def hashNonce (sha256 : Bytes → Bytes) (c : Cache) (msg : Bytes) := taggedHash sha256 c Gen.schnorrTagNonce msg
def hashChallenge (sha256 : Bytes → Bytes) (c : Cache) (msg : Bytes) := taggedHash sha256 c Gen.schnorrTagChallenge msg

/-! ### helper.xor_bytes -/

/-- `bytes(x ^ y for x, y in zip(a, b))` -/
def xorBytes : Bytes → Bytes → Bytes
  | a :: as, b :: bs => (a ^^^ b) :: xorBytes as bs
  | _, _ => []

/-! ### PrivateKey -/

/-- `PrivateKey(secret)`: RuntimeError unless `1 ≤ secret ≤ N - 1`; returns `self.point` -/
def mkPrivateKey (d : Nat) : Option Pt :=
  if d > N - 1 then none else if d < 1 then none else some (smul (d : Int) G)

/-- `point.parity`: the attribute does not exist on the point at infinity (AttributeError) -/
def parityOf : Pt → Option Nat
  | .inf => none
  | .aff _ y => some (y % 2)

/-- PrivateKey.even_secret (`pt` = `self.point`) -/
def evenSecret (d : Nat) (pt : Pt) : Option Nat := do
  let par ← parityOf pt
  pure (if par = 1 then N - d else d)

/-- PrivateKey.bip340_k(msg, aux); `aux = none` is the default `None` -/
def bip340K (sha256 : Bytes → Bytes) (c : Cache) (d : Nat) (pt : Pt) (msg : Bytes) (aux : Option Bytes) :
    Option (Nat × Cache) := do
  let aux := match aux with
    | none => List.replicate 32 (0 : UInt8)
    | some a => a
  let e ← evenSecret d pt
  if cmpAt Gen.bip340KCmp 0 msg.length then none else
  if cmpAt Gen.bip340KCmp 1 aux.length then none else
  let eBytes ← natToBE e 32
  let (ha, c) ← hashAux sha256 c aux
  let t := xorBytes eBytes ha
  let (hn, c) ← hashNonce sha256 c (t ++ xonly pt ++ msg)
  pure (beToNat hn % N, c)

/-- S256Point.verify_schnorr(msg, SchnorrSignature(R, s)) on the point `P` -/
def verifySchnorr (sha256 : Bytes → Bytes) (c : Cache) (P : Pt) (msg : Bytes) (R : Pt) (s : Nat) :
    Option (Bool × Cache) := do
  let par ← parityOf P
  let point := if par = 1 then smul (-1) P else P
  match R with
  | .inf => pure (false, c)
  | .aff _ _ =>
    let message := xonly R ++ xonly point ++ msg
    let (h, c) ← hashChallenge sha256 c message
    let challenge := beToNat h % N
    let result := saddInt (smul (-(challenge : Int)) point) (s : Int)
    match result with
    | .inf => pure (false, c)
    | .aff _ y =>
      if y % 2 = 1 then pure (false, c)
      else pure (xonly result == xonly R, c)

/-- SchnorrSignature(r, s): ValueError when `s >= N` -/
def mkSig (R : Pt) (s : Nat) : Option (Pt × Nat) :=
  if cmpAt Gen.schnorrSigCmp 0 s then none else some (R, s)

/-- PrivateKey(d).sign_schnorr(msg, aux) → (R, s) -/
def signSchnorr (sha256 : Bytes → Bytes) (c : Cache) (d : Nat) (msg : Bytes) (aux : Option Bytes) :
    Option ((Pt × Nat) × Cache) := do
  let pt ← mkPrivateKey d
  let e ← evenSecret d pt
  let (k, c) ← bip340K sha256 c d pt msg aux
  let r := smul (k : Int) G
  let par ← parityOf r
  let k := if par = 1 then N - k else k
  let r := if par = 1 then smul (k : Int) G else r
  let commitment := xonly r ++ xonly pt ++ msg
  let (hc, c) ← hashChallenge sha256 c commitment
  let h := beToNat hc % N
  let s := (k + e * h) % N
  let sig ← mkSig r s
  let (ok, c) ← verifySchnorr sha256 c pt msg sig.1 sig.2
  if !ok then none else   -- RuntimeError("Bad Signature")
  pure (sig, c)

/-! ### SchnorrSignature codec -/

/-- SchnorrSignature.serialize -/
def serialize (R : Pt) (s : Nat) : Option Bytes := do
  let sb ← natToBE s 32
  pure (xonly R ++ sb)

/-- SchnorrSignature.parse: `S256Point.parse(stream.read(32))`, `big_endian_to_int(stream.read(32))`;
    both reads may be short, bytes after the 64th are ignored (observation O02a) -/
def parse (bin : Bytes) : Option (Pt × Nat) := do
  let (rb, rest) := sread Gen.schnorrParseRWidth bin
  let R ← parsePoint rb
  let (sb, _) := sread Gen.schnorrParseSWidth rest
  mkSig R (beToNat sb)

/-- what a caller does with raw bytes: `S256Point.parse(pk).verify_schnorr(msg, SchnorrSignature.parse(sig))` -/
def verifyRaw (sha256 : Bytes → Bytes) (c : Cache) (pk msg sig : Bytes) : Option (Bool × Cache) := do
  let Pk ← parsePoint pk
  let (R, s) ← parse sig
  verifySchnorr sha256 c Pk msg R s

end Buidl.Schnorr
