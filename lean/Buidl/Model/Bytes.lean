/-
  Buidl.Model.Bytes — byte strings, integer codecs, Python stream semantics.
  Import-free (Lean core only) so that drivers link natively.

  Mirrors buidl/helper.py:
    little_endian_to_int / int_to_little_endian / big_endian_to_int / int_to_big_endian
    read_varint / encode_varint / read_varstr / encode_varstr
  and `io.BytesIO.read(n)` (short read at end of stream, never an error).
-/
import Buidl.Gen.Helper
namespace Buidl

abbrev Bytes := List UInt8

/-- `int.from_bytes(b, "little")` -/
def leToNat : Bytes → Nat
  | [] => 0
  | b :: bs => b.toNat + 256 * leToNat bs

/-- `int.from_bytes(b, "big")` (accumulator form, as a left fold) -/
def beToNatAux (acc : Nat) : Bytes → Nat
  | [] => acc
  | b :: bs => beToNatAux (acc * 256 + b.toNat) bs

def beToNat (b : Bytes) : Nat := beToNatAux 0 b

/-- the low `w` little-endian bytes of `n` (no range check) -/
def natToLE' : Nat → Nat → Bytes
  | 0, _ => []
  | w + 1, n => UInt8.ofNat (n % 256) :: natToLE' w (n / 256)

/-- `n.to_bytes(w, "little")`: `none` is Python's OverflowError -/
def natToLE (n w : Nat) : Option Bytes :=
  if n < 256 ^ w then some (natToLE' w n) else none

def natToBE' (w n : Nat) : Bytes := (natToLE' w n).reverse

/-- `n.to_bytes(w, "big")` -/
def natToBE (n w : Nat) : Option Bytes :=
  if n < 256 ^ w then some (natToBE' w n) else none

/-- `BytesIO.read(n)`: returns what is there (possibly fewer than `n` bytes) and the rest -/
def sread (n : Nat) (s : Bytes) : Bytes × Bytes := (s.take n, s.drop n)

/-- helper.encode_varint; `none` = RuntimeError("integer too large") (or OverflowError from
    `int_to_little_endian` should a threshold exceed its width).  Thresholds, prefix bytes
    and widths are re-extracted from the source (Buidl.Gen.Helper). -/
def encodeVarint (i : Nat) : Option Bytes :=
  if i < Gen.varintEncT0 then (natToLE i 1)
  else if i < Gen.varintEncT1 then (natToLE i Gen.varintEncW0).map (UInt8.ofNat Gen.varintEncP0 :: ·)
  else if i < Gen.varintEncT2 then (natToLE i Gen.varintEncW1).map (UInt8.ofNat Gen.varintEncP1 :: ·)
  else if i < Gen.varintEncT3 then (natToLE i Gen.varintEncW2).map (UInt8.ofNat Gen.varintEncP2 :: ·)
  else none

/-- helper.read_varint on a stream; `none` = IOError("stream has no bytes").
    A short read of the 2/4/8 following bytes is *not* an error in the code. -/
def readVarint (s : Bytes) : Option (Nat × Bytes) :=
  match s with
  | [] => none
  | b :: r =>
    if b.toNat = Gen.varintDecM0 then some (leToNat (r.take Gen.varintDecW0), r.drop Gen.varintDecW0)
    else if b.toNat = Gen.varintDecM1 then some (leToNat (r.take Gen.varintDecW1), r.drop Gen.varintDecW1)
    else if b.toNat = Gen.varintDecM2 then some (leToNat (r.take Gen.varintDecW2), r.drop Gen.varintDecW2)
    else some (b.toNat, r)

/-- helper.encode_varstr -/
def encodeVarstr (b : Bytes) : Option Bytes :=
  (encodeVarint b.length).map (· ++ b)

/-- helper.read_varstr (short read of the body is not an error in the code; a length that
    does not fit a signed 64-bit index makes `BytesIO.read` raise OverflowError) -/
def readVarstr (s : Bytes) : Option (Bytes × Bytes) :=
  match readVarint s with
  | none => none
  | some (n, r) => if n < 2 ^ 63 then some (r.take n, r.drop n) else none

/-- a comparison whose operator is data re-extracted from the source (Python `ast` operator
    class names); an unknown operator never holds -/
def cmpOp (op : String) (a b : Nat) : Bool :=
  if op = "Lt" then a < b else if op = "LtE" then a ≤ b
  else if op = "Gt" then a > b else if op = "GtE" then a ≥ b
  else if op = "Eq" then a == b else if op = "NotEq" then a != b else false

/-- the `i`-th extracted comparison of a function applied to `x` (`x OP constant`) -/
def cmpAt (tbl : List (String × Nat)) (i : Nat) (x : Nat) : Bool :=
  match tbl[i]? with
  | some (op, v) => cmpOp op x v
  | none => false

/-- bytes.strip(b"\x00") -/
def stripZeros (b : Bytes) : Bytes :=
  ((b.dropWhile (· = 0)).reverse.dropWhile (· = 0)).reverse

end Buidl
