/-
  Buidl.Model.PyStr — the Python `str` operations used by buidl/hd.py, blinding.py and
  descriptor.py, over `Str := List Char` (code points).  Import-free.

  Modelled exactly for ASCII input; for non-ASCII input `lower()` is the ASCII one (Python
  also maps e.g. U+212A KELVIN SIGN to `k`) and `int()` accepts ASCII digits only (Python
  also accepts every Unicode decimal digit).  The harnesses generate ASCII text.
-/
namespace Buidl.PyStr

/-- Python `str` as a list of code points -/
abbrev Str := List Char

/-- `str.lower()` (ASCII) -/
def lower (s : Str) : Str := s.map Char.toLower

/-- `s.replace(a, b)` for one-character `a`, `b` -/
def replaceChar (a b : Char) (s : Str) : Str := s.map (fun c => if c = a then b else c)

/-- `s.replace("//", "/")`: one left-to-right pass over non-overlapping occurrences -/
def collapseSlashes : Str → Str
  | '/' :: '/' :: r => '/' :: collapseSlashes r
  | c :: r => c :: collapseSlashes r
  | [] => []

/-- `s.replace("\\/", "/")` (backslash-slash → slash), one left-to-right pass -/
def unescapeSlashes : Str → Str
  | '\\' :: '/' :: r => '/' :: unescapeSlashes r
  | c :: r => c :: unescapeSlashes r
  | [] => []

/-- `str.isspace()` for one character (the code points `str.strip()` and `int()` remove) -/
def isSpace (c : Char) : Bool :=
  let n := c.toNat
  (9 ≤ n ∧ n ≤ 13) ∨ (28 ≤ n ∧ n ≤ 32) ∨ n = 0x85 ∨ n = 0xA0 ∨ n = 0x1680 ∨ (0x2000 ≤ n ∧ n ≤ 0x200A)
    ∨ n = 0x2028 ∨ n = 0x2029 ∨ n = 0x202F ∨ n = 0x205F ∨ n = 0x3000

/-- `str.strip()` -/
def strip (s : Str) : Str := ((s.dropWhile isSpace).reverse.dropWhile isSpace).reverse

/-- `s.split(c)` for a one-character separator: always at least one piece -/
def split (sep : Char) : Str → List Str
  | [] => [[]]
  | x :: xs =>
    if x = sep then [] :: split sep xs
    else match split sep xs with
      | [] => [[x]]
      | p :: ps => (x :: p) :: ps

/-- `sep.join(parts)` for a one-character separator -/
def join (sep : Char) : List Str → Str
  | [] => []
  | [p] => p
  | p :: ps => p ++ sep :: join sep ps

/-- `s.count(c)` for one character -/
def count (c : Char) (s : Str) : Nat := (s.filter (· = c)).length

/-- `s.startswith(p)` -/
def startsWith (p s : Str) : Bool := p.isPrefixOf s

/-- `s.endswith(c)` for one character (`s[-1:] == c`) -/
def endsWithChar (c : Char) (s : Str) : Bool := s.getLast? = some c

/-- `haystack.find(c)`: position of the first occurrence, `none` = -1 -/
def find? (c : Char) : Str → Option Nat
  | [] => none
  | x :: xs => if x = c then some 0 else (find? c xs).map (· + 1)

/-- the digits part of Python's `int(s)` for base 10: ASCII digits, single underscores allowed
    between digits.  `prev` = the previous character was a digit. -/
def intDigits : Str → Nat → Bool → Option Nat
  | [], acc, prev => if prev then some acc else none
  | c :: r, acc, prev =>
    if c.isDigit then intDigits r (acc * 10 + (c.toNat - '0'.toNat)) true
    else if c = '_' ∧ prev then intDigits r acc false
    else none

/-- Python `int(s)` (base 10): surrounding whitespace, optional sign, digits with single
    underscores.  `none` = ValueError.  (The 4300-digit limit of CPython ≥ 3.11 is not modelled.) -/
def pyInt (s : Str) : Option Int :=
  match strip s with
  | '-' :: r => (intDigits r 0 false).map (fun n => - (n : Int))
  | '+' :: r => (intDigits r 0 false).map (fun n => (n : Int))
  | r => (intDigits r 0 false).map (fun n => (n : Int))

/-- helper.is_intable -/
def isIntable (s : Str) : Bool := (pyInt s).isSome

/-- `str(n)` for a non-negative integer -/
def natStr (n : Nat) : Str := Nat.toDigits 10 n

/-- `str(i)` for an integer -/
def intStr : Int → Str
  | .ofNat n => natStr n
  | .negSucc n => '-' :: natStr (n + 1)

/-- `bytes.hex()` -/
def hexDigit (n : Nat) : Char := if n < 10 then Char.ofNat (n + '0'.toNat) else Char.ofNat (n - 10 + 'a'.toNat)
def hexOf (b : List UInt8) : Str := b.foldr (fun x acc => hexDigit (x.toNat / 16) :: hexDigit (x.toNat % 16) :: acc) []

/-- lexicographic `≤` on code points (Python `str` comparison), on byte values (`bytes`) -/
def strLe : Str → Str → Bool
  | [], _ => true
  | _ :: _, [] => false
  | a :: as, b :: bs => if a.toNat < b.toNat then true else if b.toNat < a.toNat then false else strLe as bs

def bytesLe : List UInt8 → List UInt8 → Bool
  | [], _ => true
  | _ :: _, [] => false
  | a :: as, b :: bs => if a.toNat < b.toNat then true else if b.toNat < a.toNat then false else bytesLe as bs

/-- a comparison whose operator is re-extracted from the source, on integers -/
def cmpOpI (op : String) (a b : Int) : Bool :=
  if op = "Lt" then a < b else if op = "LtE" then a ≤ b
  else if op = "Gt" then a > b else if op = "GtE" then a ≥ b
  else if op = "Eq" then a == b else if op = "NotEq" then a != b else false

end Buidl.PyStr
