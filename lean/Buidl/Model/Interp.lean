/-
  Buidl.Model.Interp — buidl/op.py (number codec, every `op_*` function, both dispatch tables)
  and buidl/script.py `Script.evaluate`.  No Mathlib (Lean core + Buidl.Model.* only).

  Conventions
  * A stack is a `List Bytes` whose HEAD IS THE TOP (Python's `stack[-1]`); Python's
    `stack[-k]` is `s[k-1]?`, `stack[0]` is the last list element, `stack.pop()` removes the head,
    `len(stack) < k` is a pattern with fewer than `k` conses.  The driver converts from/to the
    Python order (bottom first).
  * An `op_*` function returns `Res.ok stack'` (returned True), `Res.fail` (returned False) or
    `Res.err e` (raised).  `evaluate` returns `Out.accept/reject/err/outOfFuel`.
  * Hash functions, signature checks and the transaction context are fields of `Env`.
  * `Cfg` holds the deviation flags of the C07 and C06 findings that are proposed as `fix:` patches
    (DESIGN 2.3): `Cfg.repaired` is the code with work/C07/fix-F07{a,c,d}.diff and
    work/C06/fix-F06{a,c,d,e,f,g}.diff applied, `Cfg.preC06` the code with only the C07 patches,
    `Cfg.asIs` the code before the C07 patches.  F07b (op_2rot copies) is a known finding: the model
    reproduces today's behaviour under every configuration.
  * Dispatch tables and timelock constants come from Buidl.Gen.Op (re-extracted from /repo).
-/
import Buidl.Model.Script
import Buidl.Gen.Op
namespace Buidl.Interp
open Buidl Buidl.Script

/-! ## results -/

/-- Python exception classes that matter (all are "rejected" for an observer) -/
inductive Err where
  | indexError | keyError | typeError | valueError | runtimeError | attributeError
  | unmodelled   -- the dispatch table names a function this model does not know (driver: bad-op)
deriving DecidableEq, Repr, Inhabited

inductive Res (α : Type) where
  | ok (a : α)
  | fail              -- returned False
  | err (e : Err)     -- raised
deriving Repr, DecidableEq

def Res.bind {α β} (r : Res α) (f : α → Res β) : Res β :=
  match r with
  | .ok a => f a
  | .fail => .fail
  | .err e => .err e

/-- deviation flags (false = today's code, true = repaired) -/
structure Cfg where
  finalCastToBool   : Bool   -- F07a: final stack test uses op_verify instead of `== b""`
  pickRollRejectNeg : Bool   -- F07c: op_pick / op_roll refuse a negative index
  csvDisableIsNop   : Bool   -- F07d: op_checksequenceverify treats an operand with bit 31 as a NOP
  -- C06 (work/C06/fix-F06*.diff)
  multisigFailBranch  : Bool := true  -- F06a: a signature that no remaining key verifies fails op_checkmultisig
  witnessNeedsEmptySig : Bool := true -- F06c: verify_input refuses a ScriptSig on a native witness program
  p2shPushOnly        : Bool := true  -- F06d: verify_input refuses a p2sh ScriptSig with an opcode above OP_16
  nestedWitnessAlone  : Bool := true  -- F06e: a witness program nested in p2sh is the only ScriptSig element
  triggersOnlyAtEnd   : Bool := true  -- F06f: witness programs are recognised only when no command remains
  tapLeafRawBytes     : Bool := true  -- F06g: the tap leaf hash commits to the witness' script bytes
deriving DecidableEq, Repr

/-- /repo with every proposed C07 and C06 patch applied -/
def Cfg.repaired : Cfg := { finalCastToBool := true, pickRollRejectNeg := true, csvDisableIsNop := true }
/-- /repo before the C07 patches (C06 flags repaired) -/
def Cfg.asIs : Cfg := { finalCastToBool := false, pickRollRejectNeg := false, csvDisableIsNop := false }
/-- /repo at a5beaa1: C07 patches applied, none of the C06 patches -/
def Cfg.preC06 : Cfg :=
  { finalCastToBool := true, pickRollRejectNeg := true, csvDisableIsNop := true,
    multisigFailBranch := false, witnessNeedsEmptySig := false, p2shPushOnly := false,
    nestedWitnessAlone := false, triggersOnlyAtEnd := false, tapLeafRawBytes := false }

/-- transaction context, hashes and signature oracles -/
structure Env where
  locktime : Nat                -- tx_obj.locktime (a Locktime: 0 ≤ · ≤ 2^32-1)
  sequence : Nat                -- tx_obj.tx_ins[input_index].sequence (a Sequence)
  version  : Nat                -- tx_obj.version
  sha1 : Bytes → Bytes
  ripemd160 : Bytes → Bytes
  sha256 : Bytes → Bytes
  hash160 : Bytes → Bytes
  hash256 : Bytes → Bytes
  /-- `S256Point.parse(sec)` raises -/
  pkErr : Bytes → Option Err := fun _ => none
  /-- `Signature.parse(der)` then `tx_obj.sig_hash(input_index, hash_type)` raises -/
  sigPre : Bytes → Nat → Option Err := fun _ _ => none
  /-- `point.verify(z, sig)` for pubkey, hash type, DER signature -/
  ecdsaOK : Bytes → Nat → Bytes → Bool := fun _ _ _ => false
  /-- `S256Point.parse_xonly(pubkey)` raises -/
  xonlyErr : Bytes → Option Err := fun _ => none
  /-- `SchnorrSignature.parse(sig)` then `tx_obj.sig_hash(input_index, hash_type)` raises -/
  schnorrPre : Bytes → Nat → Option Err := fun _ _ => none
  /-- `point.verify_schnorr(msg, sig)` for x-only pubkey, hash type, 64-byte signature -/
  schnorrOK : Bytes → Nat → Bytes → Bool := fun _ _ _ => false
  /-- `ControlBlock.parse(b)` raises -/
  cbErr : Bytes → Option Err := fun _ => none
  /-- `control_block.external_pubkey(tap_script)` for a control block and the script serialisation
      that `TapLeaf.hash` hashes (`tap_script.raw_serialize()`): (x-only key of the tweak point,
      `tweak_point.parity == control_block.parity`) -/
  tapCommit : Bytes → Bytes → Except Err (Bytes × Bool) := fun _ _ => .error .valueError

/-! ## number codec -/

/-- the `while abs_num:` loop of encode_num (`& 0xFF`, `>>= 8`); fuel ≥ value suffices -/
def magBytes : Nat → Nat → Bytes
  | 0, _ => []
  | f + 1, n => if n = 0 then [] else UInt8.ofNat (n % 256) :: magBytes f (n / 256)

/-- op.encode_num.  `result[-1] & 0x80` on a byte is `≥ 128`; `result[-1] |= 0x80` when the bit
    is clear is `+ 128`. -/
def encodeNum (n : Int) : Bytes :=
  if n = 0 then [] else
  let mag := magBytes n.natAbs n.natAbs
  match mag.reverse with
  | [] => []                                  -- unreachable: abs_num ≠ 0
  | last :: initRev =>
    if 128 ≤ last.toNat then
      mag ++ [if n < 0 then 0x80 else 0]
    else if n < 0 then (UInt8.ofNat (last.toNat + 128) :: initRev).reverse
    else mag

/-- op.decode_num: total on all byte strings -/
def decodeNum (b : Bytes) : Int :=
  match b.reverse with                        -- big_endian = element[::-1]
  | [] => 0
  | top :: rest =>
    if 128 ≤ top.toNat then                   -- big_endian[0] & 0x80
      - ((beToNatAux (top.toNat - 128) rest : Nat) : Int)     -- & 0x7F, then `result <<= 8; result += c`
    else
      ((beToNatAux top.toNat rest : Nat) : Int)

/-- Python truthiness of `decode_num(element) == 0` negated -/
def truthy (b : Bytes) : Bool := decodeNum b != 0

def numTrue : Bytes := encodeNum 1
def numFalse : Bytes := encodeNum 0
def boolNum (b : Bool) : Bytes := if b then encodeNum 1 else encodeNum 0

abbrev Stack := List Bytes

/-! ## constants, flow-free stack operations (op.py:119-460) -/

/-- op_0 … op_16, op_1negate -/
def op_num (n : Int) (s : Stack) : Res Stack := .ok (encodeNum n :: s)

def op_nop (s : Stack) : Res Stack := .ok s

/-- op_success (tapscript) -/
def op_success (s : Stack) : Res Stack := .ok s

def op_verify : Stack → Res Stack
  | [] => .fail
  | e :: s => if decodeNum e = 0 then .fail else .ok s

def op_return (_ : Stack) : Res Stack := .fail

def op_toaltstack : Stack → Stack → Res (Stack × Stack)
  | [], _ => .fail
  | x :: s, alt => .ok (s, x :: alt)

def op_fromaltstack : Stack → Stack → Res (Stack × Stack)
  | _, [] => .fail
  | s, x :: alt => .ok (x :: s, alt)

def op_2drop : Stack → Res Stack
  | _ :: _ :: s => .ok s
  | _ => .fail

def op_2dup : Stack → Res Stack
  | b :: a :: s => .ok (b :: a :: b :: a :: s)
  | _ => .fail

def op_3dup : Stack → Res Stack
  | c :: b :: a :: s => .ok (c :: b :: a :: c :: b :: a :: s)
  | _ => .fail

/-- `stack.extend(stack[-4:-2])` -/
def op_2over : Stack → Res Stack
  | d :: c :: b :: a :: s => .ok (b :: a :: d :: c :: b :: a :: s)
  | _ => .fail

/-- `stack.extend(stack[-6:-4])` — copies, does not move (F07b) -/
def op_2rot : Stack → Res Stack
  | f :: e :: d :: c :: b :: a :: s => .ok (b :: a :: f :: e :: d :: c :: b :: a :: s)
  | _ => .fail

/-- `stack[-4:] = stack[-2:] + stack[-4:-2]` -/
def op_2swap : Stack → Res Stack
  | d :: c :: b :: a :: s => .ok (b :: a :: d :: c :: s)
  | _ => .fail

def op_ifdup : Stack → Res Stack
  | [] => .fail
  | x :: s => if decodeNum x ≠ 0 then .ok (x :: x :: s) else .ok (x :: s)

def op_depth (s : Stack) : Res Stack := .ok (encodeNum (s.length : Int) :: s)

def op_drop : Stack → Res Stack
  | _ :: s => .ok s
  | [] => .fail

def op_dup : Stack → Res Stack
  | x :: s => .ok (x :: x :: s)
  | [] => .fail

/-- `stack[-2:] = stack[-1:]` -/
def op_nip : Stack → Res Stack
  | b :: _ :: s => .ok (b :: s)
  | _ => .fail

def op_over : Stack → Res Stack
  | b :: a :: s => .ok (a :: b :: a :: s)
  | _ => .fail

/-- op_pick.  After `n = decode_num(stack.pop())`: `len(stack) < n + 1` → False;
    `stack[-n-1]` — with a negative `n` the index `-n-1 ≥ 0` counts from the BOTTOM (F07c). -/
def op_pick (cfg : Cfg) : Stack → Res Stack
  | [] => .fail
  | top :: s =>
    let n := decodeNum top
    if cfg.pickRollRejectNeg && decide (n < 0) then .fail
    else if (s.length : Int) < n + 1 then .fail
    else if 0 ≤ n then
      match s[n.toNat]? with
      | some x => .ok (x :: s)
      | none => .err .indexError
    else
      match s.reverse[(-n - 1).toNat]? with
      | some x => .ok (x :: s)
      | none => .err .indexError

/-- op_roll: `stack.append(stack.pop(-n - 1))` -/
def op_roll (cfg : Cfg) : Stack → Res Stack
  | [] => .fail
  | top :: s =>
    let n := decodeNum top
    if cfg.pickRollRejectNeg && decide (n < 0) then .fail
    else if (s.length : Int) < n + 1 then .fail
    else if n = 0 then .ok s
    else if 0 ≤ n then
      match s[n.toNat]? with
      | some x => .ok (x :: s.eraseIdx n.toNat)
      | none => .err .indexError
    else
      let r := s.reverse
      let i := (-n - 1).toNat
      match r[i]? with
      | some x => .ok (x :: (r.eraseIdx i).reverse)
      | none => .err .indexError

/-- `stack.append(stack.pop(-3))` -/
def op_rot : Stack → Res Stack
  | c :: b :: a :: s => .ok (a :: c :: b :: s)
  | _ => .fail

def op_swap : Stack → Res Stack
  | b :: a :: s => .ok (a :: b :: s)
  | _ => .fail

/-- `stack.insert(-2, stack[-1])` -/
def op_tuck : Stack → Res Stack
  | b :: a :: s => .ok (b :: a :: b :: s)
  | _ => .fail

def op_size : Stack → Res Stack
  | x :: s => .ok (encodeNum (x.length : Int) :: x :: s)
  | [] => .fail

def op_equal : Stack → Res Stack
  | e1 :: e2 :: s => .ok (boolNum (e1 == e2) :: s)
  | _ => .fail

/-- `op_equal(stack) and op_verify(stack)` -/
def op_equalverify (s : Stack) : Res Stack := (op_equal s).bind op_verify

/-! ## arithmetic (op.py:462-671): `decode_num` accepts operands of any length -/

def unaryNum (f : Int → Int) : Stack → Res Stack
  | x :: s => .ok (encodeNum (f (decodeNum x)) :: s)
  | [] => .fail

def op_1add : Stack → Res Stack := unaryNum (· + 1)
def op_1sub : Stack → Res Stack := unaryNum (· - 1)
def op_negate : Stack → Res Stack := unaryNum (fun e => -e)
def op_abs : Stack → Res Stack := unaryNum (fun e => if e < 0 then -e else e)

def op_not : Stack → Res Stack
  | x :: s => .ok (boolNum (decodeNum x == 0) :: s)
  | [] => .fail

def op_0notequal : Stack → Res Stack
  | x :: s => .ok (boolNum (!(decodeNum x == 0)) :: s)
  | [] => .fail

/-- `element1 = decode_num(stack.pop())` (top), `element2 = decode_num(stack.pop())` -/
def binaryNum (f : Int → Int → Bytes) : Stack → Res Stack
  | x1 :: x2 :: s => .ok (f (decodeNum x1) (decodeNum x2) :: s)
  | _ => .fail

def op_add := binaryNum (fun e1 e2 => encodeNum (e1 + e2))
def op_sub := binaryNum (fun e1 e2 => encodeNum (e2 - e1))
def op_booland := binaryNum (fun e1 e2 => boolNum (e1 != 0 && e2 != 0))
def op_boolor := binaryNum (fun e1 e2 => boolNum (e1 != 0 || e2 != 0))
def op_numequal := binaryNum (fun e1 e2 => boolNum (e1 == e2))
def op_numequalverify (s : Stack) : Res Stack := (op_numequal s).bind op_verify
def op_numnotequal := binaryNum (fun e1 e2 => boolNum (!(e1 == e2)))
def op_lessthan := binaryNum (fun e1 e2 => boolNum (decide (e2 < e1)))
def op_greaterthan := binaryNum (fun e1 e2 => boolNum (decide (e2 > e1)))
def op_lessthanorequal := binaryNum (fun e1 e2 => boolNum (decide (e2 ≤ e1)))
def op_greaterthanorequal := binaryNum (fun e1 e2 => boolNum (decide (e2 ≥ e1)))
def op_min := binaryNum (fun e1 e2 => if e1 < e2 then encodeNum e1 else encodeNum e2)
def op_max := binaryNum (fun e1 e2 => if e1 > e2 then encodeNum e1 else encodeNum e2)

def op_within : Stack → Res Stack
  | mx :: mn :: el :: s =>
    let maximum := decodeNum mx
    let minimum := decodeNum mn
    let element := decodeNum el
    .ok (boolNum (decide (element ≥ minimum) && decide (element < maximum)) :: s)
  | _ => .fail

/-! ## hashes (op.py:674-715) -/

def hashOp (h : Bytes → Bytes) : Stack → Res Stack
  | x :: s => .ok (h x :: s)
  | [] => .fail

def op_ripemd160 (env : Env) := hashOp env.ripemd160
def op_sha1 (env : Env) := hashOp env.sha1
def op_sha256 (env : Env) := hashOp env.sha256
def op_hash160 (env : Env) := hashOp env.hash160
def op_hash256 (env : Env) := hashOp env.hash256

/-! ## signature opcodes (op.py:718-845) -/

def optErr {α} (o : Option Err) (k : Res α) : Res α :=
  match o with
  | some e => .err e
  | none => k

/-- `tmp[:-1], tmp[-1]` — IndexError on an empty element -/
def splitHashType (tmp : Bytes) : Res (Bytes × Nat) :=
  match tmp.reverse with
  | [] => .err .indexError
  | ht :: r => .ok (r.reverse, ht.toNat)

def op_checksig (env : Env) : Stack → Res Stack
  | pk :: tmp :: s =>
    (splitHashType tmp).bind fun (der, ht) =>
    optErr (env.pkErr pk) <| optErr (env.sigPre der ht) <|
    .ok (boolNum (env.ecdsaOK pk ht der) :: s)
  | _ => .fail

def op_checksigverify (env : Env) (s : Stack) : Res Stack := (op_checksig env s).bind op_verify

/-- the part of op_checksig_schnorr / op_checksigadd_schnorr after the pops:
    `some true/false` = verification result, `none` = empty signature -/
def schnorrCheck (env : Env) (pubkey signature : Bytes) : Res (Option Bool) :=
  optErr (env.xonlyErr pubkey) <|
  if signature.length = 65 then
    match signature.reverse with
    | [] => .err .indexError
    | ht :: r =>
      let sig := r.reverse
      optErr (env.schnorrPre sig ht.toNat) <| .ok (some (env.schnorrOK pubkey ht.toNat sig))
  else if signature.length = 0 then .ok none
  else optErr (env.schnorrPre signature 0) <| .ok (some (env.schnorrOK pubkey 0 signature))

def op_checksig_schnorr (env : Env) : Stack → Res Stack
  | pk :: sig :: s =>
    (schnorrCheck env pk sig).bind fun
      | none => .ok (encodeNum 0 :: s)
      | some ok => .ok (boolNum ok :: s)
  | _ => .fail

def op_checksigverify_schnorr (env : Env) (s : Stack) : Res Stack :=
  (op_checksig_schnorr env s).bind op_verify

def op_checksigadd_schnorr (env : Env) : Stack → Res Stack
  | pk :: nb :: sig :: s =>
    let n := decodeNum nb
    (schnorrCheck env pk sig).bind fun
      | none => .ok (encodeNum n :: s)
      | some ok => .ok (encodeNum (if ok then n + 1 else n) :: s)
  | _ => .fail

/-- `tmp[:-1], tmp[-1]` for each popped signature, in pop order -/
def splitSigs : List Bytes → Res (List (Bytes × Nat))
  | [] => .ok []
  | t :: ts => (splitHashType t).bind fun p => (splitSigs ts).bind fun ps => .ok (p :: ps)

/-- `points = [S256Point.parse(sec) for sec in sec_pubkeys]` -/
def firstPkErr (env : Env) : List Bytes → Option Err
  | [] => none
  | p :: ps => match env.pkErr p with
    | some e => some e
    | none => firstPkErr env ps

/-- `while points: point = points.pop(0); if point.verify(z, sig): break` — `some rest` = the
    points left after the one that verified, `none` = the loop ran out of points (its `else:`) -/
def consumePoints (env : Env) (der : Bytes) (ht : Nat) : List Bytes → Option (List Bytes)
  | [] => none
  | p :: ps => if env.ecdsaOK p ht der then some ps else consumePoints env der ht ps

/-- the `for der_signature, hash_type in der_signatures` loop inside the try block:
    `none` = fell through to `stack.append(encode_num(1))`.  Without the F06a repair a signature
    that no remaining point verifies just leaves no points. -/
def multisigLoop (cfg : Cfg) (env : Env) : List (Bytes × Nat) → List Bytes → Option (Res Unit)
  | [], _ => none
  | (der, ht) :: sigs, points =>
    match env.sigPre der ht with
    | some e => some (.err e)
    | none =>
      if points.length = 0 then some .fail
      else match consumePoints env der ht points with
        | some rest => multisigLoop cfg env sigs rest
        | none => if cfg.multisigFailBranch then some .fail else multisigLoop cfg env sigs []

/-- `except (ValueError, SyntaxError): return False` -/
def caught (e : Err) : Bool := e == .valueError

def op_checkmultisig (cfg : Cfg) (env : Env) : Stack → Res Stack
  | [] => .fail
  | top :: s =>
    let n := decodeNum top
    if (s.length : Int) < n + 1 then .fail else
    let pks := s.take n.toNat                    -- `for _ in range(n): … stack.pop()`
    match s.drop n.toNat with
    | [] => .err .indexError                     -- `stack.pop()` on an empty list (n < 0 only)
    | mtop :: s =>
      let m := decodeNum mtop
      if (s.length : Int) < m + 1 then .fail else
      (splitSigs (s.take m.toNat)).bind fun sigs =>
      match s.drop m.toNat with
      | [] => .err .indexError                   -- the off-by-one pop (m < 0 only)
      | _ :: s =>
        match firstPkErr env pks with
        | some e => if caught e then .fail else .err e
        | none =>
          match multisigLoop cfg env sigs pks with
          | some (.err e) => if caught e then .fail else .err e
          | some _ => .fail
          | none => .ok (encodeNum 1 :: s)

def op_checkmultisigverify (cfg : Cfg) (env : Env) (s : Stack) : Res Stack :=
  (op_checkmultisig cfg env s).bind op_verify

/-! ## timelocks (op.py:848-882, timelock.py) -/

/-- Locktime.is_comparable -/
def locktimeComparable (a b : Nat) : Bool :=
  (a < Gen.blockLimit && b < Gen.blockLimit) || (a ≥ Gen.blockLimit && b ≥ Gen.blockLimit)

def op_checklocktimeverify (env : Env) (s : Stack) : Res Stack :=
  if env.sequence = Gen.opMaxSequence then .fail else
  match s with
  | [] => .fail
  | top :: _ =>
    let element := decodeNum top
    if element < 0 then .fail
    else if element.toNat > Gen.opMaxLocktime then .err .valueError      -- Locktime(element)
    else
      let stackLocktime := element.toNat
      if !locktimeComparable env.locktime stackLocktime then .fail
      else if env.locktime < stackLocktime then .fail
      else .ok s

/-- Sequence.is_relative: `self & SEQUENCE_DISABLE_RELATIVE_FLAG == 0` -/
def seqIsRelative (x : Nat) : Bool := x &&& Gen.seqDisableFlag == 0
/-- Sequence.is_relative_time (truthiness of `is_relative() and self & FLAG`) -/
def seqIsRelativeTime (x : Nat) : Bool := seqIsRelative x && (x &&& Gen.seqTimeFlag != 0)
def seqIsRelativeBlock (x : Nat) : Bool := seqIsRelative x && !seqIsRelativeTime x
/-- Sequence.is_comparable -/
def seqComparable (a b : Nat) : Bool :=
  (seqIsRelativeBlock a && seqIsRelativeBlock b) || (seqIsRelativeTime a && seqIsRelativeTime b)

def op_checksequenceverify (cfg : Cfg) (env : Env) (s : Stack) : Res Stack :=
  if !cfg.csvDisableIsNop && !seqIsRelative env.sequence then .fail else
  match s with
  | [] => .fail
  | top :: _ =>
    let element := decodeNum top
    if element < 0 then .fail
    else if cfg.csvDisableIsNop && (element.toNat &&& Gen.seqDisableFlag != 0) then .ok s
    else if cfg.csvDisableIsNop && !seqIsRelative env.sequence then .fail
    else if env.version < Gen.csvMinVersion then .fail
    else if element.toNat > Gen.opMaxSequence then .err .valueError       -- Sequence(element)
    else
      let stackSequence := element.toNat
      if !seqComparable env.sequence stackSequence then .fail
      else if env.sequence &&& Gen.seqMask < stackSequence &&& Gen.seqMask then .fail   -- Sequence.__lt__
      else .ok s

/-! ## conditionals: splicing of the command list (op.py:213-282) -/

/-- the `while len(items) > 0` loop of op_if / op_notif.  `need` = num_endifs_needed,
    `inFalse` = `current_array is false_items`; accumulators are reversed.
    `some (true_items, false_items, rest)` when `found`. -/
def scanIf : List Cmd → Nat → Bool → List Cmd → List Cmd → Option (List Cmd × List Cmd × List Cmd)
  | [], _, _, _, _ => none
  | item :: items, need, inFalse, t, f =>
    let app (need : Nat) := if inFalse then scanIf items need inFalse t (item :: f)
                            else scanIf items need inFalse (item :: t) f
    match item with
    | .op 99 => app (need + 1)
    | .op 100 => app (need + 1)
    | .op 103 => if need = 1 then scanIf items need true t f else app need
    | .op 104 => if need = 1 then some (t.reverse, f.reverse, items) else app (need - 1)
    | _ => app need

/-- op_if (`neg = false`) / op_notif (`neg = true`): new (stack, items) -/
def op_ifx (neg : Bool) (s : Stack) (items : List Cmd) : Res (Stack × List Cmd) :=
  match s with
  | [] => .fail
  | element :: s =>
    match scanIf items 1 false [] [] with
    | none => .fail
    | some (t, f, rest) =>
      if (decodeNum element == 0) != neg then .ok (s, f ++ rest) else .ok (s, t ++ rest)

def op_if := op_ifx false
def op_notif := op_ifx true

/-! ## dispatch (op.py:889-1149) -/

inductive OpFn where
  | num (n : Int) | nop | success | if_ | notif | verify | return_ | toaltstack | fromaltstack
  | drop2 | dup2 | dup3 | over2 | rot2 | swap2 | ifdup | depth | drop | dup | nip | over | pick | roll
  | rot | swap | tuck | size | equal | equalverify | add1 | sub1 | negate | abs | not | notequal0
  | add | sub | booland | boolor | numequal | numequalverify | numnotequal | lessthan | greaterthan
  | lessthanorequal | greaterthanorequal | min | max | within
  | ripemd160 | sha1 | sha256 | hash160 | hash256
  | checksig | checksigverify | checkmultisig | checkmultisigverify
  | checksigSchnorr | checksigverifySchnorr | checksigaddSchnorr
  | checklocktimeverify | checksequenceverify
deriving DecidableEq, Repr

def OpFn.ofName : String → Option OpFn
  | "op_0" => some (.num 0) | "op_1negate" => some (.num (-1))
  | "op_1" => some (.num 1) | "op_2" => some (.num 2) | "op_3" => some (.num 3) | "op_4" => some (.num 4)
  | "op_5" => some (.num 5) | "op_6" => some (.num 6) | "op_7" => some (.num 7) | "op_8" => some (.num 8)
  | "op_9" => some (.num 9) | "op_10" => some (.num 10) | "op_11" => some (.num 11) | "op_12" => some (.num 12)
  | "op_13" => some (.num 13) | "op_14" => some (.num 14) | "op_15" => some (.num 15) | "op_16" => some (.num 16)
  | "op_nop" => some .nop | "op_success" => some .success | "op_if" => some .if_ | "op_notif" => some .notif
  | "op_verify" => some .verify | "op_return" => some .return_
  | "op_toaltstack" => some .toaltstack | "op_fromaltstack" => some .fromaltstack
  | "op_2drop" => some .drop2 | "op_2dup" => some .dup2 | "op_3dup" => some .dup3 | "op_2over" => some .over2
  | "op_2rot" => some .rot2 | "op_2swap" => some .swap2 | "op_ifdup" => some .ifdup | "op_depth" => some .depth
  | "op_drop" => some .drop | "op_dup" => some .dup | "op_nip" => some .nip | "op_over" => some .over
  | "op_pick" => some .pick | "op_roll" => some .roll | "op_rot" => some .rot | "op_swap" => some .swap
  | "op_tuck" => some .tuck | "op_size" => some .size | "op_equal" => some .equal
  | "op_equalverify" => some .equalverify | "op_1add" => some .add1 | "op_1sub" => some .sub1
  | "op_negate" => some .negate | "op_abs" => some .abs | "op_not" => some .not
  | "op_0notequal" => some .notequal0 | "op_add" => some .add | "op_sub" => some .sub
  | "op_booland" => some .booland | "op_boolor" => some .boolor | "op_numequal" => some .numequal
  | "op_numequalverify" => some .numequalverify | "op_numnotequal" => some .numnotequal
  | "op_lessthan" => some .lessthan | "op_greaterthan" => some .greaterthan
  | "op_lessthanorequal" => some .lessthanorequal | "op_greaterthanorequal" => some .greaterthanorequal
  | "op_min" => some .min | "op_max" => some .max | "op_within" => some .within
  | "op_ripemd160" => some .ripemd160 | "op_sha1" => some .sha1 | "op_sha256" => some .sha256
  | "op_hash160" => some .hash160 | "op_hash256" => some .hash256
  | "op_checksig" => some .checksig | "op_checksigverify" => some .checksigverify
  | "op_checkmultisig" => some .checkmultisig | "op_checkmultisigverify" => some .checkmultisigverify
  | "op_checksig_schnorr" => some .checksigSchnorr | "op_checksigverify_schnorr" => some .checksigverifySchnorr
  | "op_checksigadd_schnorr" => some .checksigaddSchnorr
  | "op_checklocktimeverify" => some .checklocktimeverify | "op_checksequenceverify" => some .checksequenceverify
  | _ => none

/-- how `Script.evaluate` calls the looked-up function, decided by the opcode NUMBER -/
inductive Conv where
  | items     -- `operation(stack, commands)`            command in (99, 100)
  | alt       -- `operation(stack, altstack)`            command in (107, 108)
  | tx        -- `operation(stack, tx_obj, input_index)` command in (172,173,174,175,177,178,186)
  | plain     -- `operation(stack)`
deriving DecidableEq, Repr

def convOf (c : Nat) : Conv :=
  if c = 99 ∨ c = 100 then .items
  else if c = 107 ∨ c = 108 then .alt
  else if c = 172 ∨ c = 173 ∨ c = 174 ∨ c = 175 ∨ c = 177 ∨ c = 178 ∨ c = 186 then .tx
  else .plain

/-- the signature of the Python function -/
def OpFn.conv : OpFn → Conv
  | .if_ | .notif => .items
  | .toaltstack | .fromaltstack => .alt
  | .checksig | .checksigverify | .checkmultisig | .checkmultisigverify | .checksigSchnorr
  | .checksigverifySchnorr | .checksigaddSchnorr | .checklocktimeverify | .checksequenceverify => .tx
  | _ => .plain

/-- every function taking only the stack, or the stack and the transaction -/
def applyStackFn (cfg : Cfg) (env : Env) : OpFn → Stack → Res Stack
  | .num n => op_num n | .nop => op_nop | .success => op_success
  | .verify => op_verify | .return_ => op_return
  | .drop2 => op_2drop | .dup2 => op_2dup | .dup3 => op_3dup | .over2 => op_2over | .rot2 => op_2rot
  | .swap2 => op_2swap | .ifdup => op_ifdup | .depth => op_depth | .drop => op_drop | .dup => op_dup
  | .nip => op_nip | .over => op_over | .pick => op_pick cfg | .roll => op_roll cfg | .rot => op_rot
  | .swap => op_swap | .tuck => op_tuck | .size => op_size | .equal => op_equal
  | .equalverify => op_equalverify | .add1 => op_1add | .sub1 => op_1sub | .negate => op_negate
  | .abs => op_abs | .not => op_not | .notequal0 => op_0notequal | .add => op_add | .sub => op_sub
  | .booland => op_booland | .boolor => op_boolor | .numequal => op_numequal
  | .numequalverify => op_numequalverify | .numnotequal => op_numnotequal | .lessthan => op_lessthan
  | .greaterthan => op_greaterthan | .lessthanorequal => op_lessthanorequal
  | .greaterthanorequal => op_greaterthanorequal | .min => op_min | .max => op_max | .within => op_within
  | .ripemd160 => op_ripemd160 env | .sha1 => op_sha1 env | .sha256 => op_sha256 env
  | .hash160 => op_hash160 env | .hash256 => op_hash256 env
  | .checksig => op_checksig env | .checksigverify => op_checksigverify env
  | .checkmultisig => op_checkmultisig cfg env | .checkmultisigverify => op_checkmultisigverify cfg env
  | .checksigSchnorr => op_checksig_schnorr env | .checksigverifySchnorr => op_checksigverify_schnorr env
  | .checksigaddSchnorr => op_checksigadd_schnorr env
  | .checklocktimeverify => op_checklocktimeverify env
  | .checksequenceverify => op_checksequenceverify cfg env
  | .if_ | .notif | .toaltstack | .fromaltstack => fun _ => .err .typeError

/-- `op_lookup[command]` -/
def lookup (tbl : List (Nat × String)) (c : Nat) : Option String :=
  match tbl.find? (fun p => p.1 == c) with
  | some p => some p.2
  | none => none

def table (tap : Bool) : List (Nat × String) :=
  if tap then Gen.taprootOpCodeFunctions else Gen.opCodeFunctions

/-! ## Script.evaluate (script.py:156-281) -/

inductive Out where
  | accept | reject | err (e : Err) | outOfFuel
deriving DecidableEq, Repr

structure St where
  cmds  : List Cmd
  stack : Stack
  alt   : Stack
  wit   : Option (List Bytes)     -- the cloned witness (`None` when the input's witness is empty)
  tap   : Bool                    -- `op_lookup is TAPROOT_OP_CODE_FUNCTIONS`
deriving Repr

/-- result of one loop iteration: continue with a state, or return -/
abbrev Step := Except Out St

def Res.toOut {α} : Res α → (α → Step) → Step
  | .ok a, k => k a
  | .fail, _ => .error .reject
  | .err e, _ => .error (.err e)

/-- one opcode: `operation = op_lookup[command]` and the four calling conventions -/
def stepOp (cfg : Cfg) (env : Env) (st : St) (c : Nat) : Step :=
  match lookup (table st.tap) c with
  | none => .error (.err .keyError)
  | some name =>
    match OpFn.ofName name with
    | none => .error (.err .unmodelled)
    | some fn =>
      if fn.conv ≠ convOf c then .error (.err .typeError) else
      match fn with
      | .if_ => (op_if st.stack st.cmds).toOut fun (s, cmds) => .ok { st with stack := s, cmds := cmds }
      | .notif => (op_notif st.stack st.cmds).toOut fun (s, cmds) => .ok { st with stack := s, cmds := cmds }
      | .toaltstack => (op_toaltstack st.stack st.alt).toOut fun (s, a) => .ok { st with stack := s, alt := a }
      | .fromaltstack => (op_fromaltstack st.stack st.alt).toOut fun (s, a) => .ok { st with stack := s, alt := a }
      | fn => (applyStackFn cfg env fn st.stack).toOut fun s => .ok { st with stack := s }

/-- `Script.parse(BytesIO(encode_varstr(raw))).commands` -/
def parseCommands (raw : Bytes) : Option (List Cmd) :=
  match encodeVarstr raw with
  | none => none
  | some v => (Script.parse v).map (fun p => p.1.cmds)

/-- P2PKHScriptPubKey(h160).commands -/
def p2pkhCommands (h160 : Bytes) : List Cmd := [.op 0x76, .op 0xA9, .push h160, .op 0x88, .op 0xAC]

/-- Witness.has_annex: `len(self.items) >= 2 and self.items[-1][0] == 0x50` (F05f; the bound and
    the tag are re-extracted: Gen.opAnnexMinItems, Gen.opAnnexTag) -/
def hasAnnex (items : List Bytes) : Res Bool :=
  if items.length < Gen.opAnnexMinItems then .ok false else
  match items.reverse with
  | [] => .ok false
  | last :: _ =>
    match last with
    | [] => .err .indexError
    | b :: _ => .ok (b.toNat == Gen.opAnnexTag)

/-- `items[-k]` -/
def fromEnd (items : List Bytes) (k : Nat) : Res Bytes :=
  match items.reverse[k - 1]? with
  | some x => .ok x
  | none => .err .indexError

/-- the p2sh rule (script.py:198-221), `command` already appended to the stack -/
def p2shRule (env : Env) (st : St) (command : Bytes) : Step :=
  match st.cmds with
  | [.op 0xA9, .push h160, .op 0x87] =>
    if h160.length = 20 then
      -- commands.pop() ×3; op_hash160; stack.append(h160); op_equal; op_verify
      (op_hash160 env st.stack).toOut fun s =>
      (op_equal (h160 :: s)).toOut fun s =>
      (op_verify s).toOut fun s =>
      match parseCommands command with
      | none => .error (.err .runtimeError)
      | some cs => .ok { st with cmds := cs, stack := s }
    else .ok st
  | _ => .ok st

/-- the witness-program rules (script.py:224-276), tested on the stack after the p2sh rule -/
def witnessRules (cfg : Cfg) (env : Env) (st : St) : Step :=
  match st.stack with
  | [s1, s0] =>
    if s0 = [] ∧ s1.length = 20 then
      -- p2wpkh: `commands.extend(witness.items)` — AttributeError when witness is None
      match st.wit with
      | none => .error (.err .attributeError)
      | some items => .ok { st with stack := [], cmds := st.cmds ++ items.map .push ++ p2pkhCommands s1 }
    else if s0 = [] ∧ s1.length = 32 then
      match st.wit with
      | none => .error (.err .attributeError)
      | some items =>
        match items.reverse with
        | [] => .error (.err .indexError)                       -- witness.items[-1]
        | witnessScript :: initRev =>
          if s1 ≠ env.sha256 witnessScript then .error .reject
          else match parseCommands witnessScript with
            | none => .error (.err .runtimeError)
            | some cs => .ok { st with stack := [], cmds := st.cmds ++ initRev.reverse.map .push ++ cs }
    else if s0 = [0x01] ∧ s1.length = 32 then
      match st.wit with
      | none => .error (.err .typeError)                        -- len(None)
      | some items =>
        if items.length = 0 then .error .reject else
        (hasAnnex items).toOut fun annex =>
        let items := if annex then items.dropLast else items    -- witness.items.pop()
        let st := { st with wit := some items }
        if items.length = 1 then
          -- key path: stack[0] = sig; op_checksig_schnorr(...) — return value ignored
          match items with
          | [sig] =>
            match op_checksig_schnorr env [s1, sig] with
            | .ok s => .ok { st with stack := s }
            | .fail => .ok { st with stack := [s1, sig] }
            | .err e => .error (.err e)
          | _ => .ok st
        else if items.length > 1 then
          -- script path
          (hasAnnex items).toOut fun annex2 =>
          (fromEnd items (if annex2 then 2 else 1)).toOut fun cb =>
          match env.cbErr cb with
          | some e => .error (.err e)
          | none =>
          (hasAnnex items).toOut fun annex3 =>
          (fromEnd items (if annex3 then 3 else 2)).toOut fun rawTap =>
          match encodeVarstr rawTap with
          | none => .error (.err .runtimeError)
          | some v =>
          match Script.parse v with
          | none => .error (.err .runtimeError)
          | some (tapScript, _) =>
          -- TapLeaf.hash serialises the parsed script (`raw_serialize`: its `raw` attribute if set)
          match (if cfg.tapLeafRawBytes && rawTap ≠ [] then some rawTap else Script.rawSerialize tapScript) with
          | none => .error (.err .valueError)
          | some leafBytes =>
          match env.tapCommit cb leafBytes with
          | .error e => .error (.err e)
          | .ok (xonly, parityOK) =>
            if !parityOK then .error .reject
            else if xonly ≠ s1 then .error .reject
            else .ok { st with stack := [], cmds := (items.take (items.length - 2)).map .push ++ tapScript.cmds,
                               tap := true }
        else .ok st
    else .ok st
  | _ => .ok st

/-- one iteration of `while len(commands) > 0` with `command = commands.pop(0)` already done
    (`st.cmds` is the rest) -/
def step (cfg : Cfg) (env : Env) (st : St) (command : Cmd) : Step :=
  match command with
  | .op c => stepOp cfg env st c
  | .push b =>
    match p2shRule env { st with stack := b :: st.stack } b with
    | .error o => .error o
    | .ok st =>
      -- F06f repaired: `if len(commands) > 0: continue`
      if cfg.triggersOnlyAtEnd && !st.cmds.isEmpty then .ok st else witnessRules cfg env st

/-- the test after the loop -/
def finalTest (cfg : Cfg) (stack : Stack) : Out :=
  match stack with
  | [] => .reject
  | top :: s =>
    if cfg.finalCastToBool then
      match op_verify (top :: s) with          -- repaired: `if not op_verify(stack): return False`
      | .ok _ => .accept
      | _ => .reject
    else if top = [] then .reject else .accept -- today: `stack.pop() == b""`

/-- the loop; fuel exhaustion is its own outcome -/
def run (cfg : Cfg) (env : Env) : Nat → St → Out
  | fuel, st =>
    match st.cmds with
    | [] => finalTest cfg st.stack
    | c :: rest =>
      match fuel with
      | 0 => .outOfFuel
      | fuel + 1 =>
        match step cfg env { st with cmds := rest } c with
        | .error o => o
        | .ok st' => run cfg env fuel st'

/-- Script(commands).evaluate(tx_obj, input_index); `wit` = the input's witness items -/
def evaluate (cfg : Cfg) (env : Env) (commands : List Cmd) (wit : List Bytes) (fuel : Nat) : Out :=
  run cfg env fuel { cmds := commands, stack := [], alt := [],
                     wit := if wit.isEmpty then none else some wit, tap := false }

/-! ## Tx.verify_input (tx.py) -/

/-- Script.is_p2sh / is_p2wpkh / is_p2wsh / is_p2tr on a command list -/
def isP2sh : List Cmd → Bool
  | [.op 0xA9, .push h, .op 0x87] => h.length == 20
  | _ => false
def isP2wpkh : List Cmd → Bool
  | [.op 0x00, .push h] => h.length == 20
  | _ => false
def isP2wsh : List Cmd → Bool
  | [.op 0x00, .push h] => h.length == 32
  | _ => false
def isP2tr : List Cmd → Bool
  | [.op 0x51, .push h] => h.length == 32
  | _ => false
/-- Script.is_witness_script -/
def isWitnessScript (c : List Cmd) : Bool := isP2wpkh c || isP2wsh c

/-- `isinstance(command, int) and command > 96` for some command -/
def hasOpAbove16 (scriptSig : List Cmd) : Bool :=
  scriptSig.any fun c => match c with | .op n => decide (n > 96) | .push _ => false

/-- `len(commands) > 1 and isinstance(commands[-1], bytes) and
    RedeemScript.convert(commands[-1]).is_witness_script()` -/
def nestedWitnessNotAlone (scriptSig : List Cmd) : Bool :=
  decide (scriptSig.length > 1) &&
  (match scriptSig.getLast? with
   | some (.push b) => (match parseCommands b with
                        | some cs => isWitnessScript cs
                        | none => false)
   | _ => false)

/-- the structural tests of the repaired Tx.verify_input; `true` = `return False` -/
def structuralReject (cfg : Cfg) (scriptSig spk : List Cmd) : Bool :=
  (isP2sh spk && ((cfg.p2shPushOnly && hasOpAbove16 scriptSig) ||
                  (cfg.nestedWitnessAlone && nestedWitnessNotAlone scriptSig))) ||
  (cfg.witnessNeedsEmptySig && (isWitnessScript spk || isP2tr spk) && !scriptSig.isEmpty)

/-- Tx.verify_input(i): `(script_sig + script_pubkey).evaluate(tx, i)` after the structural tests -/
def verifyInput (cfg : Cfg) (env : Env) (scriptSig spk : List Cmd) (wit : List Bytes) (fuel : Nat) : Out :=
  if structuralReject cfg scriptSig spk then .reject
  else evaluate cfg env (scriptSig ++ spk) wit fuel

/-- did a P2SH / witness-program rule fire for this push (used by the driver to tell the
    harness that a program is outside C07's scope)? -/
def triggers (cfg : Cfg) (st : St) (b : Bytes) : Bool :=
  (match st.cmds with
   | [.op 0xA9, .push h160, .op 0x87] => h160.length == 20
   | _ => false) ||
  ((!cfg.triggersOnlyAtEnd || st.cmds.isEmpty) &&
   (match b :: st.stack with
    | [s1, s0] => (s0 == [] && (s1.length == 20 || s1.length == 32)) || (s0 == [0x01] && s1.length == 32)
    | _ => false))

/-- `run` that also reports whether any rule fired -/
def runTrig (cfg : Cfg) (env : Env) : Nat → St → Bool → Out × Bool
  | fuel, st, trig =>
    match st.cmds with
    | [] => (finalTest cfg st.stack, trig)
    | c :: rest =>
      match fuel with
      | 0 => (.outOfFuel, trig)
      | fuel + 1 =>
        let st0 := { st with cmds := rest }
        let trig := trig || (match c with | .push b => triggers cfg st0 b | _ => false)
        match step cfg env st0 c with
        | .error o => (o, trig)
        | .ok st' => runTrig cfg env fuel st' trig

end Buidl.Interp
