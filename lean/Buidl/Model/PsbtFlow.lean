/-
  Buidl.Model.PsbtFlow — buidl/psbt.py: the roles of BIP174 on top of the container model.

    PSBT.create (of an unsigned transaction), PSBT.update / PSBTIn.update / PSBTOut.update,
    PSBT.sign / sign_with_private_keys (signature creation abstract), PSBT.combine / PSBTIn.combine /
    PSBTOut.combine (dict unions exactly as coded: `{**a, **b}`), PSBT.finalize / PSBTIn.finalize per
    script type, PSBT.final_tx.

  Repaired code (work/C10): F10d — the p2sh branch of PSBTIn.finalize counts the collected signatures
  without the leading OP_0 (`finalizeIn` takes the flag so that today's behaviour stays expressible).
-/
import Buidl.Model.PsbtCodec
namespace Buidl.Psbt
open Buidl Buidl.Script

/-! ## creator / updater -/

/-- PSBT.create(tx_obj) for a transaction without scriptSigs and witnesses: empty maps.  (The PSBT
    constructor validates; an unsigned transaction with a non-empty scriptSig is stripped by the real
    `create`, which the model does not cover.) -/
def create {Tx} (C : TxCodec Tx) (tx : Tx) (net : Option Net) : Psbt Tx :=
  { tx := tx, ins := (C.ins tx).map fun _ => {}, outs := (C.outs tx).map fun _ => {}, network := net }

structure Lookups (Tx : Type) where
  tx : Dict Tx := []                      -- prev tx hash ↦ transaction
  pubkey : Dict (Bytes × Bytes) := []     -- SEC or hash160 ↦ (SEC, raw_path) of the NamedHDPublicKey
  redeem : Dict Script := []              -- hash160 ↦ RedeemScript
  witness : Dict Script := []             -- sha256 ↦ WitnessScript

def pushBytes : Option Cmd → Option Bytes
  | some (.push b) => some b
  | _ => none

/-- `named_pub = pubkey_lookup.get(x); if named_pub: named_pubs[named_pub.sec()] = named_pub.point` -/
def addNamed {Tx} (L : Lookups Tx) (named : Dict Bytes) (c : Option Cmd) : Dict Bytes :=
  match pushBytes c with
  | some k => match dget L.pubkey k with
    | some (sec, rp) => dset named sec rp
    | none => named
  | none => named

def addNamedAll {Tx} (L : Lookups Tx) (named : Dict Bytes) (cmds : List Cmd) : Dict Bytes :=
  cmds.foldl (fun acc c => addNamed L acc (some c)) named

/-- PSBTIn.update; `none` = raised -/
def updateIn {Tx} (C : TxCodec Tx) (L : Lookups Tx) (txin : TxInV) (p : PIn Tx) : Option (PIn Tx) :=
  let prevTx : Option Tx := match p.prevTx with
    | some t => some t
    | none => dget L.tx txin.prevTx
  let prevOutR : Option (Option TxOutV) := match prevTx with
    | some t => (C.outs t)[txin.prevIndex]?.map some
    | none => some p.prevOut
  match prevOutR with
  | none => none
  | some none => some p
  | some (some prevOut) =>
    let spk := prevOut.spk
    let p := { p with value := some prevOut.amount }
    let redeem : Option Script :=
      if isP2sh spk then (match p.redeem with
        | some r => some r
        | none => (pushBytes spk.cmds[1]?).bind (dget L.redeem))
      else p.redeem
    if isP2sh spk && redeem.isNone then some p
    else
      let p := { p with redeem := redeem }
      let rIs (f : Script → Bool) : Bool := match redeem with | some r => f r | none => false
      if isP2wpkh spk || rIs isP2wpkh then
        let h160 := if isP2wpkh spk then spk.cmds[1]? else redeem.bind (·.cmds[1]?)
        some { p with prevOut := some prevOut, namedPubs := addNamed L p.namedPubs h160 }
      else if isP2wsh spk || rIs isP2wsh then
        let s256 := if isP2wsh spk then spk.cmds[1]? else redeem.bind (·.cmds[1]?)
        let ws : Option Script := match p.witnessScript with
          | some w => some w
          | none => (pushBytes s256).bind (dget L.witness)
        let named := match ws with
          | some w => addNamedAll L p.namedPubs w.cmds
          | none => p.namedPubs
        some { p with prevOut := some prevOut, witnessScript := ws, namedPubs := named }
      else if isP2sh spk then
        match redeem with
        | some r => some { p with prevTx := prevTx, namedPubs := addNamedAll L p.namedPubs r.cmds }
        | none => some p
      else if isP2pkh spk then
        some { p with prevTx := prevTx, namedPubs := addNamed L p.namedPubs spk.cmds[2]? }
      else none

/-- PSBTOut.update (never raises on well-formed lookups; `none` = IndexError on `commands[1]`) -/
def updateOut {Tx} (L : Lookups Tx) (spk : Script) (p : POut) : Option POut :=
  let p1 : POut := if isP2sh spk then { p with redeem := (pushBytes spk.cmds[1]?).bind (dget L.redeem) } else p
  if isP2sh spk && p1.redeem.isNone then some p1
  else
    let rIs (f : Script → Bool) : Bool := match p1.redeem with | some r => f r | none => false
    if isP2wpkh spk || rIs isP2wpkh then
      match (match p1.redeem with | some r => r.cmds[1]? | none => spk.cmds[1]?) with
      | none => none
      | some h => some { p1 with namedPubs := addNamed L p1.namedPubs (some h) }
    else if isP2wsh spk || rIs isP2wsh then
      match (match p1.redeem with | some r => r.cmds[1]? | none => spk.cmds[1]?) with
      | none => none
      | some s256 =>
        match (pushBytes (some s256)).bind (dget L.witness) with
        | some w => some { p1 with witnessScript := some w, namedPubs := addNamedAll L p1.namedPubs w.cmds }
        | none => some p1
    else if isP2sh spk then
      match p1.redeem with
      | some r => some { p1 with namedPubs := addNamedAll L p1.namedPubs r.cmds }
      | none => some p1
    else if isP2pkh spk then
      some { p1 with namedPubs := addNamed L p1.namedPubs spk.cmds[2]? }
    else some p1

def zipWithM' {α β γ} (f : α → β → Option γ) : List α → List β → Option (List γ)
  | a :: as, b :: bs => do
    let c ← f a b
    let r ← zipWithM' f as bs
    pure (c :: r)
  | _, _ => some []

/-- PSBT.update -/
def update {Tx} (C : TxCodec Tx) (L : Lookups Tx) (p : Psbt Tx) : Option (Psbt Tx) := do
  -- `for psbt_in in self.psbt_ins` (each PSBTIn carries its tx_in); the lists have equal length
  -- in every validated PSBT
  req ((C.ins p.tx).length == p.ins.length && (C.outs p.tx).length == p.outs.length)
  let ins ← zipWithM' (updateIn C L) (C.ins p.tx) p.ins
  let outs ← zipWithM' (fun (o : TxOutV) q => updateOut L o.spk q) (C.outs p.tx) p.outs
  pure { p with ins := ins, outs := outs }

/-! ## signer -/

/-- PSBTIn.use_segwit_signature; `none` = IndexError in script_pubkey() -/
def useSegwitSignature {Tx} (C : TxCodec Tx) (txin : TxInV) (p : PIn Tx) : Option Bool :=
  if p.witnessScript.isSome || witnessTruthy p.witness then some true
  else if (match p.redeem with | some r => isWitnessProgram r | none => false) then some true
  else match p.scriptPubkey C txin with
    | none => none
    | some (some spk) => some (isWitnessProgram spk)
    | some none => some false

/-- the abstract signer: `sigOf segwit i sec` is `get_sig_segwit` / `get_sig_legacy` of input `i`
    with the private key of `sec` (signature ‖ SIGHASH_ALL); `none` = raised -/
abbrev SigOf := Bool → Nat → Bytes → Option Bytes

/-- sign_with_private_keys: for every key, every input whose named_pubs has the key's SEC -/
def signInputsWithKey {Tx} (C : TxCodec Tx) (sigOf : SigOf) (sec : Bytes) :
    Nat → List TxInV → List (PIn Tx) → Option (List (PIn Tx))
  | i, txin :: tr, p :: pr => do
    let p' ← if (dget p.namedPubs sec).isSome then do
        let seg ← useSegwitSignature C txin p
        let sig ← sigOf seg i sec
        pure { p with sigs := dset p.sigs sec sig }
      else pure p
    let r ← signInputsWithKey C sigOf sec (i + 1) tr pr
    pure (p' :: r)
  | _, _, ps => some ps

def signWithKeys {Tx} (C : TxCodec Tx) (sigOf : SigOf) (p : Psbt Tx) : List Bytes → Option (Psbt Tx)
  | [] => some p
  | sec :: r => do
    let ins ← signInputsWithKey C sigOf sec 0 (C.ins p.tx) p.ins
    signWithKeys C sigOf { p with ins := ins } r

/-- PSBT.sign(hd_priv): for every input, every named pub whose root fingerprint is the signer's;
    `keyAt raw_path` is the SEC of `hd_priv.traverse(root_path)` (abstract BIP32) -/
def signInputHd {Tx} (C : TxCodec Tx) (sigOf : SigOf) (fp : Bytes) (keyAt : Bytes → Option Bytes)
    (i : Nat) (txin : TxInV) (p : PIn Tx) : Option (PIn Tx) :=
  p.namedPubs.foldlM (fun (acc : PIn Tx) e =>
    if e.2.take Gen.psbtFingerprintWidth = fp then do
      let sec ← keyAt e.2
      let seg ← useSegwitSignature C txin acc
      let sig ← sigOf seg i sec
      pure { acc with sigs := dset acc.sigs sec sig }
    else pure acc) p

def signHdLoop {Tx} (C : TxCodec Tx) (sigOf : SigOf) (fp : Bytes) (keyAt : Bytes → Option Bytes) :
    Nat → List TxInV → List (PIn Tx) → Option (List (PIn Tx))
  | i, txin :: tr, p :: pr => do
    let p' ← signInputHd C sigOf fp keyAt i txin p
    let r ← signHdLoop C sigOf fp keyAt (i + 1) tr pr
    pure (p' :: r)
  | _, _, ps => some ps

def signHd {Tx} (C : TxCodec Tx) (sigOf : SigOf) (fp : Bytes) (keyAt : Bytes → Option Bytes) (p : Psbt Tx) :
    Option (Psbt Tx) := do
  let ins ← signHdLoop C sigOf fp keyAt 0 (C.ins p.tx) p.ins
  pure { p with ins := ins }

/-! ## combiner -/

/-- `if self.x is None and other.x: self.x = other.x` -/
def orOther {α} (truthy : α → Bool) (self other : Option α) : Option α :=
  match self with
  | some x => some x
  | none => match other with
    | some y => if truthy y then some y else none
    | none => none

/-- PSBTIn.combine -/
def combineIn {Tx} (a b : PIn Tx) : PIn Tx :=
  { prevTx := orOther (fun _ => true) a.prevTx b.prevTx
    prevOut := orOther (fun _ => true) a.prevOut b.prevOut
    sigs := dunion a.sigs b.sigs
    hashType := orOther (· ≠ 0) a.hashType b.hashType
    redeem := orOther (fun _ => true) a.redeem b.redeem
    witnessScript := orOther (fun _ => true) a.witnessScript b.witnessScript
    namedPubs := dunion b.namedPubs a.namedPubs
    scriptSig := orOther (fun _ => true) a.scriptSig b.scriptSig
    witness := orOther (· ≠ []) a.witness b.witness
    extra := dunion b.extra a.extra
    value := a.value }

/-- PSBTOut.combine -/
def combineOut (a b : POut) : POut :=
  { redeem := orOther (fun _ => true) a.redeem b.redeem
    witnessScript := orOther (fun _ => true) a.witnessScript b.witnessScript
    namedPubs := dunion b.namedPubs a.namedPubs
    extra := dunion b.extra a.extra }

/-- `for x, y in zip(xs, ys): x.combine(y)` (self's list keeps its length) -/
def zipCombine {α} (f : α → α → α) : List α → List α → List α
  | a :: as, b :: bs => f a b :: zipCombine f as bs
  | as, [] => as
  | [], _ => []

/-- PSBT.combine; `none` = "cannot combine PSBTs that refer to different transactions" -/
def combine {Tx} (C : TxCodec Tx) (a b : Psbt Tx) : Option (Psbt Tx) := do
  let ha ← C.hash a.tx
  let hb ← C.hash b.tx
  req (ha == hb)
  pure { a with
    hdPubs := dunion b.hdPubs a.hdPubs
    extra := dunion b.extra a.extra
    ins := zipCombine combineIn a.ins b.ins
    outs := zipCombine combineOut a.outs b.outs }

/-! ## finalizer -/

/-- the collection loop of the p2wsh branch: every command is looked up (`sigs.get(int)` is None),
    the `>= num_sigs` test runs after every command -/
def collectWitnessSigs (sigs : Dict Bytes) (m : Int) : List Cmd → List Bytes → List Bytes
  | [], acc => acc
  | c :: r, acc =>
    let acc' := match c with
      | .push k => (match dget sigs k with | some s => acc ++ [s] | none => acc)
      | .op _ => acc
    if (acc'.length : Int) ≥ m then acc' else collectWitnessSigs sigs m r acc'

/-- the collection loop of the p2sh branch: integers are skipped by `continue` (no `>=` test) -/
def collectScriptSigs (sigs : Dict Bytes) (m : Int) : List Cmd → List Bytes → List Bytes
  | [], acc => acc
  | .op _ :: r, acc => collectScriptSigs sigs m r acc
  | .push k :: r, acc =>
    let acc' := match dget sigs k with | some s => acc ++ [s] | none => acc
    if (acc'.length : Int) ≥ m then acc' else collectScriptSigs sigs m r acc'

def singlePush (r : Script) : Option Script := (rawOf r).map fun b => { cmds := [.push b] }

/-- PSBTIn.finalize.  `fixedCount = true` is the repaired p2sh test `len(cmds) - 1 < num_sigs`
    (F10d); `false` is today's `len(cmds) < num_sigs`. -/
def finalizeIn {Tx} (fixedCount : Bool) (C : TxCodec Tx) (txin : TxInV) (p : PIn Tx) : Option (PIn Tx) := do
  let spkO ← p.scriptPubkey C txin
  let spk ← spkO
  req (!(isP2sh spk && p.redeem.isNone))
  let rIs (f : Script → Bool) : Bool := match p.redeem with | some r => f r | none => false
  let done (ss : Option Script) (w : Option (List Bytes)) : PIn Tx :=
    { p with scriptSig := ss, witness := w, sigs := [], hashType := none, redeem := none,
             witnessScript := none, namedPubs := [] }
  if isP2wpkh spk || rIs isP2wpkh then
    match p.sigs with
    | [(sec, sig)] =>
      let ss ← match p.redeem with
        | some r => singlePush r
        | none => some { cmds := [] }
      pure (done (some ss) (some [sig, sec]))
    | _ => none
  else if isP2wsh spk || rIs isP2wsh then
    let ws ← p.witnessScript
    let m ← opCodeToNumber ws.cmds[0]?
    req (!((p.sigs.length : Int) < m))
    let got := collectWitnessSigs p.sigs m ws.cmds []
    req (!((got.length : Int) < m))
    let wraw ← rawOf ws
    let ss ← match p.redeem with
      | some r => singlePush r
      | none => some { cmds := [] }
    pure (done (some ss) (some ([] :: got ++ [wraw])))
  else if isP2sh spk then
    let r ← p.redeem
    let m ← opCodeToNumber r.cmds[0]?
    req (!((p.sigs.length : Int) < m))
    let got := collectScriptSigs p.sigs m r.cmds []
    req (!(((if fixedCount then got.length else got.length + 1 : Nat) : Int) < m))
    let rraw ← rawOf r
    pure (done (some { cmds := .op 0 :: got.map .push ++ [.push rraw] }) p.witness)
  else if isP2pkh spk then
    match p.sigs with
    | [(sec, sig)] => pure (done (some { cmds := [.push sig, .push sec] }) p.witness)
    | _ => none
  else none

/-- PSBT.finalize -/
def finalize {Tx} (fixedCount : Bool) (C : TxCodec Tx) (p : Psbt Tx) : Option (Psbt Tx) := do
  req ((C.ins p.tx).length == p.ins.length)
  let ins ← zipWithM' (finalizeIn fixedCount C) (C.ins p.tx) p.ins
  pure { p with ins := ins }

/-! ## extractor -/

/-- PSBT.final_tx: the serialised network transaction; `verify` answers `tx_obj.verify()` for it
    (script execution and the fee test are C06's subject) -/
def finalTx {Tx} (C : TxCodec Tx) (verify : Bytes → Bool) (p : Psbt Tx) : Option Bytes := do
  let b ← C.finalSerialize p.tx (p.ins.map fun i => (i.scriptSig, i.witness))
  req (verify b)
  pure b

end Buidl.Psbt
