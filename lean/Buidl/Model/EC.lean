/-
  Buidl.Model.EC — buidl/pecc.py: FieldElement, Point, S256Field, S256Point (group operations
  and public-key encodings).  Import-free; natural-number arithmetic as the Python does it.

  Field elements are naturals `< p` (the constructor check of FieldElement); a point is
  `inf` or `aff x y`.  `none` = the Python raises (ValueError / IndexError).
-/
import Buidl.Model.Bytes
import Buidl.Gen.Ecc
namespace Buidl.EC
open Buidl

/-! ### pow(b, e, m) by square-and-multiply (structural on fuel so that the kernel can evaluate it) -/

def powmodAux : Nat → Nat → Nat → Nat → Nat → Nat
  | 0, _, _, _, acc => acc
  | fuel + 1, b, e, m, acc =>
    if e = 0 then acc
    else powmodAux fuel (b * b % m) (e / 2) m (if e % 2 = 1 then acc * b % m else acc)

/-- Python's three-argument `pow(b, e, m)` for `e ≥ 0`, `m ≥ 1` -/
def powmod (b e m : Nat) : Nat := powmodAux (e.log2 + 1) (b % m) e m (1 % m)

/-! ### FieldElement (arguments are `< p`) -/

def fadd (p a b : Nat) : Nat := (a + b) % p
/-- `(a - b) % p` with Python's non-negative remainder -/
def fsub (p a b : Nat) : Nat := (a + (p - b % p)) % p
def fmul (p a b : Nat) : Nat := a * b % p
/-- FieldElement.__pow__: `pow(num, n % (p - 1), p)` -/
def fpow (p a n : Nat) : Nat := powmod a (n % (p - 1)) p
/-- FieldElement.__truediv__: `a * pow(b, p - 2, p) % p` -/
def fdiv (p a b : Nat) : Nat := a * powmod b (p - 2) p % p

/-! ### Point -/

inductive Pt where
  | inf
  | aff (x y : Nat)
deriving DecidableEq, Repr, Inhabited

/-- the check in Point.__init__: `y**2 == x**3 + a*x + b` -/
def onCurve (p a b : Nat) : Pt → Bool
  | .inf => true
  | .aff x y => fpow p y 2 == fadd p (fadd p (fpow p x 3) (fmul p a x)) b

/-- Point.__add__ (both operands on the same curve) -/
def padd (p a : Nat) (P Q : Pt) : Pt :=
  match P, Q with
  | .inf, Q => Q
  | P, .inf => P
  | .aff x1 y1, .aff x2 y2 =>
    if x1 = x2 ∧ y1 ≠ y2 then .inf
    else if x1 = x2 ∧ y1 = y2 ∧ y1 = 0 then .inf
    else if x1 ≠ x2 then
      let s := fdiv p (fsub p y2 y1) (fsub p x2 x1)
      let x := fsub p (fsub p (fpow p s 2) x1) x2
      let y := fsub p (fmul p s (fsub p x1 x)) y1
      .aff x y
    else
      let s := fdiv p (fadd p (3 * fpow p x1 2 % p) a) (2 * y1 % p)
      let x := fsub p (fpow p s 2) (2 * x1 % p)
      let y := fsub p (fmul p s (fsub p x1 x)) y1
      .aff x y

/-- Point.__rmul__: double-and-add from the least significant bit (`result += current`) -/
def pmulAux (p a : Nat) : Nat → Nat → Pt → Pt → Pt
  | 0, _, _, res => res
  | fuel + 1, coef, cur, res =>
    if coef = 0 then res
    else pmulAux p a fuel (coef / 2) (padd p a cur cur) (if coef % 2 = 1 then padd p a res cur else res)

def pmul (p a : Nat) (k : Nat) (P : Pt) : Pt := pmulAux p a (k.log2 + 1) k P .inf

/-! ### secp256k1 (constants from Buidl.Gen.Ecc) -/

abbrev P := Gen.secpP
abbrev N := Gen.secpN
abbrev A := Gen.secpA
abbrev B := Gen.secpB
def G : Pt := .aff Gen.secpGx Gen.secpGy

def sadd (X Y : Pt) : Pt := padd P A X Y
/-- S256Point.__rmul__: the coefficient (any integer) is reduced modulo N first -/
def smul (k : Int) (X : Pt) : Pt := pmul P A (k % (N : Int)).toNat X
/-- S256Point.__add__ with an int: `self + other * G` -/
def saddInt (X : Pt) (k : Int) : Pt := sadd X (smul k G)

def parity : Pt → Nat
  | .inf => 0
  | .aff _ y => y % 2

/-- S256Point.even_point (`-1 * self` when the parity is odd) -/
def evenPoint (X : Pt) : Pt := if parity X = 1 then smul (-1) X else X

/-- S256Point(x, y) from integers: range check of S256Field and the curve equation -/
def mkPoint (x y : Nat) : Option Pt :=
  if x < P ∧ y < P ∧ onCurve P A B (.aff x y) then some (.aff x y) else none

/-- S256Point.sec; `none` for the point at infinity (AttributeError) -/
def sec (X : Pt) (compressed : Bool) : Option Bytes :=
  match X with
  | .inf => none
  | .aff x y =>
    if compressed then some ((if y % 2 = 1 then 3 else 2) :: natToBE' 32 x)
    else some (4 :: natToBE' 32 x ++ natToBE' 32 y)

/-- S256Point.xonly -/
def xonly : Pt → Bytes
  | .inf => natToBE' 32 0
  | .aff x _ => natToBE' 32 x

/-- S256Field.sqrt; `none` = ValueError -/
def fsqrt (c : Nat) : Option Nat :=
  let s := fpow P c ((P + 1) / 4)
  if fmul P s s = c then some s else none

/-- S256Point.parse_sec (on 33 or 65 bytes; IndexError on empty input is `none`) -/
def parseSec (b : Bytes) : Option Pt :=
  match b with
  | [] => none
  | pre :: rest =>
    if pre = 4 then
      if b.length ≠ 65 then none
      else mkPoint (beToNat (rest.take 32)) (beToNat ((rest.drop 32).take 32))
    else if (pre ≠ 2 ∧ pre ≠ 3) ∨ b.length ≠ 33 then none
    else
      let x := beToNat rest
      if ¬ x < P then none else
      match fsqrt (fadd P (fpow P x 3) B) with
      | none => none
      | some beta =>
        let evenBeta := if beta % 2 = 0 then beta else P - beta
        let oddBeta := if beta % 2 = 0 then P - beta else beta
        -- S256Field(P - beta) raises for beta = 0
        if beta = 0 then none
        else mkPoint x (if pre = 2 then evenBeta else oddBeta)

/-- S256Point.parse_xonly -/
def parseXonly (b : Bytes) : Option Pt :=
  let n := beToNat b
  if n = 0 then some .inf else
  if ¬ n < P then none else
  match fsqrt (fadd P (fpow P n 3) B) with
  | none => none
  | some beta =>
    if beta % 2 = 1 then mkPoint n (P - beta) else mkPoint n beta

/-- S256Point.parse: dispatch on the length -/
def parsePoint (b : Bytes) : Option Pt :=
  if b.length = 32 then parseXonly b
  else if b.length = 33 ∨ b.length = 65 then parseSec b
  else none

end Buidl.EC
