/-
  Buidl.Model.PsbtCodec — buidl/psbt.py: the PSBT container.

    * Python dicts as insertion-ordered association lists (`d[k] = v`, `d.get(k)`, `{**a, **b}`,
      `sorted(d.keys())`)
    * helper.serialize_key_value and the `while key != b"":` map reader
    * NamedPublicKey / NamedHDPublicKey parse + serialize, helper.parse_binary_path / path_network
    * PSBT.parse, PSBTIn.parse, PSBTOut.parse with every check they make (key lengths, duplicate
      detection through *truthiness* — which misses empty values, a sighash type of 0 and an empty
      final witness —, both UTXO kinds, network inference and MixedNetwork)
    * PSBT.serialize, PSBTIn.serialize, PSBTOut.serialize (signature order = script order or sorted,
      sorted derivations / xpubs / unknowns)
    * PSBTIn.validate, PSBTOut.validate, PSBT.validate

  Import-free apart from the shared Bytes / Script models and Buidl.Gen.  The transaction codec is
  *abstract*: a `TxCodec Tx` supplies `Tx.parse_legacy`, `Tx.parse`, `serialize`, `serialize_legacy`,
  `hash`, the inputs' outpoints / scriptSig emptiness and the outputs (the transaction codec itself is
  property C04's subject; the driver instantiates it with Buidl.Model.Tx).  Hashes, the SEC point
  check, signature checks, input verification and BIP32 derivation are parameters.

  The model describes the code with the `fix:` patches of work/C10 and work/C11 applied:
    F10a  PSBT.serialize writes `tx_obj.serialize_legacy()`
    F10e  PSBTIn.validate compares a p2sh-p2wpkh pubkey with the RedeemScript's hash160
    F10f  PSBTOut.validate has a p2sh-p2wpkh case
    F11b  PSBTOut.validate: RedeemScript hash160 = p2sh ScriptPubKey hash
    F11c  PSBTOut.validate: WitnessScript only for p2wsh / p2sh-p2wsh ScriptPubKeys
    F11d  PSBTIn.validate: witness UTXO = output of the non-witness UTXO when both are present
    F11f  PSBTIn.validate: no witness UTXO for a p2sh input with a non-witness RedeemScript
    F11g  PSBTIn.validate: a WitnessScript without witness UTXO is checked against a p2wsh ScriptPubKey;
          a RedeemScript needs a p2sh ScriptPubKey in the witness branch too
  A Python exception / refusal is `none`.
-/
import Buidl.Model.Script
import Buidl.Gen.Psbt
namespace Buidl.Psbt
open Buidl Buidl.Script

/-! ## Python dicts -/

/-- a `dict` with `bytes` keys: association list in insertion order, keys pairwise distinct -/
abbrev Dict (β : Type) := List (Bytes × β)

/-- `d.get(k)` -/
def dget {β} : Dict β → Bytes → Option β
  | [], _ => none
  | (k', v) :: r, k => if k' = k then some v else dget r k

/-- `d[k] = v`: an existing key keeps its position -/
def dset {β} : Dict β → Bytes → β → Dict β
  | [], k, v => [(k, v)]
  | (k', v') :: r, k, v => if k' = k then (k, v) :: r else (k', v') :: dset r k v

/-- `{**a, **b}` -/
def dunion {β} (a b : Dict β) : Dict β := b.foldl (fun acc e => dset acc e.1 e.2) a

def dkeys {β} (d : Dict β) : List Bytes := d.map (·.1)

/-- `if d.get(k):` for `bytes` values — an empty value is falsy (observation O10c) -/
def dtruthy (d : Dict Bytes) (k : Bytes) : Bool :=
  match dget d k with
  | some v => v ≠ []
  | none => false

/-- `<` of Python `bytes` made reflexive: lexicographic by unsigned byte, a proper prefix first -/
def bytesLe : Bytes → Bytes → Bool
  | [], _ => true
  | _ :: _, [] => false
  | a :: as, b :: bs => a < b || (a == b && bytesLe as bs)

/-- `sorted(keys)` -/
def sortKeys (l : List Bytes) : List Bytes := l.mergeSort bytesLe

/-- `[(k, d[k]) for k in sorted(d.keys())]` -/
def sortedItems {β} (d : Dict β) : List (Bytes × β) :=
  (sortKeys (dkeys d)).filterMap fun k => (dget d k).map fun v => (k, v)

def req (b : Bool) : Option Unit := if b then some () else none

/-! ## script templates (script.py is_p2pkh / is_p2sh / is_p2wpkh / is_p2wsh / is_p2tr) -/

def pat (l : List Nat) (i : Nat) : Nat := l.getD i 0

def cmdIsOp (c : Option Cmd) (n : Nat) : Bool := c == some (.op n)

def cmdIsPushLen (c : Option Cmd) (n : Nat) : Bool :=
  match c with
  | some (.push h) => h.length == n
  | _ => false

def isP2pkh (s : Script) : Bool :=
  let P := Gen.psbtP2pkhPattern
  s.cmds.length == pat P 0 && cmdIsOp s.cmds[0]? (pat P 1) && cmdIsOp s.cmds[1]? (pat P 2) &&
  cmdIsPushLen s.cmds[2]? (pat P 3) && cmdIsOp s.cmds[3]? (pat P 4) && cmdIsOp s.cmds[4]? (pat P 5)

def isP2sh (s : Script) : Bool :=
  let P := Gen.psbtP2shPattern
  s.cmds.length == pat P 0 && cmdIsOp s.cmds[0]? (pat P 1) && cmdIsPushLen s.cmds[1]? (pat P 2) &&
  cmdIsOp s.cmds[2]? (pat P 3)

def isP2wpkh (s : Script) : Bool :=
  let P := Gen.psbtP2wpkhPattern
  s.cmds.length == pat P 0 && cmdIsOp s.cmds[0]? (pat P 1) && cmdIsPushLen s.cmds[1]? (pat P 2)

def isP2wsh (s : Script) : Bool :=
  let P := Gen.psbtP2wshPattern
  s.cmds.length == pat P 0 && cmdIsOp s.cmds[0]? (pat P 1) && cmdIsPushLen s.cmds[1]? (pat P 2)

def isP2tr (s : Script) : Bool :=
  let P := Gen.psbtP2trPattern
  s.cmds.length == pat P 0 && cmdIsOp s.cmds[0]? (pat P 1) && cmdIsPushLen s.cmds[1]? (pat P 2)

/-- Script.is_witness_script -/
def isWitnessProgram (s : Script) : Bool := isP2wpkh s || isP2wsh s

/-- ScriptPubKey.parse: Script.parse, then a script matching one of the five templates is rebuilt
    from its hash (same commands, `raw` unset) -/
def parseSpk (s : Bytes) : Option (Script × Bytes) := do
  let (sc, rest) ← Script.parse s
  if isP2pkh sc || isP2sh sc || isP2wpkh sc || isP2wsh sc || isP2tr sc then
    pure ({ cmds := sc.cmds, raw := none }, rest)
  else pure (sc, rest)

/-! ## TxOut and Witness (tx.py TxOut.parse / serialize, witness.py) -/

structure TxOutV where
  amount : Nat
  spk : Script
deriving DecidableEq, Repr

def TxOutV.serialize (o : TxOutV) : Option Bytes := do
  let a ← natToLE o.amount Gen.psbtTxoutSerAmountW
  let s ← Script.serialize o.spk
  pure (a ++ s)

def TxOutV.parse (s : Bytes) : Option (TxOutV × Bytes) := do
  let (a, s) := sread Gen.psbtTxoutParAmountW s
  let (spk, s) ← parseSpk s
  pure ({ amount := leToNat a, spk := spk }, s)

def serItems : List Bytes → Option Bytes
  | [] => some []
  | i :: r => do
    let a ← encodeVarstr i
    let b ← serItems r
    pure (a ++ b)

/-- Witness.serialize -/
def witnessSerialize (items : List Bytes) : Option Bytes := do
  let n ← encodeVarint items.length
  let b ← serItems items
  pure (n ++ b)

def parseItems : Nat → Bytes → Option (List Bytes × Bytes)
  | 0, s => some ([], s)
  | n + 1, s => do
    let (i, s) ← readVarstr s
    let (r, s) ← parseItems n s
    pure (i :: r, s)

/-- Witness.parse -/
def witnessParse (s : Bytes) : Option (List Bytes × Bytes) := do
  let (n, s) ← readVarint s
  parseItems n s

/-! ## the abstract transaction codec -/

/-- what the PSBT code reads from a `TxIn` of the unsigned transaction -/
structure TxInV where
  prevTx : Bytes              -- tx_in.prev_tx
  prevIndex : Nat             -- tx_in.prev_index
  scriptSigEmpty : Bool       -- `not tx_in.script_sig.commands`
deriving DecidableEq, Repr

structure TxCodec (Tx : Type) where
  /-- Tx.parse_legacy(stream) -/
  parseLegacy : Bytes → Option (Tx × Bytes)
  /-- Tx.parse(stream) (marker sniffing) -/
  parse : Bytes → Option (Tx × Bytes)
  /-- tx.serialize() (segwit form for a segwit-flagged transaction) -/
  serialize : Tx → Option Bytes
  /-- tx.serialize_legacy() -/
  serializeLegacy : Tx → Option Bytes
  /-- tx.hash() -/
  hash : Tx → Option Bytes
  ins : Tx → List TxInV
  outs : Tx → List TxOutV
  /-- PSBT.final_tx: clone, install (scriptSig, witness) per input, `segwit := True` if any input
      has a non-empty witness, serialise -/
  finalSerialize : Tx → List (Option Script × Option (List Bytes)) → Option Bytes

structure Hashes where
  hash160 : Bytes → Bytes
  sha256 : Bytes → Bytes

/-- the checks the PSBT code delegates to other modules, as functions of what they are asked -/
structure Oracles where
  /-- `S256Point.parse(sec)` succeeds -/
  secOK : Bytes → Bool
  /-- both `S256Point.parse(sec)` and `Signature.parse(sig[:-1])` succeed -/
  sigParseOK : Bytes → Bytes → Bool
  /-- `check_sig_segwit` (true) / `check_sig_legacy` (false) of input `i` for the key and signature -/
  sigOK : Bool → Nat → Bytes → Bytes → Bool
  /-- `verify_input(i)` with the given final scriptSig and witness installed -/
  verifyOK : Nat → Option Script → Option (List Bytes) → Bool
  /-- BIP32 public derivation: xpub (78 bytes) → unhardened child numbers → compressed SEC -/
  derive : Bytes → List Nat → Option Bytes

/-- op.op_code_to_number of a command; `none` = ValueError (a data element or another opcode) -/
def opCodeToNumber : Option Cmd → Option Int
  | some (.op n) =>
    if Gen.psbtOpNumCodes.contains n then
      some (if n = 0 then 0 else (n : Int) - (Gen.psbtOpNumBase : Int))
    else none
  | _ => none

/-! ## networks, binary paths -/

inductive Net where
  | mainnet | testnet
deriving DecidableEq, Repr

def Net.name : Net → String
  | .mainnet => "mainnet"
  | .testnet => "testnet"

/-- hd.XPUB[network] -/
def xpubVersion (n : Net) : Option Bytes := (Gen.psbtXpubVersion.find? (·.1 = n.name)).map (·.2)

/-- `raw_path[4:]` cut into little-endian children; `none` = parse_binary_path's ValueError -/
def pathChildrenAux : Nat → Bytes → List Nat
  | 0, _ => []
  | fuel + 1, b => if b = [] then [] else leToNat (b.take Gen.psbtChildWidth) :: pathChildrenAux fuel (b.drop Gen.psbtChildWidth)

def chunkChildren (b : Bytes) : List Nat := pathChildrenAux (b.length + 1) b

def pathChildren (rawPath : Bytes) : Option (List Nat) :=
  let bin := rawPath.drop Gen.psbtFingerprintWidth
  if bin.length % Gen.psbtChildWidth ≠ 0 then none else some (chunkChildren bin)

/-- helper.path_network on the parsed path; `none` = IndexError (`m/44'` alone) -/
def pathNetwork (children : List Nat) : Option Net :=
  if children.length + 1 < Gen.psbtPathNetMinComponents then some .mainnet
  else match children with
    | [] => some .mainnet
    | c1 :: r =>
      if Gen.psbtPathNetPurposes.contains c1 then
        match r with
        | [] => none
        | c2 :: _ => if c2 = Gen.psbtPathNetCoin then some .testnet else some .mainnet
      else some .mainnet

/-- NamedPublicKey.add_raw_path_data: the network the key ends up with -/
def namedNetwork (net : Option Net) (rawPath : Bytes) : Option Net := do
  let ch ← pathChildren rawPath
  match net with
  | some n => pure n
  | none => pathNetwork ch

/-! ## PSBT values -/

/-- NamedHDPublicKey: `raw_serialize()` (78 bytes, version of the PSBT's network) and `raw_path` -/
structure HdPub where
  raw : Bytes
  rawPath : Bytes
deriving DecidableEq, Repr

structure PIn (Tx : Type) where
  prevTx : Option Tx := none
  prevOut : Option TxOutV := none
  sigs : Dict Bytes := []                 -- SEC ↦ signature ‖ hash-type byte
  hashType : Option Nat := none
  redeem : Option Script := none
  witnessScript : Option Script := none
  namedPubs : Dict Bytes := []            -- compressed SEC ↦ raw_path (fingerprint ‖ children)
  scriptSig : Option Script := none
  witness : Option (List Bytes) := none
  extra : Dict Bytes := []
  /-- `tx_in._value`: set by parse (last UTXO record read) and by update -/
  value : Option Nat := none

structure POut where
  redeem : Option Script := none
  witnessScript : Option Script := none
  namedPubs : Dict Bytes := []
  extra : Dict Bytes := []
deriving DecidableEq, Repr

structure Psbt (Tx : Type) where
  tx : Tx
  ins : List (PIn Tx)
  outs : List POut
  hdPubs : Dict HdPub := []
  extra : Dict Bytes := []
  network : Option Net := none

/-- `if self.witness:` — Witness defines `__len__` -/
def witnessTruthy : Option (List Bytes) → Bool
  | some (_ :: _) => true
  | _ => false

/-- `if self.hash_type:` -/
def hashTypeTruthy : Option Nat → Bool
  | some n => n ≠ 0
  | none => false

/-! ## the map reader -/

/-- helper.serialize_key_value -/
def serializeKeyValue (key value : Bytes) : Option Bytes := do
  let k ← encodeVarstr key
  let v ← encodeVarstr value
  pure (k ++ v)

def encodeEntries : List (Bytes × Bytes) → Option Bytes
  | [] => some []
  | (k, v) :: r => do
    let a ← serializeKeyValue k v
    let b ← encodeEntries r
    pure (a ++ b)

/-- `key = read_varstr(s); while key != b"": … ; key = read_varstr(s)`.  Every iteration consumes at
    least the key's length byte, so `fuel = len(stream) + 1` is never exhausted. -/
def kvLoop {σ} (step : σ → Bytes → Bytes → Option (σ × Bytes)) : Nat → Bytes → σ → Option (σ × Bytes)
  | 0, _, _ => none
  | fuel + 1, s, st => do
    let (key, s) ← readVarstr s
    if key = [] then pure (st, s) else
    let (st, s) ← step st key s
    kvLoop step fuel s st

/-- the `len(key) != N` test of the branch for key type `ty` (table re-extracted from the source) -/
def keyLenOK (tbl : List (Nat × Nat)) (ty : Nat) (key : Bytes) : Bool :=
  match tbl.find? (·.1 = ty) with
  | some (_, n) => key.length == n
  | none => true

/-- NamedPublicKey.parse(key, s, network): the SEC, the raw path -/
def parseNamedPub (O : Oracles) (net : Option Net) (key s : Bytes) : Option ((Bytes × Bytes) × Bytes) := do
  let sec := key.drop 1
  req (O.secOK sec)
  let (rawPath, s) ← readVarstr s
  let _ ← namedNetwork net rawPath
  pure ((sec, rawPath), s)

/-! ## PSBTIn.parse -/

def inStep {Tx} (C : TxCodec Tx) (O : Oracles) (net : Option Net) (prevIndex : Nat)
    (st : PIn Tx) (key s : Bytes) : Option (PIn Tx × Bytes) :=
  match key with
  | [] => none
  | t :: _ =>
    let ty := t.toNat
    if !keyLenOK Gen.psbtInKeyLens ty key then none
    else if ty = Gen.psbtInNonWitnessUtxo then do
      req st.prevTx.isNone
      let (txLen, s) ← readVarint s
      let (tx, s) ← C.parse s
      let b ← C.serialize tx
      req (b.length == txLen)
      let o ← (C.outs tx)[prevIndex]?
      pure ({ st with prevTx := some tx, value := some o.amount }, s)
    else if ty = Gen.psbtInWitnessUtxo then do
      let (n, s) ← readVarint s
      req st.prevOut.isNone
      let (o, s) ← TxOutV.parse s
      let b ← o.serialize
      req (b.length == n)
      pure ({ st with prevOut := some o, value := some o.amount }, s)
    else if ty = Gen.psbtInPartialSig then do
      req (!dtruthy st.sigs (key.drop 1))
      let (v, s) ← readVarstr s
      pure ({ st with sigs := dset st.sigs (key.drop 1) v }, s)
    else if ty = Gen.psbtInSighashType then do
      req (!hashTypeTruthy st.hashType)
      let (v, s) ← readVarstr s
      pure ({ st with hashType := some (leToNat v) }, s)
    else if ty = Gen.psbtInRedeemScript then do
      req st.redeem.isNone
      let (sc, s) ← Script.parse s
      pure ({ st with redeem := some sc }, s)
    else if ty = Gen.psbtInWitnessScript then do
      req st.witnessScript.isNone
      let (sc, s) ← Script.parse s
      pure ({ st with witnessScript := some sc }, s)
    else if ty = Gen.psbtInBip32Derivation then do
      let ((sec, rp), s) ← parseNamedPub O net key s
      pure ({ st with namedPubs := dset st.namedPubs sec rp }, s)
    else if ty = Gen.psbtInFinalScriptsig then do
      req st.scriptSig.isNone
      let (sc, s) ← Script.parse s
      pure ({ st with scriptSig := some sc }, s)
    else if ty = Gen.psbtInFinalScriptwitness then do
      req (!witnessTruthy st.witness)
      let (_, s) ← readVarint s
      let (w, s) ← witnessParse s
      pure ({ st with witness := some w }, s)
    else do
      req (!dtruthy st.extra key)
      let (v, s) ← readVarstr s
      pure ({ st with extra := dset st.extra key v }, s)

/-- PSBTIn.parse without the constructor's `validate()` -/
def parseInMap {Tx} (C : TxCodec Tx) (O : Oracles) (net : Option Net) (prevIndex : Nat) (s : Bytes) :
    Option (PIn Tx × Bytes) :=
  kvLoop (inStep C O net prevIndex) (s.length + 1) s {}

/-! ## PSBTOut.parse -/

def outStep (O : Oracles) (net : Option Net) (st : POut) (key s : Bytes) : Option (POut × Bytes) :=
  match key with
  | [] => none
  | t :: _ =>
    let ty := t.toNat
    if !keyLenOK Gen.psbtOutKeyLens ty key then none
    else if ty = Gen.psbtOutRedeemScript then do
      req st.redeem.isNone
      let (sc, s) ← Script.parse s
      pure ({ st with redeem := some sc }, s)
    else if ty = Gen.psbtOutWitnessScript then do
      req st.witnessScript.isNone
      let (sc, s) ← Script.parse s
      pure ({ st with witnessScript := some sc }, s)
    else if ty = Gen.psbtOutBip32Derivation then do
      let ((sec, rp), s) ← parseNamedPub O net key s
      pure ({ st with namedPubs := dset st.namedPubs sec rp }, s)
    else do
      req (!dtruthy st.extra key)
      let (v, s) ← readVarstr s
      pure ({ st with extra := dset st.extra key v }, s)

def parseOutMap (O : Oracles) (net : Option Net) (s : Bytes) : Option (POut × Bytes) :=
  kvLoop (outStep O net) (s.length + 1) s {}

/-! ## the global map -/

structure GlobalState (Tx : Type) where
  tx : Option Tx := none
  hdPubs : Dict HdPub := []
  extra : Dict Bytes := []
  network : Option Net := none

/-- NamedHDPublicKey.parse(key, s, network): version test, field widths, point check, depth =
    number of path children; the dict key is `raw_serialize()` = XPUB[network] ‖ rest -/
def parseHdPub (O : Oracles) (net : Option Net) (key s : Bytes) : Option ((HdPub × Net) × Bytes) := do
  let body := key.drop 1
  let version := body.take (pat Gen.psbtXpubFieldWidths 0)
  req (Gen.psbtTestnetXpubs.any (·.2 = version) || Gen.psbtMainnetXpubs.any (·.2 = version))
  let afterVersion := body.drop (pat Gen.psbtXpubFieldWidths 0)
  let depth := leToNat (afterVersion.take (pat Gen.psbtXpubFieldWidths 1))
  let secOff := pat Gen.psbtXpubFieldWidths 1 + pat Gen.psbtXpubFieldWidths 2 + pat Gen.psbtXpubFieldWidths 3
                + pat Gen.psbtXpubFieldWidths 4
  let sec := (afterVersion.drop secOff).take (pat Gen.psbtXpubFieldWidths 5)
  req (O.secOK sec)
  let (rawPath, s) ← readVarstr s
  let ch ← pathChildren rawPath
  req (depth == ch.length)
  let n ← match net with
    | some n => some n
    | none => pathNetwork ch
  let v ← xpubVersion n
  pure (({ raw := v ++ afterVersion, rawPath := rawPath }, n), s)

def globalStep {Tx} (C : TxCodec Tx) (O : Oracles) (st : GlobalState Tx) (key s : Bytes) :
    Option (GlobalState Tx × Bytes) :=
  match key with
  | [] => none
  | t :: _ =>
    let ty := t.toNat
    if !keyLenOK Gen.psbtGlobalKeyLens ty key then none
    else if ty = Gen.psbtGlobalUnsignedTx then do
      req st.tx.isNone
      let (_, s) ← readVarint s
      let (tx, s) ← C.parseLegacy s
      pure ({ st with tx := some tx }, s)
    else if ty = Gen.psbtGlobalXpub then do
      let ((hd, n), s) ← parseHdPub O st.network key s
      -- `if network is None: network = hd_pub.network`; `if hd_pub.network != network: raise`
      -- (the key was parsed with the current network, so it can only differ when that was None)
      pure ({ st with hdPubs := dset st.hdPubs hd.raw hd, network := some n }, s)
    else do
      req (!dtruthy st.extra key)
      let (v, s) ← readVarstr s
      pure ({ st with extra := dset st.extra key v }, s)

/-- after a map: `for named_pub in ….named_pubs.values(): if network is None: network = named_pub.network;
    if named_pub.network != network: raise MixedNetwork` -/
def inferNetwork (parsedWith : Option Net) : Option Net → List Bytes → Option (Option Net)
  | net, [] => some net
  | net, rp :: r => do
    let n ← namedNetwork parsedWith rp
    match net with
    | none => inferNetwork parsedWith (some n) r
    | some m => if n = m then inferNetwork parsedWith (some m) r else none

/-! ## validation -/

def rawOf (s : Script) : Option Bytes := Script.rawSerialize s

def scriptHash160 (H : Hashes) (s : Script) : Option Cmd := (rawOf s).map fun r => .push (H.hash160 r)
def scriptSha256 (H : Hashes) (s : Script) : Option Cmd := (rawOf s).map fun r => .push (H.sha256 r)

/-- `for sec in named_pubs.keys(): script.commands.index(sec)` -/
def namedInScript (named : Dict Bytes) (s : Script) : Bool :=
  named.all fun e => s.cmds.contains (.push e.1)

/-- PSBTIn.script_pubkey(): outer `none` = IndexError, inner `none` = None -/
def PIn.scriptPubkey {Tx} (C : TxCodec Tx) (txin : TxInV) (p : PIn Tx) : Option (Option Script) :=
  match p.prevTx with
  | some t => match (C.outs t)[txin.prevIndex]? with
    | some o => some (some o.spk)
    | none => none
  | none => match p.prevOut with
    | some o => some (some o.spk)
    | none => some none

/-- `len(named_pubs) > 1: raise; == 1: h160 != named_pub.hash160(): raise` -/
def singleKeyOK (H : Hashes) (named : Dict Bytes) (h160 : Option Cmd) : Option Unit :=
  match named with
  | [] => some ()
  | [(sec, _)] => do
    let h ← h160
    req (h == .push (H.hash160 sec))
  | _ => none

/-- PSBTIn.validate -/
def validateIn {Tx} (H : Hashes) (C : TxCodec Tx) (txin : TxInV) (p : PIn Tx) : Option Unit := do
  let spk ← p.scriptPubkey C txin
  match p.prevTx with
  | some t =>
    let h ← C.hash t
    req (txin.prevTx == h)
    req (txin.prevIndex < (C.outs t).length)
  | none => pure ()
  match p.prevOut with
  | some po =>
    let spk ← spk
    -- F11d: both UTXO kinds must describe the same output
    match p.prevTx with
    | some t =>
      let utxo ← (C.outs t)[txin.prevIndex]?
      req (utxo.amount == po.amount && utxo.spk.cmds == po.spk.cmds)
    | none => pure ()
    req (isP2sh spk || isP2wsh spk || isP2wpkh spk)
    -- F11f
    match p.redeem with
    | some r => req (!(isP2sh spk && !isWitnessProgram r))
    | none => pure ()
    -- F11g: a RedeemScript only next to a p2sh ScriptPubKey
    match p.redeem with
    | some _ => req (isP2sh spk)
    | none => pure ()
    match p.witnessScript with
    | some ws =>
      req (isP2wsh spk || (match p.redeem with | some r => isP2wsh r | none => false))
      let s256 ← match p.redeem with
        | some r => do
          let h160 ← spk.cmds[1]?
          let rh ← scriptHash160 H r
          req (rh == h160)
          r.cmds[1]?
        | none => po.spk.cmds[1]?
      let wh ← scriptSha256 H ws
      req (wh == s256)
      req (namedInScript p.namedPubs ws)
    | none =>
      match p.redeem with
      | some r =>
        if isP2wpkh spk || isP2wpkh r then
          -- F10e: the pubkey hash is the second command of the ScriptPubKey (p2wpkh) or of the RedeemScript
          singleKeyOK H p.namedPubs (if isP2wpkh spk then spk.cmds[1]? else r.cmds[1]?)
        else pure ()
      | none =>
        if isP2wpkh spk then singleKeyOK H p.namedPubs spk.cmds[1]? else pure ()
  | none =>
    -- F11g: a WitnessScript without witness UTXO must be the one a p2wsh ScriptPubKey commits to
    match p.witnessScript with
    | some ws =>
      let spk' ← spk
      req (isP2wsh spk')
      let wh ← scriptSha256 H ws
      req (spk'.cmds[1]? == some wh)
    | none => pure ()
    match p.redeem with
    | some r =>
      let spk ← spk
      req (isP2sh spk)
      req (!(isP2wsh r || isP2wpkh r))
      let h160 ← spk.cmds[1]?
      let rh ← scriptHash160 H r
      req (rh == h160)
      req (namedInScript p.namedPubs r)
    | none =>
      match spk with
      | some spk => if isP2pkh spk then singleKeyOK H p.namedPubs spk.cmds[2]? else pure ()
      | none => pure ()

/-- PSBTOut.validate -/
def validateOut (H : Hashes) (spk : Script) (p : POut) : Option Unit :=
  if isP2pkh spk then do
    req p.redeem.isNone
    req p.witnessScript.isNone
    singleKeyOK H p.namedPubs spk.cmds[2]?
  else if isP2wpkh spk then do
    req p.redeem.isNone
    req p.witnessScript.isNone
    singleKeyOK H p.namedPubs spk.cmds[1]?
  else match p.witnessScript with
  | some ws => do
    -- F11c
    req (isP2wsh spk || (isP2sh spk && (match p.redeem with | some r => isP2wsh r | none => false)))
    let s256 ← match p.redeem with
      | some r => do
        let h160 ← spk.cmds[1]?
        let rh ← scriptHash160 H r
        req (rh == h160)
        r.cmds[1]?
      | none => spk.cmds[1]?
    let wh ← scriptSha256 H ws
    req (wh == s256)
    req (namedInScript p.namedPubs ws)
  | none =>
    match p.redeem with
    | some r => do
      -- F11b
      req (isP2sh spk)
      let rh ← scriptHash160 H r
      req (spk.cmds[1]? == some rh)
      -- F10f
      if isP2wpkh r then singleKeyOK H p.namedPubs r.cmds[1]?
      else req (namedInScript p.namedPubs r)
    | none => some ()

/-- HDPublicKey.is_ancestor / verify_descendent over the PSBT's xpubs: the first xpub whose raw path
    is a prefix of the key's decides -/
def isPrefix : Bytes → Bytes → Bool
  | [], _ => true
  | _ :: _, [] => false
  | a :: as, b :: bs => a == b && isPrefix as bs

def namedDerivesOK (O : Oracles) (hdPubs : Dict HdPub) (sec rawPath : Bytes) : Bool :=
  match hdPubs.find? (fun e => isPrefix e.2.rawPath rawPath) with
  | none => true
  | some (_, hd) =>
    let idxs := chunkChildren (rawPath.drop hd.rawPath.length)
    idxs.all (· < Gen.psbtXpubChildLimit) && O.derive hd.raw idxs == some sec

def allNamedDeriveOK (O : Oracles) (hdPubs : Dict HdPub) (named : Dict Bytes) : Bool :=
  named.all fun e => namedDerivesOK O hdPubs e.1 e.2

/-- the partial signatures of one input (`if psbt_in.sigs:` loop of PSBT.validate).  Without any
    UTXO nothing is checked beyond parsing the key and the signature (observation O10b). -/
def sigsOK {Tx} (O : Oracles) (i : Nat) (p : PIn Tx) : Bool :=
  p.sigs.all fun e =>
    O.sigParseOK e.1 e.2 &&
    (if p.prevOut.isSome then O.sigOK true i e.1 e.2
     else if p.prevTx.isSome then O.sigOK false i e.1 e.2
     else true)

def validateInsLoop {Tx} (H : Hashes) (C : TxCodec Tx) (O : Oracles) (hdPubs : Dict HdPub) :
    Nat → List TxInV → List (PIn Tx) → Option Unit
  | _, [], [] => some ()
  | i, txin :: tr, p :: pr => do
    validateIn H C txin p
    req txin.scriptSigEmpty
    if p.scriptSig.isSome then req (O.verifyOK i p.scriptSig p.witness)
    req (sigsOK O i p)
    req (allNamedDeriveOK O hdPubs p.namedPubs)
    validateInsLoop H C O hdPubs (i + 1) tr pr
  | _, _, _ => none

def validateOutsLoop (H : Hashes) (O : Oracles) (hdPubs : Dict HdPub) : List TxOutV → List POut → Option Unit
  | [], [] => some ()
  | o :: tr, p :: pr => do
    validateOut H o.spk p
    req (allNamedDeriveOK O hdPubs p.namedPubs)
    validateOutsLoop H O hdPubs tr pr
  | _, _ => none

/-- PSBT.validate -/
def Psbt.validate {Tx} (H : Hashes) (C : TxCodec Tx) (O : Oracles) (p : Psbt Tx) : Option Unit := do
  validateInsLoop H C O p.hdPubs 0 (C.ins p.tx) p.ins
  validateOutsLoop H O p.hdPubs (C.outs p.tx) p.outs

/-! ## PSBT.parse -/

def parseIns {Tx} (H : Hashes) (C : TxCodec Tx) (O : Oracles) :
    Option Net → List TxInV → Bytes → Option ((List (PIn Tx) × Option Net) × Bytes)
  | net, [], s => some (([], net), s)
  | net, txin :: r, s => do
    let (p, s) ← parseInMap C O net txin.prevIndex s
    validateIn H C txin p                              -- the PSBTIn constructor validates
    let net' ← inferNetwork net net (p.namedPubs.map (·.2))
    let ((ps, net''), s) ← parseIns H C O net' r s
    pure ((p :: ps, net''), s)

def parseOuts (H : Hashes) (O : Oracles) :
    Option Net → List TxOutV → Bytes → Option ((List POut × Option Net) × Bytes)
  | net, [], s => some (([], net), s)
  | net, o :: r, s => do
    let (p, s) ← parseOutMap O net s
    validateOut H o.spk p
    let net' ← inferNetwork net net (p.namedPubs.map (·.2))
    let ((ps, net''), s) ← parseOuts H O net' r s
    pure ((p :: ps, net''), s)

/-- the three map levels of PSBT.parse (everything except the final `PSBT.validate`) -/
def parseMaps {Tx} (H : Hashes) (C : TxCodec Tx) (O : Oracles) (net : Option Net) (s : Bytes) :
    Option (Psbt Tx × Bytes) := do
  let (magic, s) := sread Gen.psbtMagicWidth s
  req (magic == Gen.psbtMagic)
  let (sep, s) := sread Gen.psbtSeparatorWidth s
  req (sep == Gen.psbtSeparator)
  let (g, s) ← kvLoop (globalStep C O) (s.length + 1) s { network := net }
  let tx ← g.tx
  let ((ins, net1), s) ← parseIns H C O g.network (C.ins tx) s
  let ((outs, net2), s) ← parseOuts H O net1 (C.outs tx) s
  pure ({ tx := tx, ins := ins, outs := outs, hdPubs := g.hdPubs, extra := g.extra, network := net2 }, s)

/-- PSBT.parse -/
def parse {Tx} (H : Hashes) (C : TxCodec Tx) (O : Oracles) (net : Option Net) (s : Bytes) :
    Option (Psbt Tx × Bytes) := do
  let (p, rest) ← parseMaps H C O net s
  p.validate H C O
  pure (p, rest)

/-! ## serialisation -/

/-- the signature keys in emission order (PSBTIn.serialize): the commands of the WitnessScript, or
    of a RedeemScript that is not p2wpkh, that have a non-empty signature — otherwise all keys sorted -/
def sigKeyOrder {Tx} (p : PIn Tx) : List Bytes :=
  let inScript (sc : Script) : List Bytes :=
    sc.cmds.filterMap fun c => match c with
      | .push k => if dtruthy p.sigs k then some k else none
      | .op _ => none
  match p.witnessScript with
  | some ws => inScript ws
  | none => match p.redeem with
    | some r => if !isP2wpkh r then inScript r else sortKeys (dkeys p.sigs)
    | none => sortKeys (dkeys p.sigs)

def optEntry (ty : Nat) : Option Bytes → List (Bytes × Bytes)
  | some v => [([UInt8.ofNat ty], v)]
  | none => []

/-- the key–value pairs PSBTIn.serialize writes, in order; `none` = a serialiser raised -/
def PIn.entries {Tx} (C : TxCodec Tx) (p : PIn Tx) : Option (List (Bytes × Bytes)) := do
  let utxo ← match p.prevTx with
    | some t => do let b ← C.serialize t; pure [([UInt8.ofNat Gen.psbtInNonWitnessUtxo], b)]
    | none => match p.prevOut with
      | some o => do let b ← o.serialize; pure [([UInt8.ofNat Gen.psbtInWitnessUtxo], b)]
      | none => pure []
  let sigs ← (sigKeyOrder p).mapM fun k => (dget p.sigs k).map fun v => (UInt8.ofNat Gen.psbtInPartialSig :: k, v)
  let ht ← if hashTypeTruthy p.hashType then
      (natToLE (p.hashType.getD 0) Gen.psbtHashTypeWidth).map fun b => [([UInt8.ofNat Gen.psbtInSighashType], b)]
    else some []
  let rs ← match p.redeem with
    | some r => (rawOf r).map fun b => [([UInt8.ofNat Gen.psbtInRedeemScript], b)]
    | none => some []
  let ws ← match p.witnessScript with
    | some r => (rawOf r).map fun b => [([UInt8.ofNat Gen.psbtInWitnessScript], b)]
    | none => some []
  let named := (sortedItems p.namedPubs).map fun e => (UInt8.ofNat Gen.psbtInBip32Derivation :: e.1, e.2)
  let ss ← match p.scriptSig with
    | some r => (rawOf r).map fun b => [([UInt8.ofNat Gen.psbtInFinalScriptsig], b)]
    | none => some []
  let wit ← if witnessTruthy p.witness then
      (witnessSerialize (p.witness.getD [])).map fun b => [([UInt8.ofNat Gen.psbtInFinalScriptwitness], b)]
    else some []
  pure (utxo ++ sigs ++ ht ++ rs ++ ws ++ named ++ ss ++ wit ++ sortedItems p.extra)

/-- PSBTIn.serialize -/
def PIn.serialize {Tx} (C : TxCodec Tx) (p : PIn Tx) : Option Bytes := do
  let es ← p.entries C
  let b ← encodeEntries es
  pure (b ++ Gen.psbtDelimiter)

def POut.entries (p : POut) : Option (List (Bytes × Bytes)) := do
  let rs ← match p.redeem with
    | some r => (rawOf r).map fun b => [([UInt8.ofNat Gen.psbtOutRedeemScript], b)]
    | none => some []
  let ws ← match p.witnessScript with
    | some r => (rawOf r).map fun b => [([UInt8.ofNat Gen.psbtOutWitnessScript], b)]
    | none => some []
  let named := (sortedItems p.namedPubs).map fun e => (UInt8.ofNat Gen.psbtOutBip32Derivation :: e.1, e.2)
  pure (rs ++ ws ++ named ++ sortedItems p.extra)

/-- PSBTOut.serialize -/
def POut.serialize (p : POut) : Option Bytes := do
  let es ← p.entries
  let b ← encodeEntries es
  pure (b ++ Gen.psbtDelimiter)

def serializeAll {α} (f : α → Option Bytes) : List α → Option Bytes
  | [] => some []
  | a :: r => do
    let x ← f a
    let y ← serializeAll f r
    pure (x ++ y)

/-- the global map's key–value pairs.  F10a (repaired): the unsigned transaction is written in
    non-witness format. -/
def Psbt.globalEntries {Tx} (C : TxCodec Tx) (p : Psbt Tx) : Option (List (Bytes × Bytes)) := do
  let tx ← C.serializeLegacy p.tx
  let xpubs := (sortedItems p.hdPubs).map fun e => (UInt8.ofNat Gen.psbtGlobalXpub :: e.2.raw, e.2.rawPath)
  pure (([UInt8.ofNat Gen.psbtGlobalUnsignedTx], tx) :: xpubs ++ sortedItems p.extra)

/-- PSBT.serialize -/
def Psbt.serialize {Tx} (C : TxCodec Tx) (p : Psbt Tx) : Option Bytes := do
  let g ← p.globalEntries C
  let gb ← encodeEntries g
  let ib ← serializeAll (PIn.serialize C) p.ins
  let ob ← serializeAll POut.serialize p.outs
  pure (Gen.psbtMagic ++ Gen.psbtSeparator ++ gb ++ Gen.psbtDelimiter ++ ib ++ ob)

/-- today's PSBT.serialize (finding F10a): `tx_obj.serialize()` — the segwit form, marker and flag
    included, for a segwit-flagged transaction -/
def Psbt.serializeF10a {Tx} (C : TxCodec Tx) (p : Psbt Tx) : Option Bytes := do
  let tx ← C.serialize p.tx
  let xpubs := (sortedItems p.hdPubs).map fun e => (UInt8.ofNat Gen.psbtGlobalXpub :: e.2.raw, e.2.rawPath)
  let gb ← encodeEntries (([UInt8.ofNat Gen.psbtGlobalUnsignedTx], tx) :: xpubs ++ sortedItems p.extra)
  let ib ← serializeAll (PIn.serialize C) p.ins
  let ob ← serializeAll POut.serialize p.outs
  pure (Gen.psbtMagic ++ Gen.psbtSeparator ++ gb ++ Gen.psbtDelimiter ++ ib ++ ob)

end Buidl.Psbt
