/-
  Buidl.Model.ECDSA — buidl/pecc.py: PrivateKey.deterministic_k, PrivateKey.sign, S256Point.verify,
  Signature.der, Signature.parse.  No Mathlib; Lean core + the shared byte / curve models.

  The code modelled is the repaired one (fix: commits c9151c7 = F01a, 423cb12 = F01b, 493f7de = F01c).
  Comparison operators and thresholds come from Buidl.Gen.Ecdsa (re-extracted on every run).
  `none` / `.error` = the Python raises.
-/
import Buidl.Model.EC
import Buidl.Gen.Ecdsa
namespace Buidl.ECDSA
open Buidl Buidl.EC

/-! ### PrivateKey.__init__ -/

/-- `PrivateKey(secret)`: RuntimeError unless `1 ≤ secret ≤ N - 1` -/
def validSecret (d : Nat) : Bool := !(d > N - 1) && !(d < 1)

/-! ### PrivateKey.deterministic_k -/

inductive DetKErr where
  /-- the `while True` loop did not return within the fuel given -/
  | outOfFuel
  /-- `int_to_big_endian(·, 32)` raised OverflowError -/
  | overflow
deriving DecidableEq, Repr

/-- `if z >= N` -/
def detkReduce (z : Nat) : Bool := cmpAt Gen.detkCmp 0 z
/-- `candidate >= 1 and candidate < N` -/
def detkCandOK (c : Nat) : Bool := cmpAt Gen.detkCmp 1 c && cmpAt Gen.detkCmp 2 c

/-- the `while True:` loop of deterministic_k; one unit of fuel per iteration -/
def detkLoop (hmac : Bytes → Bytes → Bytes) : Nat → Bytes → Bytes → Except DetKErr Nat
  | 0, _, _ => .error .outOfFuel
  | fuel + 1, k, v =>
    let v := hmac k v
    let candidate := beToNat v
    if detkCandOK candidate then .ok candidate
    else
      let k := hmac k (v ++ [0])
      let v := hmac k v
      detkLoop hmac fuel k v

/-- PrivateKey.deterministic_k (`hmac key msg` = `hmac.new(key, msg, sha256).digest()`) -/
def deterministicK (hmac : Bytes → Bytes → Bytes) (fuel : Nat) (d z : Nat) : Except DetKErr Nat :=
  let k := List.replicate 32 (0 : UInt8)
  let v := List.replicate 32 (1 : UInt8)
  let z := if detkReduce z then z - N else z
  match natToBE z 32, natToBE d 32 with
  | some zBytes, some secretBytes =>
    let k := hmac k (v ++ [0] ++ secretBytes ++ zBytes)
    let v := hmac k v
    let k := hmac k (v ++ [1] ++ secretBytes ++ zBytes)
    let v := hmac k v
    detkLoop hmac fuel k v
  | _, _ => .error .overflow

/-! ### PrivateKey.sign -/

/-- `if s > N // 2` -/
def highS (s : Nat) : Bool := cmpOp Gen.lowSOp s Gen.lowSRhs

/-- the body of PrivateKey.sign after the nonce `k` has been chosen;
    `none`: `(k * G).x` is None (k ≡ 0 mod N) and `.num` raises -/
def signWith (k d z : Nat) : Option (Nat × Nat) :=
  match smul (k : Int) G with
  | .inf => none
  | .aff x _ =>
    let r := x
    let kInv := powmod k (N - 2) N
    let s := (z + r * d) * kInv % N
    let s := if highS s then N - s else s
    some (r, s)

inductive SignErr where
  | badSecret
  | detK (e : DetKErr)
  | infinity
deriving DecidableEq, Repr

/-- `PrivateKey(d).sign(z)` -/
def sign (hmac : Bytes → Bytes → Bytes) (fuel : Nat) (d z : Nat) : Except SignErr (Nat × Nat) :=
  if !validSecret d then .error .badSecret else
  match deterministicK hmac fuel d z with
  | .error e => .error (.detK e)
  | .ok k =>
    match signWith k d z with
    | none => .error .infinity
    | some rs => .ok rs

/-! ### S256Point.verify -/

/-- `1 <= sig.r < N and 1 <= sig.s < N` -/
def rangeOK (r s : Nat) : Bool :=
  (cmpAt Gen.verifyRange 0 r && cmpAt Gen.verifyRange 1 r) &&
  (cmpAt Gen.verifyRange 2 s && cmpAt Gen.verifyRange 3 s)

/-- S256Point.verify(z, Signature(r, s)) on the point `Q`;
    `none`: `total` is the point at infinity and `total.x.num` raises AttributeError -/
def verify (Q : Pt) (z r s : Nat) : Option Bool :=
  if !rangeOK r s then some false else
  let sInv := powmod s (N - 2) N
  let u := z * sInv % N
  let v := r * sInv % N
  match sadd (smul (u : Int) G) (smul (v : Int) Q) with
  | .inf => none
  | .aff x _ => some (x == r)

/-! ### Signature.der -/

/-- `while rbin[0] == 0: if rbin[1] >= 128: break else: rbin = rbin[1:]`
    (`i` = index into Gen.derCmp of the `== 0` test; the `>= 128` test follows it);
    `none`: IndexError (`rbin[1]` on a single zero byte) -/
def derStrip (i : Nat) : Bytes → Option Bytes
  | [] => none
  | b0 :: rest =>
    if cmpAt Gen.derCmp i b0.toNat then
      match rest with
      | [] => none
      | b1 :: _ => if cmpAt Gen.derCmp (i + 1) b1.toNat then some (b0 :: rest) else derStrip i rest
    else some (b0 :: rest)

/-- one INTEGER of Signature.der: big-endian 32 bytes, a zero byte in front when the top bit is set,
    leading zeros stripped, then `02 len` in front (`i` = first index into Gen.derCmp) -/
def derInt (i : Nat) (n : Nat) : Option Bytes :=
  match natToBE n 32 with
  | none => none
  | some bin =>
    match bin with
    | [] => none
    | b0 :: _ =>
      let bin := if cmpAt Gen.derCmp i b0.toNat then 0 :: bin else bin
      match derStrip (i + 1) bin with
      | none => none
      | some bin => if bin.length < 256 then some ([2, UInt8.ofNat bin.length] ++ bin) else none

/-- Signature(r, s).der() -/
def der (r s : Nat) : Option Bytes :=
  match derInt 0 r, derInt 3 s with
  | some a, some b =>
    let result := a ++ b
    if result.length < 256 then some ([0x30, UInt8.ofNat result.length] ++ result) else none
  | _, _ => none

/-! ### Signature.parse -/

/-- `s.read(1)[0]`: IndexError at end of stream -/
def read1 : Bytes → Option (Nat × Bytes)
  | [] => none
  | b :: r => some (b.toNat, r)

/-- `int(s.read(n).hex(), 16)`: short read allowed, ValueError on the empty string -/
def readInt (n : Nat) (s : Bytes) : Option (Nat × Bytes) :=
  let (b, r) := sread n s
  if b.isEmpty then none else some (beToNat b, r)

/-- Signature.parse(signature_bin) → (r, s) -/
def parseDer (bin : Bytes) : Option (Nat × Nat) := do
  let (compound, s) ← read1 bin
  if cmpAt Gen.parseDerCmp 0 compound then none else
  let (length, s) ← read1 s
  if length + 2 ≠ bin.length then none else
  let (marker, s) ← read1 s
  if cmpAt Gen.parseDerCmp 1 marker then none else
  let (rlength, s) ← read1 s
  let (r, s) ← readInt rlength s
  let (marker, s) ← read1 s
  if cmpAt Gen.parseDerCmp 2 marker then none else
  let (slength, s) ← read1 s
  let (sv, _) ← readInt slength s
  if bin.length ≠ 6 + rlength + slength then none else
  pure (r, sv)

end Buidl.ECDSA
