/-
  Buidl.Model.Filters — BIP158 compact filters and BIP37 bloom filters (C18).  Import-free.

  Mirrors
    buidl/siphash.py        _doublesipround, SipHash_2_4.__init__/update/hash  (Python ints + masks)
    buidl/compactfilter.py  _siphash, hash_to_range, hashed_items, encode_golomb, decode_golomb, pack_bits,
                            unpack_bits, serialize_gcs, encode_gcs, decode_gcs, CompactFilter,
                            CFilterMessage (cf / hash)
    buidl/helper.py         murmur3 (Python ints; intermediate values are *not* masked to 32 bits)
    buidl/bloomfilter.py    BloomFilter.add / filter_bytes / filterload
  Every integer literal of `_doublesipround` and `murmur3` is re-extracted from the source
  (`Gen.sipC0 … sipC37`, `Gen.murC0 … murC49`, in source order).

  Bits are `Bool` (Python mixes `int` 0/1 and `bool`; `bits[0] != 0` and `bits.pop(0) == 1` treat
  them alike).  A Python exception is `none`.
-/
import Buidl.Model.Merkle
import Buidl.Gen.Filters
namespace Buidl.Filters
open Buidl

/-! ### siphash.py -/

abbrev V4 := Nat × Nat × Nat × Nat

/-- siphash._doublesipround, line by line (Python precedence made explicit) -/
def doubleSipRound (v : V4) (m : Nat) : V4 :=
  let (a, b, c, d) := v
  let d := d ^^^ m
  let e := (a + b) &&& Gen.sipC0
  let i := (((b &&& Gen.sipC1) <<< Gen.sipC2) ||| (b >>> Gen.sipC3)) ^^^ e
  let f := c + d
  let j := (((d <<< Gen.sipC4) ||| (d >>> Gen.sipC5)) ^^^ f) &&& Gen.sipC6
  let h := (f + i) &&& Gen.sipC7
  let k := ((e <<< Gen.sipC8) ||| (e >>> Gen.sipC9)) + j
  let l := (((i &&& Gen.sipC10) <<< Gen.sipC11) ||| (i >>> Gen.sipC12)) ^^^ h
  let o := (((j <<< Gen.sipC13) ||| (j >>> Gen.sipC14)) ^^^ k) &&& Gen.sipC15
  let p := (k + l) &&& Gen.sipC16
  let q := (((l &&& Gen.sipC17) <<< Gen.sipC18) ||| (l >>> Gen.sipC19)) ^^^ p
  let r := ((h <<< Gen.sipC20) ||| (h >>> Gen.sipC21)) + o
  let s := (((o <<< Gen.sipC22) ||| (o >>> Gen.sipC23)) ^^^ r) &&& Gen.sipC24
  let t := (r + q) &&& Gen.sipC25
  let u := (((p <<< Gen.sipC26) ||| (p >>> Gen.sipC27)) + s) &&& Gen.sipC28
  (u ^^^ m,
   (((q &&& Gen.sipC29) <<< Gen.sipC30) ||| (q >>> Gen.sipC31)) ^^^ t,
   ((t &&& Gen.sipC32) <<< Gen.sipC33) ||| (t >>> Gen.sipC34),
   (((s &&& Gen.sipC35) <<< Gen.sipC36) ||| (s >>> Gen.sipC37)) ^^^ u)

/-- SipHash_2_4.__init__ for a 16-byte secret (`_twoQ.unpack`) -/
def sipInit (key : Bytes) : V4 :=
  let k0 := leToNat (key.take 8)
  let k1 := leToNat ((key.drop 8).take 8)
  (Gen.sipInit0 ^^^ k0, Gen.sipInit1 ^^^ k1, Gen.sipInit2 ^^^ k0, Gen.sipInit3 ^^^ k1)

/-- SipHash_2_4.update on the whole message: one `_doublesipround` per complete 8-byte block;
    returns the state and the unprocessed tail `self.s` (fewer than 8 bytes) -/
def sipUpdate (v : V4) : Bytes → V4 × Bytes
  | b0 :: b1 :: b2 :: b3 :: b4 :: b5 :: b6 :: b7 :: rest =>
    sipUpdate (doubleSipRound v (leToNat [b0, b1, b2, b3, b4, b5, b6, b7])) rest
  | tail => (v, tail)

/-- SipHash_2_4.hash: `blen` is `self.b` (bytes already compressed), `tail` is `self.s` -/
def sipFinal (v : V4) (blen : Nat) (tail : Bytes) : Nat :=
  let b := (((blen + tail.length) &&& Gen.sipLenMask) <<< Gen.sipLenShift)
            ||| leToNat ((tail ++ List.replicate 8 0).take 8)
  let (v0, v1, v2, v3) := doubleSipRound v b
  let (w0, w1, w2, w3) := doubleSipRound (doubleSipRound (v0, v1, v2 ^^^ Gen.sipFinalXor, v3) 0) 0
  w0 ^^^ w1 ^^^ w2 ^^^ w3

/-- compactfilter._siphash; `none` = ValueError (key not 16 bytes) -/
def siphash (key value : Bytes) : Option Nat :=
  if key.length ≠ Gen.siphashKeyLen then none
  else
    let (v, tail) := sipUpdate (sipInit key) value
    some (sipFinal v (value.length - tail.length) tail)

/-! ### Golomb-Rice coding and bit packing -/

/-- compactfilter.encode_golomb (x ≥ 0) -/
def encodeGolomb (x p : Nat) : List Bool :=
  List.replicate (x >>> p) true ++ [false]
    ++ (List.range p).map (fun i => decide (x &&& (1 <<< (p - i - 1)) > 0))

/-- the `while bits[0] != 0` loop: counts and removes the ones, then removes the zero;
    `none` = IndexError (ran out of bits) -/
def decodeUnary : List Bool → Option (Nat × List Bool)
  | [] => none
  | false :: r => some (0, r)
  | true :: r => (decodeUnary r).map (fun (q, r') => (q + 1, r'))

/-- the `for _ in range(p)` loop: `r <<= 1; if bits.pop(0) == 1: r |= 1` -/
def decodeFixed : Nat → Nat → List Bool → Option (Nat × List Bool)
  | 0, r, bits => some (r, bits)
  | _ + 1, _, [] => none
  | p + 1, r, b :: bits => decodeFixed p ((r <<< 1) ||| (if b then 1 else 0)) bits

/-- compactfilter.decode_golomb: the value and the bit list as the call leaves it -/
def decodeGolomb (bits : List Bool) (p : Nat) : Option (Nat × List Bool) := do
  let (q, bits) ← decodeUnary bits
  let (r, bits) ← decodeFixed p 0 bits
  pure ((q <<< p) + r, bits)

/-- the accumulator of pack_bits: `result <<= 1; if bit: result |= 1` -/
def bitsToNatBE (bits : List Bool) : Nat :=
  bits.foldl (fun acc b => (acc <<< 1) ||| (if b then 1 else 0)) 0

/-- compactfilter.pack_bits (pads with zeros to a whole byte, `to_bytes(len // 8, "big")`) -/
def packBits (bits : List Bool) : Bytes :=
  let padded := bits ++ List.replicate ((8 - bits.length % 8) % 8) false
  natToBE' (padded.length / 8) (bitsToNatBE padded)

/-- the inner loop of unpack_bits: `byte & 0x80`, `byte <<= 1`, `n` times -/
def byteBitsBE : Nat → Nat → List Bool
  | 0, _ => []
  | n + 1, b => decide (b &&& 0x80 ≠ 0) :: byteBitsBE n (b <<< 1)

/-- compactfilter.unpack_bits -/
def unpackBits (bs : Bytes) : List Bool := bs.flatMap (fun b => byteBitsBE 8 b.toNat)

/-- the loop of serialize_gcs over a non-decreasing list (`delta = item - last_value ≥ 0`) -/
def gcsBits : Nat → List Nat → List Bool
  | _, [] => []
  | last, item :: r => encodeGolomb (item - last) Gen.golombP ++ gcsBits item r

/-- compactfilter.serialize_gcs for a non-decreasing list; `none` = encode_varint refuses the count -/
def serializeGcs (sortedItems : List Nat) : Option Bytes :=
  (encodeVarint sortedItems.length).map (· ++ packBits (gcsBits 0 sortedItems))

/-- compactfilter.hash_to_range -/
def hashToRange (key value : Bytes) (f : Nat) : Option Nat :=
  (siphash key value).map (fun h => (h * f) >>> Gen.rangeShift)

/-- Python `sorted` on ints -/
def sortNat (l : List Nat) : List Nat := l.mergeSort (fun a b => decide (a ≤ b))

/-- compactfilter.hashed_items -/
def hashedItems (key : Bytes) (items : List Bytes) : Option (List Nat) :=
  let f := items.length * Gen.golombM
  (items.mapM (fun it => hashToRange key it f)).map sortNat

/-- compactfilter.encode_gcs -/
def encodeGcs (key : Bytes) (items : List Bytes) : Option Bytes :=
  (hashedItems key items) >>= serializeGcs

/-- the `for _ in range(num_items)` loop of decode_gcs -/
def decodeGcsLoop : Nat → Nat → List Bool → Option (List Nat)
  | 0, _, _ => some []
  | n + 1, cur, bits => do
    let (delta, bits) ← decodeGolomb bits Gen.golombP
    let rest ← decodeGcsLoop n (cur + delta) bits
    pure ((cur + delta) :: rest)

/-- compactfilter.decode_gcs (the key is not used by the code) -/
def decodeGcs (gcs : Bytes) : Option (List Nat) := do
  let (n, rest) ← readVarint gcs
  decodeGcsLoop n 0 (unpackBits rest)

/-! ### CompactFilter -/

/-- CompactFilter: the key, every hashed value in order, and F.
    `dedup = false` is the code after fix F18a (`sorted_hashes` keeps duplicates, F = N·M);
    `dedup = true` is the previous behaviour (`set(hashes)`: duplicates dropped, F = |set|·M). -/
structure CompactFilter where
  key    : Bytes
  hashes : List Nat
  f      : Nat
deriving DecidableEq, Repr

def dedupSorted : List Nat → List Nat
  | a :: b :: r => if a = b then dedupSorted (b :: r) else a :: dedupSorted (b :: r)
  | l => l

/-- CompactFilter.__init__ -/
def CompactFilter.init (dedup : Bool) (key : Bytes) (hashes : List Nat) : CompactFilter :=
  let hs := if dedup then dedupSorted (sortNat hashes) else sortNat hashes
  { key := key, hashes := hs, f := hs.length * Gen.golombM }

/-- CompactFilter.parse -/
def CompactFilter.parse (dedup : Bool) (key filterBytes : Bytes) : Option CompactFilter :=
  (decodeGcs filterBytes).map (CompactFilter.init dedup key)

/-- CompactFilter.serialize -/
def CompactFilter.serialize (cf : CompactFilter) : Option Bytes := serializeGcs cf.hashes

/-- CompactFilter.hash -/
def CompactFilter.hash (hash256 : Bytes → Bytes) (cf : CompactFilter) : Option Bytes :=
  cf.serialize.map hash256

/-- CompactFilter.__contains__ on `script_pubkey.raw_serialize()` -/
def CompactFilter.contains (cf : CompactFilter) (rawScriptPubkey : Bytes) : Option Bool :=
  (hashToRange cf.key rawScriptPubkey cf.f).map (fun h => cf.hashes.contains h)

/-- the key CFilterMessage derives from the block hash: `block_hash[::-1][:16]` -/
def cfilterKey (blockHash : Bytes) : Bytes := blockHash.reverse.take 16

/-- CFilterMessage.hash -/
def cfilterHash (hash256 : Bytes → Bytes) (filterBytes : Bytes) : Bytes := hash256 filterBytes

/-! ### helper.murmur3 -/

/-- `(k1 << 15) | ((k1 & 0xFFFFFFFF) >> 17)` and its siblings: the rotation as coded (the part of
    the operand above bit 31 is carried along, shifted) -/
def pyRot (x sh mask shr : Nat) : Nat := (x <<< sh) ||| ((x &&& mask) >>> shr)

/-- the body loop `for i in range(0, roundedEnd, 4)`; `rest` = `data[i:]`; `none` = IndexError -/
def murmurBlocks : Nat → Bytes → Nat → Option Nat
  | 0, _, h1 => some h1
  | n + 1, rest, h1 => do
    let d0 ← rest[0]?
    let d1 ← rest[Gen.murC7]?
    let d2 ← rest[Gen.murC10]?
    let d3 ← rest[Gen.murC13]?
    let k1 := (d0.toNat &&& Gen.murC6) ||| ((d1.toNat &&& Gen.murC8) <<< Gen.murC9)
              ||| ((d2.toNat &&& Gen.murC11) <<< Gen.murC12) ||| (d3.toNat <<< Gen.murC14)
    let k1 := k1 * Gen.murC1
    let k1 := pyRot k1 Gen.murC15 Gen.murC16 Gen.murC17
    let k1 := k1 * Gen.murC2
    let h1 := h1 ^^^ k1
    let h1 := pyRot h1 Gen.murC18 Gen.murC19 Gen.murC20
    let h1 := h1 * Gen.murC21 + Gen.murC22
    murmurBlocks n (rest.drop Gen.murC5) h1

/-- helper.murmur3(data, seed); `none` = IndexError (cannot happen below 2^32 bytes) -/
def murmur3 (data : Bytes) (seed : Nat) : Option Nat := do
  let length := data.length
  let roundedEnd := length &&& Gen.murC3
  let h1 ← murmurBlocks ((roundedEnd - Gen.murC4 + Gen.murC5 - 1) / Gen.murC5) (data.drop Gen.murC4) seed
  let val := length &&& Gen.murC24
  let k1 : Nat := Gen.murC23
  let k1 ← if val = Gen.murC25 then
      (data[roundedEnd + Gen.murC26]?).map (fun d => (d.toNat &&& Gen.murC27) <<< Gen.murC28)
    else some k1
  let k1 ← if val = Gen.murC29 ∨ val = Gen.murC30 then
      (data[roundedEnd + Gen.murC31]?).map (fun d => k1 ||| ((d.toNat &&& Gen.murC32) <<< Gen.murC33))
    else some k1
  let h1 ← if val = Gen.murC34 ∨ val = Gen.murC35 ∨ val = Gen.murC36 then
      (data[roundedEnd]?).map (fun d =>
        let k1 := k1 ||| (d.toNat &&& Gen.murC37)
        let k1 := k1 * Gen.murC1
        let k1 := pyRot k1 Gen.murC38 Gen.murC39 Gen.murC40
        let k1 := k1 * Gen.murC2
        h1 ^^^ k1)
    else some h1
  let h1 := h1 ^^^ length
  let h1 := h1 ^^^ ((h1 &&& Gen.murC41) >>> Gen.murC42)
  let h1 := h1 * Gen.murC43
  let h1 := h1 ^^^ ((h1 &&& Gen.murC44) >>> Gen.murC45)
  let h1 := h1 * Gen.murC46
  let h1 := h1 ^^^ ((h1 &&& Gen.murC47) >>> Gen.murC48)
  pure (h1 &&& Gen.murC49)

/-! ### BloomFilter -/

structure Bloom where
  size     : Nat
  bitField : List Bool
  fc       : Nat
  tweak    : Nat
deriving DecidableEq, Repr

/-- BloomFilter.__init__ -/
def Bloom.new (size fc tweak : Nat) : Bloom :=
  { size := size, bitField := List.replicate (size * Gen.bloomBitsPerByte) false, fc := fc, tweak := tweak }

/-- the bit BloomFilter.add sets for function number `i`; `none` = ZeroDivisionError (size 0) -/
def Bloom.position (bf : Bloom) (item : Bytes) (i : Nat) : Option Nat := do
  let h ← murmur3 item (i * Gen.bip37Constant + bf.tweak)
  if bf.size * Gen.bloomBitsPerByte = 0 then none else pure (h % (bf.size * Gen.bloomBitsPerByte))

/-- the loop of BloomFilter.add from function number `i`, `n` more functions; `none` = an exception
    (modulo by zero, or the bit index outside a bit field that was replaced from outside) -/
def Bloom.addFrom (bf : Bloom) (item : Bytes) : Nat → Nat → Option Bloom
  | 0, _ => some bf
  | n + 1, i => do
    let bit ← bf.position item i
    if bit < bf.bitField.length then
      Bloom.addFrom { bf with bitField := bf.bitField.set bit true } item n (i + 1)
    else none

/-- BloomFilter.add -/
def Bloom.add (bf : Bloom) (item : Bytes) : Option Bloom := bf.addFrom item bf.fc 0

/-- BloomFilter.filter_bytes -/
def Bloom.filterBytes (bf : Bloom) : Option Bytes := Merkle.bitFieldToBytes bf.bitField

/-- BloomFilter.filterload(flag).payload; `none` = an exception (a field does not fit its width) -/
def Bloom.filterload (bf : Bloom) (flag : Nat) : Option Bytes := do
  let sz ← encodeVarint bf.size
  let fb ← bf.filterBytes
  let fc ← natToLE bf.fc 4
  let tw ← natToLE bf.tweak 4
  if flag > 255 then none else
  pure (sz ++ fb ++ fc ++ tw ++ [UInt8.ofNat flag])

end Buidl.Filters
