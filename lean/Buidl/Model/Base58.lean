/-
  Buidl.Model.Base58 — buidl/helper.py: encode_base58, encode_base58_checksum,
  raw_decode_base58, decode_base58.  Import-free (Lean core only).

  Python `str` is modelled as `Str := List Char` (the driver converts with
  `String.toList` / `String.ofList`).  `hash256` is a parameter.  Every constant (alphabet,
  radix 58, pad character "1", byte mask/shift, the slice widths 4 / 4 / 1) is re-extracted
  from the source (Buidl.Gen.Base58).
-/
import Buidl.Model.Bytes
import Buidl.Gen.Base58
namespace Buidl.Base58
open Buidl

/-- Python `str` as a list of code points -/
abbrev Str := List Char

/-- `BASE58_ALPHABET` -/
def alphabet : Str := Gen.base58Alphabet.toList

/-- `haystack.index(c)` / `haystack.find(c)` for a one-character needle: position of the first
    occurrence; `none` = ValueError (`index`) or -1 (`find`) -/
def indexOf? (c : Char) : Str → Option Nat
  | [] => none
  | x :: xs => if x = c then some 0 else (indexOf? c xs).map (· + 1)

/-- `while num > 0: num, mod = divmod(num, base); result = ALPHABET[mod] + result`
    (the digits, most significant first, prepended to `acc`).  The first argument is fuel;
    callers pass `num` itself, which is never exhausted before `num` reaches 0 when
    `base ≥ 2` (`Buidl.Base58.digitsBE_eq` in Proofs/Base58.lean), so the fuel-0 answer is
    the loop's own answer, not a default. -/
def digitsBE (base : Nat) : Nat → Nat → List Nat → List Nat
  | 0, _, acc => acc
  | f + 1, num, acc => if num > 0 then digitsBE base f (num / base) (num % base :: acc) else acc

/-- `ALPHABET[d]` for every digit; `none` = IndexError -/
def lookupAll (al : Str) : List Nat → Option Str
  | [] => some []
  | d :: ds =>
    match al[d]?, lookupAll al ds with
    | some c, some r => some (c :: r)
    | _, _ => none

/-- `l[-n:]` for a negative literal bound `-n` (n > 0) -/
def pyLast {α} (n : Nat) (l : List α) : List α := l.drop (l.length - n)

/-- `l[:-n]` for a negative literal bound `-n` (n > 0) -/
def pyButLast {α} (n : Nat) (l : List α) : List α := l.take (l.length - n)

/-- helper.encode_base58.  `none` = ValueError of `int("", 16)` for the empty byte string
    (or IndexError should the alphabet be shorter than the radix). -/
def encodeBase58 (s : Bytes) : Option Str :=
  if s = [] then none else
  let count := (s.takeWhile (fun c => c.toNat = Gen.b58EncZeroByte)).length
  let num := beToNat s
  let pre : Str := (List.replicate count Gen.b58EncPad.toList).flatten
  (lookupAll alphabet (digitsBE Gen.b58EncBase num num [])).map (pre ++ ·)

/-- helper.encode_base58_checksum -/
def encodeBase58Checksum (hash256 : Bytes → Bytes) (raw : Bytes) : Option Str :=
  encodeBase58 (raw ++ (hash256 raw).take Gen.b58EncChecksumWidth)

/-- the `for c in s` loop of raw_decode_base58: number of `b"\x00"` appended to `prefix`
    and the accumulated number; `none` = ValueError of `BASE58_ALPHABET.index(c)` -/
def decodeLoop : Str → Nat → Nat → Option (Nat × Nat)
  | [], zeros, num => some (zeros, num)
  | c :: cs, zeros, num =>
    if num = 0 ∧ [c] = Gen.b58DecPad.toList then decodeLoop cs (zeros + 1) num
    else match indexOf? c alphabet with
      | none => none
      | some i => decodeLoop cs zeros (Gen.b58DecBase * num + i)

/-- `while num > 0: byte_array.insert(0, num & 255); num >>= 8` (fuel as in `digitsBE`) -/
def bytesBE : Nat → Nat → Bytes → Bytes
  | 0, _, acc => acc
  | f + 1, num, acc =>
    if num > 0 then bytesBE f (num >>> Gen.b58DecByteShift) (UInt8.ofNat (num &&& Gen.b58DecByteMask) :: acc)
    else acc

/-- the bytes `combined` of raw_decode_base58 (before the checksum test) -/
def decodeCombined (s : Str) : Option Bytes :=
  (decodeLoop s 0 0).map fun (zeros, num) => List.replicate zeros (0 : UInt8) ++ bytesBE num num []

/-- helper.raw_decode_base58.  `none` = ValueError (character outside the alphabet) or
    RuntimeError("bad address") (checksum mismatch). -/
def rawDecodeBase58 (hash256 : Bytes → Bytes) (s : Str) : Option Bytes :=
  match decodeCombined s with
  | none => none
  | some combined =>
    let checksum := pyLast Gen.b58DecChecksumTail combined
    if (hash256 (pyButLast Gen.b58DecHashedCut combined)).take Gen.b58DecHashWidth ≠ checksum then none
    else some (pyButLast Gen.b58DecReturnCut combined)

/-- helper.decode_base58: the payload without its first (version) byte -/
def decodeBase58 (hash256 : Bytes → Bytes) (s : Str) : Option Bytes :=
  (rawDecodeBase58 hash256 s).map (·.drop Gen.b58DecodeVersionWidth)

end Buidl.Base58
