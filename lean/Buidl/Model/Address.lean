/-
  Buidl.Model.Address — the five standard scriptPubKey templates and their addresses:
    buidl/script.py  P2PKHScriptPubKey / P2SHScriptPubKey / P2WPKHScriptPubKey /
                     P2WSHScriptPubKey / P2TRScriptPubKey (.__init__, .address),
                     SegwitPubKey.address, address_to_script_pubkey
    buidl/tx.py      TxOut.to_address
    buidl/pecc.py    PrivateKey.wif, PrivateKey.parse (with the range check of __init__)
  Import-free.  `hash256` is a parameter.  Constants from Buidl.Gen.Address.

  Finding F09a: `TxOut.to_address` recognises a segwit address by a list of `startswith`
  prefixes; the list in the source is the parameter `segPrefixes` of `toAddress` (the driver
  passes `Gen.toAddrSegwitPrefixes`, i.e. whatever the source says today).
-/
import Buidl.Model.Bech32
import Buidl.Model.Script
import Buidl.Gen.Address
namespace Buidl.Address
open Buidl Buidl.Base58 Buidl.Bech32 Buidl.Script

/-- the five templates, by the bytes given to the constructor (no length check there) -/
inductive Spk where
  | p2pkh (h160 : Bytes)
  | p2sh (h160 : Bytes)
  | p2wpkh (h160 : Bytes)
  | p2wsh (s256 : Bytes)
  | p2tr (xonly : Bytes)
deriving DecidableEq, Repr

/-- `self.commands` as set by the constructors -/
def Spk.cmds : Spk → List Cmd
  | .p2pkh h => match Gen.p2pkhOps with
    | [a, b, c, d] => [.op a, .op b, .push h, .op c, .op d]
    | _ => []
  | .p2sh h => match Gen.p2shOps with
    | [a, b] => [.op a, .push h, .op b]
    | _ => []
  | .p2wpkh h => match Gen.p2wpkhOps with
    | [a] => [.op a, .push h]
    | _ => []
  | .p2wsh h => match Gen.p2wshOps with
    | [a] => [.op a, .push h]
    | _ => []
  | .p2tr x => match Gen.p2trOps with
    | [a] => [.op a, .push x]
    | _ => []

/-- `spk.raw_serialize()` -/
def Spk.rawSerialize (s : Spk) : Option Bytes := Script.rawSerialize { cmds := s.cmds }

/-- `.address(network)` of the five classes; `none` = an exception -/
def address (hash256 : Bytes → Bytes) (spk : Spk) (network : Str) : Option Str :=
  match spk with
  | .p2pkh h =>
    let v := if network = Gen.p2pkhMainnetName.toList then Gen.p2pkhVersionMain else Gen.p2pkhVersionOther
    encodeBase58Checksum hash256 (UInt8.ofNat v :: h)
  | .p2sh h =>
    let v := if network = Gen.p2shMainnetName.toList then Gen.p2shVersionMain else Gen.p2shVersionOther
    encodeBase58Checksum hash256 (UInt8.ofNat v :: h)
  | s => match s.rawSerialize with
    | none => none
    | some prog => encodeBech32Checksum prog network

/-- `x in ("a", "b", …)` -/
def inStrs (x : Str) (l : List String) : Bool := l.any (·.toList = x)

/-- script.address_to_script_pubkey; `none` = RuntimeError or an exception of the decoders -/
def addressToScriptPubkey (hash256 : Bytes → Bytes) (s : Str) : Option Spk :=
  if inStrs (s.take Gen.a2sW0) Gen.a2sP2pkhFirst then (decodeBase58 hash256 s).map .p2pkh
  else if inStrs (s.take Gen.a2sW1) Gen.a2sP2shFirst then (decodeBase58 hash256 s).map .p2sh
  else if inStrs (s.take Gen.a2sW2) Gen.a2sV0Prefixes ∨ s.take Gen.a2sW3 = Gen.a2sV0Regtest.toList then
    if Gen.a2sWpkhLens.contains s.length then (decodeBech32 s).map fun r => .p2wpkh r.2.2
    else if Gen.a2sWshLens.contains s.length then (decodeBech32 s).map fun r => .p2wsh r.2.2
    else none
  else if inStrs (s.take Gen.a2sW4) Gen.a2sV1Prefixes ∨ s.take Gen.a2sW5 = Gen.a2sV1Regtest.toList then
    if ¬ Gen.a2sTrLens.contains s.length then none
    else (decodeBech32 s).map fun r => .p2tr r.2.2
  else none

/-- tx.TxOut.to_address (the script_pubkey of the result; the amount is stored unchecked);
    `segPrefixes` = the arguments of the `startswith` tests of the first branch;
    `none` = ValueError / IndexError (empty string) / an exception of the decoders -/
def toAddress (segPrefixes : List String) (hash256 : Bytes → Bytes) (address : Str) : Option Spk :=
  if segPrefixes.any (fun p => p.toList.isPrefixOf address) then
    match decodeBech32 address with
    | none => none
    | some (_, version, h) =>
      if version = Gen.toAddrV0 then
        if h.length = Gen.toAddrV0LenA then some (.p2wpkh h)
        else if h.length = Gen.toAddrV0LenB then some (.p2wsh h)
        else none
      else if version = Gen.toAddrV1 then
        if h.length = Gen.toAddrV1Len then some (.p2tr h) else none
      else none
  else match address with
    | [] => none
    | c :: _ =>
      if inStrs [c] Gen.toAddrP2shFirst then
        match decodeBase58 hash256 address with
        | none => none
        | some h => if h.length = Gen.toAddrP2shLen then some (.p2sh h) else none
      else if inStrs [c] Gen.toAddrP2pkhFirst then
        match decodeBase58 hash256 address with
        | none => none
        | some h => if h.length = Gen.toAddrP2pkhLen then some (.p2pkh h) else none
      else none

/-- the source as it is today -/
def segPrefixesAsIs : List String := ["bc1", "tb1"]
/-- the source with F09a repaired -/
def segPrefixesRepaired : List String := ["bc1", "tb1", "bcrt1"]

/-- PrivateKey(secret, network).wif(compressed); `none` = RuntimeError of the constructor's
    range check (or OverflowError) -/
def wif (hash256 : Bytes → Bytes) (secret : Nat) (network : Str) (compressed : Bool) : Option Str :=
  if secret > Gen.privMaxSecret ∨ secret < Gen.privMinSecret then none else
  match natToBE secret Gen.wifSecretWidth with
  | none => none
  | some sb =>
    let v := if network = Gen.wifMainnetName.toList then Gen.wifVersionMain else Gen.wifVersionOther
    let suffix : Bytes := if compressed then [UInt8.ofNat Gen.wifCompressedSuffix] else []
    encodeBase58Checksum hash256 (UInt8.ofNat v :: sb ++ suffix)

/-- PrivateKey.parse(wif): (secret, network, compressed); `none` = any exception -/
def wifParse (hash256 : Bytes → Bytes) (s : Str) : Option (Nat × Str × Bool) :=
  match rawDecodeBase58 hash256 s with
  | none => none
  | some raw0 =>
    let step : Option (Bool × Bytes) :=
      if raw0.length = Gen.wifParseCompressedLen then
        if (raw0.getLast?.map (·.toNat)) ≠ some Gen.wifParseCompressedFlag then none else some (true, raw0.dropLast)
      else some (false, raw0)
    match step with
    | none => none
    | some (compressed, raw) =>
      match raw with
      | [] => none
      | b :: body =>
        let secret := beToNat body
        let net? : Option Str :=
          if b.toNat = Gen.wifParseTestByte then some Gen.wifParseTestName.toList
          else if b.toNat = Gen.wifParseMainByte then some Gen.wifParseMainName.toList
          else none
        match net? with
        | none => none
        | some net =>
          if secret > Gen.privMaxSecret ∨ secret < Gen.privMinSecret then none
          else some (secret, net, compressed)

end Buidl.Address
