/-
  Buidl.Model.Timelock — executable model of buidl/timelock.py as a whole: the two `int`
  subclasses `Locktime` and `Sequence` with their constructors, wire codec and accessors.
  (`Buidl.Model.Interp` holds the part the interpreter reaches: is_comparable, __lt__, the
  is_relative* predicates; this file re-uses those definitions, so there is one model of each
  Python function.)

  An object is its integer value (a `Nat` — the constructors refuse negatives); a raised
  ValueError is `none`.  Every comparison operator, threshold, divisor, shift and byte width is
  re-extracted from the source (`Buidl.Gen.Timelock`, `Buidl.Gen.Op`).  Import-free.
-/
import Buidl.Model.Interp
import Buidl.Gen.Timelock
namespace Buidl.Timelock
open Buidl

/-- the constructors' range test `n < 0 or n > MAX` with both operators and both constants read
    from the source; the first comparison is against an integer argument that may be negative -/
def cmpOpI (op : String) (a b : Int) : Bool :=
  if op = "Lt" then a < b else if op = "LtE" then a ≤ b
  else if op = "Gt" then a > b else if op = "GtE" then a ≥ b
  else if op = "Eq" then a == b else if op = "NotEq" then a != b else false

def rangeRefuses (tbl : List (String × Nat)) (n : Int) : Bool :=
  match tbl with
  | [(op0, v0), (op1, v1)] => cmpOpI op0 n v0 || cmpOpI op1 n v1
  | _ => true

/-- Locktime.__new__ -/
def locktimeNew (n : Int) : Option Nat :=
  if rangeRefuses Gen.locktimeNewCmps n then none else some n.toNat

/-- Sequence.__new__ -/
def sequenceNew (n : Int) : Option Nat :=
  if rangeRefuses Gen.sequenceNewCmps n then none else some n.toNat

/-- Locktime.parse: `cls(little_endian_to_int(s.read(4)))` — `read` may return fewer bytes -/
def locktimeParse (s : Bytes) : Option (Nat × Bytes) :=
  let (h, rest) := sread Gen.locktimeParseWidth s
  (locktimeNew (leToNat h)).map (fun v => (v, rest))

/-- Locktime.serialize -/
def locktimeSerialize (self : Nat) : Option Bytes := natToLE self Gen.locktimeSerializeWidth

/-- Sequence.parse -/
def sequenceParse (s : Bytes) : Option (Nat × Bytes) :=
  let (h, rest) := sread Gen.sequenceParseWidth s
  (sequenceNew (leToNat h)).map (fun v => (v, rest))

/-- Sequence.serialize -/
def sequenceSerialize (self : Nat) : Option Bytes := natToLE self Gen.sequenceSerializeWidth

/-- Locktime.block_height: `self if self < BLOCK_LIMIT else None` -/
def blockHeight (self : Nat) : Option Nat :=
  if cmpAt Gen.blockHeightCmps 0 self then some self else none

/-- Locktime.mtp: `self if self >= BLOCK_LIMIT else None` -/
def mtp (self : Nat) : Option Nat :=
  if cmpAt Gen.mtpCmps 0 self then some self else none

/-- Locktime.is_comparable (one model: the interpreter's) -/
abbrev locktimeComparable := Interp.locktimeComparable

/-- Locktime.__lt__ against another Locktime: ValueError when not comparable -/
def locktimeLt (self other : Nat) : Option Bool :=
  if locktimeComparable self other then some (decide (self < other)) else none

/-- Sequence.from_relative_time: `cls(SEQUENCE_RELATIVE_TIME_FLAG | (num_seconds // 512))`.
    Python's `//` floors and `flag | negative` is negative, which the constructor refuses. -/
def fromRelativeTime (numSeconds : Int) : Option Nat :=
  if numSeconds < 0 then none
  else sequenceNew ((Gen.seqTimeFlag ||| (numSeconds.toNat / Gen.seqTimeDiv) : Nat) : Int)

/-- Sequence.from_relative_blocks -/
def fromRelativeBlocks (numBlocks : Int) : Option Nat := sequenceNew numBlocks

/-- Sequence.is_rbf_able -/
def isRbfAble (self : Nat) : Bool := cmpAt Gen.rbfCmps 0 self
/-- Sequence.is_max -/
def isMax (self : Nat) : Bool := cmpAt Gen.isMaxCmps 0 self

abbrev isRelative := Interp.seqIsRelative
abbrev isRelativeTime := Interp.seqIsRelativeTime
abbrev isRelativeBlock := Interp.seqIsRelativeBlock
abbrev sequenceComparable := Interp.seqComparable

/-- Sequence.relative_blocks -/
def relativeBlocks (self : Nat) : Option Nat :=
  if isRelativeBlock self then some (self &&& Gen.seqMask) else none

/-- Sequence.relative_time -/
def relativeTime (self : Nat) : Option Nat :=
  if isRelativeTime self then some ((self &&& Gen.seqMask) <<< Gen.seqTimeShift) else none

/-- Sequence.__lt__ against another Sequence -/
def sequenceLt (self other : Nat) : Option Bool :=
  if sequenceComparable self other then some (decide (self &&& Gen.seqMask < other &&& Gen.seqMask))
  else none

end Buidl.Timelock
