/-
  Buidl.Model.PsbtDescribe — buidl/psbt.py: PSBT.describe_basic_multisig with
  _describe_basic_multisig_inputs / _describe_basic_multisig_outputs, script.py get_quorum (both
  classes), hd.py ltrim_path + HDPublicKey.traverse (derivation itself abstract: `Oracles.derive`),
  tx.py Tx.fee.  (PSBTIn.validate / PSBTOut.validate / PSBT.validate live in Buidl.Model.PsbtCodec
  because the parser's constructors call them.)

  Repaired code (work/C11): F11a one change key per cosigner fingerprint; F11e the change script is
  exactly `<m> <the named pubkeys> <n> OP_CHECKMULTISIG`.  Both are flags of `DescribeCfg`, so that
  today's behaviour (flags off) stays expressible for the witnesses.
-/
import Buidl.Model.PsbtCodec
namespace Buidl.Psbt
open Buidl Buidl.Script

structure DescribeCfg where
  distinctXfps : Bool     -- F11a repaired
  plainMultisig : Bool    -- F11e repaired

def DescribeCfg.repaired : DescribeCfg := { distinctXfps := true, plainMultisig := true }
def DescribeCfg.asFound : DescribeCfg := { distinctXfps := false, plainMultisig := false }

/-- an entry of `hdpubkey_map`: root fingerprint ↦ HDPublicKey (the 74 bytes after the version:
    depth ‖ parent fingerprint ‖ child number ‖ chain code ‖ SEC) -/
structure Cosigner where
  xfp : Bytes
  body : Bytes
deriving DecidableEq, Repr

def Cosigner.depth (c : Cosigner) : Nat := leToNat (c.body.take (pat Gen.psbtXpubFieldWidths 1))

/-- `hdpubkey_map` built from the PSBT's global xpubs (a later xpub with the same fingerprint replaces
    an earlier one) -/
def mapFromHdPubs (hdPubs : Dict HdPub) : Dict Bytes :=
  hdPubs.foldl (fun acc e =>
    dset acc (e.2.rawPath.take Gen.psbtFingerprintWidth) (e.2.raw.drop (pat Gen.psbtXpubFieldWidths 0))) []

/-- `hdpub.traverse(ltrim_path(named_pub.root_path, depth=hdpub.depth)).sec()`; `none` = raised
    (too many components, path shorter than the depth, nothing left below the xpub, hardened child) -/
def deriveAt (O : Oracles) (body rawPath : Bytes) : Option Bytes := do
  let ch ← pathChildren rawPath
  req (!(ch.length ≥ Gen.psbtPathMaxComponents))
  let depth := leToNat (body.take (pat Gen.psbtXpubFieldWidths 1))
  req (!(ch.length < depth))
  let rest := ch.drop depth
  req (rest ≠ [])
  req (rest.all (· < Gen.psbtXpubChildLimit))
  O.derive body rest

/-! ## get_quorum -/

/-- `int(OP_CODE_NAMES[op].split("OP_")[1])` -/
def opNameNumber (c : Option Cmd) : Option Int :=
  match c with
  | some (.op n) =>
    match Gen.psbtOpCodeNames.find? (·.1 = n) with
    | some (_, name) =>
      let cs := name.toList.drop 3
      if name.toList.take 3 = ['O', 'P', '_'] ∧ cs ≠ [] ∧ cs.all Char.isDigit then
        some ((cs.foldl (fun acc c => acc * 10 + (c.toNat - '0'.toNat)) 0 : Nat) : Int)
      else none
    | none => none
  | _ => none

/-- RedeemScript.get_quorum -/
def redeemQuorum (s : Script) : Option (Int × Int) := do
  let last ← s.cmds.getLast?
  req (last == .op Gen.psbtCheckMultisig)
  let m ← opCodeToNumber s.cmds[0]?
  pure (m, (s.cmds.length : Int) - (Gen.psbtQuorumOverhead : Int))

/-- WitnessScript.get_quorum -/
def witnessQuorum (s : Script) : Option (Int × Int) := do
  let last ← s.cmds.getLast?
  let lastName ← match last with
    | .op n => (Gen.psbtOpCodeNames.find? (·.1 = n)).map (·.2)
    | .push _ => none
  req (lastName == "OP_CHECKMULTISIG")
  req (s.cmds.length ≥ 2)
  let m ← opNameNumber s.cmds[0]?
  let n ← opNameNumber s.cmds[s.cmds.length - 2]?
  pure (m, n)

/-- `script = witness_script or redeem_script; script.get_quorum()` -/
def scriptQuorum (ws redeem : Option Script) : Option (Script × Int × Int) :=
  match ws with
  | some w => (witnessQuorum w).map fun q => (w, q.1, q.2)
  | none => match redeem with
    | some r => (redeemQuorum r).map fun q => (r, q.1, q.2)
    | none => none

/-! ## inputs -/

structure InDesc where
  m : Int
  n : Int
  sats : Nat
deriving DecidableEq, Repr

structure InputsDescribed where
  m : Option Int := none
  n : Option Int := none
  descs : List InDesc := []
  rootPaths : List (Bytes × Bytes) := []     -- (fingerprint, raw_path) pairs, as a set
  total : Nat := 0

/-- the per-named-pub loop shared by inputs and outputs: fingerprint lookup and re-derivation;
    returns the fingerprints in dict order -/
def checkNamedPubs (O : Oracles) (hmap : Dict Bytes) : Dict Bytes → Option (List Bytes)
  | [] => some []
  | (sec, rawPath) :: r => do
    let xfp := rawPath.take Gen.psbtFingerprintWidth
    let body ← dget hmap xfp
    let got ← deriveAt O body rawPath
    req (got == sec)
    let rest ← checkNamedPubs O hmap r
    pure (xfp :: rest)

def describeInputsLoop {Tx} (H : Hashes) (C : TxCodec Tx) (O : Oracles) (hmap : Dict Bytes) :
    List TxInV → List (PIn Tx) → InputsDescribed → Option InputsDescribed
  | _, [], acc => some acc
  | [], _ :: _, _ => none
  | txin :: tr, p :: pr, acc => do
    validateIn H C txin p
    req (!(p.witnessScript.isSome && p.redeem.isSome))
    let (script, m, n) ← scriptQuorum p.witnessScript p.redeem
    req (hmap.length == p.namedPubs.length)
    req (match acc.m with | none => true | some m0 => m0 == m)
    req (match acc.n with | none => n == (hmap.length : Int) | some n0 => n0 == n)
    let _ ← rawOf script                        -- script.address(): raw_serialize must succeed
    let xfps ← checkNamedPubs O hmap p.namedPubs
    let sats ← p.value
    describeInputsLoop H C O hmap tr pr
      { m := some m, n := some n, descs := acc.descs ++ [{ m := m, n := n, sats := sats }],
        rootPaths := acc.rootPaths ++ (xfps.zip (p.namedPubs.map (·.2))), total := acc.total + sats }

/-- PSBT._describe_basic_multisig_inputs -/
def describeInputs {Tx} (H : Hashes) (C : TxCodec Tx) (O : Oracles) (hmap : Dict Bytes) (p : Psbt Tx) :
    Option InputsDescribed := do
  let r ← describeInputsLoop H C O hmap (C.ins p.tx) p.ins {}
  req (r.rootPaths ≠ [])
  pure r

/-! ## outputs -/

structure OutDesc where
  sats : Nat
  isChange : Bool
deriving DecidableEq, Repr

structure OutputsDescribed where
  total : Nat := 0
  descs : List OutDesc := []
  changeSeen : Bool := false
  changeSats : Nat := 0
  spendSats : Nat := 0
  spends : Nat := 0
deriving DecidableEq, Repr

/-- `script_pubkey.address(network)` exists only for the five template classes -/
def hasAddress (spk : Script) : Bool := isP2pkh spk || isP2sh spk || isP2wpkh spk || isP2wsh spk || isP2tr spk

/-- F11e: `commands[1:-2]` are exactly the named pubkeys and `commands[-2]` is `OP_n` -/
def plainMultisigOf (script : Script) (n : Int) (named : Dict Bytes) : Bool :=
  let keys := (script.cmds.drop 1).take (script.cmds.length - 3)
  (keys.length : Int) == n &&
  (match script.cmds[script.cmds.length - 2]? with
   | some (.op k) => (k : Int) == 80 + n
   | _ => false) &&
  keys.all (fun c => match c with | .push k => (dget named k).isSome | .op _ => false) &&
  named.all (fun e => keys.contains (.push e.1))

/-- the change-claiming branch for one output; `some ()` = accepted as change -/
def changeOK (cfg : DescribeCfg) (O : Oracles) (hmap : Dict Bytes) (em en : Int) (p : POut) : Option Unit := do
  let (script, m, n) ← scriptQuorum p.witnessScript p.redeem
  req (em == m)
  req (en == n)
  if cfg.plainMultisig then req (plainMultisigOf script n p.namedPubs)
  req (n == (p.namedPubs.length : Int))
  let xfps ← checkNamedPubs O hmap p.namedPubs
  if cfg.distinctXfps then req ((xfps.eraseDups.length : Int) == n)

def describeOutputsLoop (cfg : DescribeCfg) (H : Hashes) (O : Oracles) (hmap : Dict Bytes) (em en : Int) :
    List TxOutV → List POut → OutputsDescribed → Option OutputsDescribed
  | _, [], acc => some acc
  | [], _ :: _, _ => none
  | o :: tr, p :: pr, acc => do
    validateOut H o.spk p
    req (hasAddress o.spk)
    let acc := { acc with total := acc.total + o.amount }
    if p.namedPubs ≠ [] then do
      changeOK cfg O hmap em en p
      req (!acc.changeSeen)
      describeOutputsLoop cfg H O hmap em en tr pr
        { acc with changeSeen := true, changeSats := o.amount, descs := acc.descs ++ [{ sats := o.amount, isChange := true }] }
    else
      describeOutputsLoop cfg H O hmap em en tr pr
        { acc with spends := acc.spends + 1, spendSats := acc.spendSats + o.amount,
                   descs := acc.descs ++ [{ sats := o.amount, isChange := false }] }

/-! ## the summary -/

structure Summary where
  fee : Int
  totalIn : Nat
  totalOut : Nat
  spend : Nat
  change : Nat
  isBatch : Bool
  m : Int
  n : Int
  inputs : List InDesc
  outputs : List OutDesc
  rootPaths : List (Bytes × Bytes)
deriving DecidableEq, Repr

/-- Tx.fee(): `none` when an input's value is unknown (the code would ask the network) -/
def txFee {Tx} (C : TxCodec Tx) (p : Psbt Tx) : Option Int := do
  let vals ← p.ins.mapM (·.value)
  let totalIn : Nat := vals.foldl (· + ·) 0
  let totalOut : Nat := ((C.outs p.tx).map (·.amount)).foldl (· + ·) 0
  pure ((totalIn : Int) - (totalOut : Int))

/-- PSBT.describe_basic_multisig(hdpubkey_map); `callerMap = []` is the default `{}` -/
def describe {Tx} (cfg : DescribeCfg) (H : Hashes) (C : TxCodec Tx) (O : Oracles) (callerMap : Dict Bytes)
    (p : Psbt Tx) : Option Summary := do
  p.validate H C O
  let fee ← txFee C p
  let hmap ← if callerMap ≠ [] then some callerMap
    else if p.hdPubs = [] then none else some (mapFromHdPubs p.hdPubs)
  let ins ← describeInputs H C O hmap p
  let m ← ins.m
  let n ← ins.n
  let outs ← describeOutputsLoop cfg H O hmap m n (C.outs p.tx) p.outs {}
  req (ins.total ≠ 0)                     -- `tx_fee_sats / total_input_sats`
  pure { fee := fee, totalIn := ins.total, totalOut := outs.total, spend := outs.spendSats,
         change := outs.changeSats, isBatch := outs.spends > 1, m := m, n := n,
         inputs := ins.descs, outputs := outs.descs, rootPaths := ins.rootPaths }

end Buidl.Psbt
