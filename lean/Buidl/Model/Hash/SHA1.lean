/-
  Buidl.Model.Hash.SHA1 — executable SHA-1 (FIPS 180-4), import-free.
-/
import Buidl.Model.Hash.Common
namespace Buidl.Hash
open Buidl

namespace SHA1

/-- chaining value / working variables -/
structure St where
  a : UInt32
  b : UInt32
  c : UInt32
  d : UInt32
  e : UInt32

def init : St := ⟨0x67452301, 0xefcdab89, 0x98badcfe, 0x10325476, 0xc3d2e1f0⟩

@[inline] def rotl (x n : UInt32) : UInt32 := (x <<< n) ||| (x >>> (32 - n))

/-- round function and constant for round `i`, already summed -/
@[inline] def fk (i : Nat) (b c d : UInt32) : UInt32 :=
  if i < 20 then ((b &&& c) ||| (~~~b &&& d)) + 0x5a827999
  else if i < 40 then (b ^^^ c ^^^ d) + 0x6ed9eba1
  else if i < 60 then ((b &&& c) ||| (b &&& d) ||| (c &&& d)) + 0x8f1bbcdc
  else (b ^^^ c ^^^ d) + 0xca62c1d6

/-- rounds `i … 79`; `w0 … w15` is the window `W[i] … W[i+15]` of the message schedule -/
def rounds (i : Nat) (a b c d e
    w0 w1 w2 w3 w4 w5 w6 w7 w8 w9 w10 w11 w12 w13 w14 w15 : UInt32) : St :=
  if i < 80 then
    let t := rotl a 5 + fk i b c d + e + w0
    let w16 := rotl (w13 ^^^ w8 ^^^ w2 ^^^ w0) 1
    rounds (i + 1) t a (rotl b 30) c d
      w1 w2 w3 w4 w5 w6 w7 w8 w9 w10 w11 w12 w13 w14 w15 w16
  else ⟨a, b, c, d, e⟩
termination_by 80 - i

/-- one application of the compression function to the 64-byte block at offset `off` -/
def compress (s : St) (ba : ByteArray) (off : Nat) : St :=
  let r := rounds 0 s.a s.b s.c s.d s.e
    (be32 ba off) (be32 ba (off + 4)) (be32 ba (off + 8)) (be32 ba (off + 12))
    (be32 ba (off + 16)) (be32 ba (off + 20)) (be32 ba (off + 24)) (be32 ba (off + 28))
    (be32 ba (off + 32)) (be32 ba (off + 36)) (be32 ba (off + 40)) (be32 ba (off + 44))
    (be32 ba (off + 48)) (be32 ba (off + 52)) (be32 ba (off + 56)) (be32 ba (off + 60))
  ⟨s.a + r.a, s.b + r.b, s.c + r.c, s.d + r.d, s.e + r.e⟩

/-- absorb `n` consecutive blocks starting at offset `off` -/
def blocks (ba : ByteArray) : Nat → Nat → St → St
  | 0, _, s => s
  | n + 1, off, s => blocks ba n (off + 64) (compress s ba off)

def digest (s : St) : ByteArray :=
  pushBE32 (pushBE32 (pushBE32 (pushBE32 (pushBE32
    (ByteArray.emptyWithCapacity 20) s.a) s.b) s.c) s.d) s.e

end SHA1

/-- SHA-1 on byte arrays -/
def sha1BA (msg : ByteArray) : ByteArray :=
  let bitLen : UInt64 := UInt64.ofNat (msg.size * 8)
  let p := pushBE64 (pad64 msg) bitLen
  SHA1.digest (SHA1.blocks p (p.size / 64) 0 SHA1.init)

/-- `hashlib.sha1(b).digest()` -/
def sha1 (b : Bytes) : Bytes := toBytes (sha1BA (ofBytes b))

end Buidl.Hash
