/-
  Buidl.Model.Hash.SHA256 — executable SHA-256 (FIPS 180-4), import-free.

  `sha256 : Bytes → Bytes` is the public API; `sha256BA : ByteArray → ByteArray` is the
  internal one used by HMAC / PBKDF2. The compression function keeps the eight working
  variables and a rolling 16-word message-schedule window in (unboxed) arguments of a single
  tail-recursive loop.
-/
import Buidl.Model.Hash.Common
namespace Buidl.Hash
open Buidl

namespace SHA256

def K : Array UInt32 := #[
  0x428a2f98, 0x71374491, 0xb5c0fbcf, 0xe9b5dba5, 0x3956c25b, 0x59f111f1, 0x923f82a4, 0xab1c5ed5,
  0xd807aa98, 0x12835b01, 0x243185be, 0x550c7dc3, 0x72be5d74, 0x80deb1fe, 0x9bdc06a7, 0xc19bf174,
  0xe49b69c1, 0xefbe4786, 0x0fc19dc6, 0x240ca1cc, 0x2de92c6f, 0x4a7484aa, 0x5cb0a9dc, 0x76f988da,
  0x983e5152, 0xa831c66d, 0xb00327c8, 0xbf597fc7, 0xc6e00bf3, 0xd5a79147, 0x06ca6351, 0x14292967,
  0x27b70a85, 0x2e1b2138, 0x4d2c6dfc, 0x53380d13, 0x650a7354, 0x766a0abb, 0x81c2c92e, 0x92722c85,
  0xa2bfe8a1, 0xa81a664b, 0xc24b8b70, 0xc76c51a3, 0xd192e819, 0xd6990624, 0xf40e3585, 0x106aa070,
  0x19a4c116, 0x1e376c08, 0x2748774c, 0x34b0bcb5, 0x391c0cb3, 0x4ed8aa4a, 0x5b9cca4f, 0x682e6ff3,
  0x748f82ee, 0x78a5636f, 0x84c87814, 0x8cc70208, 0x90befffa, 0xa4506ceb, 0xbef9a3f7, 0xc67178f2]

/-- chaining value / working variables -/
structure St where
  a : UInt32
  b : UInt32
  c : UInt32
  d : UInt32
  e : UInt32
  f : UInt32
  g : UInt32
  h : UInt32

def init : St :=
  ⟨0x6a09e667, 0xbb67ae85, 0x3c6ef372, 0xa54ff53a, 0x510e527f, 0x9b05688c, 0x1f83d9ab, 0x5be0cd19⟩

@[inline] def rotr (x n : UInt32) : UInt32 := (x >>> n) ||| (x <<< (32 - n))
@[inline] def bsig0 (x : UInt32) : UInt32 := rotr x 2 ^^^ rotr x 13 ^^^ rotr x 22
@[inline] def bsig1 (x : UInt32) : UInt32 := rotr x 6 ^^^ rotr x 11 ^^^ rotr x 25
@[inline] def ssig0 (x : UInt32) : UInt32 := rotr x 7 ^^^ rotr x 18 ^^^ (x >>> 3)
@[inline] def ssig1 (x : UInt32) : UInt32 := rotr x 17 ^^^ rotr x 19 ^^^ (x >>> 10)
@[inline] def ch (x y z : UInt32) : UInt32 := (x &&& y) ^^^ (~~~x &&& z)
@[inline] def maj (x y z : UInt32) : UInt32 := (x &&& y) ^^^ (x &&& z) ^^^ (y &&& z)

/-- rounds `i … 63`; `w0 … w15` is the window `W[i] … W[i+15]` of the message schedule -/
def rounds (i : Nat) (a b c d e f g h
    w0 w1 w2 w3 w4 w5 w6 w7 w8 w9 w10 w11 w12 w13 w14 w15 : UInt32) : St :=
  if i < 64 then
    let t1 := h + bsig1 e + ch e f g + K[i]! + w0
    let t2 := bsig0 a + maj a b c
    let w16 := ssig1 w14 + w9 + ssig0 w1 + w0
    rounds (i + 1) (t1 + t2) a b c (d + t1) e f g
      w1 w2 w3 w4 w5 w6 w7 w8 w9 w10 w11 w12 w13 w14 w15 w16
  else ⟨a, b, c, d, e, f, g, h⟩
termination_by 64 - i

/-- one application of the compression function to the 64-byte block at offset `off` -/
def compress (s : St) (ba : ByteArray) (off : Nat) : St :=
  let r := rounds 0 s.a s.b s.c s.d s.e s.f s.g s.h
    (be32 ba off) (be32 ba (off + 4)) (be32 ba (off + 8)) (be32 ba (off + 12))
    (be32 ba (off + 16)) (be32 ba (off + 20)) (be32 ba (off + 24)) (be32 ba (off + 28))
    (be32 ba (off + 32)) (be32 ba (off + 36)) (be32 ba (off + 40)) (be32 ba (off + 44))
    (be32 ba (off + 48)) (be32 ba (off + 52)) (be32 ba (off + 56)) (be32 ba (off + 60))
  ⟨s.a + r.a, s.b + r.b, s.c + r.c, s.d + r.d, s.e + r.e, s.f + r.f, s.g + r.g, s.h + r.h⟩

/-- absorb `n` consecutive blocks starting at offset `off` -/
def blocks (ba : ByteArray) : Nat → Nat → St → St
  | 0, _, s => s
  | n + 1, off, s => blocks ba n (off + 64) (compress s ba off)

def digest (s : St) : ByteArray :=
  pushBE32 (pushBE32 (pushBE32 (pushBE32 (pushBE32 (pushBE32 (pushBE32 (pushBE32
    (ByteArray.emptyWithCapacity 32) s.a) s.b) s.c) s.d) s.e) s.f) s.g) s.h

end SHA256

/-- SHA-256 on byte arrays -/
def sha256BA (msg : ByteArray) : ByteArray :=
  let bitLen : UInt64 := UInt64.ofNat (msg.size * 8)
  let p := pushBE64 (pad64 msg) bitLen
  SHA256.digest (SHA256.blocks p (p.size / 64) 0 SHA256.init)

/-- `hashlib.sha256(b).digest()` -/
def sha256 (b : Bytes) : Bytes := toBytes (sha256BA (ofBytes b))

/-- `helper.hash256`: double SHA-256 -/
def hash256 (b : Bytes) : Bytes := sha256 (sha256 b)

end Buidl.Hash
