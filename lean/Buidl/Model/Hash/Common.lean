/-
  Buidl.Model.Hash.Common — ByteArray plumbing shared by the executable hash functions.
  Import-free (Lean core only).

  The public API of every hash is `Bytes → Bytes` (`Bytes = List UInt8`); internally the
  message is copied once into a `ByteArray`, padded in place, and compressed block by block
  with tail-recursive loops over unboxed machine words.
-/
import Buidl.Model.Bytes
namespace Buidl.Hash
open Buidl

/-- `Bytes → ByteArray`; the capacity leaves room for the longest padding (SHA-512: 144 bytes),
    so that padding a freshly converted message never reallocates -/
def ofBytes (b : Bytes) : ByteArray :=
  go b (ByteArray.emptyWithCapacity (b.length + 144))
where
  go : Bytes → ByteArray → ByteArray
    | [], r => r
    | x :: xs, r => go xs (r.push x)

/-- `ByteArray → Bytes` (tail-recursive in core) -/
@[inline] def toBytes (ba : ByteArray) : Bytes := ba.toList

/-- append `n` copies of the byte `v` -/
def pushN (v : UInt8) : Nat → ByteArray → ByteArray
  | 0, ba => ba
  | n + 1, ba => pushN v n (ba.push v)

@[inline] def pushBE32 (ba : ByteArray) (x : UInt32) : ByteArray :=
  (((ba.push (x >>> 24).toUInt8).push (x >>> 16).toUInt8).push (x >>> 8).toUInt8).push x.toUInt8

@[inline] def pushLE32 (ba : ByteArray) (x : UInt32) : ByteArray :=
  (((ba.push x.toUInt8).push (x >>> 8).toUInt8).push (x >>> 16).toUInt8).push (x >>> 24).toUInt8

@[inline] def pushBE64 (ba : ByteArray) (x : UInt64) : ByteArray :=
  pushBE32 (pushBE32 ba (x >>> 32).toUInt32) x.toUInt32

@[inline] def pushLE64 (ba : ByteArray) (x : UInt64) : ByteArray :=
  pushLE32 (pushLE32 ba x.toUInt32) (x >>> 32).toUInt32

/-- big-endian 32-bit word at byte offset `i` -/
@[inline] def be32 (ba : ByteArray) (i : Nat) : UInt32 :=
  ((ba.get! i).toUInt32 <<< 24) ||| ((ba.get! (i + 1)).toUInt32 <<< 16) |||
  ((ba.get! (i + 2)).toUInt32 <<< 8) ||| (ba.get! (i + 3)).toUInt32

/-- little-endian 32-bit word at byte offset `i` -/
@[inline] def le32 (ba : ByteArray) (i : Nat) : UInt32 :=
  (ba.get! i).toUInt32 ||| ((ba.get! (i + 1)).toUInt32 <<< 8) |||
  ((ba.get! (i + 2)).toUInt32 <<< 16) ||| ((ba.get! (i + 3)).toUInt32 <<< 24)

/-- big-endian 64-bit word at byte offset `i` -/
@[inline] def be64 (ba : ByteArray) (i : Nat) : UInt64 :=
  ((be32 ba i).toUInt64 <<< 32) ||| (be32 ba (i + 4)).toUInt64

/-- Merkle–Damgård padding for 64-byte blocks: `0x80`, zeros up to 56 mod 64
    (the 8-byte bit length is appended by the caller in its own endianness). -/
def pad64 (ba : ByteArray) : ByteArray :=
  pushN 0 ((119 - ba.size % 64) % 64) (ba.push 0x80)

/-- Merkle–Damgård padding for 128-byte blocks: `0x80`, zeros up to 112 mod 128
    (the 16-byte bit length is appended by the caller). -/
def pad128 (ba : ByteArray) : ByteArray :=
  pushN 0 ((239 - ba.size % 128) % 128) (ba.push 0x80)

/-- bytewise xor of `a` with the constant `c` -/
def xorConst (a : ByteArray) (c : UInt8) : ByteArray :=
  go a.size 0 a
where
  go : Nat → Nat → ByteArray → ByteArray
    | 0, _, r => r
    | n + 1, i, r => go n (i + 1) (r.set! i (r.get! i ^^^ c))

/-- bytewise xor of `a` with `b` (length of `a`; bytes of `b` beyond its end count as 0) -/
def xorBA (a b : ByteArray) : ByteArray :=
  go (min a.size b.size) 0 a
where
  go : Nat → Nat → ByteArray → ByteArray
    | 0, _, r => r
    | n + 1, i, r => go n (i + 1) (r.set! i (r.get! i ^^^ b.get! i))

end Buidl.Hash
