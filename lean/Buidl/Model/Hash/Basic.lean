/-
  Buidl.Model.Hash.Basic — the composite hashes of buidl/helper.py, import-free.
-/
import Buidl.Model.Hash.SHA1
import Buidl.Model.Hash.SHA256
import Buidl.Model.Hash.SHA512
import Buidl.Model.Hash.RIPEMD160
namespace Buidl.Hash
open Buidl

/-- `helper.hash160`: SHA-256 followed by RIPEMD-160 -/
def hash160 (b : Bytes) : Bytes := ripemd160 (sha256 b)

end Buidl.Hash
