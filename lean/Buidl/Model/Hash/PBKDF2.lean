/-
  Buidl.Model.Hash.PBKDF2 — PBKDF2 (RFC 2898 §5.2), import-free.

      DK = T_1 ‖ T_2 ‖ … ‖ T_l            (first dkLen bytes),   l = ⌈dkLen / hLen⌉
      T_i = U_1 ⊕ U_2 ⊕ … ⊕ U_c
      U_1 = PRF(P, S ‖ INT_32_BE(i)),     U_j = PRF(P, U_{j-1})

  `pbkdf2` is generic in the pseudo-random function on `Bytes`; `pbkdf2HmacSha256` /
  `pbkdf2HmacSha512` (`hashlib.pbkdf2_hmac`) are its HMAC instances computed on byte arrays
  with the padded HMAC key prepared once. All of them share the one implementation `pbkdf2BA`.

  RFC 2898 (and `hashlib.pbkdf2_hmac`) require `iterations ≥ 1` and `dkLen ≥ 1`. Here
  `iterations = 0` computes the same as `iterations = 1` and `dkLen = 0` gives the empty
  string; callers that mirror Python must reject those arguments themselves.
-/
import Buidl.Model.Hash.HMAC
namespace Buidl.Hash
open Buidl

/-- `n` further iterations: `u` is `U_j`, `t` is `U_1 ⊕ … ⊕ U_j` -/
def pbkdf2Iter (prf : ByteArray → ByteArray) : Nat → ByteArray → ByteArray → ByteArray
  | 0, _, t => t
  | n + 1, u, t =>
    let u' := prf u
    pbkdf2Iter prf n u' (xorBA t u')

/-- the block `T_i`, for the already keyed PRF -/
def pbkdf2Block (prf : ByteArray → ByteArray) (salt : ByteArray) (iterations : Nat)
    (i : UInt32) : ByteArray :=
  let u1 := prf (pushBE32 salt i)
  pbkdf2Iter prf (iterations - 1) u1 u1

/-- append the `n` blocks `T_i, T_{i+1}, …` to `acc` -/
def pbkdf2Blocks (prf : ByteArray → ByteArray) (salt : ByteArray) (iterations : Nat) :
    Nat → UInt32 → ByteArray → ByteArray
  | 0, _, acc => acc
  | n + 1, i, acc =>
    pbkdf2Blocks prf salt iterations n (i + 1) (acc ++ pbkdf2Block prf salt iterations i)

/-- PBKDF2 for an already keyed PRF with `hLen`-byte output -/
def pbkdf2BA (prf : ByteArray → ByteArray) (hLen : Nat) (salt : ByteArray)
    (iterations dkLen : Nat) : ByteArray :=
  let l := (dkLen + hLen - 1) / hLen
  (pbkdf2Blocks prf salt iterations l 1 ByteArray.empty).extract 0 dkLen

/-- RFC 2898 PBKDF2 with pseudo-random function `prf key msg` of output length `hLen` -/
def pbkdf2 (prf : Bytes → Bytes → Bytes) (hLen : Nat) (password salt : Bytes)
    (iterations dkLen : Nat) : Bytes :=
  toBytes (pbkdf2BA (fun m => ofBytes (prf password (toBytes m))) hLen (ofBytes salt)
    iterations dkLen)

/-- `hashlib.pbkdf2_hmac("sha256", password, salt, iterations, dkLen)` -/
def pbkdf2HmacSha256 (password salt : Bytes) (iterations dkLen : Nat) : Bytes :=
  let k := hmacPrep sha256BA 64 (ofBytes password)
  toBytes (pbkdf2BA (hmacWith sha256BA k) 32 (ofBytes salt) iterations dkLen)

/-- `hashlib.pbkdf2_hmac("sha512", password, salt, iterations, dkLen)` -/
def pbkdf2HmacSha512 (password salt : Bytes) (iterations dkLen : Nat) : Bytes :=
  let k := hmacPrep sha512BA 128 (ofBytes password)
  toBytes (pbkdf2BA (hmacWith sha512BA k) 64 (ofBytes salt) iterations dkLen)

/-! Build-time checks (evaluated by the compiler's interpreter, no proof content): the generic
    `pbkdf2` over the generic `hmac` agrees with the byte-array instances (several blocks,
    several iterations, truncated last block). -/
#guard pbkdf2 (hmac sha256 64) 32 [1, 2, 3] [4, 5] 3 70 == pbkdf2HmacSha256 [1, 2, 3] [4, 5] 3 70
#guard pbkdf2 (hmac sha512 128) 64 [1, 2, 3] [4, 5] 3 70 == pbkdf2HmacSha512 [1, 2, 3] [4, 5] 3 70
#guard pbkdf2 hmacSha512 64 (List.replicate 130 7) [] 1 64
    == pbkdf2HmacSha512 (List.replicate 130 7) [] 1 64

end Buidl.Hash
