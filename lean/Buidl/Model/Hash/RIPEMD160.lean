/-
  Buidl.Model.Hash.RIPEMD160 — executable RIPEMD-160 (Dobbertin, Bosselaers, Preneel 1996),
  import-free. Little-endian words; two parallel lines of 80 steps each.
-/
import Buidl.Model.Hash.Common
namespace Buidl.Hash
open Buidl

namespace RIPEMD160

/-- message word selection, left line -/
def RL : Array Nat := #[
  0, 1, 2, 3, 4, 5, 6, 7, 8, 9, 10, 11, 12, 13, 14, 15,
  7, 4, 13, 1, 10, 6, 15, 3, 12, 0, 9, 5, 2, 14, 11, 8,
  3, 10, 14, 4, 9, 15, 8, 1, 2, 7, 0, 6, 13, 11, 5, 12,
  1, 9, 11, 10, 0, 8, 12, 4, 13, 3, 7, 15, 14, 5, 6, 2,
  4, 0, 5, 9, 7, 12, 2, 10, 14, 1, 3, 8, 11, 6, 15, 13]

/-- message word selection, right line -/
def RR : Array Nat := #[
  5, 14, 7, 0, 9, 2, 11, 4, 13, 6, 15, 8, 1, 10, 3, 12,
  6, 11, 3, 7, 0, 13, 5, 10, 14, 15, 8, 12, 4, 9, 1, 2,
  15, 5, 1, 3, 7, 14, 6, 9, 11, 8, 12, 2, 10, 0, 4, 13,
  8, 6, 4, 1, 3, 11, 15, 0, 5, 12, 2, 13, 9, 7, 10, 14,
  12, 15, 10, 4, 1, 5, 8, 7, 6, 2, 13, 14, 0, 3, 9, 11]

/-- rotation amounts, left line -/
def SL : Array UInt32 := #[
  11, 14, 15, 12, 5, 8, 7, 9, 11, 13, 14, 15, 6, 7, 9, 8,
  7, 6, 8, 13, 11, 9, 7, 15, 7, 12, 15, 9, 11, 7, 13, 12,
  11, 13, 6, 7, 14, 9, 13, 15, 14, 8, 13, 6, 5, 12, 7, 5,
  11, 12, 14, 15, 14, 15, 9, 8, 9, 14, 5, 6, 8, 6, 5, 12,
  9, 15, 5, 11, 6, 8, 13, 12, 5, 12, 13, 14, 11, 8, 5, 6]

/-- rotation amounts, right line -/
def SR : Array UInt32 := #[
  8, 9, 9, 11, 13, 15, 15, 5, 7, 7, 8, 11, 14, 14, 12, 6,
  9, 13, 15, 7, 12, 8, 9, 11, 7, 7, 12, 7, 6, 15, 13, 11,
  9, 7, 15, 11, 8, 6, 6, 14, 12, 13, 5, 14, 13, 13, 7, 5,
  15, 5, 8, 11, 14, 14, 6, 14, 6, 9, 12, 9, 12, 5, 15, 8,
  8, 5, 12, 9, 12, 5, 14, 6, 8, 13, 6, 5, 15, 13, 11, 11]

/-- chaining value -/
structure St where
  h0 : UInt32
  h1 : UInt32
  h2 : UInt32
  h3 : UInt32
  h4 : UInt32

def init : St := ⟨0x67452301, 0xefcdab89, 0x98badcfe, 0x10325476, 0xc3d2e1f0⟩

@[inline] def rotl (x n : UInt32) : UInt32 := (x <<< n) ||| (x >>> (32 - n))

/-- the five boolean functions, selected by round `k = 0 … 4` -/
@[inline] def f (k : Nat) (x y z : UInt32) : UInt32 :=
  if k = 0 then x ^^^ y ^^^ z
  else if k = 1 then (x &&& y) ||| (~~~x &&& z)
  else if k = 2 then (x ||| ~~~y) ^^^ z
  else if k = 3 then (x &&& z) ||| (y &&& ~~~z)
  else x ^^^ (y ||| ~~~z)

@[inline] def KL (k : Nat) : UInt32 :=
  if k = 0 then 0x00000000 else if k = 1 then 0x5a827999 else if k = 2 then 0x6ed9eba1
  else if k = 3 then 0x8f1bbcdc else 0xa953fd4e

@[inline] def KR (k : Nat) : UInt32 :=
  if k = 0 then 0x50a28be6 else if k = 1 then 0x5c4dd124 else if k = 2 then 0x6d703ef3
  else if k = 3 then 0x7a6d76e9 else 0x00000000

/-- steps `j … 79` of both lines on the message words `x`, then the final combination with `s` -/
def steps (s : St) (x : Array UInt32) (j : Nat)
    (al bl cl dl el ar br cr dr er : UInt32) : St :=
  if j < 80 then
    let k := j / 16
    let tl := rotl (al + f k bl cl dl + x[RL[j]!]! + KL k) SL[j]! + el
    let tr := rotl (ar + f (4 - k) br cr dr + x[RR[j]!]! + KR k) SR[j]! + er
    steps s x (j + 1) el tl bl (rotl cl 10) dl er tr br (rotl cr 10) dr
  else
    ⟨s.h1 + cl + dr, s.h2 + dl + er, s.h3 + el + ar, s.h4 + al + br, s.h0 + bl + cr⟩
termination_by 80 - j

/-- the sixteen little-endian words of the 64-byte block at offset `off` -/
def words (ba : ByteArray) (off : Nat) : Array UInt32 :=
  go 16 off (Array.mkEmpty 16)
where
  go : Nat → Nat → Array UInt32 → Array UInt32
    | 0, _, a => a
    | n + 1, o, a => go n (o + 4) (a.push (le32 ba o))

/-- one application of the compression function to the 64-byte block at offset `off` -/
def compress (s : St) (ba : ByteArray) (off : Nat) : St :=
  steps s (words ba off) 0 s.h0 s.h1 s.h2 s.h3 s.h4 s.h0 s.h1 s.h2 s.h3 s.h4

/-- absorb `n` consecutive blocks starting at offset `off` -/
def blocks (ba : ByteArray) : Nat → Nat → St → St
  | 0, _, s => s
  | n + 1, off, s => blocks ba n (off + 64) (compress s ba off)

def digest (s : St) : ByteArray :=
  pushLE32 (pushLE32 (pushLE32 (pushLE32 (pushLE32
    (ByteArray.emptyWithCapacity 20) s.h0) s.h1) s.h2) s.h3) s.h4

end RIPEMD160

/-- RIPEMD-160 on byte arrays -/
def ripemd160BA (msg : ByteArray) : ByteArray :=
  let bitLen : UInt64 := UInt64.ofNat (msg.size * 8)
  let p := pushLE64 (pad64 msg) bitLen
  RIPEMD160.digest (RIPEMD160.blocks p (p.size / 64) 0 RIPEMD160.init)

/-- `hashlib.new("ripemd160", b).digest()` -/
def ripemd160 (b : Bytes) : Bytes := toBytes (ripemd160BA (ofBytes b))

end Buidl.Hash
