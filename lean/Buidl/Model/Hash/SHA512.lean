/-
  Buidl.Model.Hash.SHA512 — executable SHA-512 (FIPS 180-4), import-free.

  `sha512 : Bytes → Bytes` is the public API; `sha512BA : ByteArray → ByteArray` is the
  internal one used by HMAC / PBKDF2. Same shape as SHA-256, on `UInt64`.
-/
import Buidl.Model.Hash.Common
namespace Buidl.Hash
open Buidl

namespace SHA512

def K : Array UInt64 := #[
  0x428a2f98d728ae22, 0x7137449123ef65cd, 0xb5c0fbcfec4d3b2f, 0xe9b5dba58189dbbc,
  0x3956c25bf348b538, 0x59f111f1b605d019, 0x923f82a4af194f9b, 0xab1c5ed5da6d8118,
  0xd807aa98a3030242, 0x12835b0145706fbe, 0x243185be4ee4b28c, 0x550c7dc3d5ffb4e2,
  0x72be5d74f27b896f, 0x80deb1fe3b1696b1, 0x9bdc06a725c71235, 0xc19bf174cf692694,
  0xe49b69c19ef14ad2, 0xefbe4786384f25e3, 0x0fc19dc68b8cd5b5, 0x240ca1cc77ac9c65,
  0x2de92c6f592b0275, 0x4a7484aa6ea6e483, 0x5cb0a9dcbd41fbd4, 0x76f988da831153b5,
  0x983e5152ee66dfab, 0xa831c66d2db43210, 0xb00327c898fb213f, 0xbf597fc7beef0ee4,
  0xc6e00bf33da88fc2, 0xd5a79147930aa725, 0x06ca6351e003826f, 0x142929670a0e6e70,
  0x27b70a8546d22ffc, 0x2e1b21385c26c926, 0x4d2c6dfc5ac42aed, 0x53380d139d95b3df,
  0x650a73548baf63de, 0x766a0abb3c77b2a8, 0x81c2c92e47edaee6, 0x92722c851482353b,
  0xa2bfe8a14cf10364, 0xa81a664bbc423001, 0xc24b8b70d0f89791, 0xc76c51a30654be30,
  0xd192e819d6ef5218, 0xd69906245565a910, 0xf40e35855771202a, 0x106aa07032bbd1b8,
  0x19a4c116b8d2d0c8, 0x1e376c085141ab53, 0x2748774cdf8eeb99, 0x34b0bcb5e19b48a8,
  0x391c0cb3c5c95a63, 0x4ed8aa4ae3418acb, 0x5b9cca4f7763e373, 0x682e6ff3d6b2b8a3,
  0x748f82ee5defb2fc, 0x78a5636f43172f60, 0x84c87814a1f0ab72, 0x8cc702081a6439ec,
  0x90befffa23631e28, 0xa4506cebde82bde9, 0xbef9a3f7b2c67915, 0xc67178f2e372532b,
  0xca273eceea26619c, 0xd186b8c721c0c207, 0xeada7dd6cde0eb1e, 0xf57d4f7fee6ed178,
  0x06f067aa72176fba, 0x0a637dc5a2c898a6, 0x113f9804bef90dae, 0x1b710b35131c471b,
  0x28db77f523047d84, 0x32caab7b40c72493, 0x3c9ebe0a15c9bebc, 0x431d67c49c100d4c,
  0x4cc5d4becb3e42b6, 0x597f299cfc657e2a, 0x5fcb6fab3ad6faec, 0x6c44198c4a475817]

/-- chaining value / working variables -/
structure St where
  a : UInt64
  b : UInt64
  c : UInt64
  d : UInt64
  e : UInt64
  f : UInt64
  g : UInt64
  h : UInt64

def init : St :=
  ⟨0x6a09e667f3bcc908, 0xbb67ae8584caa73b, 0x3c6ef372fe94f82b, 0xa54ff53a5f1d36f1,
   0x510e527fade682d1, 0x9b05688c2b3e6c1f, 0x1f83d9abfb41bd6b, 0x5be0cd19137e2179⟩

@[inline] def rotr (x n : UInt64) : UInt64 := (x >>> n) ||| (x <<< (64 - n))
@[inline] def bsig0 (x : UInt64) : UInt64 := rotr x 28 ^^^ rotr x 34 ^^^ rotr x 39
@[inline] def bsig1 (x : UInt64) : UInt64 := rotr x 14 ^^^ rotr x 18 ^^^ rotr x 41
@[inline] def ssig0 (x : UInt64) : UInt64 := rotr x 1 ^^^ rotr x 8 ^^^ (x >>> 7)
@[inline] def ssig1 (x : UInt64) : UInt64 := rotr x 19 ^^^ rotr x 61 ^^^ (x >>> 6)
@[inline] def ch (x y z : UInt64) : UInt64 := (x &&& y) ^^^ (~~~x &&& z)
@[inline] def maj (x y z : UInt64) : UInt64 := (x &&& y) ^^^ (x &&& z) ^^^ (y &&& z)

/-- rounds `i … 79`; `w0 … w15` is the window `W[i] … W[i+15]` of the message schedule -/
def rounds (i : Nat) (a b c d e f g h
    w0 w1 w2 w3 w4 w5 w6 w7 w8 w9 w10 w11 w12 w13 w14 w15 : UInt64) : St :=
  if i < 80 then
    let t1 := h + bsig1 e + ch e f g + K[i]! + w0
    let t2 := bsig0 a + maj a b c
    let w16 := ssig1 w14 + w9 + ssig0 w1 + w0
    rounds (i + 1) (t1 + t2) a b c (d + t1) e f g
      w1 w2 w3 w4 w5 w6 w7 w8 w9 w10 w11 w12 w13 w14 w15 w16
  else ⟨a, b, c, d, e, f, g, h⟩
termination_by 80 - i

/-- one application of the compression function to the 128-byte block at offset `off` -/
def compress (s : St) (ba : ByteArray) (off : Nat) : St :=
  let r := rounds 0 s.a s.b s.c s.d s.e s.f s.g s.h
    (be64 ba off) (be64 ba (off + 8)) (be64 ba (off + 16)) (be64 ba (off + 24))
    (be64 ba (off + 32)) (be64 ba (off + 40)) (be64 ba (off + 48)) (be64 ba (off + 56))
    (be64 ba (off + 64)) (be64 ba (off + 72)) (be64 ba (off + 80)) (be64 ba (off + 88))
    (be64 ba (off + 96)) (be64 ba (off + 104)) (be64 ba (off + 112)) (be64 ba (off + 120))
  ⟨s.a + r.a, s.b + r.b, s.c + r.c, s.d + r.d, s.e + r.e, s.f + r.f, s.g + r.g, s.h + r.h⟩

/-- absorb `n` consecutive blocks starting at offset `off` -/
def blocks (ba : ByteArray) : Nat → Nat → St → St
  | 0, _, s => s
  | n + 1, off, s => blocks ba n (off + 128) (compress s ba off)

def digest (s : St) : ByteArray :=
  pushBE64 (pushBE64 (pushBE64 (pushBE64 (pushBE64 (pushBE64 (pushBE64 (pushBE64
    (ByteArray.emptyWithCapacity 64) s.a) s.b) s.c) s.d) s.e) s.f) s.g) s.h

end SHA512

/-- SHA-512 on byte arrays -/
def sha512BA (msg : ByteArray) : ByteArray :=
  let bits : Nat := msg.size * 8
  let p := pushBE64 (pushBE64 (pad128 msg) (UInt64.ofNat (bits >>> 64))) (UInt64.ofNat bits)
  SHA512.digest (SHA512.blocks p (p.size / 128) 0 SHA512.init)

/-- `hashlib.sha512(b).digest()` -/
def sha512 (b : Bytes) : Bytes := toBytes (sha512BA (ofBytes b))

end Buidl.Hash
