/-
  Buidl.Model.Hash.HMAC — HMAC (RFC 2104), import-free.

  `hmac H blockSize key msg` is generic in the hash function on `Bytes`; `hmacSha256` /
  `hmacSha512` are its instances computed on byte arrays throughout. All of them share the
  one implementation `hmacPrep` / `hmacWith`: the two padded keys are computed once per key
  (PBKDF2 reuses them for every iteration).
-/
import Buidl.Model.Hash.SHA256
import Buidl.Model.Hash.SHA512
namespace Buidl.Hash
open Buidl

/-- the key, already zero-padded to the block size and xored with `ipad` / `opad` -/
structure HmacKey where
  ipad : ByteArray
  opad : ByteArray

/-- RFC 2104 step (1)–(2),(5): keys longer than a block are hashed first, then zero-padded -/
def hmacPrep (H : ByteArray → ByteArray) (blockSize : Nat) (key : ByteArray) : HmacKey :=
  let k0 := if key.size > blockSize then H key else key
  let k := pushN 0 (blockSize - k0.size) k0
  ⟨xorConst k 0x36, xorConst k 0x5c⟩

/-- `H(K ⊕ opad ‖ H(K ⊕ ipad ‖ msg))` -/
def hmacWith (H : ByteArray → ByteArray) (k : HmacKey) (msg : ByteArray) : ByteArray :=
  H (k.opad ++ H (k.ipad ++ msg))

def hmacBA (H : ByteArray → ByteArray) (blockSize : Nat) (key msg : ByteArray) : ByteArray :=
  hmacWith H (hmacPrep H blockSize key) msg

/-- `hmac.new(key, msg, H).digest()` for a hash `H` with the given block size (in bytes) -/
def hmac (H : Bytes → Bytes) (blockSize : Nat) (key msg : Bytes) : Bytes :=
  toBytes (hmacBA (fun b => ofBytes (H (toBytes b))) blockSize (ofBytes key) (ofBytes msg))

def hmacSha256BA (key msg : ByteArray) : ByteArray := hmacBA sha256BA 64 key msg
def hmacSha512BA (key msg : ByteArray) : ByteArray := hmacBA sha512BA 128 key msg

/-- `hmac.new(key, msg, hashlib.sha256).digest()` -/
def hmacSha256 (key msg : Bytes) : Bytes := toBytes (hmacSha256BA (ofBytes key) (ofBytes msg))

/-- `hmac.new(key, msg, hashlib.sha512).digest()` (helper.hmac_sha512) -/
def hmacSha512 (key msg : Bytes) : Bytes := toBytes (hmacSha512BA (ofBytes key) (ofBytes msg))

/-! Build-time checks (evaluated by the compiler's interpreter, no proof content): the generic
    `hmac` agrees with the byte-array instances on a short and on a longer-than-block key. -/
#guard hmac sha256 64 [1, 2, 3] [4, 5] == hmacSha256 [1, 2, 3] [4, 5]
#guard hmac sha256 64 (List.replicate 70 7) [] == hmacSha256 (List.replicate 70 7) []
#guard hmac sha512 128 [1, 2, 3] [4, 5] == hmacSha512 [1, 2, 3] [4, 5]
#guard hmac sha512 128 (List.replicate 130 7) [] == hmacSha512 (List.replicate 130 7) []

end Buidl.Hash
