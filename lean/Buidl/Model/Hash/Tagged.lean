/-
  Buidl.Model.Hash.Tagged — BIP340 tagged hash, import-free.
-/
import Buidl.Model.Hash.SHA256
namespace Buidl.Hash
open Buidl

/-- BIP340 `hash_tag(msg) = SHA256(SHA256(tag) ‖ SHA256(tag) ‖ msg)` -/
def taggedHash (tag : Bytes) (msg : Bytes) : Bytes :=
  sha256 (sha256 tag ++ sha256 tag ++ msg)

end Buidl.Hash
