/-
  Buidl.Model.Bech32 — buidl/bech32.py, function by function.  Import-free.

  Strings are `Str = List Char`; Python `int` lists are `List Nat` (every list the code builds
  is non-negative on the model's domain, see `encodeBech32Checksum`).  Every constant, table,
  threshold and comparison operator comes from Buidl.Gen.Bech32 (re-extracted from the source).
-/
import Buidl.Model.Base58
import Buidl.Gen.Bech32
namespace Buidl.Bech32
open Buidl Buidl.Base58

/-- `BECH32_ALPHABET` -/
def alphabet : Str := Gen.bech32Alphabet.toList

/-- `GEN[i]`; the table has `polymodGenCount` entries (`Buidl.Bech32.gen_length`), so the
    fallback of `getD` is never used -/
def genAt (i : Nat) : Nat := (Gen.bech32Gen[i]?).getD 0

/-- one iteration of the loop of bech32_polymod -/
def polymodStep (chk v : Nat) : Nat :=
  let b := chk >>> Gen.polymodTopShift
  let chk := ((chk &&& Gen.polymodLowMask) <<< Gen.polymodShl) ^^^ v
  (List.range Gen.polymodGenCount).foldl (fun c i => c ^^^ (if b.testBit i then genAt i else 0)) chk

/-- the loop of bech32_polymod started from an arbitrary state -/
def polymodFrom (chk : Nat) (values : List Nat) : Nat := values.foldl polymodStep chk

/-- bech32.bech32_polymod -/
def polymod (values : List Nat) : Nat := polymodFrom Gen.polymodInit values

/-- bech32.bech32_hrp_expand; `none` = UnicodeEncodeError of `s.encode("ascii")` -/
def hrpExpand (s : Str) : Option (List Nat) :=
  if s.all (fun c => c.toNat < 128) then
    let b := s.map Char.toNat
    some (b.map (· >>> Gen.hrpShift) ++ [Gen.hrpSep] ++ b.map (· &&& Gen.hrpMask))
  else none

/-- `[(polymod >> bits * (top - i)) & mask for i in range(len)]` -/
def chkDigits (bits top mask len pm : Nat) : List Nat :=
  (List.range len).map fun i => (pm >>> (bits * (top - i))) &&& mask

/-- bech32.bech32_create_checksum (over already expanded `values = hrp_expand(hrp) + data`) -/
def createChecksum (values : List Nat) : List Nat :=
  chkDigits Gen.b32ChkBits Gen.b32ChkTop Gen.b32ChkMask Gen.b32ChkLen
    (polymod (values ++ List.replicate Gen.b32ChkPad 0) ^^^ Gen.b32ChkXor)

/-- bech32.bech32m_create_checksum -/
def createChecksumM (values : List Nat) : List Nat :=
  chkDigits Gen.b32mChkBits Gen.b32mChkTop Gen.b32mChkMask Gen.b32mChkLen
    (polymod (values ++ List.replicate Gen.b32mChkPad 0) ^^^ Gen.b32mChkXor)

/-- bech32.bech32_verify_checksum -/
def verifyChecksum (values : List Nat) : Bool := polymod values == Gen.b32VerifyConst

/-- bech32.bech32m_verify_checksum -/
def verifyChecksumM (values : List Nat) : Bool := polymod values == Gen.b32mVerifyConst

/-- the `while unused_bits > 5` loop of group_32 (fuel: `unused_bits`; each round removes
    `g32Out ≥ 1` bits).  `acc` is `result` reversed. -/
def g32Drain : Nat → Nat → Nat → List Nat → Nat × Nat × List Nat
  | 0, u, cur, acc => (u, cur, acc)
  | f + 1, u, cur, acc =>
    if cmpAt Gen.g32Cmp 0 u then
      let u := u - Gen.g32Out
      g32Drain f u (cur &&& ((1 <<< u) - 1)) ((cur >>> u) :: acc)
    else (u, cur, acc)

/-- the `for c in s` loop of group_32: state (unused_bits, current, result reversed) -/
def g32Loop : Bytes → Nat → Nat → List Nat → Nat × Nat × List Nat
  | [], u, cur, acc => (u, cur, acc)
  | c :: cs, u, cur, acc =>
    let u := u + Gen.g32In
    let (u, cur, acc) := g32Drain u u ((cur <<< Gen.g32Shl) + c.toNat) acc
    g32Loop cs u cur acc

/-- bech32.group_32 (always appends the final group, also for the empty input) -/
def group32 (s : Bytes) : List Nat :=
  let (u, cur, acc) := g32Loop s 0 0 []
  ((cur <<< (Gen.g32Final - u)) :: acc).reverse

/-- the `while bits >= tobits` loop of convertbits (fuel: `bits`) -/
def cbDrain (tobits maxv : Nat) : Nat → Nat → Nat → List Nat → Nat × List Nat
  | 0, bits, _, ret => (bits, ret)
  | f + 1, bits, acc, ret =>
    if bits ≥ tobits then
      let bits := bits - tobits
      cbDrain tobits maxv f bits acc (((acc >>> bits) &&& maxv) :: ret)
    else (bits, ret)

/-- the `for value in data` loop of convertbits: (acc, bits, ret reversed); `none` = the
    function returned None because a value does not fit `frombits` -/
def cbLoop (frombits tobits maxv maxAcc : Nat) : List Nat → Nat → Nat → List Nat → Option (Nat × Nat × List Nat)
  | [], acc, bits, ret => some (acc, bits, ret)
  | v :: vs, acc, bits, ret =>
    if v >>> frombits ≠ 0 then none else
    let acc := ((acc <<< frombits) ||| v) &&& maxAcc
    let bits := bits + frombits
    let (bits, ret) := cbDrain tobits maxv bits bits acc ret
    cbLoop frombits tobits maxv maxAcc vs acc bits ret

/-- bech32.convertbits; `none` = the function returned None -/
def convertbits (data : List Nat) (frombits tobits : Nat) (pad : Bool) : Option (List Nat) :=
  let maxv := (1 <<< tobits) - 1
  let maxAcc := (1 <<< (frombits + tobits - 1)) - 1
  match cbLoop frombits tobits maxv maxAcc data 0 0 [] with
  | none => none
  | some (acc, bits, ret) =>
    if pad then
      if bits ≠ 0 then some (((acc <<< (tobits - bits)) &&& maxv) :: ret).reverse else some ret.reverse
    else if bits ≥ frombits ∨ ((acc <<< (tobits - bits)) &&& maxv) ≠ 0 then none
    else some ret.reverse

/-- bech32.bc32encode; `none` = an exception (cannot happen for byte input, see
    `Buidl.Bech32.bc32encode_isSome`) -/
def bc32encode (data : Bytes) : Option Str := do
  let dd ← convertbits (data.map (·.toNat)) Gen.bc32EncFrom Gen.bc32EncTo true
  let pm := polymod (List.replicate Gen.bc32EncLead 0 ++ dd ++ List.replicate Gen.bc32ChkPad 0) ^^^ Gen.bc32ChkXor
  let chk := chkDigits Gen.bc32ChkBits Gen.bc32ChkTop Gen.bc32ChkMask Gen.bc32ChkLen pm
  lookupAll alphabet (dd ++ chk)

/-- ASCII `str.lower()` / `str.upper()`.  Python maps a few non-ASCII code points to ASCII
    letters (U+212A KELVIN SIGN lowers to "k"); strings with non-ASCII characters are outside
    the domain of the functions below that use these (the driver answers `bad-op`). -/
def asciiLower (c : Char) : Char := if 'A' ≤ c ∧ c ≤ 'Z' then Char.ofNat (c.toNat + 32) else c
def asciiUpper (c : Char) : Char := if 'a' ≤ c ∧ c ≤ 'z' then Char.ofNat (c.toNat - 32) else c
def isAscii (s : Str) : Bool := s.all (fun c => c.toNat < 128)

/-- `int` values (all < 256) → `bytes(...)`; `none` = ValueError -/
def toBytes (l : List Nat) : Option Bytes :=
  if l.all (· < 256) then some (l.map UInt8.ofNat) else none

/-- bech32.bc32decode; `none` = the function returned None or `bytes(None)` raised -/
def bc32decode (bc32 : Str) : Option Bytes :=
  if bc32.map asciiLower ≠ bc32 ∧ bc32.map asciiUpper ≠ bc32 then none else
  let bc32 := bc32.map asciiLower
  if ¬ bc32.all (fun x => alphabet.contains x) then none else
  match bc32.mapM (fun c => indexOf? c alphabet) with
  | none => none
  | some res =>
    if polymod (List.replicate Gen.bc32DecLead 0 ++ res) ≠ Gen.bc32DecConst then none else
    match convertbits (pyButLast Gen.bc32DecCut res) Gen.bc32DecFrom Gen.bc32DecTo Gen.bc32DecPad with
    | none => none
    | some r => toBytes r

/-- `bytes([n])`; `none` = ValueError -/
def pyByte (n : Nat) : Option Bytes := if n < 256 then some [UInt8.ofNat n] else none

/-- bech32.cbor_encode; `none` = ValueError / OverflowError (length ≥ 2^32) -/
def cborEncode (data : Bytes) : Option Bytes :=
  let length := data.length
  if cmpAt Gen.cborEncCmp 0 length then (pyByte (Gen.cborEncShort + length)).map (· ++ data)
  else if cmpAt Gen.cborEncCmp 1 length then do
    let a ← pyByte Gen.cborEncP1
    let b ← pyByte length
    pure (a ++ b ++ data)
  else if cmpAt Gen.cborEncCmp 2 length then
    (natToBE length Gen.cborEncW2).map (fun l => UInt8.ofNat Gen.cborEncP2 :: l ++ data)
  else (natToBE length Gen.cborEncW4).map (fun l => UInt8.ofNat Gen.cborEncP4 :: l ++ data)

/-- bech32.cbor_decode; `none` = IndexError on a missing byte or the function returned None.
    As in the code, a body shorter than announced is returned as it is (`BytesIO.read`) and
    bytes after the body are ignored. -/
def cborDecode (data : Bytes) : Option Bytes :=
  match data with
  | [] => none
  | b0 :: s =>
    let b := b0.toNat
    if cmpAt Gen.cborDecCmp 0 b && cmpAt Gen.cborDecCmp 1 b then some (s.take (b - Gen.cborDecShort))
    else if cmpAt Gen.cborDecCmp 2 b then
      match s.take Gen.cborDecW1 with
      | [] => none
      | l :: _ => some ((s.drop Gen.cborDecW1).take l.toNat)
    else if cmpAt Gen.cborDecCmp 3 b then
      some ((s.drop Gen.cborDecW2).take (beToNat (s.take Gen.cborDecW2)))
    else if cmpAt Gen.cborDecCmp 4 b then
      some ((s.drop Gen.cborDecW4).take (beToNat (s.take Gen.cborDecW4)))
    else none

/-- `d.get(key)` on a dict given as parallel key / value lists (later keys win, as in a dict
    literal; the generator emits each key once) -/
def dictGet (keys vals : List String) (k : Str) : Option Str :=
  ((keys.zip vals).reverse.find? (fun kv => kv.1.toList = k)).map (·.2.toList)

/-- `PREFIX.get(network)` -/
def prefixOf (network : Str) : Option Str := dictGet Gen.prefixKeys Gen.prefixVals network

/-- `NET_FOR_PREFIX.get(hrp)` -/
def netForPrefix (hrp : Str) : Option Str := dictGet Gen.netForPrefixKeys Gen.netForPrefixVals hrp

/-- Domain of the model of encode_bech32_checksum: the first byte is 0 or at least `0x50`.
    For first bytes 1..0x4f the code computes a *negative* version, which then indexes the
    alphabet from its end; that is not modelled (the driver answers `bad-op`). -/
def encDomain (s : Bytes) : Bool :=
  match s with
  | [] => true
  | v :: _ => v.toNat = 0 ∨ Gen.encB32OpBase ≤ v.toNat

/-- bech32.encode_bech32_checksum(s, network); `none` = ValueError (unknown network) or
    IndexError (`s` shorter than 2 bytes, or a version ≥ 32).  Only on `encDomain`. -/
def encodeBech32Checksum (s : Bytes) (network : Str) : Option Str :=
  match prefixOf network with
  | none => none
  | some pre =>
    if pre = [] then none else
    match s with
    | v0 :: len :: rest =>
      let version := if cmpAt Gen.encB32Cmp 0 v0.toNat then v0.toNat - Gen.encB32OpBase else v0.toNat
      let data := version :: group32 (rest.take len.toNat)
      match hrpExpand pre with
      | none => none
      | some hx =>
        let checksum := if cmpAt Gen.encB32Cmp 1 version then createChecksum (hx ++ data) else createChecksumM (hx ++ data)
        (lookupAll alphabet (data ++ checksum)).map (fun r => pre ++ Gen.encB32Sep.toList ++ r)
    | _ => none

/-- `s.split(c)` for a one-character separator -/
def splitChar (c : Char) : Str → List Str
  | [] => [[]]
  | x :: xs =>
    if x = c then [] :: splitChar c xs
    else match splitChar c xs with
      | [] => [[x]]
      | p :: ps => (x :: p) :: ps

/-- `number = (number << 5) + digit` over a list -/
def shiftIn (sh : Nat) (l : List Nat) : Nat := l.foldl (fun n d => (n <<< sh) + d) 0

/-- the first lines of decode_bech32: `(hrp, raw_data)`; `none` = KeyError / ValueError of the
    tuple unpacking (`s.split("1")` must give exactly two pieces).  For a string starting with
    the regtest prefix the fifth character is skipped without being looked at. -/
def splitHrp (s : Str) : Option (Str × Str) :=
  match dictGet Gen.prefixKeys Gen.prefixVals Gen.decB32RegtestKey.toList with
  | none => none
  | some regtestPrefix =>
    if regtestPrefix.isPrefixOf s then some (regtestPrefix, s.drop Gen.decB32RegtestSkip)
    else match Gen.decB32Sep.toList with
      | [c] => (match splitChar c s with
                | [a, b] => some (a, b)
                | _ => none)
      | _ => none   -- a multi-character separator is outside the model

/-- the rest of decode_bech32 once `hrp` and `raw_data` are known -/
def decodeBody (hrp rawData : Str) : Option (Str × Nat × Bytes) :=
  match netForPrefix hrp with
  | none => none
  | some network =>
    if network = [] then none else
    match rawData.mapM (fun c => indexOf? c alphabet), hrpExpand hrp with
    | some (version :: dtail), some hx =>
      let data := version :: dtail
      let ok := if cmpAt Gen.decB32Cmp 0 version then verifyChecksum (hx ++ data) else verifyChecksumM (hx ++ data)
      if ¬ ok then none else
      let n := data.length
      -- for n < 7 Python's floor division makes num_bytes negative and to_bytes raises
      if n < Gen.decB32Overhead ∨ n < Gen.decB32Overhead2 then none else
      let number := shiftIn Gen.decB32Shl ((data.take (n - Gen.decB32BodyCut)).drop Gen.decB32BodyFrom)
      let numBytes := (n - Gen.decB32Overhead) * Gen.decB32GroupBits / Gen.decB32ByteBits
      let ignore := (n - Gen.decB32Overhead2) * Gen.decB32GroupBits2 % Gen.decB32ByteBits2
      match natToBE (number >>> ignore) numBytes with
      | none => none
      | some hash =>
        if cmpAt Gen.decB32Cmp 1 numBytes ∨ cmpAt Gen.decB32Cmp 2 numBytes then none
        else some (network, version, hash)
    | _, _ => none

/-- bech32.decode_bech32; returns (network, version, program); `none` = any exception.
    No upper bound on the version is enforced (observation O09b) and padding bits are ignored. -/
def decodeBech32 (s : Str) : Option (Str × Nat × Bytes) :=
  match splitHrp s with
  | none => none
  | some (hrp, rawData) => decodeBody hrp rawData

end Buidl.Bech32
