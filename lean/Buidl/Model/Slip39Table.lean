/-
  Buidl.Model.Slip39Table — `SLIP39 = WordList("slip39_words.txt", 1024)` (buidl/shamir.py, last line).
  A module of its own so that the kernel check of the table depends on nothing else of the Shamir model.
-/
import Buidl.Model.Mnemonic
import Buidl.Gen.Shamir
import Buidl.Gen.Slip39Words
namespace Buidl.Shamir
open Buidl Buidl.Mnemonic

/-- `SLIP39 = WordList("slip39_words.txt", 1024)` -/
def SLIP39? : Option WordList := WordList.load Gen.slip39WordNats Gen.slip39Count

end Buidl.Shamir
