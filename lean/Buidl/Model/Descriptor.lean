/-
  Buidl.Model.Descriptor — buidl/descriptor.py: calc_poly_mod, calc_core_checksum, is_valid_xfp_hex,
  parse_partial_key_record, parse_full_key_record, P2WSHSortedMulti (__init__, __repr__, parse,
  get_address).  Import-free.  Charsets, polymod constants and the constants of
  calc_core_checksum / get_address come from Buidl.Gen.Descriptor.

  The two regular expressions are modelled by hand-written matchers (`matchDescriptor`,
  `matchKeyRecord`) that follow the backtracking order of Python's `re.match` for these two
  patterns; the pattern strings themselves are extracted into Gen (`descriptorRegex`,
  `keyRecordRegex`) and compared with the strings the matchers were written against
  (`regexesAsModelled`), so a changed pattern is visible.
  `none` = the Python raises (any exception).  `hash256`, `sha256`, `hmac`, `h160` are parameters.
-/
import Buidl.Model.HD
import Buidl.Model.Script
import Buidl.Model.Bech32
import Buidl.Gen.Descriptor
namespace Buidl.Descriptor
open Buidl Buidl.EC Buidl.PyStr Buidl.HD

def inputCharset : Str := Gen.descInputCharset.toList
def checksumCharset : Str := Gen.descChecksumCharset.toList

/-- the patterns the hand-written matchers implement -/
def regexesAsModelled : Bool :=
  Gen.keyRecordRegex = "\\[([0-9a-f]{8})\\*?(.*?)\\]([0-9A-Za-z].*)" ∧
  Gen.descriptorRegex = ".*wsh\\(sortedmulti\\(([0-9]*),(.*)\\)\\)(\\#[qpzry9x8gf2tvdw0s3jn54khce6mua7l]{8})?.*"

/-! ### checksum -/

/-- descriptor.calc_poly_mod -/
def polyMod (c val : Nat) : Nat :=
  let c0 := c >>> Gen.polyTopShift
  let c1 := ((c &&& Gen.polyMask) <<< Gen.polyShift) ^^^ val
  Gen.polyGens.foldl (fun acc bg => if c0 &&& bg.1 ≠ 0 then acc ^^^ bg.2 else acc) c1

/-- the `for ch in output_descriptor` loop of calc_core_checksum over a given input charset:
    state (c, cls, clscount); `none` = ValueError (character outside the charset) -/
def ccLoopOn (charset : Str) : Str → Nat → Nat → Nat → Option (Nat × Nat × Nat)
  | [], c, cls, cnt => some (c, cls, cnt)
  | ch :: r, c, cls, cnt =>
    match find? ch charset with
    | none => none
    | some pos =>
      let c := polyMod c (pos &&& Gen.ccSymMask)
      let cls := cls * Gen.ccClsMul + (pos >>> Gen.ccClsShift)
      let cnt := cnt + 1
      if cnt = Gen.ccGroup then ccLoopOn charset r (polyMod c cls) 0 0 else ccLoopOn charset r c cls cnt

/-- the loop with DESCRIPTOR_INPUT_CHARSET -/
def ccLoop (desc : Str) (c cls cnt : Nat) : Option (Nat × Nat × Nat) := ccLoopOn inputCharset desc c cls cnt

/-- the 8 output characters: `CHECKSUM_CHARSET[(c >> (5 * (7 - j))) & 31]` -/
def ccOutput (c : Nat) : Option Str :=
  (List.range Gen.ccOutLen).mapM fun j =>
    if j > Gen.ccOutTop then none   -- negative shift count: ValueError
    else checksumCharset[(c >>> (Gen.ccOutShift * (Gen.ccOutTop - j))) &&& Gen.ccOutMask]?

/-- descriptor.calc_core_checksum -/
def calcCoreChecksum (desc : Str) : Option Str := do
  let (c, cls, cnt) ← ccLoop desc Gen.ccInit 0 0
  let c := if cnt > 0 then polyMod c cls else c
  let c := (List.range Gen.ccFinalRounds).foldl (fun c _ => polyMod c 0) c
  ccOutput (c ^^^ Gen.ccFinalXor)

/-! ### key records -/

def isHexLower (c : Char) : Bool := ('0' ≤ c ∧ c ≤ '9') ∨ ('a' ≤ c ∧ c ≤ 'f')
def isAlnum (c : Char) : Bool := ('0' ≤ c ∧ c ≤ '9') ∨ ('a' ≤ c ∧ c ≤ 'z') ∨ ('A' ≤ c ∧ c ≤ 'Z')

/-- helper.uses_only_hex_chars: `^[0-9a-f]*$` on `string.lower()` (`$` also matches before a final newline) -/
def usesOnlyHexChars (s : Str) : Bool :=
  let l := lower s
  let body := if l.getLast? = some '\n' then l.dropLast else l
  body.all isHexLower

/-- descriptor.is_valid_xfp_hex -/
def isValidXfpHex (s : Str) : Bool := s.length = Gen.xfpHexLen ∧ usesOnlyHexChars s

/-- a key-record dict as read by P2WSHSortedMulti.__init__ -/
structure KeyRecord where
  xfp : Str
  path : Str
  xpubParent : Str
  accountIndex : Int
deriving DecidableEq, Repr

/-- `re.match(r"\[([0-9a-f]{8})\*?(.*?)\]([0-9A-Za-z].*)", s)`: (xfp, path, xpub).
    `.` does not match a newline, so everything happens on the first line. -/
def lazyBracket : Str → Str → Option (Str × Str)
  | [], _ => none
  | c :: r, acc =>
    if c = ']' && (match r with | x :: _ => isAlnum x | [] => false) then some (acc.reverse, r)
    else lazyBracket r (c :: acc)

/-- the optional `\*?` after the fingerprint (greedy: consumed when present) -/
def dropStar : Str → Str
  | '*' :: r => r
  | r => r

def matchKeyRecord (s : Str) : Option (Str × Str × Str) :=
  match s with
  | '[' :: r =>
    let xfp := r.take 8
    if xfp.length ≠ 8 ∨ ¬ xfp.all isHexLower then none else
    let r := r.drop 8
    let r := dropStar r
    let line := r.takeWhile (· ≠ '\n')
    (lazyBracket line []).map fun (path, xpub) => (xfp, path, xpub)
  | _ => none

section
variable (hash256 : Bytes → Bytes)

/-- descriptor.parse_partial_key_record: (xfp, path, xpub, network) -/
def parsePartialKeyRecord (s : Str) : Option (Str × Str × Str × String) := do
  let (xfp, path, xpub) ← matchKeyRecord s
  let path := 'm' :: path
  if ¬ isValidBip32Path path then none
  let pk ← HDPub.parse hash256 xpub
  pure (xfp, path, xpub, pk.network)

variable (hmac : Bytes → Bytes → Bytes) (h160 : Bytes → Bytes)

/-- descriptor.parse_full_key_record (the returned dict, restricted to the keys __init__ reads): the text must
    end with `/<int>/*`; the rest is a partial key record; the account child of the xpub must be derivable and
    serialisable (`xpub_child`) -/
def parseFullKeyRecord (s : Str) : Option KeyRecord :=
  let parts := split '/' s
  let n := parts.length
  if parts.getLast? ≠ some ['*'] then none
  else if n < 2 then none   -- parts[-2]: IndexError
  else
    let acct := parts.getD (n - 2) []
    if ¬ isIntable acct then none
    else
      (parsePartialKeyRecord hash256 (join '/' (parts.take (n - 2)))).bind fun (xfp, path, xpub, _) =>
        (pyInt acct).bind fun ai =>
          (HDPub.parse hash256 xpub).bind fun parent =>
            (parent.childI hmac h160 ai).bind fun child =>
              (child.xpub hash256 none).map fun _ =>
                { xfp := xfp, path := path, xpubParent := xpub, accountIndex := ai }

end

/-! ### P2WSHSortedMulti -/

/-- the attributes of a P2WSHSortedMulti instance -/
structure Desc where
  m : Nat
  keyRecords : List KeyRecord
  network : String
  text : Str
  checksum : Str
deriving DecidableEq, Repr

/-- the per-record part of the descriptor text:
    `,[{xfp}{path[1:]}]{xpub_parent}/{account_index}/*` -/
def recordText (kr : KeyRecord) : Str :=
  [',', '['] ++ kr.xfp ++ kr.path.drop 1 ++ [']'] ++ kr.xpubParent ++ ['/'] ++ intStr kr.accountIndex ++ ['/', '*']

/-- `wsh(sortedmulti({m}` … `))` -/
def descriptorText (m : Nat) (krs : List KeyRecord) : Str :=
  "wsh(sortedmulti(".toList ++ natStr m ++ (krs.map recordText).flatten ++ [')', ')']

section
variable (hash256 : Bytes → Bytes)

/-- one iteration of the validation loop of __init__: the record to save and the network of its xpub.
    `HDPublicKey(**attrs without pub_version).xpub()` is the serialisation with the default version of the
    parsed network. -/
def checkRecord (kr : KeyRecord) : Option (KeyRecord × String) :=
  if ¬ isValidBip32Path kr.path then none
  else if ¬ isValidXfpHex kr.xfp then none
  else
    (HDPub.parse hash256 kr.xpubParent).bind fun pk =>
      (mkPub pk.point pk.chainCode pk.depth pk.parentFp pk.childNumber pk.network none).bind fun norm =>
        (norm.xpub hash256 none).map fun xpub => ({ kr with xpubParent := xpub }, pk.network)

/-- `if network is None: network = n` / `elif n != network: raise` -/
def mergeNet (net : Option String) (n : String) : Option String :=
  match net with
  | none => some n
  | some n0 => if n ≠ n0 then none else some n0

/-- the loop over key_records with the network consistency check -/
def checkRecords : List KeyRecord → Option String → Option (List KeyRecord × Option String)
  | [], net => some ([], net)
  | kr :: rest, net =>
    (checkRecord hash256 kr).bind fun (saved, n) =>
      (mergeNet net n).bind fun net' =>
        (checkRecords rest (some net')).map fun (more, netF) => (saved :: more, netF)

/-- P2WSHSortedMulti.__init__ up to and including `calculated_checksum = calc_core_checksum(descriptor_text)` -/
def constructCore (m : Int) (krs : List KeyRecord) (sortKeyRecords : Bool) : Option Desc :=
  if m < (Gen.quorumMin : Int) then none
  else if krs = [] then none
  else
    (checkRecords hash256 krs none).bind fun (saved, net) =>
      net.bind fun network =>
        let saved := if sortKeyRecords then saved.mergeSort (fun a b => strLe a.xpubParent b.xpubParent) else saved
        let text := descriptorText m.toNat saved
        (calcCoreChecksum text).map fun calculated =>
          { m := m.toNat, keyRecords := saved, network := network, text := text, checksum := calculated }

/-- P2WSHSortedMulti.__init__(quorum_m, key_records, checksum, sort_key_records): the last step compares a
    supplied (non-empty) checksum with the calculated one -/
def construct (m : Int) (krs : List KeyRecord) (checksum : Str) (sortKeyRecords : Bool) : Option Desc :=
  (constructCore hash256 m krs sortKeyRecords).bind fun d =>
    if checksum ≠ [] ∧ d.checksum ≠ checksum then none else some d

end

/-- `__repr__`: `{descriptor_text}#{checksum}` -/
def Desc.repr (d : Desc) : Str := d.text ++ '#' :: d.checksum

/-! ### P2WSHSortedMulti.parse -/

def isBech32Char (c : Char) : Bool := "qpzry9x8gf2tvdw0s3jn54khce6mua7l".toList.contains c

/-- greedy `(.*)\)\)`: split at the LAST occurrence of `))` — (what precedes it, what follows it) -/
def splitLastParens : Str → Option (Str × Str)
  | [] => none
  | c :: r =>
    match splitLastParens r with
    | some (a, b) => some (c :: a, b)
    | none =>
      if c = ')' then
        match r with
        | ')' :: b => some ([], b)
        | _ => none
      else none

/-- the optional group `(\#[qpzry9x8gf2tvdw0s3jn54khce6mua7l]{8})?` right after the `))` (without its `#`) -/
def checksumGroup (rest : Str) : Option Str :=
  match rest with
  | '#' :: t => if (t.take 8).length = 8 ∧ (t.take 8).all isBech32Char then some (t.take 8) else none
  | _ => none

/-- after the literal `wsh(sortedmulti(`: `([0-9]*),(.*)\)\)(\#[…]{8})?` — (m digits, key records, checksum group) -/
def matchAfterLiteral (r : Str) : Option (Str × Str × Option Str) :=
  let digits := r.takeWhile Char.isDigit
  match r.drop digits.length with
  | ',' :: body =>
    match splitLastParens body with
    | none => none
    | some (krs, rest) => some (digits, krs, checksumGroup rest)
  | _ => none

/-- the literal text of the pattern -/
def wshLiteral : Str := "wsh(sortedmulti(".toList

/-- greedy leading `.*`: the LAST position at which the literal occurs and the rest of the pattern matches wins
    (later positions are tried first) -/
def matchFromLast : Str → Option (Str × Str × Option Str)
  | [] => none
  | c :: r =>
    match matchFromLast r with
    | some x => some x
    | none => if wshLiteral.isPrefixOf (c :: r) then matchAfterLiteral ((c :: r).drop wshLiteral.length) else none

/-- `re.match(r".*wsh\(sortedmulti\(([0-9]*),(.*)\)\)(\#[…]{8})?.*", s)`; `.` does not match a newline, so
    everything happens on the first line -/
def matchDescriptor (s : Str) : Option (Str × Str × Option Str) :=
  matchFromLast (s.takeWhile (· ≠ '\n'))

section
variable (hash256 : Bytes → Bytes) (hmac : Bytes → Bytes → Bytes) (h160 : Bytes → Bytes)

/-- P2WSHSortedMulti.parse: with a `#` anywhere in the record the checksum group must have matched; the
    threshold may not exceed the number of key records; then the constructor (no re-sorting) -/
def parse (outputRecord : Str) : Option Desc :=
  let rec_ := unescapeSlashes (strip outputRecord)
  (matchDescriptor rec_).bind fun (mStr, krsStr, csGroup) =>
    (if rec_.contains '#' then csGroup else some []).bind fun checksum =>
      (pyInt mStr).bind fun m =>
        ((split ',' krsStr).mapM (parseFullKeyRecord hash256 hmac h160)).bind fun krs =>
          if m > (krs.length : Int) then none else construct hash256 m krs checksum false

end

/-! ### get_address -/

/-- op.number_to_op_code for n ≥ 0 -/
def numberToOpCode (n : Nat) : Option Nat :=
  if n > Gen.opNumMax then none else if n = 0 then some 0 else some (n + Gen.opNumBase)

section
variable (hash256 sha256 : Bytes → Bytes) (hmac : Bytes → Bytes → Bytes) (h160 : Bytes → Bytes)

/-- the child index used for a cosigner: `account_index + 1` for change -/
def accountFor (kr : KeyRecord) (isChange : Bool) : Int :=
  if isChange then kr.accountIndex + (Gen.changeOffset : Int) else kr.accountIndex

/-- the SEC public key of one cosigner at (is_change, offset) -/
def leafSec (kr : KeyRecord) (offset : Nat) (isChange : Bool) : Option Bytes := do
  let hd ← HDPub.parse hash256 kr.xpubParent
  let acct ← hd.childI hmac h160 (accountFor kr isChange)
  let leaf ← acct.child hmac h160 offset
  sec leaf.point true

/-- the witness script `m <keys…> n OP_CHECKMULTISIG` -/
def multisigScript (m : Nat) (keys : List Bytes) : Option Script.Script := do
  let mOp ← numberToOpCode m
  let nOp ← numberToOpCode keys.length
  pure { cmds := [Script.Cmd.op mOp] ++ keys.map Script.Cmd.push ++ [Script.Cmd.op nOp, Script.Cmd.op Gen.opCheckMultisig] }

/-- `P2WSHScriptPubKey(sha256(witness_script.raw_serialize())).address(network)` -/
def p2wshAddress (ws : Script.Script) (network : String) : Option Str := do
  let raw ← Script.rawSerialize ws
  let spk : Script.Script := { cmds := [Script.Cmd.op Gen.p2wshVersionOp, Script.Cmd.push (sha256 raw)] }
  let prog ← Script.rawSerialize spk
  Bech32.encodeBech32Checksum prog network.toList

/-- `sorted(sec_hexes)`: lower-case hex of equal-length byte strings sorts as the bytes do -/
def sortKeys (keys : List Bytes) : List Bytes := keys.mergeSort bytesLe

/-- P2WSHSortedMulti.get_address(offset, is_change, sort_keys) -/
def getAddress (d : Desc) (offset : Nat) (isChange : Bool) (sortKeysFlag : Bool := true) : Option Str := do
  let secs ← d.keyRecords.mapM (fun kr => leafSec hash256 hmac h160 kr offset isChange)
  let keys := if sortKeysFlag then sortKeys secs else secs
  let mOp ← numberToOpCode d.m
  let nOp ← numberToOpCode d.keyRecords.length
  let ws : Script.Script :=
    { cmds := [Script.Cmd.op mOp] ++ keys.map Script.Cmd.push ++ [Script.Cmd.op nOp, Script.Cmd.op Gen.opCheckMultisig] }
  p2wshAddress sha256 ws d.network

end

end Buidl.Descriptor
