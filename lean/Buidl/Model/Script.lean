/-
  Buidl.Model.Script — buidl/script.py: Script.parse / raw_serialize / serialize (the codec;
  the interpreter is Buidl.Model.Interp).  Import-free.  Thresholds and their comparison
  operators are re-extracted from the source (Buidl.Gen.Script).
-/
import Buidl.Model.Bytes
import Buidl.Gen.Script
namespace Buidl.Script
open Buidl

/-- a script command: an opcode (Python `int`) or a data element (Python `bytes`) -/
inductive Cmd where
  | op (n : Nat)
  | push (b : Bytes)
deriving DecidableEq, Repr, Inhabited

/-- `Script`: the command list and the `raw` attribute (set by `parse` when the bytes promised
    by a push were not all there; `raw_serialize` then returns it verbatim) -/
structure Script where
  cmds : List Cmd
  raw  : Option Bytes := none
deriving DecidableEq, Repr

/-- the loop of Script.parse over the remaining bytes.  Returns the commands and whether every
    read was complete (`count == length` at the end).  A short read can only be the last
    command.  Fuel = number of remaining bytes + 1 (each iteration consumes at least one). -/
def parseLoop : Nat → Bytes → List Cmd → List Cmd × Bool
  | 0, _, acc => (acc.reverse, true)
  | _ + 1, [], acc => (acc.reverse, true)
  | fuel + 1, c :: r, acc =>
    let cb := c.toNat
    if cmpAt Gen.parseCmp 0 cb && cmpAt Gen.parseCmp 1 cb then
      let d := r.take cb
      if d.length < cb then ((Cmd.push d :: acc).reverse, false)
      else parseLoop fuel (r.drop cb) (Cmd.push d :: acc)
    else if cmpAt Gen.parseCmp 2 cb then
      let l := r.take 1; let r := r.drop 1
      let n := leToNat l
      let d := r.take n
      if l.length < 1 ∨ d.length < n then ((Cmd.push d :: acc).reverse, false)
      else parseLoop fuel (r.drop n) (Cmd.push d :: acc)
    else if cmpAt Gen.parseCmp 3 cb then
      let l := r.take 2; let r := r.drop 2
      let n := leToNat l
      let d := r.take n
      if l.length < 2 ∨ d.length < n then ((Cmd.push d :: acc).reverse, false)
      else parseLoop fuel (r.drop n) (Cmd.push d :: acc)
    else if cmpAt Gen.parseCmp 4 cb then
      let l := r.take 4; let r := r.drop 4
      let n := leToNat l
      let d := r.take n
      if l.length < 4 ∨ d.length < n then ((Cmd.push d :: acc).reverse, false)
      else parseLoop fuel (r.drop n) (Cmd.push d :: acc)
    else parseLoop fuel r (Cmd.op cb :: acc)

/-- Script.parse(raw=…): never raises -/
def parseRaw (raw : Bytes) : Script :=
  let (cmds, ok) := parseLoop (raw.length + 1) raw []
  { cmds := cmds, raw := if ok then none else some raw }

/-- Script.parse(stream): `read_varstr` then `parseRaw`; `none` = read_varstr raised -/
def parse (s : Bytes) : Option (Script × Bytes) := do
  let (raw, rest) ← readVarstr s
  pure (parseRaw raw, rest)

/-- int_to_byte: ValueError outside 0..255 -/
def intToByte (n : Nat) : Option Bytes := if n ≤ 255 then some [UInt8.ofNat n] else none

/-- one command of Script.raw_serialize; `none` = ValueError -/
def serCmd : Cmd → Option Bytes
  | .op n => intToByte n
  | .push d =>
    let len := d.length
    if cmpAt Gen.rawSerCmp 0 len then (intToByte len).map (· ++ d)
    else if cmpAt Gen.rawSerCmp 1 len && cmpAt Gen.rawSerCmp 2 len then do
      let a ← intToByte Gen.rawSerPushdata1
      let b ← intToByte len
      pure (a ++ b ++ d)
    else if cmpAt Gen.rawSerCmp 3 len && cmpAt Gen.rawSerCmp 4 len then do
      let a ← intToByte Gen.rawSerPushdata2
      let b ← natToLE len 2
      pure (a ++ b ++ d)
    else none

def serCmds : List Cmd → Option Bytes
  | [] => some []
  | c :: cs => do
    let a ← serCmd c
    let b ← serCmds cs
    pure (a ++ b)

/-- Script.raw_serialize (`if self.raw:` — an empty `raw` is falsy) -/
def rawSerialize (s : Script) : Option Bytes :=
  match s.raw with
  | some r => if r ≠ [] then some r else serCmds s.cmds
  | none => serCmds s.cmds

/-- Script.serialize -/
def serialize (s : Script) : Option Bytes := do
  let r ← rawSerialize s
  encodeVarstr r

end Buidl.Script
