/-
  Buidl.Model.ECDSAMessage — PrivateKey.sign_message / S256Point.verify_message (buidl/pecc.py):
  both hash the message with hash256 and hand the big-endian integer to sign / verify.
  (A separate file so that the ECDSA model and everything proved from it stay untouched.)
  Import-free apart from the models.
-/
import Buidl.Model.ECDSA
namespace Buidl.ECDSA
open Buidl Buidl.EC

/-- `z = big_endian_to_int(hash256(message))` — the digest both message functions compute -/
def messageDigest (hash256 : Bytes → Bytes) (message : Bytes) : Nat := beToNat (hash256 message)

/-- `PrivateKey(d).sign_message(message)` -/
def signMessage (hash256 : Bytes → Bytes) (hmac : Bytes → Bytes → Bytes) (fuel : Nat) (d : Nat) (message : Bytes) :
    Except SignErr (Nat × Nat) :=
  sign hmac fuel d (messageDigest hash256 message)

/-- `S256Point.verify_message(message, Signature(r, s))` -/
def verifyMessage (hash256 : Bytes → Bytes) (Q : Pt) (message : Bytes) (r s : Nat) : Option Bool :=
  verify Q (messageDigest hash256 message) r s

end Buidl.ECDSA
