/-
  Buidl.Model.Tx — buidl/tx.py (Tx, TxIn, TxOut, TxFetcher.fetch), buidl/witness.py (Witness),
  buidl/timelock.py (Locktime / Sequence range checks and 4-byte codecs): the wire codec, the
  transaction id, the fetcher's integrity check, and the three signature-hash algorithms with
  their dispatcher.  Lean core only (imports the shared Bytes/Script models and Buidl.Gen).

  The model describes the code with the `fix:` patches F04b, F05a, F05b, F05c, F05d, F05e, F05f applied
  (work/C04, work/C05).  The midstate memoisation that F05d removes is kept as the variant
  `memo = true` of the state machine (`Buidl.Gen.sighashMemo` says which variant the source has).

  Hash functions are parameters.  A Python exception is `none`.
-/
import Buidl.Model.Script
import Buidl.Gen.Tx
namespace Buidl.Tx
open Buidl Buidl.Script

/-! ## data -/

/-- witness.Witness: the item list (`self.items = items or []`) -/
structure Witness where
  items : List Bytes := []
deriving DecidableEq, Repr

/-- tx.TxIn.  `prevTx` is the attribute `prev_tx` (display order, the reverse of the wire order);
    `value` / `scriptPubkey` are `_value` / `_script_pubkey` (`none` = not set: the code would
    ask the fetcher, which the model treats as an error). -/
structure TxIn where
  prevTx : Bytes
  prevIndex : Nat
  scriptSig : Script := { cmds := [] }
  sequence : Nat
  witness : Witness := {}
  value : Option Nat := none
  scriptPubkey : Option Script := none
deriving DecidableEq, Repr

structure TxOut where
  amount : Nat
  scriptPubkey : Script
deriving DecidableEq, Repr

structure Tx where
  version : Nat
  ins : List TxIn
  outs : List TxOut
  locktime : Nat
  segwit : Bool
deriving DecidableEq, Repr

/-! ## script templates (script.py is_p2pkh … is_p2tr, P2PKHScriptPubKey) -/

def isP2pkh (s : Script) : Bool :=
  match s.cmds with
  | [.op 0x76, .op 0xA9, .push h, .op 0x88, .op 0xAC] => h.length == 20
  | _ => false

def isP2sh (s : Script) : Bool :=
  match s.cmds with
  | [.op 0xA9, .push h, .op 0x87] => h.length == 20
  | _ => false

def isP2wpkh (s : Script) : Bool :=
  match s.cmds with
  | [.op 0, .push h] => h.length == 20
  | _ => false

def isP2wsh (s : Script) : Bool :=
  match s.cmds with
  | [.op 0, .push h] => h.length == 32
  | _ => false

def isP2tr (s : Script) : Bool :=
  match s.cmds with
  | [.op 0x51, .push h] => h.length == 32
  | _ => false

/-- P2PKHScriptPubKey(h160).commands -/
def p2pkhScript (h : Bytes) : Script := { cmds := [.op 0x76, .op 0xA9, .push h, .op 0x88, .op 0xAC] }

/-- ScriptPubKey.parse: Script.parse, then a script matching one of the five templates is
    rebuilt from its hash (a fresh object: same commands, `raw` unset) -/
def parseScriptPubKey (s : Bytes) : Option (Script × Bytes) := do
  let (sc, rest) ← Script.parse s
  if isP2pkh sc || isP2sh sc || isP2wpkh sc || isP2wsh sc || isP2tr sc then
    pure ({ cmds := sc.cmds, raw := none }, rest)
  else pure (sc, rest)

/-- the two source-derivable deviation switches of this model (DESIGN 2.3).
    `memo`: the midstate helpers memoise in `_hash_*` / `_sha_*` (today's code; F05d removes it).
    `annexMin`: least number of witness elements for `has_annex` (1 = today's bare truthiness
    test `len(self.items) and …`; 2 = BIP341, F05f). -/
structure Cfg where
  memo : Bool
  annexMin : Nat
deriving DecidableEq, Repr

/-- the code with F05d and F05f repaired: what the theorems are about -/
def Cfg.repaired : Cfg := { memo := false, annexMin := 2 }
/-- what the source says now (re-extracted on every run); the driver runs this variant -/
def Cfg.ofSource : Cfg := { memo := Gen.sighashMemo, annexMin := Gen.annexMinItems }
/-- the unrepaired code -/
def Cfg.asWas : Cfg := { memo := true, annexMin := 1 }

/-! ## Witness codec (witness.py) -/

def serItems : List Bytes → Option Bytes
  | [] => some []
  | i :: r => do
    let a ← encodeVarstr i
    let b ← serItems r
    pure (a ++ b)

/-- Witness.serialize -/
def Witness.serialize (w : Witness) : Option Bytes := do
  let n ← encodeVarint w.items.length
  let b ← serItems w.items
  pure (n ++ b)

/-- `for _ in range(num_items): items.append(read_varstr(s))` (read_varstr raises at end of stream,
    so at most one iteration per remaining byte succeeds) -/
def parseItems : Nat → Bytes → Option (List Bytes × Bytes)
  | 0, s => some ([], s)
  | n + 1, s => do
    let (i, s) ← readVarstr s
    let (r, s) ← parseItems n s
    pure (i :: r, s)

/-- Witness.parse -/
def Witness.parse (s : Bytes) : Option (Witness × Bytes) := do
  let (n, s) ← readVarint s
  let (items, s) ← parseItems n s
  pure ({ items := items }, s)

/-- Witness.has_annex: `len(self.items) >= 2 and self.items[-1][0] == 0x50` (F05f repaired; the
    least count is `cfg.annexMin`).  `none` = IndexError on an empty last item. -/
def Witness.hasAnnex (cfg : Cfg) (w : Witness) : Option Bool :=
  if w.items.length < cfg.annexMin then some false else
  match w.items.getLast? with
  | none => some false
  | some [] => none
  | some (b :: _) => some (b.toNat == Gen.annexTag)

/-! ## TxIn / TxOut codec -/

/-- Sequence(n) / Locktime(n) constructor range test -/
def inRange (n max : Nat) : Bool := n ≤ max

/-- TxIn.serialize -/
def TxIn.serialize (i : TxIn) : Option Bytes := do
  let idx ← natToLE i.prevIndex Gen.txinSerIndexW
  let sc ← Script.serialize i.scriptSig
  let sq ← natToLE i.sequence Gen.sequenceSerW
  pure (i.prevTx.reverse ++ idx ++ sc ++ sq)

/-- TxIn.parse (short reads of the fixed-width fields are not errors) -/
def TxIn.parse (s : Bytes) : Option (TxIn × Bytes) := do
  let (p, s) := sread Gen.txinParPrevW s
  let (ix, s) := sread Gen.txinParIndexW s
  let (sc, s) ← Script.parse s
  let (sq, s) := sread Gen.sequenceParW s
  if !inRange (leToNat sq) Gen.maxSequence then none else
  pure ({ prevTx := p.reverse, prevIndex := leToNat ix, scriptSig := sc, sequence := leToNat sq }, s)

/-- TxOut.serialize -/
def TxOut.serialize (o : TxOut) : Option Bytes := do
  let a ← natToLE o.amount Gen.txoutSerAmountW
  let sc ← Script.serialize o.scriptPubkey
  pure (a ++ sc)

/-- TxOut.parse -/
def TxOut.parse (s : Bytes) : Option (TxOut × Bytes) := do
  let (a, s) := sread Gen.txoutParAmountW s
  let (sc, s) ← parseScriptPubKey s
  pure ({ amount := leToNat a, scriptPubkey := sc }, s)

/-! ## Tx codec -/

def serIns : List TxIn → Option Bytes
  | [] => some []
  | i :: r => do
    let a ← i.serialize
    let b ← serIns r
    pure (a ++ b)

def serOuts : List TxOut → Option Bytes
  | [] => some []
  | o :: r => do
    let a ← o.serialize
    let b ← serOuts r
    pure (a ++ b)

/-- Tx.serialize_witness -/
def serWitnesses : List TxIn → Option Bytes
  | [] => some []
  | i :: r => do
    let a ← i.witness.serialize
    let b ← serWitnesses r
    pure (a ++ b)

/-- Tx.serialize_legacy -/
def Tx.serializeLegacy (t : Tx) : Option Bytes := do
  let v ← natToLE t.version Gen.serLegacyVersionW
  let n ← encodeVarint t.ins.length
  let i ← serIns t.ins
  let m ← encodeVarint t.outs.length
  let o ← serOuts t.outs
  let l ← natToLE t.locktime Gen.locktimeSerW
  pure (v ++ n ++ i ++ m ++ o ++ l)

/-- Tx.serialize_segwit -/
def Tx.serializeSegwit (t : Tx) : Option Bytes := do
  let v ← natToLE t.version Gen.serSegwitVersionW
  let n ← encodeVarint t.ins.length
  let i ← serIns t.ins
  let m ← encodeVarint t.outs.length
  let o ← serOuts t.outs
  let w ← serWitnesses t.ins
  let l ← natToLE t.locktime Gen.locktimeSerW
  pure (v ++ Gen.serSegwitMarker ++ n ++ i ++ m ++ o ++ w ++ l)

/-- Tx.serialize -/
def Tx.serialize (t : Tx) : Option Bytes :=
  if t.segwit then t.serializeSegwit else t.serializeLegacy

def parseIns : Nat → Bytes → Option (List TxIn × Bytes)
  | 0, s => some ([], s)
  | n + 1, s => do
    let (i, s) ← TxIn.parse s
    let (r, s) ← parseIns n s
    pure (i :: r, s)

def parseOuts : Nat → Bytes → Option (List TxOut × Bytes)
  | 0, s => some ([], s)
  | n + 1, s => do
    let (o, s) ← TxOut.parse s
    let (r, s) ← parseOuts n s
    pure (o :: r, s)

/-- `for tx_in in inputs: tx_in.witness = Witness.parse(s)` -/
def parseWitnesses : List TxIn → Bytes → Option (List TxIn × Bytes)
  | [], s => some ([], s)
  | i :: r, s => do
    let (w, s) ← Witness.parse s
    let (r', s) ← parseWitnesses r s
    pure ({ i with witness := w } :: r', s)

/-- Tx.parse_legacy -/
def Tx.parseLegacy (s : Bytes) : Option (Tx × Bytes) := do
  let (v, s) := sread Gen.parLegacyVersionW s
  let (n, s) ← readVarint s
  let (ins, s) ← parseIns n s
  let (m, s) ← readVarint s
  let (outs, s) ← parseOuts m s
  let (l, s) := sread Gen.locktimeParW s
  if !inRange (leToNat l) Gen.maxLocktime then none else
  pure ({ version := leToNat v, ins := ins, outs := outs, locktime := leToNat l, segwit := false }, s)

/-- Tx.parse_segwit -/
def Tx.parseSegwit (s : Bytes) : Option (Tx × Bytes) := do
  let (v, s) := sread Gen.parSegwitVersionW s
  let (marker, s) := sread Gen.parSegwitMarkerW s
  if marker ≠ Gen.parSegwitMarker then none else
  let (n, s) ← readVarint s
  let (ins, s) ← parseIns n s
  let (m, s) ← readVarint s
  let (outs, s) ← parseOuts m s
  let (ins, s) ← parseWitnesses ins s
  let (l, s) := sread Gen.locktimeParW s
  if !inRange (leToNat l) Gen.maxLocktime then none else
  pure ({ version := leToNat v, ins := ins, outs := outs, locktime := leToNat l, segwit := true }, s)

/-- Tx.parse: look at the fifth byte, seek back (`s.seek(-5, 1)` raises ValueError when fewer
    than five bytes were read), run the chosen parser -/
def Tx.parse (s : Bytes) : Option (Tx × Bytes) :=
  let (_, r) := sread Gen.sniffSkip s
  let (m, r') := sread Gen.sniffWidth r
  let consumed := s.length - r'.length
  if consumed < Gen.sniffSeekBack then none
  else
    let s' := s.drop (consumed - Gen.sniffSeekBack)
    if m = Gen.sniffMarker then Tx.parseSegwit s' else Tx.parseLegacy s'

/-! ## transaction id -/

def hexDigit (n : Nat) : Char :=
  if n < 10 then Char.ofNat (n + 48) else Char.ofNat (n + 87)

/-- bytes.hex() -/
def toHex (b : Bytes) : String :=
  String.ofList (b.foldr (fun x acc => hexDigit (x.toNat / 16) :: hexDigit (x.toNat % 16) :: acc) [])

/-- Tx.hash: `hash256(self.serialize_legacy())[::-1]` -/
def Tx.hash (hash256 : Bytes → Bytes) (t : Tx) : Option Bytes :=
  (t.serializeLegacy).map fun b => (hash256 b).reverse

/-- Tx.id -/
def Tx.id (hash256 : Bytes → Bytes) (t : Tx) : Option String :=
  (t.hash hash256).map toHex

/-! ## TxFetcher.fetch (the `fresh` path; `urlopen(...).read().decode("utf-8")` is the argument) -/

/-- characters removed by `str.strip()` (ASCII and Latin-1 white space; the harness only sends these) -/
def pyIsSpace (c : Char) : Bool :=
  c = ' ' || c = '\t' || c = '\n' || c = '\r' || c.toNat = 0x0b || c.toNat = 0x0c ||
  (0x1c ≤ c.toNat && c.toNat ≤ 0x1f) || c.toNat = 0x85 || c.toNat = 0xa0 || c.toNat = 0x1680 ||
  (0x2000 ≤ c.toNat && c.toNat ≤ 0x200a) || c.toNat = 0x2028 || c.toNat = 0x2029 || c.toNat = 0x202f ||
  c.toNat = 0x205f || c.toNat = 0x3000

def pyStrip (s : List Char) : List Char :=
  ((s.dropWhile pyIsSpace).reverse.dropWhile pyIsSpace).reverse

/-- white space `bytes.fromhex` skips between byte pairs (Py_ISSPACE) -/
def hexIsSpace (c : Char) : Bool :=
  c = ' ' || c = '\t' || c = '\n' || c = '\r' || c.toNat = 0x0b || c.toNat = 0x0c

def hexVal (c : Char) : Option Nat :=
  if '0' ≤ c ∧ c ≤ '9' then some (c.toNat - 48)
  else if 'a' ≤ c ∧ c ≤ 'f' then some (c.toNat - 87)
  else if 'A' ≤ c ∧ c ≤ 'F' then some (c.toNat - 55)
  else none

/-- bytes.fromhex: white space is skipped before a pair, never inside one -/
def fromHexAux : List Char → List UInt8 → Option Bytes
  | [], acc => some acc.reverse
  | [c], acc => if hexIsSpace c then some acc.reverse else none
  | c :: d :: r, acc =>
    if hexIsSpace c then fromHexAux (d :: r) acc
    else match hexVal c, hexVal d with
      | some x, some y => fromHexAux r (UInt8.ofNat (16 * x + y) :: acc)
      | _, _ => none

def fromHex (s : List Char) : Option Bytes := fromHexAux s []

/-- TxFetcher.fetch(tx_id, network, fresh=True) as a function of the server's response text.
    `none` = any exception (unknown network, non-hex response, unparsable bytes, "server lied"). -/
def fetch (hash256 : Bytes → Bytes) (network txId response : String) : Option Tx :=
  if ¬ Gen.fetchNetworks.contains network then none else
  match fromHex (pyStrip response.toList) with
  | none => none
  | some raw =>
    match Tx.parse raw with
    | none => none
    | some (tx, _) =>
      match tx.id hash256 with
      | none => none
      | some computed => if computed ≠ txId then none else some tx

/-! ### the fetcher as a state machine over the class-level cache `TxFetcher.cache` -/

/-- `TxFetcher.cache`: a dict from requested id to transaction (association list, at most one
    entry per key) -/
abbrev FetchCache := List (String × Tx)

def cacheGet : FetchCache → String → Option Tx
  | [], _ => none
  | (k, t) :: r, key => if k = key then some t else cacheGet r key

/-- `cache[key] = tx` (an existing key keeps its position, as in a Python dict) -/
def cacheSet : FetchCache → String → Tx → FetchCache
  | [], key, tx => [(key, tx)]
  | (k, t) :: r, key, tx => if k = key then (k, tx) :: r else (k, t) :: cacheSet r key tx

/-- one call `TxFetcher.fetch(tx_id, network, fresh)`; `response` is what the server would answer
    if it were asked -/
structure FetchCall where
  txId : String
  network : String
  response : String
  fresh : Bool

/-- TxFetcher.fetch on the shared cache: the answer (`none` = raised) and the cache afterwards.
    The server is asked only when `fresh` or the id is not cached; the cache is written only after
    the id check succeeded (an exception leaves it as it was); a cache hit is returned as it is
    (neither the network's URL nor the server is consulted). -/
def fetchStep (hash256 : Bytes → Bytes) (c : FetchCache) (call : FetchCall) : Option Tx × FetchCache :=
  if call.fresh ∨ (cacheGet c call.txId).isNone then
    match fetch hash256 call.network call.txId call.response with
    | none => (none, c)
    | some tx => (some tx, cacheSet c call.txId tx)
  else (cacheGet c call.txId, c)

/-- a history of calls: the answers in order and the final cache -/
def fetchRun (hash256 : Bytes → Bytes) : FetchCache → List FetchCall → List (Option Tx) × FetchCache
  | c, [] => ([], c)
  | c, call :: r =>
    let (a, c') := fetchStep hash256 c call
    let (as, c'') := fetchRun hash256 c' r
    (a :: as, c'')

/-! ## signature hashes -/

/-- `hash_type & SIGHASH_ANYONECANPAY` is non-zero -/
def acp (ht : Nat) : Bool := ht &&& Gen.sighashAcp != 0

/-- `hash_type & 3` -/
def base (ht : Nat) : Nat := ht &&& 3

/-- int_to_byte -/
def byteOf (n : Nat) : Option Bytes := if n ≤ 255 then some [UInt8.ofNat n] else none

/-- result of sig_hash_legacy before hashing: the constant `1 << 248` or a preimage -/
inductive LegacyPre where
  | one
  | pre (b : Bytes)
deriving DecidableEq, Repr

/-- the script placed in the input being signed: `redeem_script` if given, else that input's
    `script_pubkey()` -/
def legacyCode (redeem : Option Script) (txin : TxIn) : Option Script :=
  match redeem with
  | some rs => some rs
  | none => txin.scriptPubkey

/-- the input loop of sig_hash_legacy (`k` = enumerate index).  `code` is the script placed in the
    input being signed: the redeem script if given, else that input's `_script_pubkey`. -/
def legacyIns (i ht : Nat) (redeem : Option Script) : Nat → List TxIn → Option Bytes
  | _, [] => some []
  | k, txin :: r => do
    let sc ← if k = i then legacyCode redeem txin else some { cmds := [] }
    let seq := if k ≠ i ∧ (base ht = Gen.sighashNone ∨ base ht = Gen.sighashSingle) then 0 else txin.sequence
    -- TxIn(...): Sequence(sequence) re-validates
    if !inRange seq Gen.maxSequence then none else
    let piece ← if acp ht ∧ k ≠ i then some []
                else ({ prevTx := txin.prevTx, prevIndex := txin.prevIndex, scriptSig := sc, sequence := seq } : TxIn).serialize
    let rest ← legacyIns i ht redeem (k + 1) r
    pure (piece ++ rest)

/-- the output loop of sig_hash_legacy (`continue` for NONE, blanks and `break` for SINGLE) -/
def legacyOuts (i ht : Nat) : Nat → List TxOut → Option Bytes
  | _, [] => some []
  | j, o :: r =>
    if base ht = Gen.sighashNone then legacyOuts i ht (j + 1) r
    else if base ht = Gen.sighashSingle then
      if j = i then o.serialize
      else do
        let rest ← legacyOuts i ht (j + 1) r
        pure (Gen.legacyBlankOut ++ rest)
    else do
      let a ← o.serialize
      let rest ← legacyOuts i ht (j + 1) r
      pure (a ++ rest)

/-- the input count written by sig_hash_legacy (F05a repaired: 1 for ANYONECANPAY) -/
def legacyInCount (t : Tx) (ht : Nat) : Option Bytes :=
  if acp ht then encodeVarint 1 else encodeVarint t.ins.length

/-- the output count (F05a repaired: 0 for NONE, index + 1 for SINGLE) -/
def legacyOutCount (t : Tx) (i ht : Nat) : Option Bytes :=
  if base ht = Gen.sighashNone then encodeVarint 0
  else if base ht = Gen.sighashSingle then encodeVarint (i + 1)
  else encodeVarint t.outs.length

/-- the serialisation sig_hash_legacy hashes -/
def legacyBody (t : Tx) (i : Nat) (redeem : Option Script) (ht : Nat) : Option Bytes := do
  let v ← natToLE t.version Gen.legacyVersionW
  let nIn ← legacyInCount t ht
  let ins ← legacyIns i ht redeem 0 t.ins
  let nOut ← legacyOutCount t i ht
  let outs ← legacyOuts i ht 0 t.outs
  let lt ← natToLE t.locktime Gen.locktimeSerW
  let h ← natToLE ht Gen.legacyHashTypeW
  pure (v ++ nIn ++ ins ++ nOut ++ outs ++ lt ++ h)

/-- Tx.sig_hash_legacy up to the final hash256 -/
def sigHashLegacyPre (t : Tx) (i : Nat) (redeem : Option Script) (ht : Nat) : Option LegacyPre :=
  if i ≥ t.ins.length then some .one
  else if base ht = Gen.sighashSingle ∧ i ≥ t.outs.length then some .one
  else (legacyBody t i redeem ht).map .pre

def LegacyPre.digest (hash256 : Bytes → Bytes) : LegacyPre → Nat
  | .one => Gen.legacyOne
  | .pre b => beToNat (hash256 b)

/-- Tx.sig_hash_legacy -/
def sigHashLegacy (hash256 : Bytes → Bytes) (t : Tx) (i : Nat) (redeem : Option Script) (ht : Nat) : Option Nat :=
  (sigHashLegacyPre t i redeem ht).map (·.digest hash256)

/-! ### midstates -/

def prevoutsBytes : List TxIn → Option Bytes
  | [] => some []
  | i :: r => do
    let ix ← natToLE i.prevIndex 4
    let rest ← prevoutsBytes r
    pure (i.prevTx.reverse ++ ix ++ rest)

def sequencesBytes : List TxIn → Option Bytes
  | [] => some []
  | i :: r => do
    let sq ← natToLE i.sequence Gen.sequenceSerW
    let rest ← sequencesBytes r
    pure (sq ++ rest)

def amountsBytes : List TxIn → Option Bytes
  | [] => some []
  | i :: r => do
    let v ← i.value
    let a ← natToLE v 8
    let rest ← amountsBytes r
    pure (a ++ rest)

def spksBytes : List TxIn → Option Bytes
  | [] => some []
  | i :: r => do
    let spk ← i.scriptPubkey
    let a ← Script.serialize spk
    let rest ← spksBytes r
    pure (a ++ rest)

/-- the eight memo attributes `_hash_*` / `_sha_*` (only used by the `memo = true` variant) -/
structure Caches where
  hashPrevouts : Option Bytes := none
  hashSequence : Option Bytes := none
  hashOutputs : Option Bytes := none
  shaPrevouts : Option Bytes := none
  shaAmounts : Option Bytes := none
  shaScriptPubkeys : Option Bytes := none
  shaSequences : Option Bytes := none
  shaOutputs : Option Bytes := none
deriving DecidableEq, Repr

/-- a Python `Tx` object: the fields and the memo attributes -/
structure TxObj where
  tx : Tx
  c : Caches := {}
deriving DecidableEq, Repr

/-- the hash functions the code calls -/
structure Hashes where
  sha256 : Bytes → Bytes
  hash256 : Bytes → Bytes

/-- Tx.hash_prevouts.  `cfg.memo = false`: the repaired code (F05d) — computed from the current fields.
    `cfg.memo = true`: the memoising code — the first call stores `_hash_prevouts` and `_hash_sequence`.
    (Simplification of the memo variant: a query that fails leaves the caches as they were.) -/
def hashPrevouts (cfg : Cfg) (H : Hashes) (o : TxObj) : Option (Bytes × TxObj) :=
  if cfg.memo then
    match o.c.hashPrevouts with
    | some h => some (h, o)
    | none => do
      let p ← prevoutsBytes o.tx.ins
      let q ← sequencesBytes o.tx.ins
      pure (H.hash256 p, { o with c := { o.c with hashPrevouts := some (H.hash256 p), hashSequence := some (H.hash256 q) } })
  else do
    let p ← prevoutsBytes o.tx.ins
    pure (H.hash256 p, o)

/-- Tx.hash_sequence -/
def hashSequence (cfg : Cfg) (H : Hashes) (o : TxObj) : Option (Bytes × TxObj) :=
  if cfg.memo then
    match o.c.hashSequence with
    | some h => some (h, o)
    | none => do
      let (_, o) ← hashPrevouts cfg H o
      let h ← o.c.hashSequence     -- `None` would be returned; it cannot be, both are set together
      pure (h, o)
  else do
    let q ← sequencesBytes o.tx.ins
    pure (H.hash256 q, o)

/-- Tx.hash_outputs -/
def hashOutputs (cfg : Cfg) (H : Hashes) (o : TxObj) : Option (Bytes × TxObj) :=
  if cfg.memo then
    match o.c.hashOutputs with
    | some h => some (h, o)
    | none => do
      let b ← serOuts o.tx.outs
      pure (H.hash256 b, { o with c := { o.c with hashOutputs := some (H.hash256 b) } })
  else do
    let b ← serOuts o.tx.outs
    pure (H.hash256 b, o)

/-- Tx.sha_prevouts (memo variant: one loop fills the four input midstates) -/
def shaPrevouts (cfg : Cfg) (H : Hashes) (o : TxObj) : Option (Bytes × TxObj) :=
  if cfg.memo then
    match o.c.shaPrevouts with
    | some h => some (h, o)
    | none => do
      let p ← prevoutsBytes o.tx.ins
      let a ← amountsBytes o.tx.ins
      let s ← spksBytes o.tx.ins
      let q ← sequencesBytes o.tx.ins
      let c1 : Caches := { o.c with shaPrevouts := some (H.sha256 p), shaAmounts := some (H.sha256 a) }
      let c2 : Caches := { c1 with shaScriptPubkeys := some (H.sha256 s), shaSequences := some (H.sha256 q) }
      pure (H.sha256 p, { o with c := c2 })
  else do
    let p ← prevoutsBytes o.tx.ins
    pure (H.sha256 p, o)

def shaAmounts (cfg : Cfg) (H : Hashes) (o : TxObj) : Option (Bytes × TxObj) :=
  if cfg.memo then
    match o.c.shaAmounts with
    | some h => some (h, o)
    | none => do
      let (_, o) ← shaPrevouts cfg H o
      let h ← o.c.shaAmounts
      pure (h, o)
  else do
    let a ← amountsBytes o.tx.ins
    pure (H.sha256 a, o)

def shaScriptPubkeys (cfg : Cfg) (H : Hashes) (o : TxObj) : Option (Bytes × TxObj) :=
  if cfg.memo then
    match o.c.shaScriptPubkeys with
    | some h => some (h, o)
    | none => do
      let (_, o) ← shaPrevouts cfg H o
      let h ← o.c.shaScriptPubkeys
      pure (h, o)
  else do
    let s ← spksBytes o.tx.ins
    pure (H.sha256 s, o)

/-- Tx.sha_sequences (memo variant: the attribute `_sha_sequences` does not exist before the first
    `sha_prevouts()` — `__init__` creates `_sha_sequence` — so reading it first is an AttributeError) -/
def shaSequences (cfg : Cfg) (H : Hashes) (o : TxObj) : Option (Bytes × TxObj) :=
  if cfg.memo then
    match o.c.shaSequences with
    | some h => some (h, o)
    | none => none
  else do
    let q ← sequencesBytes o.tx.ins
    pure (H.sha256 q, o)

def shaOutputs (cfg : Cfg) (H : Hashes) (o : TxObj) : Option (Bytes × TxObj) :=
  if cfg.memo then
    match o.c.shaOutputs with
    | some h => some (h, o)
    | none => do
      let b ← serOuts o.tx.outs
      pure (H.sha256 b, { o with c := { o.c with shaOutputs := some (H.sha256 b) } })
  else do
    let b ← serOuts o.tx.outs
    pure (H.sha256 b, o)

def zero32 : Bytes := List.replicate 32 0

/-! ### BIP143 -/

/-- `P2PKHScriptPubKey(script.commands[1])`: IndexError without a second command, TypeError when
    it is an opcode -/
def p2pkhOfSecond (s : Script) : Option Script :=
  match (s.cmds[1]? : Option Cmd) with
  | some (Cmd.push h) => some (p2pkhScript h)
  | _ => none

/-- the ScriptCode selection of sig_hash_bip143 -/
def scriptCode143 (txin : TxIn) (redeem witnessScript : Option Script) : Option Script :=
  match witnessScript with
  | some w => some w
  | none =>
    match redeem with
    | some r => p2pkhOfSecond r
    | none => do
      let spk ← txin.scriptPubkey
      p2pkhOfSecond spk

/-- hashPrevouts item of sig_hash_bip143 (zero bytes for ANYONECANPAY; F05b repaired) -/
def bip143Prevouts (cfg : Cfg) (H : Hashes) (o : TxObj) (ht : Nat) : Option (Bytes × TxObj) :=
  if !acp ht then hashPrevouts cfg H o else some (zero32, o)

/-- hashSequence item -/
def bip143Sequence (cfg : Cfg) (H : Hashes) (o : TxObj) (ht : Nat) : Option (Bytes × TxObj) :=
  if !acp ht ∧ base ht ≠ Gen.sighashSingle ∧ base ht ≠ Gen.sighashNone then hashSequence cfg H o
  else some (zero32, o)

/-- hashOutputs item -/
def bip143Outputs (cfg : Cfg) (H : Hashes) (o : TxObj) (i ht : Nat) : Option (Bytes × TxObj) :=
  if base ht ≠ Gen.sighashSingle ∧ base ht ≠ Gen.sighashNone then hashOutputs cfg H o
  else if base ht = Gen.sighashSingle ∧ i < o.tx.outs.length then
    (match o.tx.outs[i]? with
     | some out => out.serialize.map fun b => (H.hash256 b, o)
     | none => none)
  else some (zero32, o)

/-- outpoint ‖ scriptCode ‖ value ‖ nSequence of the input being signed -/
def bip143Input (txin : TxIn) (redeem witnessScript : Option Script) : Option Bytes := do
  let ix ← natToLE txin.prevIndex Gen.bip143IndexW
  let code ← scriptCode143 txin redeem witnessScript
  let codeSer ← Script.serialize code
  let value ← txin.value
  let val ← natToLE value Gen.bip143AmountW
  let sq ← natToLE txin.sequence Gen.sequenceSerW
  pure (txin.prevTx.reverse ++ ix ++ codeSer ++ val ++ sq)

/-- Tx.sig_hash_bip143 up to the final hash256 (with F05b repaired) -/
def sigHashBip143Pre (cfg : Cfg) (H : Hashes) (o : TxObj) (i : Nat) (redeem witnessScript : Option Script)
    (ht : Nat) : Option (Bytes × TxObj) := do
  let txin ← o.tx.ins[i]?
  let v ← natToLE o.tx.version Gen.bip143VersionW
  let (hp, o) ← bip143Prevouts cfg H o ht
  let (hs, o) ← bip143Sequence cfg H o ht
  let inp ← bip143Input txin redeem witnessScript
  let (ho, o) ← bip143Outputs cfg H o i ht
  let lt ← natToLE o.tx.locktime Gen.locktimeSerW
  let h ← natToLE ht Gen.bip143HashTypeW
  pure (v ++ hp ++ hs ++ inp ++ ho ++ lt ++ h, o)

/-- Tx.sig_hash_bip143 -/
def sigHashBip143 (cfg : Cfg) (H : Hashes) (o : TxObj) (i : Nat) (redeem witnessScript : Option Script)
    (ht : Nat) : Option (Nat × TxObj) :=
  (sigHashBip143Pre cfg H o i redeem witnessScript ht).map fun (p, o) => (beToNat (H.hash256 p), o)

/-! ### BIP341 -/

/-- phash.tagged_hash (the tag cache is transparent: C02) -/
def taggedHash (sha256 : Bytes → Bytes) (tag msg : Bytes) : Bytes :=
  sha256 (sha256 tag ++ sha256 tag ++ msg)

/-- `items[-k]` (IndexError = `none`) -/
def fromEnd (items : List Bytes) (k : Nat) : Option Bytes :=
  if 1 ≤ k ∧ k ≤ items.length then items[items.length - k]? else none

/-- Witness.tap_leaf().hash(): ControlBlock.parse of `items[-1]` (`[-2]` with annex) — only its
    length tests, the leaf version `b[0] & 0xFE` and the validity of the internal key matter —
    then the tap script `items[-2]` (`[-3]`) parsed, its `raw` attribute set to the element itself
    (so that it serialises to exactly these bytes), tagged "TapLeaf".
    `xonlyOK` = "S256Point.parse_xonly does not raise". -/
def tapLeafHash (cfg : Cfg) (sha256 : Bytes → Bytes) (xonlyOK : Bytes → Bool) (w : Witness) : Option Bytes := do
  let a ← w.hasAnnex cfg
  let cb ← fromEnd w.items (if a then 2 else 1)
  if cmpAt Gen.txCbParseCmp 0 (cb.length % 32) then none else
  if cmpAt Gen.txCbParseCmp 1 cb.length || cmpAt Gen.txCbParseCmp 2 cb.length then none else
  let ver ← cb.head?
  if !xonlyOK ((cb.drop 1).take 32) then none else
  let a ← w.hasAnnex cfg
  let raw ← fromEnd w.items (if a then 3 else 2)
  if ¬ raw.length < 2 ^ 63 then none else
  -- Witness.tap_script: the parsed script with `raw` set to the witness element itself
  let ser ← Script.serialize { Script.parseRaw raw with raw := some raw }
  let vb ← byteOf (ver.toNat &&& 0xFE)
  pure (taggedHash sha256 Gen.tapLeafTag (vb ++ ser))

/-- sha_prevouts ‖ sha_amounts ‖ sha_scriptpubkeys ‖ sha_sequences unless ANYONECANPAY -/
def bip341Mid (cfg : Cfg) (H : Hashes) (o : TxObj) (ht : Nat) : Option (Bytes × TxObj) :=
  if !acp ht then do
    let (a, o) ← shaPrevouts cfg H o
    let (b, o) ← shaAmounts cfg H o
    let (c, o) ← shaScriptPubkeys cfg H o
    let (d, o) ← shaSequences cfg H o
    pure (a ++ b ++ c ++ d, o)
  else some ([], o)

/-- sha_outputs unless NONE / SINGLE -/
def bip341Outs (cfg : Cfg) (H : Hashes) (o : TxObj) (ht : Nat) : Option (Bytes × TxObj) :=
  if base ht ≠ Gen.sighashNone ∧ base ht ≠ Gen.sighashSingle then shaOutputs cfg H o else some ([], o)

/-- the input's own data (ANYONECANPAY) or its index -/
def bip341Input (txin : TxIn) (i ht : Nat) : Option Bytes :=
  if acp ht then do
    let ix ← natToLE txin.prevIndex Gen.bip341PrevIndexW
    let value ← txin.value
    let val ← natToLE value Gen.bip341AmountW
    let spk ← txin.scriptPubkey
    let spkSer ← Script.serialize spk
    let sq ← natToLE txin.sequence Gen.sequenceSerW
    pure (txin.prevTx.reverse ++ ix ++ val ++ spkSer ++ sq)
  else natToLE i Gen.bip341InputIndexW

/-- `sha256(encode_varstr(witness[-1]))` when `annex` -/
def bip341Annex (H : Hashes) (txin : TxIn) (annex : Bool) : Option Bytes :=
  if annex then do
    let last ← fromEnd txin.witness.items 1
    let e ← encodeVarstr last
    pure (H.sha256 e)
  else some []

/-- `sha256(self.tx_outs[input_index].serialize())` for SINGLE (IndexError without that output) -/
def bip341Single (H : Hashes) (t : Tx) (i ht : Nat) : Option Bytes :=
  if base ht = Gen.sighashSingle then do
    let out ← t.outs[i]?
    let b ← out.serialize
    pure (H.sha256 b)
  else some []

/-- the BIP342 extension when `ext_flag == 1` -/
def bip341Ext (cfg : Cfg) (H : Hashes) (xonlyOK : Bytes → Bool) (txin : TxIn) (extFlag : Nat) : Option Bytes :=
  if extFlag = 1 then do
    let lh ← tapLeafHash cfg H.sha256 xonlyOK txin.witness
    pure (lh ++ Gen.bip342Ext)
  else some []

/-- Tx.sig_hash_bip341 message before the tagged hash (with F05c repaired) -/
def sigHashBip341Pre (cfg : Cfg) (H : Hashes) (xonlyOK : Bytes → Bool) (o : TxObj) (i extFlag ht : Nat) :
    Option (Bytes × TxObj) := do
  let txin ← o.tx.ins[i]?
  let hb ← byteOf ht
  let v ← natToLE o.tx.version Gen.bip341VersionW
  let lt ← natToLE o.tx.locktime Gen.locktimeSerW
  let (mid, o) ← bip341Mid cfg H o ht
  let (so, o) ← bip341Outs cfg H o ht
  let annex ← txin.witness.hasAnnex cfg
  let st ← byteOf (extFlag * 2 + (if annex then 1 else 0))
  let inp ← bip341Input txin i ht
  let an ← bip341Annex H txin annex
  let single ← bip341Single H o.tx i ht
  let ext ← bip341Ext cfg H xonlyOK txin extFlag
  pure (Gen.bip341Epoch ++ hb ++ v ++ lt ++ mid ++ so ++ st ++ inp ++ an ++ single ++ ext, o)

/-- Tx.sig_hash_bip341 -/
def sigHashBip341 (cfg : Cfg) (H : Hashes) (xonlyOK : Bytes → Bool) (o : TxObj) (i extFlag ht : Nat) :
    Option (Bytes × TxObj) :=
  (sigHashBip341Pre cfg H xonlyOK o i extFlag ht).map fun (p, o) => (taggedHash H.sha256 Gen.tapSighashTag p, o)

/-! ### dispatcher -/

/-- what Tx.sig_hash returns: an `int` (legacy, BIP143) or 32 `bytes` (BIP341) -/
inductive SigHash where
  | int (n : Nat)
  | bytes (b : Bytes)
deriving DecidableEq, Repr

/-- `RedeemScript.convert(raw)` / `WitnessScript.convert(raw)`: parse `encode_varstr(raw)` -/
def convertScript (raw : Bytes) : Option Script :=
  if raw.length < 2 ^ 63 then some (Script.parseRaw raw) else none

/-- the key-path / script-path decision of Tx.sig_hash (with F05e repaired: the annex is not
    counted) -/
def extFlagOf (cfg : Cfg) (w : Witness) : Option Nat := do
  let a ← w.hasAnnex cfg
  let n := if a then w.items.length - 1 else w.items.length
  pure (if n > 1 then 1 else 0)

/-- which algorithm Tx.sig_hash selects, and with which arguments -/
inductive Route where
  | legacy (redeem : Option Script)
  | bip143 (redeem witnessScript : Option Script)
  | bip341 (extFlag : Nat)
deriving DecidableEq, Repr

/-- the decision part of Tx.sig_hash -/
def route (cfg : Cfg) (txin : TxIn) : Option Route := do
  let spk ← txin.scriptPubkey
  let redeem ← if isP2sh spk then
                  (match txin.scriptSig.cmds.getLast? with
                   | some (.push raw) => (convertScript raw).map some
                   | _ => none)          -- IndexError (no command) / TypeError (`len` of an int)
               else some none
  let rIsWsh := match redeem with | some r => isP2wsh r | none => false
  let rIsWpkh := match redeem with | some r => isP2wpkh r | none => false
  let ws ← if isP2wsh spk || rIsWsh then
              (match txin.witness.items.getLast? with
               | some raw => (convertScript raw).map some
               | none => none)
           else some none
  if isP2wpkh spk || rIsWpkh || isP2wsh spk || rIsWsh then pure (.bip143 redeem ws)
  else if isP2tr spk then do
    let e ← extFlagOf cfg txin.witness
    pure (.bip341 e)
  else pure (.legacy redeem)

/-- Tx.sig_hash -/
def sigHash (cfg : Cfg) (H : Hashes) (xonlyOK : Bytes → Bool) (o : TxObj) (i ht : Nat) : Option (SigHash × TxObj) := do
  let txin ← o.tx.ins[i]?
  match ← route cfg txin with
  | .legacy redeem => (sigHashLegacy H.hash256 o.tx i redeem ht).map fun n => (.int n, o)
  | .bip143 redeem ws => (sigHashBip143 cfg H o i redeem ws ht).map fun (n, o) => (.int n, o)
  | .bip341 e => (sigHashBip341 cfg H xonlyOK o i e ht).map fun (b, o) => (.bytes b, o)

/-! ## consumers of the digests: which digest a signature is matched against -/

/-- how `finalize_p2tr_multisig` (and `op_checksig_schnorr` / `op_checksigadd_schnorr`) read a signature
    element: empty = no signature; 64 bytes = SIGHASH_DEFAULT; 65 bytes = the last byte is the hash type;
    any other length makes `finalize_p2tr_multisig` raise -/
inductive SigKind where
  | skip
  | sig (ht : Nat) (body : Bytes)
  | bad
deriving DecidableEq, Repr

def schnorrSigKind (sig : Bytes) : SigKind :=
  if sig.length = 0 then .skip
  else if sig.length = 64 then .sig Gen.sighashDefault sig
  else if sig.length = 65 then .sig (match sig.getLast? with | some b => b.toNat | none => 0) sig.dropLast
  else .bad

/-- the inner loop of `finalize_p2tr_multisig` for one public key: the first signature of `sigs` that verifies
    for `point` — each candidate against the digest `self.sig_hash(input_index, hash_type)` of ITS OWN hash type,
    computed on the object as it is now.  `verify point msg body` = `point.verify_schnorr(msg,
    SchnorrSignature.parse(body))` (`none` = the parse raised).  Result: `some none` = the `for … else` branch
    (no signature matched), `none` = an exception. -/
def pickSig (cfg : Cfg) (H : Hashes) (xonlyOK : Bytes → Bool) (verify : Bytes → Bytes → Bytes → Option Bool)
    (i : Nat) (point : Bytes) : TxObj → List Bytes → Option (Option Bytes × TxObj)
  | o, [] => some (none, o)
  | o, sig :: r =>
    match schnorrSigKind sig with
    | .skip => pickSig cfg H xonlyOK verify i point o r
    | .bad => none
    | .sig ht body =>
      match sigHash cfg H xonlyOK o i ht with
      | some (.bytes msg, o') =>
        (match verify point msg body with
         | some true => some (some sig, o')
         | some false => pickSig cfg H xonlyOK verify i point o' r
         | none => none)
      | _ => none          -- the digest raised, or is an `int` (not a taproot input): verify_schnorr raises

/-- `tx_in.witness.items.insert(0, item)` -/
def insertWitnessFront (o : TxObj) (i : Nat) (item : Bytes) : TxObj :=
  { o with tx := { o.tx with ins := o.tx.ins.zipIdx.map fun (p : TxIn × Nat) =>
      if p.2 = i then { p.1 with witness := { items := item :: p.1.witness.items } } else p.1 } }

/-- the outer loop over `tx_in.tap_script.points` -/
def finalizeLoop (cfg : Cfg) (H : Hashes) (xonlyOK : Bytes → Bool) (verify : Bytes → Bytes → Bytes → Option Bool)
    (i : Nat) (sigs : List Bytes) : TxObj → List Bytes → Option TxObj
  | o, [] => some o
  | o, point :: ps =>
    match pickSig cfg H xonlyOK verify i point o sigs with
    | none => none
    | some (pick, o') => finalizeLoop cfg H xonlyOK verify i sigs (insertWitnessFront o' i (pick.getD [])) ps

/-- Tx.finalize_p2tr_multisig up to the final `verify_input` (C06): the object with the signatures placed.
    `points` = the x-only keys of `tx_in.tap_script.points` in that order (`none`: `tap_script is None`). -/
def finalizeP2trMultisig (cfg : Cfg) (H : Hashes) (xonlyOK : Bytes → Bool) (verify : Bytes → Bytes → Bytes → Option Bool)
    (o : TxObj) (i : Nat) (points : Option (List Bytes)) (sigs : List Bytes) : Option TxObj :=
  match o.tx.ins[i]?, points with
  | some txin, some pts =>
    if txin.witness.items.length < 2 then none else finalizeLoop cfg H xonlyOK verify i sigs o pts
  | _, _ => none

/-- get_sig_legacy / check_sig_legacy, get_sig_segwit / check_sig_segwit: always the SIGHASH_ALL digest of the
    algorithm's method; get_sig_* append `int_to_byte(SIGHASH_ALL)` -/
def sigLegacyDigest (hash256 : Bytes → Bytes) (t : Tx) (i : Nat) (redeem : Option Script) : Option Nat :=
  sigHashLegacy hash256 t i redeem Gen.sighashAll

def sigSegwitDigest (cfg : Cfg) (H : Hashes) (o : TxObj) (i : Nat) (redeem ws : Option Script) : Option (Nat × TxObj) :=
  sigHashBip143 cfg H o i redeem ws Gen.sighashAll

/-- op_checksig / op_checkmultisig: the hash type is the last byte of the signature element (`none`: IndexError
    on an empty element), the DER part what precedes it; the digest is `tx_obj.sig_hash(input_index, hash_type)` -/
def ecdsaSigSplit (elem : Bytes) : Option (Bytes × Nat) :=
  match elem.getLast? with
  | some b => some (elem.dropLast, b.toNat)
  | none => none

/-! ## the object as a state machine -/

/-- one digest query on the object -/
inductive Query where
  | legacy (i : Nat) (redeem : Option Script) (ht : Nat)
  | bip143 (i : Nat) (redeem witnessScript : Option Script) (ht : Nat)
  | bip341 (i extFlag ht : Nat)
  | auto (i ht : Nat)

/-- an operation: a query, or an arbitrary edit of the fields (assignments to attributes of the
    transaction, its inputs and outputs; list mutations) -/
inductive Op where
  | query (q : Query)
  | edit (f : Tx → Tx)

def runQuery (cfg : Cfg) (H : Hashes) (xonlyOK : Bytes → Bool) (o : TxObj) : Query → Option (SigHash × TxObj)
  | .legacy i r ht => (sigHashLegacy H.hash256 o.tx i r ht).map fun n => (.int n, o)
  | .bip143 i r w ht => (sigHashBip143 cfg H o i r w ht).map fun (n, o) => (.int n, o)
  | .bip341 i e ht => (sigHashBip341 cfg H xonlyOK o i e ht).map fun (b, o) => (.bytes b, o)
  | .auto i ht => sigHash cfg H xonlyOK o i ht

/-- run an operation list on an object; the answers of the queries in order (`none` = raised) -/
def run (cfg : Cfg) (H : Hashes) (xonlyOK : Bytes → Bool) : TxObj → List Op → List (Option SigHash)
  | _, [] => []
  | o, .edit f :: r => run cfg H xonlyOK { o with tx := f o.tx } r
  | o, .query q :: r =>
    match runQuery cfg H xonlyOK o q with
    | some (a, o') => some a :: run cfg H xonlyOK o' r
    | none => none :: run cfg H xonlyOK o r

end Buidl.Tx
