/-
  Buidl.Model.Wire — P2P framing (buidl/network.py, buidl/block.py header codec,
  buidl/compactfilter.py message classes, buidl/merkleblock.py MerkleBlock.parse).
  Import-free. Hash functions are parameters.

  Conventions: a Python exception or a refusal is `none`; `BytesIO.read(n)` is
  `take n`/`drop n` (short reads are silent in Python and therefore here).
-/
import Buidl.Model.Bytes
import Buidl.Gen.Wire
namespace Buidl.Wire
open Buidl

/-! ### NetworkEnvelope -/

structure Envelope where
  command : Bytes
  payload : Bytes
  magic   : Bytes
deriving DecidableEq, Repr

/-- network.MAGIC[network]; `none` = KeyError -/
def magicOf (network : String) : Option Bytes :=
  (Gen.magicTable.find? (·.1 = network)).map (·.2)

/-- NetworkEnvelope.serialize.  `b"\x00" * (12 - len)` is empty for a negative count. -/
def Envelope.serialize (hash256 : Bytes → Bytes) (e : Envelope) : Option Bytes := do
  let len ← natToLE e.payload.length Gen.envSerLenWidth
  pure (e.magic ++ e.command ++ List.replicate (Gen.envSerCommandWidth - e.command.length) 0
        ++ len ++ (hash256 e.payload).take Gen.envSerChecksumWidth ++ e.payload)

/-- NetworkEnvelope.parse on a stream; returns the envelope and the unread rest. -/
def Envelope.parse (hash256 : Bytes → Bytes) (network : String) (s : Bytes) : Option (Envelope × Bytes) := do
  let magic := s.take Gen.envParMagicWidth
  let s := s.drop Gen.envParMagicWidth
  if magic = [] then none else
  let expected ← magicOf network
  if magic ≠ expected then none else
  let command := stripZeros (s.take Gen.envParCommandWidth)
  let s := s.drop Gen.envParCommandWidth
  let payloadLength := leToNat (s.take Gen.envParLenWidth)
  let s := s.drop Gen.envParLenWidth
  let checksum := s.take Gen.envParChecksumWidth
  let s := s.drop Gen.envParChecksumWidth
  let payload := s.take payloadLength
  let s := s.drop payloadLength
  if payload.length ≠ payloadLength then none else
  if (hash256 payload).take Gen.envParHashWidth ≠ checksum then none else
  pure ({ command := command, payload := payload, magic := expected }, s)

/-! ### Block header (80 bytes) -/

structure Header where
  version    : Nat
  prevBlock  : Bytes
  merkleRoot : Bytes
  timestamp  : Nat
  bits       : Bytes
  nonce      : Bytes
deriving DecidableEq, Repr

/-- Block.parse_header (never raises: short reads yield short fields) -/
def Header.parse (s : Bytes) : Header × Bytes :=
  let version := leToNat (s.take 4); let s := s.drop 4
  let prev := (s.take 32).reverse; let s := s.drop 32
  let root := (s.take 32).reverse; let s := s.drop 32
  let ts := leToNat (s.take 4); let s := s.drop 4
  let bits := s.take 4; let s := s.drop 4
  let nonce := s.take 4; let s := s.drop 4
  ({ version := version, prevBlock := prev, merkleRoot := root, timestamp := ts, bits := bits, nonce := nonce }, s)

/-- Block.serialize (header only) -/
def Header.serialize (h : Header) : Option Bytes := do
  let v ← natToLE h.version 4
  let t ← natToLE h.timestamp 4
  pure (v ++ h.prevBlock.reverse ++ h.merkleRoot.reverse ++ t ++ h.bits ++ h.nonce)

/-- Block.hash -/
def Header.hash (hash256 : Bytes → Bytes) (h : Header) : Option Bytes :=
  (h.serialize).map (fun s => (hash256 s).reverse)

/-! ### fixed-layout messages -/

structure Version where
  version : Nat
  services : Nat
  timestamp : Nat
  receiverServices : Nat
  receiverIp : Bytes
  receiverPort : Nat
  senderServices : Nat
  senderIp : Bytes
  senderPort : Nat
  nonce : Bytes
  userAgent : Bytes
  latestBlock : Nat
  relay : Bool
deriving DecidableEq, Repr

def ipv4Prefix : Bytes := List.replicate 10 0 ++ [0xff, 0xff]

/-- VersionMessage.serialize -/
def Version.serialize (m : Version) : Option Bytes := do
  let v ← natToLE m.version 4
  let sv ← natToLE m.services 8
  let ts ← natToLE m.timestamp 8
  let rs ← natToLE m.receiverServices 8
  let rp ← natToLE m.receiverPort 2
  let ss ← natToLE m.senderServices 8
  let sp ← natToLE m.senderPort 2
  let ual ← encodeVarint m.userAgent.length
  let lb ← natToLE m.latestBlock 4
  pure (v ++ sv ++ ts ++ rs ++ ipv4Prefix ++ m.receiverIp ++ rp ++ ss ++ ipv4Prefix ++ m.senderIp ++ sp
        ++ m.nonce ++ ual ++ m.userAgent ++ lb ++ [if m.relay then 1 else 0])

/-- GetHeadersMessage.serialize -/
def getHeadersSerialize (version numHashes : Nat) (startBlock endBlock : Bytes) : Option Bytes := do
  let v ← natToLE version 4
  let n ← encodeVarint numHashes
  pure (v ++ n ++ startBlock.reverse ++ endBlock.reverse)

/-- HeadersMessage.parse: `none` = raised (no bytes for a varint, or tx count ≠ 0) -/
def headersParseLoop : Nat → Bytes → Option (List Header × Bytes)
  | 0, s => some ([], s)
  | k + 1, s => do
    let (h, s) := Header.parse s
    let (numTxs, s) ← readVarint s
    if numTxs ≠ 0 then none else
    let (hs, s) ← headersParseLoop k s
    pure (h :: hs, s)

def headersParse (s : Bytes) : Option (List Header × Bytes) := do
  let (n, s) ← readVarint s
  headersParseLoop n s

/-- GetDataMessage.serialize -/
def getDataSerialize (items : List (Nat × Bytes)) : Option Bytes := do
  let n ← encodeVarint items.length
  let body ← items.foldlM (fun acc (it : Nat × Bytes) => do
    let t ← natToLE it.1 4
    pure (acc ++ t ++ it.2.reverse)) []
  pure (n ++ body)

/-- PingMessage.parse / PongMessage.parse -/
def pingParse (s : Bytes) : Bytes × Bytes := (s.take 8, s.drop 8)

/-- GetCFiltersMessage.serialize = GetCFHeadersMessage.serialize -/
def getCFiltersSerialize (filterType startHeight : Nat) (stopHash : Bytes) : Option Bytes := do
  let ft ← natToBE filterType 1
  let sh ← natToLE startHeight 4
  pure (ft ++ sh ++ stopHash.reverse)

/-- GetCFCheckPointMessage.serialize -/
def getCFCheckptSerialize (filterType : Nat) (stopHash : Bytes) : Option Bytes := do
  let ft ← natToBE filterType 1
  pure (ft ++ stopHash.reverse)

/-- CFilterMessage.parse (fields only; the embedded CompactFilter is C18's subject):
    `none` = IndexError on an empty stream or IOError in read_varstr -/
def cfilterParse (s : Bytes) : Option ((Nat × Bytes × Bytes) × Bytes) :=
  match s with
  | [] => none
  | ft :: s => do
    let bh := (s.take 32).reverse; let s := s.drop 32
    let (fb, s) ← readVarstr s
    pure ((ft.toNat, bh, fb), s)

def readN32 : Nat → Bytes → List Bytes × Bytes
  | 0, s => ([], s)
  | k + 1, s =>
    let (l, r) := readN32 k (s.drop 32)
    (s.take 32 :: l, r)

/-- CFHeadersMessage.parse -/
def cfheadersParse (s : Bytes) : Option ((Nat × Bytes × Bytes × List Bytes) × Bytes) :=
  match s with
  | [] => none
  | ft :: s => do
    let stop := (s.take 32).reverse; let s := s.drop 32
    let prev := s.take 32; let s := s.drop 32
    let (n, s) ← readVarint s
    let (hs, s) := readN32 n s
    pure ((ft.toNat, stop, prev, hs), s)

/-- CFHeadersMessage.__init__: last_header fold -/
def cfheadersLast (hash256 : Bytes → Bytes) (prev : Bytes) (hashes : List Bytes) : Bytes :=
  hashes.foldl (fun cur fh => hash256 (fh ++ cur)) prev

/-- CFCheckPointMessage.parse -/
def cfcheckptParse (s : Bytes) : Option ((Nat × Bytes × List Bytes) × Bytes) :=
  match s with
  | [] => none
  | ft :: s => do
    let stop := (s.take 32).reverse; let s := s.drop 32
    let (n, s) ← readVarint s
    let (hs, s) := readN32 n s
    pure ((ft.toNat, stop, hs), s)

def readN32rev : Nat → Bytes → List Bytes × Bytes
  | 0, s => ([], s)
  | k + 1, s =>
    let (l, r) := readN32rev k (s.drop 32)
    ((s.take 32).reverse :: l, r)

/-- MerkleBlock.parse -/
def merkleBlockParse (s : Bytes) : Option ((Header × Nat × List Bytes × Bytes) × Bytes) := do
  let (h, s) := Header.parse s
  let total := leToNat (s.take 4); let s := s.drop 4
  let (n, s) ← readVarint s
  let (hs, s) := readN32rev n s
  let (fl, s) ← readVarint s
  pure ((h, total, hs, s.take fl), s.drop fl)

end Buidl.Wire
