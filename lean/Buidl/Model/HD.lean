/-
  Buidl.Model.HD — buidl/hd.py (HDPrivateKey, HDPublicKey, is_valid_bip32_path),
  buidl/blinding.py (secure_secret_path, blind_xpub, combine_bip32_paths) and
  buidl/helper.py (child_to_path, parse_binary_path).  Import-free.

  `hmac` (HMAC-SHA512, `hmac key msg`), `h160` (hash160) and `hash256` are parameters.  Every
  constant (version tables, hardened threshold and its comparison operator, HMAC key, field widths on
  the serialise and on the parse side) comes from Buidl.Gen.HD, re-extracted from the source.
  `none` = the Python raises.  Python `str` is `Str = List Char`; networks are `String`s.

  What the code does in the cases BIP32 calls invalid is modelled as coded:
    * `from_seed`: I_L = 0 or I_L ≥ N  → PrivateKey raises                     → `none`
    * `HDPrivateKey.child`: I_L ≥ N is *not* checked, (I_L + k) mod N is used;
                            a zero child key makes PrivateKey raise              → `none`
    * `HDPublicKey.child`:  I_L ≥ N is not checked; a child point at infinity is returned
                            as an HDPublicKey whose `sec()` / `xpub()` / `child()` then raise
  Finding F08a (HDPublicKey.traverse tested `startswith("m")` before lower-casing) is repaired by
  work/C08/fix-F08a.diff; `HDPub.traverse` models the repaired code, `HDPub.traverseF08a` the old one.
-/
import Buidl.Model.Bytes
import Buidl.Model.EC
import Buidl.Model.Base58
import Buidl.Model.PyStr
import Buidl.Gen.HD
namespace Buidl.HD
open Buidl Buidl.EC Buidl.PyStr

/-! ### small helpers -/

/-- `d[key]` on a dict extracted as an association list; `none` = KeyError -/
def dictGet (tbl : List (String × Bytes)) (k : String) : Option Bytes := tbl.lookup k

/-- `x in S` for a set of byte strings extracted as (hex, bytes) pairs -/
def inSet (tbl : List (String × Bytes)) (b : Bytes) : Bool := tbl.any (fun e => e.2 == b)

/-- helper.int_to_byte: ValueError outside 0..255 -/
def intToByte (n : Nat) : Option Bytes := if n > 255 then none else some [UInt8.ofNat n]

/-- helper.byte_to_int: `b[0]`, IndexError on an empty byte string -/
def byteToInt (b : Bytes) : Option Nat := b.head?.map (·.toNat)

/-- `PrivateKey(secret=…)`: RuntimeError unless 1 ≤ secret ≤ N - 1 -/
def mkSecret (s : Nat) : Option Nat :=
  if s > N - 1 then none else if s < 1 then none else some s

/-! ### keys -/

/-- HDPublicKey (the attributes that are observed) -/
structure HDPub where
  point : Pt
  chainCode : Bytes
  depth : Nat
  parentFp : Bytes
  childNumber : Nat
  network : String
  pubVersion : Bytes
deriving DecidableEq, Repr

/-- HDPrivateKey: `private_key.secret`, the attributes, and the `pub_version` of `self.pub` -/
structure HDPriv where
  secret : Nat
  chainCode : Bytes
  depth : Nat
  parentFp : Bytes
  childNumber : Nat
  network : String
  privVersion : Bytes
  pubVersion : Bytes
deriving DecidableEq, Repr

/-- `self.pub` (built in HDPrivateKey.__init__ from `private_key.point = secret * G`) -/
def HDPriv.pub (k : HDPriv) : HDPub :=
  { point := smul (k.secret : Int) G, chainCode := k.chainCode, depth := k.depth, parentFp := k.parentFp,
    childNumber := k.childNumber, network := k.network, pubVersion := k.pubVersion }

/-- `version if version is not None else TABLE[network]` (KeyError for an unknown network) -/
def versionOr (v : Option Bytes) (tbl : List (String × Bytes)) (network : String) : Option Bytes :=
  match v with
  | some x => some x
  | none => dictGet tbl network

/-- HDPublicKey.__init__: `pub_version=None` → `XPUB[network]` (KeyError for an unknown network) -/
def mkPub (point : Pt) (cc : Bytes) (depth : Nat) (fp : Bytes) (cn : Nat) (network : String)
    (pubVersion : Option Bytes) : Option HDPub := do
  let pv ← versionOr pubVersion Gen.hdXpub network
  pure { point := point, chainCode := cc, depth := depth, parentFp := fp, childNumber := cn,
         network := network, pubVersion := pv }

/-- HDPrivateKey.__init__ (after `PrivateKey(secret)` succeeded): `priv_version=None` → `XPRV[network]`,
    then HDPublicKey.__init__ -/
def mkPriv (secret : Nat) (cc : Bytes) (depth : Nat) (fp : Bytes) (cn : Nat) (network : String)
    (privVersion pubVersion : Option Bytes) : Option HDPriv := do
  let pv ← versionOr privVersion Gen.hdXprv network
  let pub ← mkPub (smul (secret : Int) G) cc depth fp cn network pubVersion
  pure { secret := secret, chainCode := cc, depth := depth, parentFp := fp, childNumber := cn,
         network := network, privVersion := pv, pubVersion := pub.pubVersion }

section derivation
variable (hmac : Bytes → Bytes → Bytes) (h160 : Bytes → Bytes)

/-- HDPrivateKey.from_seed -/
def fromSeed (seed : Bytes) (network : String) (privVersion pubVersion : Option Bytes) : Option HDPriv := do
  let h := hmac Gen.hdSeedKey seed
  let secret ← mkSecret (beToNat (h.take Gen.hdSeedKeyHi))
  mkPriv secret (h.drop Gen.hdSeedChainLo) 0 [0, 0, 0, 0] 0 network privVersion pubVersion

/-- HDPublicKey.fingerprint: `self.point.hash160()[:4]` (`sec()` raises at infinity) -/
def HDPub.fingerprint (p : HDPub) : Option Bytes :=
  (sec p.point true).map (fun s => (h160 s).take Gen.hdFingerprintW)

/-- HDPrivateKey.fingerprint -/
def HDPriv.fingerprint (k : HDPriv) : Option Bytes := k.pub.fingerprint h160

/-- the HMAC input of HDPrivateKey.child: `0x00 ‖ secret(32) ‖ index(4)` when hardened, else `sec ‖ index(4)` -/
def HDPriv.childData (k : HDPriv) (index : Nat) : Option Bytes :=
  if cmpOp Gen.hdPrivHardOp index Gen.hdPrivHardT then
    (natToBE k.secret Gen.hdPrivChildSecretW).bind fun a =>
      (natToBE index Gen.hdPrivChildIndexWHard).bind fun b => some (a ++ b)
  else
    (sec (smul (k.secret : Int) G) true).bind fun a =>
      (natToBE index Gen.hdPrivChildIndexW).bind fun b => some (a ++ b)

/-- the rest of HDPrivateKey.child once `data` is known -/
def HDPriv.childFromData (k : HDPriv) (index : Nat) (data : Bytes) : Option HDPriv :=
  let h := hmac k.chainCode data
  (mkSecret ((beToNat (h.take Gen.hdPrivChildKeyHi) + k.secret) % N)).bind fun secret =>
    (k.fingerprint h160).bind fun fp =>
      some { secret := secret, chainCode := h.drop Gen.hdPrivChildChainLo, depth := k.depth + 1, parentFp := fp,
             childNumber := index, network := k.network, privVersion := k.privVersion, pubVersion := k.pubVersion }

/-- HDPrivateKey.child for `index ≥ 0` -/
def HDPriv.child (k : HDPriv) (index : Nat) : Option HDPriv :=
  (k.childData index).bind (k.childFromData hmac h160 index)

/-- HDPrivateKey.child on a Python int (`index < 0` raises) -/
def HDPriv.childI (k : HDPriv) (index : Int) : Option HDPriv :=
  if cmpOpI Gen.hdPrivNegOp index Gen.hdPrivNegT then none else k.child hmac h160 index.toNat

/-- HDPublicKey.child once `data = sec ‖ index(4)` is known -/
def HDPub.childFromData (p : HDPub) (index : Nat) (data : Bytes) : Option HDPub :=
  let h := hmac p.chainCode data
  (p.fingerprint h160).bind fun fp =>
    some { point := saddInt p.point ((beToNat (h.take Gen.hdPubChildKeyHi) : Nat) : Int),
           chainCode := h.drop Gen.hdPubChildChainLo, depth := p.depth + 1, parentFp := fp,
           childNumber := index, network := p.network, pubVersion := p.pubVersion }

/-- HDPublicKey.child for `index ≥ 0` -/
def HDPub.child (p : HDPub) (index : Nat) : Option HDPub :=
  if cmpOp Gen.hdPubHardOp index Gen.hdPubHardT then none
  else
    (sec p.point true).bind fun a =>
      (natToBE index Gen.hdPubChildIndexW).bind fun b => p.childFromData hmac h160 index (a ++ b)

/-- HDPublicKey.child on a Python int -/
def HDPub.childI (p : HDPub) (index : Int) : Option HDPub :=
  if cmpOpI Gen.hdPubHardOp index Gen.hdPubHardT then none
  else if cmpOpI Gen.hdPubNegOp index Gen.hdPubNegT then none
  else p.child hmac h160 index.toNat

/-! ### path traversal -/

/-- `path.lower().replace("h", "'")` -/
def normPath (path : Str) : Str := replaceChar 'h' '\'' (lower path)

/-- `path.split("/")[1:]` -/
def components (path : Str) : List Str := (split '/' path).drop 1

/-- one component of HDPrivateKey.traverse: `int(child[:-1]) + 0x80000000` when it ends with `'` -/
def privIndex (c : Str) : Option Int :=
  if endsWithChar '\'' c then (pyInt c.dropLast).map (· + (Gen.hdTraverseHardAdd : Int)) else pyInt c

/-- the loop of HDPrivateKey.traverse -/
def HDPriv.walk (k : HDPriv) : List Str → Option HDPriv
  | [] => some k
  | c :: cs => do
    let i ← privIndex c
    let k' ← k.childI hmac h160 i
    HDPriv.walk k' cs

/-- HDPrivateKey.traverse -/
def HDPriv.traverse (k : HDPriv) (path : Str) : Option HDPriv :=
  let p := normPath path
  if ¬ startsWith ['m'] p then none else k.walk hmac h160 (components p)

/-- one component of HDPublicKey.traverse: refused when it ends with `'` -/
def pubIndex (c : Str) : Option Int :=
  if endsWithChar '\'' c then none else pyInt c

/-- the loop of HDPublicKey.traverse -/
def HDPub.walk (p : HDPub) : List Str → Option HDPub
  | [] => some p
  | c :: cs => do
    let i ← pubIndex c
    let p' ← p.childI hmac h160 i
    HDPub.walk p' cs

/-- HDPublicKey.traverse as repaired by fix-F08a (lower-case first, like the private traverse) -/
def HDPub.traverse (p : HDPub) (path : Str) : Option HDPub :=
  let q := normPath path
  if ¬ startsWith ['m'] q then none else p.walk hmac h160 (components q)

/-- HDPublicKey.traverse before the repair: the prefix test is made on the path as given -/
def HDPub.traverseF08a (p : HDPub) (path : Str) : Option HDPub :=
  if ¬ startsWith ['m'] path then none else p.walk hmac h160 (components (normPath path))

end derivation

/-! ### the 78-byte serialisation -/

/-- HDPrivateKey.raw_serialize(priv_version) -/
def HDPriv.rawSerialize (k : HDPriv) (version : Bytes) : Option Bytes := do
  let d ← intToByte k.depth
  let c ← natToBE k.childNumber Gen.hdPrivSerChildW
  let s ← natToBE k.secret Gen.hdPrivSerSecretW
  pure (version ++ d ++ k.parentFp ++ c ++ k.chainCode ++ s)

/-- HDPublicKey._serialize(pub_version) -/
def HDPub.serialize (p : HDPub) (version : Bytes) : Option Bytes := do
  let d ← intToByte p.depth
  let c ← natToBE p.childNumber Gen.hdPubSerChildW
  let s ← sec p.point true
  pure (version ++ d ++ p.parentFp ++ c ++ p.chainCode ++ s)

/-- HDPublicKey.raw_serialize(): `self._serialize(XPUB[self.network])` — the version of the *network*, not
    `pub_version`; memoised in `self._raw` (the attributes it depends on never change on an object, so the memo
    is this value) -/
def HDPub.rawSerialize (p : HDPub) : Option Bytes :=
  (dictGet Gen.hdXpub p.network).bind p.serialize

/-- network chosen by raw_parse from the version bytes: testnet set first (keeping a caller-supplied
    network), then mainnet set (overriding it); `none` = ValueError -/
def netOfVersion (testnets mainnets : List (String × Bytes)) (ver : Bytes) (network : Option String) :
    Option String :=
  if inSet testnets ver then some (network.getD "testnet")
  else if inSet mainnets ver then some "mainnet"
  else none

/-- HDPrivateKey.raw_parse(stream, network) on the bytes of the stream (short reads as `BytesIO`) -/
def HDPriv.rawParse (s : Bytes) (network : Option String) : Option HDPriv := do
  let (ver, s) := sread Gen.hdPrivParVersionW s
  let network ← netOfVersion Gen.hdAllTestnetXprvs Gen.hdAllMainnetXprvs ver network
  let (d, s) := sread Gen.hdPrivParDepthW s
  let depth ← byteToInt d
  let (fp, s) := sread Gen.hdPrivParFpW s
  let (cn, s) := sread Gen.hdPrivParChildW s
  let (cc, s) := sread Gen.hdPrivParChainW s
  let (z, s) := sread Gen.hdPrivParZeroW s
  let zb ← byteToInt z
  if cmpOp Gen.hdPrivParseZeroOp zb Gen.hdPrivParseZeroT then none
  let (sk, _) := sread Gen.hdPrivParSecretW s
  let secret ← mkSecret (beToNat sk)
  mkPriv secret cc depth fp (beToNat cn) network (some ver) none

/-- HDPublicKey.raw_parse(stream, network) -/
def HDPub.rawParse (s : Bytes) (network : Option String) : Option HDPub := do
  let (ver, s) := sread Gen.hdPubParVersionW s
  let network ← netOfVersion Gen.hdAllTestnetXpubs Gen.hdAllMainnetXpubs ver network
  let (d, s) := sread Gen.hdPubParDepthW s
  let depth ← byteToInt d
  let (fp, s) := sread Gen.hdPubParFpW s
  let (cn, s) := sread Gen.hdPubParChildW s
  let (cc, s) := sread Gen.hdPubParChainW s
  let (sk, _) := sread Gen.hdPubParSecW s
  let point ← parsePoint sk
  mkPub point cc depth fp (beToNat cn) network (some ver)

section codec
variable (hash256 : Bytes → Bytes)

/-- HDPrivateKey.xprv(version=None) -/
def HDPriv.xprv (k : HDPriv) (version : Option Bytes) : Option Str := do
  let raw ← k.rawSerialize (version.getD k.privVersion)
  Base58.encodeBase58Checksum hash256 raw

/-- HDPublicKey.xpub(version=None) -/
def HDPub.xpub (p : HDPub) (version : Option Bytes) : Option Str := do
  let raw ← p.serialize (version.getD p.pubVersion)
  Base58.encodeBase58Checksum hash256 raw

/-- HDPrivateKey.xpub -/
def HDPriv.xpub (k : HDPriv) (version : Option Bytes) : Option Str := k.pub.xpub hash256 version

/-- HDPrivateKey.parse -/
def HDPriv.parse (s : Str) : Option HDPriv := do
  let raw ← Base58.rawDecodeBase58 hash256 s
  if cmpOp Gen.hdPrivParseLenOp raw.length Gen.hdPrivParseLenT then none
  HDPriv.rawParse raw none

/-- HDPublicKey.parse -/
def HDPub.parse (s : Str) : Option HDPub := do
  let raw ← Base58.rawDecodeBase58 hash256 s
  if cmpOp Gen.hdPubParseLenOp raw.length Gen.hdPubParseLenT then none
  HDPub.rawParse raw none

end codec

/-! ### paths: is_valid_bip32_path, combine_bip32_paths, secure_secret_path, child_to_path -/

/-- the normalisation `path.lower().strip().replace("'", "h").replace("//", "/")` ("be forgiving") -/
def forgive (path : Str) : Str := collapseSlashes (replaceChar '\'' 'h' (strip (lower path)))

/-- one sub-path of is_valid_bip32_path -/
def subPathOk (sp : Str) : Bool :=
  let sp := if endsWithChar 'h' sp then sp.dropLast else sp
  match pyInt sp with
  | none => false
  | some i => !(cmpOpI Gen.pathNegOp i Gen.pathNegT) && !(cmpOpI Gen.pathMaxIndexOp i Gen.pathMaxIndexT)

/-- hd.is_valid_bip32_path -/
def isValidBip32Path (path : Str) : Bool :=
  let p := forgive path
  if p = ['m'] then true
  else if ¬ startsWith ['m', '/'] p then false
  else
    let subs := split '/' (p.drop 2)
    if cmpOp Gen.pathMaxDepthOp subs.length Gen.pathMaxDepthT then false
    else subs.all subPathOk

/-- blinding.combine_bip32_paths -/
def combinePaths (first second : Str) : Option Str :=
  if ¬ isValidBip32Path first then none
  else if ¬ isValidBip32Path second then none
  else
    let f := forgive first
    let s := forgive second
    if f = ['m'] then some s
    else if s = ['m'] then some f
    else some (f ++ '/' :: s.drop 2)

/-- blinding.secure_secret_path(depth) with the values returned by `randbelow` as an argument
    (`depth = rands.length`) -/
def secureSecretPath (rands : List Nat) : Option Str :=
  let depth := rands.length
  if cmpOp Gen.secretDepthMaxOp depth Gen.secretDepthMaxT then none
  else if cmpOp Gen.secretDepthMinOp depth Gen.secretDepthMinT then none
  else some (join '/' (['m'] :: rands.map natStr))

/-- helper.child_to_path -/
def childToPath (cn : Nat) : Str :=
  if cmpOp Gen.childToPathHardOp cn Gen.childToPathHardT then '/' :: natStr (cn - Gen.childToPathSub) ++ ['\'']
  else '/' :: natStr cn

/-- the loop of helper.parse_binary_path (fuel: number of bytes + 1) -/
def binPathLoop : Nat → Bytes → Str → Str
  | 0, _, acc => acc
  | f + 1, d, acc =>
    if d.length = 0 then acc
    else binPathLoop f (d.drop Gen.binPathDrop) (acc ++ childToPath (leToNat (d.take Gen.binPathTake)))

/-- helper.parse_binary_path; `none` = ValueError -/
def parseBinaryPath (b : Bytes) : Option Str :=
  if b.length % Gen.binPathMod ≠ 0 then none else some (binPathLoop (b.length + 1) b ['m'])

section blinding
variable (hash256 : Bytes → Bytes) (hmac : Bytes → Bytes → Bytes) (h160 : Bytes → Bytes)

/-- blinding.blind_xpub: (blinded_child_xpub, blinded_full_path) -/
def blindXpub (startingXpub startingPath secretPath : Str) : Option (Str × Str) := do
  let x ← HDPub.parse hash256 startingXpub
  if x.depth ≠ count '/' startingPath then none
  let c ← x.traverse hmac h160 secretPath
  let cx ← c.xpub hash256 none
  let full ← combinePaths startingPath secretPath
  pure (cx, full)

end blinding

end Buidl.HD
