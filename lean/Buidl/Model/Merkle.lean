/-
  Buidl.Model.Merkle — Merkle roots, BIP37 partial Merkle trees, proof-of-work (C17).
  Import-free.  `hash256` is a parameter everywhere.

  Mirrors
    buidl/helper.py       merkle_parent, merkle_parent_level, merkle_root, bit_field_to_bytes,
                          bytes_to_bit_field, bits_to_target, target_to_bits, calculate_new_bits
    buidl/merkleblock.py  MerkleTree (__init__, cursor navigation, populate_tree), MerkleBlock.is_valid,
                          MerkleBlock.proved_txs
    buidl/block.py        Block.target, Block.check_pow, Block.validate_merkle_root
    buidl/network.py      HeadersMessage.is_valid
  The 80-byte header codec and `Block.hash` are `Buidl.Wire.Header` (Model/Wire.lean).

  Conventions: a Python exception is `none` (or `PopOut.error`); fuel exhaustion is its own
  outcome (`PopOut.outOfFuel`), never a default.
-/
import Buidl.Model.Wire
import Buidl.Gen.Merkle
namespace Buidl.Merkle
open Buidl Buidl.Wire

/-! ### helper.merkle_parent / merkle_parent_level / merkle_root -/

/-- helper.merkle_parent -/
def merkleParent (hash256 : Bytes → Bytes) (h1 h2 : Bytes) : Bytes := hash256 (h1 ++ h2)

/-- the `for i in range(0, len(hashes), 2)` loop of merkle_parent_level on a list of even length
    (`hashes[i + 1]` on a list of odd length would be an IndexError; the caller has made the
    length even) -/
def pairUp (hash256 : Bytes → Bytes) : List Bytes → List Bytes
  | a :: b :: r => merkleParent hash256 a b :: pairUp hash256 r
  | _ => []

/-- the in-place step `if len(hashes) % 2 == 1: hashes.append(hashes[-1])` -/
def dupLast (hashes : List Bytes) : List Bytes :=
  if hashes.length % 2 = 1 then
    match hashes.getLast? with
    | some l => hashes ++ [l]
    | none => hashes
  else hashes

/-- helper.merkle_parent_level: returns the parent level *and* the argument list as the call
    leaves it (the duplicated last hash is appended to the caller's list).
    `none` = RuntimeError for a one-element list.  An empty list gives an empty level. -/
def merkleParentLevel (hash256 : Bytes → Bytes) (hashes : List Bytes) : Option (List Bytes × List Bytes) :=
  if hashes.length = 1 then none
  else
    let hashes' := dupLast hashes
    some (pairUp hash256 hashes', hashes')

theorem pairUp_length (hash256 : Bytes → Bytes) : ∀ l : List Bytes, (pairUp hash256 l).length = l.length / 2
  | [] => by simp [pairUp]
  | [_] => by simp [pairUp]
  | a :: b :: r => by
    simp only [pairUp, List.length_cons, pairUp_length hash256 r]; omega

theorem dupLast_length_le (l : List Bytes) : (dupLast l).length ≤ l.length + 1 := by
  unfold dupLast; split
  · split <;> simp
  · omega

/-- the `while len(current_level) > 1` loop of merkle_root (well-founded on the length); inside the
    loop the length is not 1, so `merkle_parent_level` cannot raise and is `pairUp ∘ dupLast` -/
def merkleRootLoop (hash256 : Bytes → Bytes) (cur : List Bytes) : Option Bytes :=
  if _ : cur.length > 1 then merkleRootLoop hash256 (pairUp hash256 (dupLast cur))
  else cur.head?
termination_by cur.length
decreasing_by
  have := dupLast_length_le cur
  rw [pairUp_length]; omega

/-- helper.merkle_root: the root and the caller's list as the call leaves it (only the first
    level is the caller's list object; later levels are fresh lists).
    `none` = IndexError on an empty list. -/
def merkleRoot (hash256 : Bytes → Bytes) (hashes : List Bytes) : Option (Bytes × List Bytes) :=
  (merkleRootLoop hash256 hashes).map (·, if hashes.length > 1 then dupLast hashes else hashes)

/-- Block.validate_merkle_root (tx_hashes are reversed before and the root after) -/
def validateMerkleRoot (hash256 : Bytes → Bytes) (txHashes : List Bytes) (merkleRootField : Bytes) : Option Bool :=
  (merkleRoot hash256 (txHashes.map List.reverse)).map (fun r => r.1.reverse = merkleRootField)

/-! ### helper.bytes_to_bit_field / bit_field_to_bytes (least significant bit first) -/

/-- the inner loop: `n` times append `byte & 1`, shift right -/
def byteBitsLE : Nat → Nat → List Bool
  | 0, _ => []
  | n + 1, b => (b % 2 = 1) :: byteBitsLE n (b / 2)

/-- helper.bytes_to_bit_field -/
def bytesToBitField (bs : Bytes) : List Bool :=
  bs.flatMap (fun b => byteBitsLE 8 b.toNat)

/-- value of up to 8 bits, least significant first -/
def bitsLEToNat : List Bool → Nat
  | [] => 0
  | b :: r => (if b then 1 else 0) + 2 * bitsLEToNat r

def chunk8 : Nat → List Bool → List (List Bool)
  | 0, _ => []
  | n + 1, l => l.take 8 :: chunk8 n (l.drop 8)

/-- helper.bit_field_to_bytes; `none` = RuntimeError (length not divisible by 8) -/
def bitFieldToBytes (bits : List Bool) : Option Bytes :=
  if bits.length % 8 ≠ 0 then none
  else some ((chunk8 (bits.length / 8) bits).map (fun c => UInt8.ofNat (bitsLEToNat c)))

/-! ### MerkleTree -/

/-- ⌈log₂ n⌉ for n ≥ 1 computed as Python's `(n - 1).bit_length()` -/
def bitLength : Nat → Nat
  | 0 => 0
  | n + 1 => bitLength ((n + 1) / 2) + 1
decreasing_by omega

/-- `math.ceil(math.log(total, 2))` in IEEE double arithmetic as CPython computes it
    (`log(x)/log(2)`), exact for 1 ≤ total ≤ 2^32 — the range of the 4-byte wire field:
    the quotient overshoots an integer only at 2^29 and 2^31.  (Validated against CPython by
    the C17 harness on every power of two ± 1 and random totals.) -/
def floatCeilLog2 (total : Nat) : Nat :=
  bitLength (total - 1) + (if total = 2 ^ 29 ∨ total = 2 ^ 31 then 1 else 0)

/-- `self.max_depth` of MerkleTree.__init__.  Which of the two forms the source uses is
    re-extracted on every run (`Gen.treeDepthIsFloatLog`). -/
def maxDepth (total : Nat) : Nat :=
  if Gen.treeDepthIsFloatLog then floatCeilLog2 total
  else if total = 0 then 1      -- (-1).bit_length() = 1; the tree then has two empty levels
  else bitLength (total - 1)

/-- `math.ceil(self.total / 2 ** (self.max_depth - depth))`: number of items of a level
    (true division is exact for total < 2^53) -/
def levelSize (total maxD depth : Nat) : Nat :=
  (total + 2 ^ (maxD - depth) - 1) / 2 ^ (maxD - depth)

/-- the tree with its cursor and the lists `populate_tree` consumes.  `nodes d i` is a sparse view
    of `self.nodes[d][i]` (`none` = Python `None`); bounds come from `levelSize`. -/
structure TreeSt where
  total    : Nat
  maxD     : Nat
  nodes    : Nat → Nat → Option Bytes
  depth    : Nat
  index    : Nat
  flagBits : List Bool
  hashes   : List Bytes
  proved   : List Bytes

/-- `self.nodes[d][i]`: outer `none` = IndexError -/
def TreeSt.get (s : TreeSt) (d i : Nat) : Option (Option Bytes) :=
  if d ≤ s.maxD ∧ i < levelSize s.total s.maxD d then some (s.nodes d i) else none

/-- `self.nodes[d][i] = v` -/
def TreeSt.set (s : TreeSt) (d i : Nat) (v : Bytes) : Option TreeSt :=
  if d ≤ s.maxD ∧ i < levelSize s.total s.maxD d then
    some { s with nodes := fun d' i' => if d' = d ∧ i' = i then some v else s.nodes d' i' }
  else none

/-- MerkleTree.up.  (At the root Python's `current_depth` becomes -1; the loop has ended by then
    because the root is set, and nothing reads the cursor afterwards.) -/
def TreeSt.up (s : TreeSt) : TreeSt := { s with depth := s.depth - 1, index := s.index / 2 }
/-- MerkleTree.left -/
def TreeSt.left (s : TreeSt) : TreeSt := { s with depth := s.depth + 1, index := s.index * 2 }
/-- MerkleTree.right -/
def TreeSt.right (s : TreeSt) : TreeSt := { s with depth := s.depth + 1, index := s.index * 2 + 1 }

/-- MerkleTree.right_exists: `len(self.nodes[depth + 1]) > index * 2 + 1`; `none` = IndexError -/
def TreeSt.rightExists (s : TreeSt) : Option Bool :=
  if s.depth + 1 ≤ s.maxD then some (levelSize s.total s.maxD (s.depth + 1) > s.index * 2 + 1) else none

/-- one iteration of the `while self.root() is None` loop body of populate_tree;
    `none` = an exception (pop from an empty list, index out of range) -/
def step (hash256 : Bytes → Bytes) (s : TreeSt) : Option TreeSt :=
  if s.depth = s.maxD then
    -- leaf: flag_bits.pop(0), hashes.pop(0)
    match s.flagBits, s.hashes with
    | fb :: fbs, h :: hs => do
      let s1 ← ({ s with flagBits := fbs, hashes := hs } : TreeSt).set s.depth s.index h
      let s2 : TreeSt := if fb then { s1 with proved := s1.proved ++ [h.reverse] } else s1
      pure s2.up
    | _, _ => none
  else do
    let left ← s.get (s.depth + 1) (s.index * 2)
    match left with
    | none =>
      match s.flagBits with
      | [] => none
      | false :: fbs =>
        match s.hashes with
        | [] => none
        | h :: hs => do
          let s1 ← ({ s with flagBits := fbs, hashes := hs } : TreeSt).set s.depth s.index h
          pure s1.up
      | true :: fbs => pure ({ s with flagBits := fbs } : TreeSt).left
    | some lh =>
      let re ← s.rightExists
      if re then do
        let right ← s.get (s.depth + 1) (s.index * 2 + 1)
        match right with
        | none => pure s.right
        | some rh => do
          let s1 ← s.set s.depth s.index (merkleParent hash256 lh rh)
          pure s1.up
      else do
        let s1 ← s.set s.depth s.index (merkleParent hash256 lh lh)
        pure s1.up

inductive PopOut where
  | done (root : Bytes) (proved : List Bytes)
  | error
  | outOfFuel

/-- the `while self.root() is None` loop; `self.root()` = `self.nodes[0][0]` (IndexError when the
    tree has no items) -/
def runLoop (hash256 : Bytes → Bytes) : Nat → TreeSt → Option (Option (Bytes × TreeSt))
  | 0, _ => some none
  | fuel + 1, s =>
    match s.get 0 0 with
    | none => none
    | some (some r) => some (some (r, s))
    | some none =>
      match step hash256 s with
      | none => none
      | some s' => runLoop hash256 fuel s'

/-- MerkleTree(total) followed by populate_tree(flag_bits, hashes), including the two leftover
    checks.  Every inner node is visited at most three times and every first visit pops a flag
    bit, so `3 * len(flag_bits) + 4` iterations suffice. -/
def populate (hash256 : Bytes → Bytes) (total : Nat) (flagBits : List Bool) (hashes : List Bytes) : PopOut :=
  let s0 : TreeSt := { total := total, maxD := maxDepth total, nodes := fun _ _ => none, depth := 0, index := 0,
                       flagBits := flagBits, hashes := hashes, proved := [] }
  match runLoop hash256 (3 * flagBits.length + 4) s0 with
  | none => .error
  | some none => .outOfFuel
  | some (some (r, s)) =>
    if s.hashes.length ≠ 0 then .error
    else if s.flagBits.any id then .error
    else .done r s.proved

/-! #### one MerkleTree object used more than once -/

/-- MerkleTree.__init__: the fresh tree -/
def newTree (total : Nat) : TreeSt :=
  { total := total, maxD := maxDepth total, nodes := fun _ _ => none, depth := 0, index := 0,
    flagBits := [], hashes := [], proved := [] }

/-- the loop again, also returning the tree as the call leaves it.  A step that raises has not touched the
    tree (the only exceptions are `pop` from an empty list, before any assignment), so after an exception
    the object is the state before that step. -/
def runLoopSt (hash256 : Bytes → Bytes) : Nat → TreeSt → TreeSt × Option (Option Bytes)
  | 0, s => (s, some none)
  | fuel + 1, s =>
    match s.get 0 0 with
    | none => (s, none)
    | some (some r) => (s, some (some r))
    | some none =>
      match step hash256 s with
      | none => (s, none)
      | some s' => runLoopSt hash256 fuel s'

/-- populate_tree(flag_bits, hashes) on an existing MerkleTree object (fresh, finished, or left half way by an
    exception): the tree afterwards and the outcome.  Nodes, cursor and `proved_txs` persist between calls.
    Resuming half way, up to `max_depth` ancestors are revisited without popping a flag bit, hence the fuel. -/
def populateOn (hash256 : Bytes → Bytes) (t : TreeSt) (flagBits : List Bool) (hashes : List Bytes) : TreeSt × PopOut :=
  let r := runLoopSt hash256 (3 * flagBits.length + 4 + 3 * t.maxD) { t with flagBits := flagBits, hashes := hashes }
  match r.2 with
  | none => (r.1, .error)
  | some none => (r.1, .outOfFuel)
  | some (some root) =>
    if r.1.hashes.length ≠ 0 then (r.1, .error)
    else if r.1.flagBits.any id then (r.1, .error)
    else (r.1, .done root r.1.proved)

/-- MerkleBlock.is_valid together with what `proved_txs()` returns afterwards (the tree is kept
    also when the roots differ).  `hashes` and `merkleRootField` are in the byte order of the
    parsed object (reversed wire order).  `none` = an exception. -/
def isValid (hash256 : Bytes → Bytes) (merkleRootField : Bytes) (total : Nat) (hashes : List Bytes) (flags : Bytes) :
    Except Unit (Option (Bool × List Bytes)) :=
  match populate hash256 total (bytesToBitField flags) (hashes.map List.reverse) with
  | .outOfFuel => .error ()
  | .error => .ok none
  | .done r proved => .ok (some (r.reverse = merkleRootField, proved))

/-! ### compact bits, targets, retargeting, proof-of-work -/

/-- value of `coefficient * 256 ** (exponent - 3)`: an `int` when the exponent is at least 3,
    otherwise Python evaluates `256 ** negative` as a float; the value is then the exact
    rational `coef / 256^k` (exact in double arithmetic for `coef < 2^53`) -/
inductive Target where
  | int (n : Nat)
  | frac (coef k : Nat)   -- float `coef / base^k`, k ≥ 1
deriving DecidableEq, Repr

/-- helper.bits_to_target; `none` = IndexError on empty bits -/
def bitsToTarget (bits : Bytes) : Option Target :=
  match bits.getLast? with
  | none => none
  | some e =>
    let coefficient := leToNat bits.dropLast
    if e.toNat ≥ Gen.bitsBias then some (.int (coefficient * Gen.bitsBase ^ (e.toNat - Gen.bitsBias)))
    else some (.frac coefficient (Gen.bitsBias - e.toNat))

/-- bytes.lstrip(b"\x00") -/
def lstripZeros (b : Bytes) : Bytes := b.dropWhile (· = 0)

/-- helper.target_to_bits; `none` = OverflowError (target ≥ 2^256) or IndexError (target = 0) -/
def targetToBits (target : Nat) : Option Bytes := do
  let raw ← natToBE target Gen.targetWidth
  let raw := lstripZeros raw
  match raw with
  | [] => none
  | b0 :: _ =>
    if b0.toNat > Gen.targetSignCmp then
      some ((0 :: raw.take 2).reverse ++ [UInt8.ofNat (raw.length + 1)])
    else
      some ((raw.take 3).reverse ++ [UInt8.ofNat raw.length])

/-- helper.calculate_new_bits (the time differential is any Python int).  `none` = an exception
    (empty bits; a float target makes `//` produce a float and `to_bytes` fail; target 0 or too
    large in target_to_bits). -/
def calculateNewBits (previousBits : Bytes) (timeDifferential : Int) : Option Bytes := do
  let td : Int := if timeDifferential > (Gen.retargetHiCmp : Int) then (Gen.retargetHiSet : Int) else timeDifferential
  let td : Int := if td < (Gen.retargetLoCmp : Int) then (Gen.retargetLoSet : Int) else td
  match ← bitsToTarget previousBits with
  | .frac _ _ => none
  | .int t =>
    let nt : Int := ((t : Int) * td) / (Gen.retargetDivisor : Int)   -- Python floor division, divisor > 0
    let nt : Int := if nt > (Gen.retargetCapCmp : Int) then (Gen.retargetCapSet : Int) else nt
    if nt < 0 then none else targetToBits nt.toNat

/-- `proof OP target` with the operator re-extracted from Block.check_pow; comparing an int with
    the float `coef / 256^k` is exact in Python -/
def powCompare (proof : Nat) : Target → Bool
  | .int t => cmpOp Gen.checkPowOp proof t
  | .frac coef k => cmpOp Gen.checkPowOp (proof * Gen.bitsBase ^ k) coef

/-- Block.check_pow; `none` = an exception (header not serialisable, empty bits) -/
def checkPow (hash256 : Bytes → Bytes) (h : Header) : Option Bool := do
  let s ← h.serialize
  let proof := leToNat (hash256 s)
  let t ← bitsToTarget h.bits
  pure (powCompare proof t)

/-- HeadersMessage.is_valid as a fold over the headers; state = `last_block`
    (`None`, or the previous header's hash; `if last_block and …` also skips an empty hash).
    `none` = an exception. -/
def headersValidFrom (hash256 : Bytes → Bytes) : Option Bytes → List Header → Option Bool
  | _, [] => some true
  | last, h :: hs => do
    let ok ← checkPow hash256 h
    if !ok then pure false else
    let linked := match last with
      | none => true
      | some l => (l == []) || (h.prevBlock == l)
    if !linked then pure false else
    let hh ← h.hash hash256
    headersValidFrom hash256 (some hh) hs

def headersValid (hash256 : Bytes → Bytes) (hs : List Header) : Option Bool :=
  headersValidFrom hash256 none hs

end Buidl.Merkle
