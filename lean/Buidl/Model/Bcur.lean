/-
  Buidl.Model.Bcur — buidl/bcur.py: bcur_encode / bcur_decode, _parse_bcur_helper,
  BCURSingle and BCURMulti (constructor checks, encode, parse).  Import-free.

  * `sha256` is a parameter.
  * The `text_b64` attribute is modelled by the bytes it stands for (`a2b_base64` /
    `b2a_base64(..).strip()` are standard-library inverses of each other; trusted).
  * `str.lower()`, `str.strip()`, `int(str)` are modelled for ASCII strings (the driver answers
    `bad-op` for anything else).
  * `ceil(a / b)` on floats is modelled by integer ceiling division; the two agree whenever
    `a < 2^53` (`a / b` is correctly rounded and `⌊a/b⌋·b ≤ a < 2^53`); the theorems about
    chunking carry this bound as a hypothesis.
-/
import Buidl.Model.Bech32
import Buidl.Gen.Bcur
namespace Buidl.Bcur
open Buidl Buidl.Base58 Buidl.Bech32

/-- ASCII characters for which `str.isspace()` holds (what `str.strip()` removes) -/
def isSpace (c : Char) : Bool :=
  c.toNat = 32 || (9 ≤ c.toNat && c.toNat ≤ 13) || (28 ≤ c.toNat && c.toNat ≤ 31)

/-- `str.strip()` -/
def pyStrip (s : Str) : Str := ((s.dropWhile isSpace).reverse.dropWhile isSpace).reverse

/-- `s.split(sep)` for a non-empty separator: left to right, non-overlapping.
    Arguments: fuel (`s.length + 1`), remaining text, current piece reversed. -/
def splitGo (sep : Str) : Nat → Str → Str → List Str
  | 0, _, cur => [cur.reverse]
  | _ + 1, [], cur => [cur.reverse]
  | f + 1, x :: xs, cur =>
    if sep.isPrefixOf (x :: xs) then cur.reverse :: splitGo sep f ((x :: xs).drop sep.length) []
    else splitGo sep f xs (x :: cur)

/-- `s.split(sep)`; an empty separator (ValueError) is outside the model and yields `[]`,
    which every caller rejects -/
def pySplit (sep s : Str) : List Str := if sep = [] then [] else splitGo sep (s.length + 1) s []

def isDigit (c : Char) : Bool := '0' ≤ c && c ≤ '9'

/-- what `int()` skips around an ASCII literal (C `isspace`; unlike `str.strip()` it does not
    include 0x1c..0x1f) -/
def isSpaceC (c : Char) : Bool := c.toNat = 32 || (9 ≤ c.toNat && c.toNat ≤ 13)

/-- digits with single underscores between them (`int()` literal body): value and number of
    digit characters; `none` = ValueError -/
def intBody : Str → Nat → Nat → Bool → Option (Nat × Nat)
  | [], v, k, prevDigit => if prevDigit then some (v, k) else none
  | c :: cs, v, k, prevDigit =>
    if isDigit c then intBody cs (10 * v + (c.toNat - '0'.toNat)) (k + 1) true
    else if c = '_' ∧ prevDigit then intBody cs v k false
    else none

/-- CPython's default `sys.get_int_max_str_digits()` -/
def intMaxStrDigits : Nat := 4300

/-- the optional sign of an `int()` literal -/
def signSplit : Str → Bool × Str
  | '-' :: r => (true, r)
  | '+' :: r => (false, r)
  | r => (false, r)

/-- `int(s)` for an ASCII string: optional surrounding whitespace, optional sign, decimal
    digits with single underscores between digits, at most 4300 digits; `none` = ValueError -/
def pyInt (s : Str) : Option Int :=
  let t := ((s.dropWhile isSpaceC).reverse.dropWhile isSpaceC).reverse
  let (neg, body) : Bool × Str := signSplit t
  match intBody body 0 0 false with
  | none => none
  | some (v, k) => if k > intMaxStrDigits then none else some (if neg then - (v : Int) else (v : Int))

/-- bech32.uses_only_bech32_chars: `BECH32_CHARS_RE = ^[class]*$` matched against
    `string.lower()`; `$` also matches just before a final newline -/
def usesOnlyBech32Chars (s : Str) : Bool :=
  let l := s.map asciiLower
  let cls := Gen.bech32CharsReClass.toList
  l.all (cls.contains ·) || (l.getLast? = some '\n' && l.dropLast.all (cls.contains ·))

/-- what _parse_bcur_helper returns -/
structure Parsed where
  payload : Str
  checksum : Option Str
  x : Int
  y : Int
deriving DecidableEq, Repr

/-- bcur._parse_bcur_helper; `none` = BCURStringFormatError (or a failed tuple unpacking) -/
def parseBcurHelper (bcurString : Str) : Option Parsed :=
  let string := pyStrip (bcurString.map asciiLower)
  if ¬ Gen.bcurParsePrefix.toList.isPrefixOf string then none else
  let parts := pySplit Gen.bcurParseSep.toList string
  let r : Option Parsed :=
    if parts.length = Gen.bcurParts2 then
      match parts with
      | [_, payload] => some ⟨payload, none, Gen.bcurDefaultX2, Gen.bcurDefaultY2⟩
      | _ => none
    else if parts.length = Gen.bcurParts3 then
      match parts with
      | [_, checksum, payload] => some ⟨payload, some checksum, Gen.bcurDefaultX3, Gen.bcurDefaultY3⟩
      | _ => none
    else if parts.length = Gen.bcurParts4 then
      match parts with
      | [_, xofy, checksum, payload] =>
        let xy := pySplit Gen.bcurParseOf.toList xofy
        if xy.length ≠ Gen.bcurXofyParts then none else
        match xy with
        | a :: b :: _ =>
          match pyInt a, pyInt b with
          | some x, some y => if x > y then none else some ⟨payload, some checksum, x, y⟩
          | _, _ => none
        | _ => none
      | _ => none
    else none
  match r with
  | none => none
  | some p =>
    let checksumOk : Bool :=
      match p.checksum with
      | none => true
      | some cs => cs = [] || (cs.length = Gen.bcurChecksumLen && usesOnlyBech32Chars cs)
    if ¬ checksumOk then none
    else if ¬ usesOnlyBech32Chars p.payload then none
    else some p

/-- bcur.bcur_encode: (enc, enc_hash) -/
def bcurEncode (sha256 : Bytes → Bytes) (data : Bytes) : Option (Str × Str) := do
  let cbor ← cborEncode data
  let enc ← bc32encode cbor
  let encHash ← bc32encode (sha256 cbor)
  pure (enc, encHash)

/-- bcur.bcur_decode; `none` = ValueError (digest mismatch), TypeError/IndexError when
    `bc32decode` returned None, or `cbor_decode` returned None -/
def bcurDecode (sha256 : Bytes → Bytes) (data : Str) (checksum : Option Str) : Option Bytes :=
  match bc32decode data with
  | none => none
  | some cbor =>
    match checksum with
    | none => cborDecode cbor
    | some cs => if bc32decode cs ≠ some (sha256 cbor) then none else cborDecode cbor

/-- `if given and given != calculated:` of the constructors (`None` and `""` are falsy) -/
def badArg (given : Option Str) (calcd : Str) : Bool :=
  match given with
  | none => false
  | some g => g ≠ [] && g ≠ calcd

/-- the constructor checks shared by BCURSingle.__init__ and BCURMulti.__init__:
    recompute (enc, enc_hash) and compare with the truthy `encoded` / `checksum` arguments -/
def construct (sha256 : Bytes → Bytes) (data : Bytes) (encoded checksum : Option Str) : Option (Str × Str) :=
  match bcurEncode sha256 data with
  | none => none
  | some (enc, encHash) =>
    if badArg encoded enc then none else if badArg checksum encHash then none else some (enc, encHash)

/-- BCURSingle(text_b64).encode(use_checksum) -/
def singleEncode (sha256 : Bytes → Bytes) (data : Bytes) (useChecksum : Bool) : Option Str :=
  (construct sha256 data none none).map fun (enc, encHash) =>
    if useChecksum then Gen.bcurSingleFmtA.toList ++ encHash ++ Gen.bcurSingleFmtB.toList ++ enc
    else Gen.bcurSingleFmtNoChk.toList ++ enc

/-- BCURSingle.parse: the decoded bytes (the object's `text_b64`) -/
def singleParse (sha256 : Bytes → Bytes) (toParse : Str) : Option Bytes :=
  match parseBcurHelper toParse with
  | none => none
  | some p =>
    if p.x ≠ Gen.bcurSingleX ∨ p.y ≠ Gen.bcurSingleY then none else
    match bcurDecode sha256 p.payload p.checksum with
    | none => none
    | some data => (construct sha256 data (some p.payload) p.checksum).map fun _ => data

/-- `str(n)` for a natural number -/
def natToDec (n : Nat) : Str :=
  if n = 0 then ['0'] else (digitsBE 10 n n []).map fun d => Char.ofNat ('0'.toNat + d)

/-- `ceil(a / b)` (float division); `none` = ZeroDivisionError.  Exact for `a < 2^53`. -/
def floatCeilDiv (a b : Nat) : Option Nat := if b = 0 then none else some ((a + b - 1) / b)

/-- the chunks `encoded[cnt*L : (cnt+1)*L]` for cnt in range(n) -/
def chunks (enc : Str) (chunkLength n : Nat) : List Str :=
  (List.range n).map fun cnt => (enc.drop (cnt * chunkLength)).take chunkLength

/-- BCURMulti(text_b64).encode(max_size_per_chunk, animate) -/
def multiEncode (sha256 : Bytes → Bytes) (data : Bytes) (maxSize : Nat) (animate : Bool) : Option (List Str) :=
  match construct sha256 data none none with
  | none => none
  | some (enc, encHash) =>
    let n? := if animate then floatCeilDiv enc.length maxSize else some 1
    match n? with
    | none => none
    | some n =>
      match floatCeilDiv enc.length n with
      | none => none
      | some chunkLength =>
        some ((List.range n).map fun cnt =>
          Gen.bcurMultiFmtA.toList ++ natToDec (cnt + 1) ++ Gen.bcurMultiFmtB.toList ++ natToDec n
            ++ Gen.bcurMultiFmtC.toList ++ encHash ++ Gen.bcurMultiFmtD.toList
            ++ (enc.drop (cnt * chunkLength)).take chunkLength)

/-- the loop of BCURMulti.parse: (global_checksum, payloads) -/
def multiLoop : List Str → Nat → Option Str → Int → List Str → Option (Option Str × List Str)
  | [], _, gc, _, ps => some (gc, ps.reverse)
  | s :: rest, cnt, gc, gy, ps =>
    match parseBcurHelper s with
    | none => none
    | some p =>
      if ((cnt : Int) + 1) ≠ p.x then none
      else if cnt = 0 then multiLoop rest (cnt + 1) p.checksum p.y (p.payload :: ps)
      else if p.checksum ≠ gc then none
      else if p.y ≠ gy then none
      else multiLoop rest (cnt + 1) gc gy (p.payload :: ps)

/-- BCURMulti.parse: the decoded bytes (`text_b64`) and the `checksum` attribute -/
def multiParse (sha256 : Bytes → Bytes) (toParse : List Str) : Option (Bytes × Option Str) :=
  match multiLoop toParse 0 (some []) 0 [] with
  | none => none
  | some (gc, payloads) =>
    match bcurDecode sha256 payloads.flatten gc with
    | none => none
    | some data => (construct sha256 data none gc).map fun _ => (data, gc)

end Buidl.Bcur
