/-
  Buidl.Model.MuSig — buidl/taproot.py: MultiSigTapScript, MuSigTapScript (key aggregation, nonce
  aggregation, partial signatures, get_signature with its self-verification), TapRootMultiSig
  (single_leaf, multi_leaf_tree, musig_tree, musig_and_single_leaf_tree, everything_tree) with a
  model of `itertools.combinations` and of `sorted` on byte strings; buidl/pecc.py:
  S256Point.combine, S256Point.verify_schnorr, SchnorrSignature.parse (as used by get_signature).
  Import-free (Lean core only).  `none` = the Python raises.

  (`verifySchnorr` below transcribes pecc.py's verify_schnorr over the abstract challenge hash of
  `Hashes`; Buidl.Model.Schnorr.verifySchnorr is the same function over `sha256` with the tag cache
  threaded — duplicate to merge; Buidl.Proofs.MuSig relates the two.)
-/
import Buidl.Model.Taproot
namespace Buidl.MuSig
open Buidl Buidl.EC Buidl.Script Buidl.Taproot

/-! ### `sorted` on a list of byte strings, `itertools.combinations` -/

/-- insertion into a list sorted by Python's bytes order -/
def insertBytes (x : Bytes) : List Bytes → List Bytes
  | [] => [x]
  | y :: ys => if bytesLt x y then x :: y :: ys else y :: insertBytes x ys

/-- `sorted(list_of_bytes)` (stability is unobservable: equal byte strings are identical) -/
def sortBytes : List Bytes → List Bytes
  | [] => []
  | x :: xs => insertBytes x (sortBytes xs)

/-- `itertools.combinations(l, k)` in the order Python yields them (lexicographic in positions) -/
def combinations {α : Type} : List α → Nat → List (List α)
  | _, 0 => [[]]
  | [], _ + 1 => []
  | x :: xs, k + 1 => (combinations xs k).map (x :: ·) ++ combinations xs (k + 1)

/-! ### S256Point.combine -/

/-- S256Point.combine(points): `points[0]` then `+=` each further point; IndexError on `[]` -/
def combinePts : List Pt → Option Pt
  | [] => none
  | p :: ps => some (ps.foldl sadd p)

/-- `[S256Point.parse_xonly(b) for b in xonlys]` -/
def parseAll : List Bytes → Option (List Pt)
  | [] => some []
  | b :: bs => do
    let p ← parseXonly b
    let ps ← parseAll bs
    pure (p :: ps)

/-! ### MultiSigTapScript -/

/-- the CHECKSIGADD tail of MultiSigTapScript: `[xonly, 0xBA]` for each further key -/
def checksigAdds : List Bytes → List Cmd
  | [] => []
  | x :: xs => .push x :: .op Gen.multiSigOpChecksigAdd :: checksigAdds xs

/-- MultiSigTapScript(points, k, locktime, sequence).commands -/
def multiSigCmds (points : List Pt) (k : Nat) (locktime sequence : Option Nat) : Option (List Cmd) := do
  let pre ← timelockCmds locktime sequence
  match sortBytes (points.map xonly) with
  | [] => none   -- ValueError: at least one point
  | x0 :: rest =>
    let _ ← parseAll (x0 :: rest)   -- self.points (parse_xonly may raise)
    let head := pre ++ [.push x0, .op Gen.multiSigOpChecksig]
    if points.length > Gen.multiSigMoreThan then do
      let kop ← numberToOpCode k
      pure (head ++ checksigAdds rest ++ [.op kop, .op Gen.multiSigOpNumEqual])
    else pure head

/-! ### MuSigTapScript -/

structure MuSig where
  xonlys : List Bytes
  points : List Pt
  commitment : Bytes
  coefs : List Nat
  point : Pt
  cmds : List Cmd
deriving Repr

/-- `{b: c for c, b in zip(coefs, xonlys)}[b]`: the last pair with that key wins; KeyError → none -/
def coefLookup : List Bytes → List Nat → Bytes → Option Nat
  | x :: xs, c :: cs, b =>
    match coefLookup xs cs b with
    | some v => some v
    | none => if x = b then some c else none
  | _, _, _ => none

/-- `[c * p for c, p in zip(coefs, points)]` -/
def scaleAll : List Nat → List Pt → List Pt
  | c :: cs, p :: ps => smul (c : Int) p :: scaleAll cs ps
  | _, _ => []

/-- `next((b for b in xonlys if b != x0), None)` -/
def secondKey (x0 : Bytes) (xonlys : List Bytes) : Option Bytes := xonlys.find? (fun b => b != x0)

/-- the KeyAgg coefficient of a key (repaired code, F13a): a function of the key value — 1 for the second
    distinct key (`b == second`; never when `second` is None), else `int(H_KeyAggCoef(commitment ‖ b))` -/
def coefOf (H : Hashes) (commitment : Bytes) (second : Option Bytes) (b : Bytes) : Nat :=
  if some b = second then Gen.muSigCoefValue else beToNat (H.keyAggCoef (commitment ++ b))

/-- MuSigTapScript(points, locktime, sequence) -/
def musigNew (H : Hashes) (points : List Pt) (locktime sequence : Option Nat) : Option MuSig := do
  let pre ← timelockCmds locktime sequence
  if points.length = 0 then none else
  let xonlys := sortBytes (points.map xonly)
  let pts ← parseAll xonlys
  let commitment := H.keyAggList xonlys.flatten
  -- `xonlys[0]` (IndexError cannot happen: the list is not empty)
  let x0 ← xonlys[Gen.muSigFirstIndex]?
  let second := secondKey x0 xonlys
  let coefs := xonlys.map (coefOf H commitment second)
  let point ← combinePts (scaleAll coefs pts)
  pure { xonlys := xonlys, points := pts, commitment := commitment, coefs := coefs, point := point,
         cmds := pre ++ [.push (xonly point), .op Gen.muSigOpChecksig] }

/-- MuSigTapScript.generate_nonces with the two values of `randbelow(N)` given -/
def generateNonces (k1 k2 : Nat) : (Nat × Nat) × (Pt × Pt) :=
  ((k1, k2), (smul (k1 : Int) G, smul (k2 : Int) G))

/-- MuSigTapScript.nonce_sums -/
def nonceSums (pairs : List (Pt × Pt)) : Option (Pt × Pt) := do
  let s1 ← combinePts (pairs.map (·.1))
  let s2 ← combinePts (pairs.map (·.2))
  pure (s1, s2)

/-- MuSigTapScript.compute_coefficient (`sec()` raises on infinity) -/
def computeCoefficient (H : Hashes) (M : MuSig) (sums : Pt × Pt) (sigHash : Bytes) : Option Nat := do
  let a ← sec sums.1 true
  let b ← sec sums.2 true
  pure (beToNat (H.musigNonce (a ++ b ++ xonly M.point ++ sigHash)))

/-- MuSigTapScript.compute_k -/
def computeK (H : Hashes) (M : MuSig) (secrets : Nat × Nat) (sums : Pt × Pt) (sigHash : Bytes) : Option Nat := do
  let h ← computeCoefficient H M sums sigHash
  pure ((secrets.1 + h * secrets.2) % N)

/-- MuSigTapScript.compute_r -/
def computeR (H : Hashes) (M : MuSig) (sums : Pt × Pt) (sigHash : Bytes) : Option Pt := do
  let h ← computeCoefficient H M sums sigHash
  combinePts [sums.1, smul (h : Int) sums.2]

/-- the external key of sign / get_signature: `if merkle_root:` tweaked, else the even point -/
def externalKey (H : Hashes) (M : MuSig) (root : Bytes) : Option Pt :=
  if root ≠ [] then tweakedKey H M.point root else evenPointOf M.point

/-- the BIP340 challenge as computed in sign / get_signature / verify_schnorr -/
def challengeOf (H : Hashes) (R ext : Pt) (sigHash : Bytes) : Nat :=
  beToNat (H.challenge (xonly R ++ xonly ext ++ sigHash)) % N

/-- MuSigTapScript.sign(private_key, k, r, sig_hash, merkle_root) with `private_key = PrivateKey(d)` -/
def sign (H : Hashes) (M : MuSig) (d : Nat) (k : Nat) (R : Pt) (sigHash root : Bytes) : Option Nat := do
  let ext ← externalKey H M root
  let challenge := challengeOf H R ext sigHash
  let pt ← privPoint d
  let hi ← coefLookup M.xonlys M.coefs (xonly pt)
  let ci := hi * challenge % N
  let rPar ← parityOf R
  let extPar ← parityOf ext
  let kReal : Int := if rPar = extPar then (k : Int) else -(k : Int)
  let qPar ← parityOf M.point
  let pPar ← parityOf pt
  let secret : Int := if qPar = pPar then (d : Int) else -(d : Int)
  pure ((kReal + (ci : Int) * secret) % (N : Int)).toNat

/-- S256Point.verify_schnorr(msg, SchnorrSignature(R, s)) on the point `X` -/
def verifySchnorr (H : Hashes) (X : Pt) (msg : Bytes) (R : Pt) (s : Nat) : Option Bool := do
  let point ← evenPointOf X
  match R with
  | .inf => pure false
  | .aff _ _ =>
    let challenge := challengeOf H R point msg
    let result := saddInt (smul (-(challenge : Int)) point) (s : Int)
    match result with
    | .inf => pure false
    | .aff _ y =>
      if y % 2 = 1 then pure false
      else pure (xonly result == xonly R)

/-- SchnorrSignature.parse on `r.xonly() + int_to_big_endian(s, 32)` (ValueError when `s ≥ N`) -/
def parseSig (bin : Bytes) : Option (Pt × Nat) := do
  let R ← parsePoint (bin.take 32)
  let s := beToNat ((bin.drop 32).take 32)
  if s ≥ N then none else pure (R, s)

/-- MuSigTapScript.get_signature(s_sum, r, sig_hash, merkle_root) → the SchnorrSignature (R, s);
    `none` = ValueError("Invalid signature") or any other exception -/
def getSignature (H : Hashes) (M : MuSig) (sSum : Int) (R : Pt) (sigHash root : Bytes) : Option (Pt × Nat) := do
  let ext ← externalKey H M root
  let s : Int ←
    if root ≠ [] then do
      let t := beToNat (tweak H M.point root)
      let challenge := challengeOf H R ext sigHash
      let extPar ← parityOf ext
      if extPar = 1 then pure ((-sSum - (challenge : Int) * (t : Int)) % (N : Int))
      else pure ((sSum + (challenge : Int) * (t : Int)) % (N : Int))
    else pure (sSum % (N : Int))
  let sb ← natToBE s.toNat Gen.muSigSWidth
  let sig ← parseSig (xonly R ++ sb)
  let ok ← verifySchnorr H ext sigHash sig.1 sig.2
  if !ok then none else pure sig

/-- SchnorrSignature.serialize -/
def sigSerialize (sig : Pt × Nat) : Option Bytes := do
  let sb ← natToBE sig.2 32
  pure (xonly sig.1 ++ sb)

/-! ### TapRootMultiSig -/

structure TapRootMultiSig where
  points : List Pt
  k : Nat
  defaultInternal : Pt
deriving Repr

/-- TapRootMultiSig(points, k): ValueError unless `1 ≤ k ≤ n`; `MuSigTapScript(points).point` -/
def trmsNew (H : Hashes) (points : List Pt) (k : Nat) : Option TapRootMultiSig := do
  if points.length < k || cmpAt Gen.tapRootMultiSigCmp 0 k then none else
  let M ← musigNew H points none none
  pure { points := points, k := k, defaultInternal := M.point }

def leafOfCmds (cmds : List Cmd) : Tree := .leaf { script := { cmds := cmds } }

/-- TapRootMultiSig.single_leaf -/
def singleLeaf (T : TapRootMultiSig) (locktime sequence : Option Nat) : Option Tree := do
  let c ← multiSigCmds T.points T.k locktime sequence
  pure (leafOfCmds c)

def mapM' {α β : Type} (f : α → Option β) : List α → Option (List β)
  | [] => some []
  | a :: as => do
    let b ← f a
    let bs ← mapM' f as
    pure (b :: bs)

/-- the leaves of TapRootMultiSig.multi_leaf_tree, one per combination, in order -/
def multiLeafLeaves (T : TapRootMultiSig) (locktime sequence : Option Nat) : Option (List Tree) :=
  mapM' (fun pubkeys => (multiSigCmds pubkeys T.k locktime sequence).map leafOfCmds) (combinations T.points T.k)

/-- TapRootMultiSig.multi_leaf_tree -/
def multiLeafTree (T : TapRootMultiSig) (locktime sequence : Option Nat) : Option Tree := do
  let ls ← multiLeafLeaves T locktime sequence
  combine ls

/-- the leaves of TapRootMultiSig.musig_tree -/
def musigLeaves (H : Hashes) (T : TapRootMultiSig) (locktime sequence : Option Nat) : Option (List Tree) :=
  mapM' (fun pubkeys => (musigNew H pubkeys locktime sequence).map (fun M => leafOfCmds M.cmds)) (combinations T.points T.k)

/-- TapRootMultiSig.musig_tree -/
def musigTree (H : Hashes) (T : TapRootMultiSig) (locktime sequence : Option Nat) : Option Tree := do
  let ls ← musigLeaves H T locktime sequence
  combine ls

/-- TapRootMultiSig.musig_and_single_leaf_tree -/
def musigAndSingleLeafTree (H : Hashes) (T : TapRootMultiSig) (locktime sequence : Option Nat) : Option Tree := do
  let a ← singleLeaf T locktime sequence
  let b ← musigTree H T locktime sequence
  pure (.branch a b)

/-- TapRootMultiSig.everything_tree -/
def everythingTree (H : Hashes) (T : TapRootMultiSig) (locktime sequence : Option Nat) : Option Tree := do
  let a ← singleLeaf T locktime sequence
  let b ← multiLeafTree T locktime sequence
  let c ← musigTree H T locktime sequence
  pure (.branch a (.branch b c))

end Buidl.MuSig
