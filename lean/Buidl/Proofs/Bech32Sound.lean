/-
  Soundness of the decoders: what an accepted string looks like.
-/
import Buidl.Proofs.Bech32Addr
import Buidl.Proofs.Base58Check
namespace Buidl.Bech32
open Buidl Buidl.Base58

theorem alphabet_no_upper : ∀ c ∈ Bech32.alphabet, ¬ ('A' ≤ c ∧ c ≤ 'Z') := by decide

/-- no upper-case letter is in the alphabet the decoder looks characters up in (the code does not
    implement the all-upper-case form BIP173 allows) -/
theorem upper_not_in_alphabet (c : Char) (h1 : 'A' ≤ c) (h2 : c ≤ 'Z') : c ∉ Bech32.alphabet :=
  fun hm => alphabet_no_upper c hm ⟨h1, h2⟩

/-- every character of an accepted data part is in the bech32 alphabet (lower case) -/
theorem decodeBody_chars {hrp raw : Str} {r : Str × Nat × Bytes} (h : decodeBody hrp raw = some r) :
    ∀ c ∈ raw, c ∈ Bech32.alphabet := by
  obtain ⟨hx, res, dtail, _, hm, _, _⟩ := decodeBody_some h
  obtain ⟨hs, hlt⟩ := mapM_index_some hm
  intro c hc
  rw [hs] at hc
  obtain ⟨d, hd, rfl⟩ := List.mem_map.mp hc
  exact b32char_mem (hlt d hd)

/-- an accepted address carries a version below 32 and a program of 2..40 bytes -/
theorem decodeBody_bounds {hrp raw : Str} {r : Str × Nat × Bytes} (h : decodeBody hrp raw = some r) :
    r.2.1 < 32 ∧ 2 ≤ r.2.2.length ∧ r.2.2.length ≤ 40 := by
  obtain ⟨hx, res, dtail, hhx, hm, hres, _⟩ := decodeBody_some h
  obtain ⟨_, hlt⟩ := mapM_index_some hm
  refine ⟨hlt _ (by rw [hres]; simp), ?_⟩
  unfold decodeBody at h
  cases hn : netForPrefix hrp with
  | none => simp [hn] at h
  | some network =>
    rw [hn] at h
    simp only at h
    split at h
    · cases h
    · rw [hm, hhx, hres] at h
      simp only at h
      have hok : (if cmpAt Gen.decB32Cmp 0 r.2.1 then verifyChecksum (hx ++ r.2.1 :: dtail)
          else verifyChecksumM (hx ++ r.2.1 :: dtail)) = true := by
        by_contra hc
        simp [hc] at h
      simp only [hok, not_true_eq_false, if_false] at h
      split at h
      · cases h
      · split at h
        · cases h
        · next hash hbe =>
          split at h
          · cases h
          · next hcmp =>
            have hr : (network, r.2.1, hash) = r := Option.some.inj h
            have hrh : r.2.2 = hash := by rw [← hr]
            have hl : hash.length = ((r.2.1 :: dtail).length - Gen.decB32Overhead) * Gen.decB32GroupBits / Gen.decB32ByteBits := by
              unfold natToBE at hbe
              split at hbe
              · cases hbe; simp
              · cases hbe
            simp only [decB32Cmp1, decB32Cmp2, decide_eq_true_eq, not_or] at hcmp
            rw [hrh]
            omega

end Buidl.Bech32

namespace Buidl.Base58

/-- every character of a string `raw_decode_base58` gets past its loop is in the Base58 alphabet -/
theorem decodeCombined_chars {s : Str} {c : Bytes} (h : decodeCombined s = some c) : ∀ x ∈ s, x ∈ alphabet := by
  unfold decodeCombined at h
  obtain ⟨⟨z', num'⟩, hl, _⟩ := Option.map_eq_some_iff.mp h
  obtain ⟨k, ds, hs, _, hds, _, _⟩ := decodeLoop_some0 _ _ _ _ hl
  intro x hx
  rw [hs] at hx
  rcases List.mem_append.mp hx with hx | hx
  · rw [List.eq_of_mem_replicate hx]; decide
  · obtain ⟨d, hd, rfl⟩ := List.mem_map.mp hx
    have hl : d < alphabet.length := by rw [alphabet_length]; exact hds d hd
    simp [b58char, hl]

end Buidl.Base58
