/-
  Helper lemmas for C07, conditionals: relating the splicing `op_if` / `op_notif` of buidl/op.py to
  the exec-stack (`vfExec`) semantics of consensus on properly nested programs.
-/
import Buidl.Proofs.Interp
namespace Buidl.Interp
open Buidl Buidl.Script Buidl.Spec

/-! ## consensus side: segments, skipping, framing -/

/-- EvalScript over a segment of the script (no final-stack test) -/
def runSeg (ctx : Consensus.Ctx) : Consensus.State → List Cmd → Consensus.Res Consensus.State
  | st, [] => .ok st
  | st, c :: cs =>
    match Consensus.step ctx st c with
    | .ok st' => runSeg ctx st' cs
    | .fail => .fail
    | .oversize => .oversize
    | .unsupported => .unsupported

theorem runFrom_append (ctx : Consensus.Ctx) (p k : List Cmd) (st : Consensus.State) :
    Consensus.runFrom ctx st (p ++ k) =
      match runSeg ctx st p with
      | .ok st' => Consensus.runFrom ctx st' k
      | .fail => .reject
      | .oversize => .oversize
      | .unsupported => .unsupported := by
  induction p generalizing st with
  | nil => rfl
  | cons c cs ih =>
    simp only [List.cons_append, Consensus.runFrom, runSeg]
    cases Consensus.step ctx st c with
    | ok st' => exact ih st'
    | fail => rfl
    | oversize => rfl
    | unsupported => rfl

theorem runSeg_append (ctx : Consensus.Ctx) (p k : List Cmd) (st : Consensus.State) :
    runSeg ctx st (p ++ k) =
      match runSeg ctx st p with
      | .ok st' => runSeg ctx st' k
      | .fail => .fail
      | .oversize => .oversize
      | .unsupported => .unsupported := by
  induction p generalizing st with
  | nil => rfl
  | cons c cs ih =>
    simp only [List.cons_append, runSeg]
    cases Consensus.step ctx st c with
    | ok st' => exact ih st'
    | fail => rfl
    | oversize => rfl
    | unsupported => rfl

/-- opcodes that may occur between the conditionals of a properly nested program: the flow-free
    subset (`opPairs`) and the two alt-stack opcodes -/
def baseOp (c : Nat) : Bool := opPairs.any (fun p => p.1 == c) || c == 107 || c == 108

def baseCmd : Cmd → Bool
  | .push b => plainPush b
  | .op c => baseOp c

theorem baseOp_facts_pairs : ∀ p ∈ opPairs, ¬ (99 ≤ p.1 ∧ p.1 ≤ 104) := by decide

theorem baseOp_facts {c : Nat} (h : baseOp c = true) :
    Consensus.unsupportedOp c = false ∧ Consensus.disabledOp c = false ∧ ¬ (99 ≤ c ∧ c ≤ 104) ∧
    slOp c = true := by
  simp only [baseOp, Bool.or_eq_true, List.any_eq_true, beq_iff_eq] at h
  rcases h with (⟨p, hp, rfl⟩ | h) | h
  · obtain ⟨_, _, hun, hdis, _⟩ := table_pairs p hp
    refine ⟨hun, hdis, baseOp_facts_pairs p hp, ?_⟩
    simp only [slOp, Bool.or_eq_true, List.any_eq_true, beq_iff_eq]
    exact Or.inl (Or.inl (Or.inl (Or.inl ⟨p, hp, rfl⟩)))
  · subst h; decide
  · subst h; decide

theorem baseCmd_slCmd {c : Cmd} (h : baseCmd c = true) : slCmd c = true := by
  cases c with
  | push b => exact h
  | op k => exact (baseOp_facts h).2.2.2

/-- a base command in a branch that is not executed changes nothing -/
theorem step_skip (ctx : Consensus.Ctx) (st : Consensus.State) (c : Cmd) (hc : baseCmd c = true)
    (hx : Consensus.fExec st = false) : Consensus.step ctx st c = .ok st := by
  cases c with
  | push b => simp [Consensus.step, hx]
  | op k =>
    obtain ⟨hun, hdis, hr, _⟩ := baseOp_facts hc
    have : (decide (99 ≤ k) && decide (k ≤ 104)) = false := by
      simp only [Bool.and_eq_false_imp, decide_eq_true_eq, decide_eq_false_iff_not]
      intro h1 h2; exact hr ⟨h1, h2⟩
    simp [Consensus.step, hun, hdis, hx, this]

/-- an executed base command does not look at the exec stack beyond `fExec` -/
theorem step_frame (ctx : Consensus.Ctx) (s a : Stack) (E : List Bool) (c : Cmd) (hc : baseCmd c = true)
    (hx : E.all id = true) :
    Consensus.step ctx ⟨s, a, E⟩ c =
      (Consensus.step ctx ⟨s, a, []⟩ c).map fun st => { st with exec := E } := by
  cases c with
  | push b => simp [Consensus.step, Consensus.fExec, hx, Consensus.Res.map]
  | op k =>
    obtain ⟨hun, hdis, hr, _⟩ := baseOp_facts hc
    have h99 : k ≠ 99 := by omega
    have h100 : k ≠ 100 := by omega
    have h103 : k ≠ 103 := by omega
    have h104 : k ≠ 104 := by omega
    simp only [Consensus.step, hun, hdis, Consensus.fExec, hx, List.all_nil, Bool.true_or,
      Bool.false_eq_true, if_false, if_true, h99, h100, h103, h104, or_self, Bool.not_true]
    cases Consensus.execOp ctx k s a <;> rfl

def IFop (neg : Bool) : Cmd := .op (if neg then 100 else 99)
abbrev ELSE : Cmd := .op 103
abbrev ENDIF : Cmd := .op 104

/-- properly nested programs: base commands and IF/NOTIF … [ELSE …] ENDIF blocks with at most one
    ELSE per IF (N07e) -/
inductive Bal : List Cmd → Prop where
  | nil : Bal []
  | cmd (c : Cmd) (t : List Cmd) (hc : baseCmd c = true) : Bal t → Bal (c :: t)
  | ifThen (neg : Bool) (a t : List Cmd) : Bal a → Bal t → Bal (IFop neg :: (a ++ ENDIF :: t))
  | ifElse (neg : Bool) (a b t : List Cmd) : Bal a → Bal b → Bal t →
      Bal (IFop neg :: (a ++ ELSE :: (b ++ ENDIF :: t)))

theorem step_if_skip (ctx : Consensus.Ctx) (s a : Stack) (E : List Bool) (neg : Bool)
    (hx : E.all id = false) :
    Consensus.step ctx ⟨s, a, E⟩ (IFop neg) = .ok ⟨s, a, false :: E⟩ := by
  cases neg <;> simp [IFop, Consensus.step, Consensus.unsupportedOp, Consensus.disabledOp, Consensus.fExec, hx]

theorem step_if_exec (ctx : Consensus.Ctx) (s a : Stack) (E : List Bool) (neg : Bool)
    (hx : E.all id = true) :
    Consensus.step ctx ⟨s, a, E⟩ (IFop neg) =
      match s with
      | [] => .fail
      | v :: s' => .ok ⟨s', a, (Consensus.castToBool v != neg) :: E⟩ := by
  cases neg <;> cases s <;>
    simp [IFop, Consensus.step, Consensus.unsupportedOp, Consensus.disabledOp, Consensus.fExec, hx]

theorem step_else (ctx : Consensus.Ctx) (s a : Stack) (e : Bool) (E : List Bool) :
    Consensus.step ctx ⟨s, a, e :: E⟩ ELSE = .ok ⟨s, a, (!e) :: E⟩ := by
  simp [Consensus.step, Consensus.unsupportedOp, Consensus.disabledOp]

theorem step_endif (ctx : Consensus.Ctx) (s a : Stack) (e : Bool) (E : List Bool) :
    Consensus.step ctx ⟨s, a, e :: E⟩ ENDIF = .ok ⟨s, a, E⟩ := by
  simp [Consensus.step, Consensus.unsupportedOp, Consensus.disabledOp]

/-- a properly nested segment in a branch that is not executed is skipped without any effect -/
theorem runSeg_skip (ctx : Consensus.Ctx) {p : List Cmd} (hb : Bal p) :
    ∀ (s a : Stack) (E : List Bool), E.all id = false → runSeg ctx ⟨s, a, E⟩ p = .ok ⟨s, a, E⟩ := by
  induction hb with
  | nil => intro s a E _; rfl
  | cmd c t hc _ ih =>
    intro s a E hx
    simp only [runSeg, step_skip ctx ⟨s, a, E⟩ c hc hx]
    exact ih s a E hx
  | ifThen neg a' t _ _ iha iht =>
    intro s a E hx
    have hx' : (false :: E).all id = false := by simp
    simp only [runSeg, step_if_skip ctx s a E neg hx, runSeg_append, iha s a (false :: E) hx', step_endif]
    exact iht s a E hx
  | ifElse neg a' b t _ _ _ iha ihb iht =>
    intro s a E hx
    have hx' : (false :: E).all id = false := by simp
    have hx'' : ((!false) :: E).all id = false := by simpa using hx
    simp only [runSeg, step_if_skip ctx s a E neg hx, runSeg_append, iha s a (false :: E) hx', step_else,
      ihb s a (_ :: E) hx'', step_endif]
    exact iht s a E hx
def mkSt (E : List Bool) (p : Stack × Stack) : Consensus.State := ⟨p.1, p.2, E⟩

/-- stack-level effect of an executed base command -/
def baseStep (ctx : Consensus.Ctx) (s a : Stack) : Cmd → Consensus.Res (Stack × Stack)
  | .push b => .ok (b :: s, a)
  | .op k => Consensus.execOp ctx k s a

theorem step_base (ctx : Consensus.Ctx) (s a : Stack) (E : List Bool) (c : Cmd) (hc : baseCmd c = true)
    (hx : E.all id = true) :
    Consensus.step ctx ⟨s, a, E⟩ c = (baseStep ctx s a c).map (mkSt E) := by
  rw [step_frame ctx s a E c hc hx]
  cases c with
  | push b => simp [Consensus.step, Consensus.fExec, baseStep, Consensus.Res.map, mkSt]
  | op k =>
    obtain ⟨hun, hdis, hr, _⟩ := baseOp_facts hc
    have h99 : k ≠ 99 := by omega
    have h100 : k ≠ 100 := by omega
    have h103 : k ≠ 103 := by omega
    have h104 : k ≠ 104 := by omega
    simp only [Consensus.step, hun, hdis, Consensus.fExec, List.all_nil, Bool.true_or,
      Bool.false_eq_true, if_false, if_true, h99, h100, h103, h104, or_self, Bool.not_true, baseStep]
    cases Consensus.execOp ctx k s a <;> rfl

/-- a properly nested segment executed under an all-true exec stack `E` has one stack-level result,
    the same for every such `E`, and leaves `E` as it found it -/
theorem runSeg_frame (ctx : Consensus.Ctx) {p : List Cmd} (hb : Bal p) :
    ∀ (s a : Stack), ∃ r : Consensus.Res (Stack × Stack),
      ∀ E : List Bool, E.all id = true → runSeg ctx ⟨s, a, E⟩ p = r.map (mkSt E) := by
  induction hb with
  | nil => intro s a; exact ⟨.ok (s, a), fun E _ => rfl⟩
  | cmd c t hc _ ih =>
    intro s a
    cases hr : baseStep ctx s a c with
    | ok p1 =>
      obtain ⟨r, h⟩ := ih p1.1 p1.2
      refine ⟨r, fun E hE => ?_⟩
      simp only [runSeg, step_base ctx s a E c hc hE, hr, Consensus.Res.map, mkSt]
      exact h E hE
    | fail => exact ⟨.fail, fun E hE => by simp only [runSeg, step_base ctx s a E c hc hE, hr]; rfl⟩
    | oversize => exact ⟨.oversize, fun E hE => by simp only [runSeg, step_base ctx s a E c hc hE, hr]; rfl⟩
    | unsupported => exact ⟨.unsupported, fun E hE => by simp only [runSeg, step_base ctx s a E c hc hE, hr]; rfl⟩
  | ifThen neg a' t ha' _ iha iht =>
    intro s a
    cases s with
    | nil => exact ⟨.fail, fun E hE => by simp only [runSeg, step_if_exec ctx [] a E neg hE]; rfl⟩
    | cons v s' =>
      cases hf : (Consensus.castToBool v != neg) with
      | false =>
        obtain ⟨r, h⟩ := iht s' a
        refine ⟨r, fun E hE => ?_⟩
        have hx : (false :: E).all id = false := by simp
        simp only [runSeg, step_if_exec ctx (v :: s') a E neg hE, hf, runSeg_append,
          runSeg_skip ctx ha' s' a (false :: E) hx, step_endif]
        exact h E hE
      | true =>
        obtain ⟨r1, h1⟩ := iha s' a
        cases r1 with
        | ok p1 =>
          obtain ⟨r, h⟩ := iht p1.1 p1.2
          refine ⟨r, fun E hE => ?_⟩
          have hx : (true :: E).all id = true := by simpa using hE
          simp only [runSeg, step_if_exec ctx (v :: s') a E neg hE, hf, runSeg_append,
            h1 (true :: E) hx, Consensus.Res.map, mkSt, step_endif]
          exact h E hE
        | fail =>
          refine ⟨.fail, fun E hE => ?_⟩
          have hx : (true :: E).all id = true := by simpa using hE
          simp only [runSeg, step_if_exec ctx (v :: s') a E neg hE, hf, runSeg_append,
            h1 (true :: E) hx, Consensus.Res.map]
        | oversize =>
          refine ⟨.oversize, fun E hE => ?_⟩
          have hx : (true :: E).all id = true := by simpa using hE
          simp only [runSeg, step_if_exec ctx (v :: s') a E neg hE, hf, runSeg_append,
            h1 (true :: E) hx, Consensus.Res.map]
        | unsupported =>
          refine ⟨.unsupported, fun E hE => ?_⟩
          have hx : (true :: E).all id = true := by simpa using hE
          simp only [runSeg, step_if_exec ctx (v :: s') a E neg hE, hf, runSeg_append,
            h1 (true :: E) hx, Consensus.Res.map]
  | ifElse neg a' b t ha' hb' _ iha ihb iht =>
    intro s a
    cases s with
    | nil => exact ⟨.fail, fun E hE => by simp only [runSeg, step_if_exec ctx [] a E neg hE]; rfl⟩
    | cons v s' =>
      cases hf : (Consensus.castToBool v != neg) with
      | false =>
        -- the IF branch is skipped, the ELSE branch runs
        obtain ⟨r1, h1⟩ := ihb s' a
        cases r1 with
        | ok p1 =>
          obtain ⟨r, h⟩ := iht p1.1 p1.2
          refine ⟨r, fun E hE => ?_⟩
          have hx : (false :: E).all id = false := by simp
          have hx' : (true :: E).all id = true := by simpa using hE
          simp only [runSeg, step_if_exec ctx (v :: s') a E neg hE, hf, runSeg_append,
            runSeg_skip ctx ha' s' a (false :: E) hx, step_else, Bool.not_false, h1 (true :: E) hx',
            Consensus.Res.map, mkSt, step_endif]
          exact h E hE
        | fail =>
          refine ⟨.fail, fun E hE => ?_⟩
          have hx : (false :: E).all id = false := by simp
          have hx' : (true :: E).all id = true := by simpa using hE
          simp only [runSeg, step_if_exec ctx (v :: s') a E neg hE, hf, runSeg_append,
            runSeg_skip ctx ha' s' a (false :: E) hx, step_else, Bool.not_false, h1 (true :: E) hx',
            Consensus.Res.map]
        | oversize =>
          refine ⟨.oversize, fun E hE => ?_⟩
          have hx : (false :: E).all id = false := by simp
          have hx' : (true :: E).all id = true := by simpa using hE
          simp only [runSeg, step_if_exec ctx (v :: s') a E neg hE, hf, runSeg_append,
            runSeg_skip ctx ha' s' a (false :: E) hx, step_else, Bool.not_false, h1 (true :: E) hx',
            Consensus.Res.map]
        | unsupported =>
          refine ⟨.unsupported, fun E hE => ?_⟩
          have hx : (false :: E).all id = false := by simp
          have hx' : (true :: E).all id = true := by simpa using hE
          simp only [runSeg, step_if_exec ctx (v :: s') a E neg hE, hf, runSeg_append,
            runSeg_skip ctx ha' s' a (false :: E) hx, step_else, Bool.not_false, h1 (true :: E) hx',
            Consensus.Res.map]
      | true =>
        obtain ⟨r1, h1⟩ := iha s' a
        cases r1 with
        | ok p1 =>
          obtain ⟨r, h⟩ := iht p1.1 p1.2
          refine ⟨r, fun E hE => ?_⟩
          have hx : (true :: E).all id = true := by simpa using hE
          have hx' : (false :: E).all id = false := by simp
          simp only [runSeg, step_if_exec ctx (v :: s') a E neg hE, hf, runSeg_append,
            h1 (true :: E) hx, Consensus.Res.map, mkSt, step_else, Bool.not_true,
            runSeg_skip ctx hb' p1.1 p1.2 (false :: E) hx', step_endif]
          exact h E hE
        | fail =>
          refine ⟨.fail, fun E hE => ?_⟩
          have hx : (true :: E).all id = true := by simpa using hE
          simp only [runSeg, step_if_exec ctx (v :: s') a E neg hE, hf, runSeg_append,
            h1 (true :: E) hx, Consensus.Res.map]
        | oversize =>
          refine ⟨.oversize, fun E hE => ?_⟩
          have hx : (true :: E).all id = true := by simpa using hE
          simp only [runSeg, step_if_exec ctx (v :: s') a E neg hE, hf, runSeg_append,
            h1 (true :: E) hx, Consensus.Res.map]
        | unsupported =>
          refine ⟨.unsupported, fun E hE => ?_⟩
          have hx : (true :: E).all id = true := by simpa using hE
          simp only [runSeg, step_if_exec ctx (v :: s') a E neg hE, hf, runSeg_append,
            h1 (true :: E) hx, Consensus.Res.map]
/-! ## implementation side: the scan of op_if / op_notif over a properly nested body -/

theorem scanIf_base (c : Cmd) (hc : baseCmd c = true) (items : List Cmd) (need : Nat) (inF : Bool)
    (t f : List Cmd) :
    scanIf (c :: items) need inF t f =
      if inF then scanIf items need inF t (c :: f) else scanIf items need inF (c :: t) f := by
  cases c with
  | push b => simp [scanIf]
  | op k =>
    obtain ⟨_, _, hr, _⟩ := baseOp_facts hc
    have h99 : k ≠ 99 := by omega
    have h100 : k ≠ 100 := by omega
    have h103 : k ≠ 103 := by omega
    have h104 : k ≠ 104 := by omega
    rw [scanIf.eq_6]
    all_goals (intro h; injection h with h; omega)

theorem scanIf_if (neg : Bool) (items : List Cmd) (need : Nat) (inF : Bool) (t f : List Cmd) :
    scanIf (IFop neg :: items) need inF t f =
      if inF then scanIf items (need + 1) inF t (IFop neg :: f)
      else scanIf items (need + 1) inF (IFop neg :: t) f := by
  cases neg <;> simp [IFop, scanIf]

theorem scanIf_else_deep (items : List Cmd) (need : Nat) (inF : Bool) (t f : List Cmd) (h : need ≠ 1) :
    scanIf (ELSE :: items) need inF t f =
      if inF then scanIf items need inF t (ELSE :: f) else scanIf items need inF (ELSE :: t) f := by
  simp [scanIf, h]

theorem scanIf_endif_deep (items : List Cmd) (need : Nat) (inF : Bool) (t f : List Cmd) (h : need ≠ 1) :
    scanIf (ENDIF :: items) need inF t f =
      if inF then scanIf items (need - 1) inF t (ENDIF :: f)
      else scanIf items (need - 1) inF (ENDIF :: t) f := by
  simp [scanIf, h]

/-- scanning over a properly nested segment appends all of it to the current array and leaves the
    ENDIF counter as it was -/
theorem scanIf_bal {q : List Cmd} (hq : Bal q) :
    ∀ (tail : List Cmd) (need : Nat) (inF : Bool) (t f : List Cmd), 1 ≤ need →
      scanIf (q ++ tail) need inF t f =
        scanIf tail need inF (if inF then t else q.reverse ++ t) (if inF then q.reverse ++ f else f) := by
  induction hq with
  | nil => intro tail need inF t f _; cases inF <;> simp
  | cmd c q' hc _ ih =>
    intro tail need inF t f hn
    rw [List.cons_append, scanIf_base c hc]
    cases inF
    · simp only [Bool.false_eq_true, if_false]
      rw [ih tail need false (c :: t) f hn]
      simp
    · simp only [if_true]
      rw [ih tail need true t (c :: f) hn]
      simp
  | ifThen neg a' q' _ _ iha ihq =>
    intro tail need inF t f hn
    have hn1 : need + 1 ≠ 1 := by omega
    rw [List.cons_append, scanIf_if, List.append_assoc, List.cons_append]
    cases inF
    · simp only [Bool.false_eq_true, if_false]
      rw [iha _ (need + 1) false _ f (by omega), scanIf_endif_deep _ _ _ _ _ hn1]
      simp only [Bool.false_eq_true, if_false, Nat.add_sub_cancel]
      rw [ihq tail need false _ f hn]
      simp
    · simp only [if_true]
      rw [iha _ (need + 1) true t _ (by omega), scanIf_endif_deep _ _ _ _ _ hn1]
      simp only [if_true, Nat.add_sub_cancel]
      rw [ihq tail need true t _ hn]
      simp
  | ifElse neg a' b q' _ _ _ iha ihb ihq =>
    intro tail need inF t f hn
    have hn1 : need + 1 ≠ 1 := by omega
    rw [List.cons_append, scanIf_if, List.append_assoc, List.cons_append, List.append_assoc, List.cons_append]
    cases inF
    · simp only [Bool.false_eq_true, if_false]
      rw [iha _ (need + 1) false _ f (by omega), scanIf_else_deep _ _ _ _ _ hn1]
      simp only [Bool.false_eq_true, if_false]
      rw [ihb _ (need + 1) false _ f (by omega), scanIf_endif_deep _ _ _ _ _ hn1]
      simp only [Bool.false_eq_true, if_false, Nat.add_sub_cancel]
      rw [ihq tail need false _ f hn]
      simp
    · simp only [if_true]
      rw [iha _ (need + 1) true t _ (by omega), scanIf_else_deep _ _ _ _ _ hn1]
      simp only [if_true]
      rw [ihb _ (need + 1) true t _ (by omega), scanIf_endif_deep _ _ _ _ _ hn1]
      simp only [if_true, Nat.add_sub_cancel]
      rw [ihq tail need true t _ hn]
      simp

/-- op_if / op_notif find exactly the two branches of a properly nested conditional -/
theorem scanIf_ifThen {a' : List Cmd} (ha : Bal a') (rest : List Cmd) :
    scanIf (a' ++ ENDIF :: rest) 1 false [] [] = some (a', [], rest) := by
  rw [scanIf_bal ha _ 1 false [] [] (Nat.le_refl 1)]
  simp [scanIf]

theorem scanIf_ifElse {a' b : List Cmd} (ha : Bal a') (hb : Bal b) (rest : List Cmd) :
    scanIf (a' ++ ELSE :: (b ++ ENDIF :: rest)) 1 false [] [] = some (a', b, rest) := by
  rw [scanIf_bal ha _ 1 false [] [] (Nat.le_refl 1)]
  simp only [Bool.false_eq_true, if_false, List.append_nil]
  have : scanIf (ELSE :: (b ++ ENDIF :: rest)) 1 false a'.reverse [] =
      scanIf (b ++ ENDIF :: rest) 1 true a'.reverse [] := by simp [scanIf]
  rw [this, scanIf_bal hb _ 1 true _ [] (Nat.le_refl 1)]
  simp [scanIf]

/-! ## consensus side: a conditional block runs the chosen branch and nothing else -/

theorem runFrom_cons (ctx : Consensus.Ctx) (st : Consensus.State) (c : Cmd) (cs : List Cmd) :
    Consensus.runFrom ctx st (c :: cs) =
      match Consensus.step ctx st c with
      | .ok st' => Consensus.runFrom ctx st' cs
      | .fail => .reject
      | .oversize => .oversize
      | .unsupported => .unsupported := rfl

theorem runFrom_ifElse (ctx : Consensus.Ctx) {a' b : List Cmd} (ha : Bal a') (hb : Bal b)
    (neg : Bool) (v : Bytes) (s' a : Stack) (t : List Cmd) :
    Consensus.runFrom ctx ⟨v :: s', a, []⟩ (IFop neg :: (a' ++ ELSE :: (b ++ ENDIF :: t))) =
      Consensus.runFrom ctx ⟨s', a, []⟩ ((if (Consensus.castToBool v != neg) then a' else b) ++ t) := by
  rw [runFrom_cons, step_if_exec ctx (v :: s') a [] neg rfl]
  simp only
  cases hf : (Consensus.castToBool v != neg) with
  | true =>
    obtain ⟨r, hr⟩ := runSeg_frame ctx ha s' a
    simp only [if_true, runFrom_append, hr [true] rfl, hr [] rfl]
    cases r with
    | ok p1 =>
      simp only [Consensus.Res.map, mkSt, runFrom_cons, step_else, Bool.not_true, runFrom_append,
        runSeg_skip ctx hb p1.1 p1.2 [false] rfl, step_endif]
    | fail => rfl
    | oversize => rfl
    | unsupported => rfl
  | false =>
    obtain ⟨r, hr⟩ := runSeg_frame ctx hb s' a
    simp only [Bool.false_eq_true, if_false, runFrom_append, runSeg_skip ctx ha s' a [false] rfl,
      runFrom_cons, step_else, Bool.not_false, hr [true] rfl, hr [] rfl]
    cases r with
    | ok p1 => simp only [Consensus.Res.map, mkSt, step_endif]
    | fail => rfl
    | oversize => rfl
    | unsupported => rfl

theorem runFrom_ifThen (ctx : Consensus.Ctx) {a' : List Cmd} (ha : Bal a')
    (neg : Bool) (v : Bytes) (s' a : Stack) (t : List Cmd) :
    Consensus.runFrom ctx ⟨v :: s', a, []⟩ (IFop neg :: (a' ++ ENDIF :: t)) =
      Consensus.runFrom ctx ⟨s', a, []⟩ ((if (Consensus.castToBool v != neg) then a' else []) ++ t) := by
  rw [runFrom_cons, step_if_exec ctx (v :: s') a [] neg rfl]
  simp only
  cases hf : (Consensus.castToBool v != neg) with
  | true =>
    obtain ⟨r, hr⟩ := runSeg_frame ctx ha s' a
    simp only [if_true, runFrom_append, hr [true] rfl, hr [] rfl]
    cases r with
    | ok p1 => simp only [Consensus.Res.map, mkSt, runFrom_cons, step_endif]
    | fail => rfl
    | oversize => rfl
    | unsupported => rfl
  | false =>
    simp only [Bool.false_eq_true, if_false, runFrom_append, runSeg_skip ctx ha s' a [false] rfl,
      runFrom_cons, step_endif, List.nil_append]

theorem runFrom_if_empty (ctx : Consensus.Ctx) (neg : Bool) (a : Stack) (cs : List Cmd) :
    Consensus.runFrom ctx ⟨[], a, []⟩ (IFop neg :: cs) = .reject := by
  rw [runFrom_cons, step_if_exec ctx [] a [] neg rfl]

theorem Bal.append {x y : List Cmd} (hx : Bal x) (hy : Bal y) : Bal (x ++ y) := by
  induction hx with
  | nil => exact hy
  | cmd c t hc _ ih => exact Bal.cmd c _ hc ih
  | ifThen neg a' t ha _ _ iht =>
    have : IFop neg :: (a' ++ ENDIF :: t) ++ y = IFop neg :: (a' ++ ENDIF :: (t ++ y)) := by simp
    rw [this]; exact Bal.ifThen neg a' _ ha iht
  | ifElse neg a' b t ha hb _ _ _ iht =>
    have : IFop neg :: (a' ++ ELSE :: (b ++ ENDIF :: t)) ++ y
        = IFop neg :: (a' ++ ELSE :: (b ++ ENDIF :: (t ++ y))) := by simp
    rw [this]; exact Bal.ifElse neg a' b _ ha hb iht

/-- every data push of a properly nested program is a plain one -/
theorem Bal.pushes {p : List Cmd} (hp : Bal p) : ∀ b, Cmd.push b ∈ p → plainPush b = true := by
  induction hp with
  | nil => intro b h; cases h
  | cmd c t hc _ ih =>
    intro b h
    rcases List.mem_cons.mp h with h | h
    · subst h; exact hc
    · exact ih b h
  | ifThen neg a' t _ _ iha iht =>
    intro b h
    simp only [List.mem_cons, List.mem_append, IFop] at h
    rcases h with h | h | h | h
    · cases neg <;> cases h
    · exact iha b h
    · cases h
    · exact iht b h
  | ifElse neg a' b' t _ _ _ iha ihb iht =>
    intro b h
    simp only [List.mem_cons, List.mem_append, IFop] at h
    rcases h with h | h | h | h | h | h
    · cases neg <;> cases h
    · exact iha b h
    · cases h
    · exact ihb b h
    · cases h
    · exact iht b h

theorem p2shRule_plain' (env : Env) (st : St) (b : Bytes)
    (h : ∀ x, Cmd.push x ∈ st.cmds → plainPush x = true) : p2shRule env st b = .ok st := by
  unfold p2shRule
  split
  · rename_i h160 heq
    have := h h160 (by rw [heq]; simp)
    simp only [plainPush, Bool.and_eq_true, bne_iff_ne, ne_eq] at this
    simp [this.1]
  · rfl

/-! ## one implementation step on a base command -/

/-- the implementation's step on a base command, against the stack-level consensus effect -/
theorem step_model_base (env : Env) (hlt : env.locktime ≤ 4294967295) (c : Cmd) (hc : baseCmd c = true)
    (rest : List Cmd) (hrest : ∀ x, Cmd.push x ∈ rest → plainPush x = true) (s a : Stack)
    (hov : baseStep (ctxOf env) s a c ≠ .oversize)
    (hve : step Cfg.repaired env ⟨rest, s, a, none, false⟩ c ≠ .error (.err .valueError)) :
    match step Cfg.repaired env ⟨rest, s, a, none, false⟩ c with
    | .ok st' => ∃ s' a', st' = ⟨rest, s', a', none, false⟩ ∧ baseStep (ctxOf env) s a c = .ok (s', a')
    | .error o => baseStep (ctxOf env) s a c = .fail ∧ o.toSpec = some .reject := by
  cases c with
  | push b =>
    have hp : plainPush b = true := hc
    have h1 : step Cfg.repaired env ⟨rest, s, a, none, false⟩ (.push b)
        = .ok ⟨rest, b :: s, a, none, false⟩ := by
      simp only [step]
      rw [p2shRule_plain' env _ b hrest]
      exact afterPush_plain _ env _ b s rfl hp
    rw [h1]
    exact ⟨b :: s, a, rfl, rfl⟩
  | op k =>
    have hk : baseOp k = true := hc
    simp only [baseOp, Bool.or_eq_true, List.any_eq_true, beq_iff_eq] at hk
    rcases hk with (⟨p, hp, rfl⟩ | h107) | h108
    · obtain ⟨hr, hconv, _⟩ := table_pairs p hp
      have hstep : step Cfg.repaired env ⟨rest, s, a, none, false⟩ (.op p.1)
          = (applyStackFn Cfg.repaired env p.2 s).toOut fun s' => .ok ⟨rest, s', a, none, false⟩ :=
        stepOp_plain Cfg.repaired env ⟨rest, s, a, none, false⟩ p.1 p.2 hr hconv (table_pairs_plain p hp)
      rw [hstep] at hve ⊢
      have hve' : p.1 = 178 → op_checksequenceverify Cfg.repaired env s ≠ .err .valueError := by
        intro e178 ee
        have : p.2 = .checksequenceverify := by
          have h2 : resolve false 178 = some .checksequenceverify := by decide
          rw [e178] at hr; rw [h2] at hr; exact (Option.some.inj hr).symm
        apply hve
        rw [this]
        show (op_checksequenceverify Cfg.repaired env s).toOut _ = _
        rw [ee]; rfl
      have hconf := fn_conforms env p.1 p.2 hp s a hlt hve' hov
      simp only [baseStep]
      cases hres : applyStackFn Cfg.repaired env p.2 s with
      | ok s' =>
        rw [hres] at hconf
        exact ⟨s', a, rfl, hconf.symm⟩
      | fail =>
        rw [hres] at hconf
        exact ⟨hconf.symm, rfl⟩
      | err e =>
        rw [hres] at hconf
        exact ⟨hconf.symm, rfl⟩
    · subst h107
      have hstep : step Cfg.repaired env ⟨rest, s, a, none, false⟩ (.op 107)
          = (op_toaltstack s a).toOut fun p => .ok ⟨rest, p.1, p.2, none, false⟩ := rfl
      have hconf := conf_toaltstack (ctxOf env) s a
      rw [hstep]
      simp only [baseStep]
      cases hres : op_toaltstack s a with
      | ok p => rw [hres] at hconf; exact ⟨p.1, p.2, rfl, hconf.symm⟩
      | fail => rw [hres] at hconf; exact ⟨hconf.symm, rfl⟩
      | err e => rw [hres] at hconf; exact ⟨hconf.symm, rfl⟩
    · subst h108
      have hstep : step Cfg.repaired env ⟨rest, s, a, none, false⟩ (.op 108)
          = (op_fromaltstack s a).toOut fun p => .ok ⟨rest, p.1, p.2, none, false⟩ := rfl
      have hconf := conf_fromaltstack (ctxOf env) s a
      rw [hstep]
      simp only [baseStep]
      cases hres : op_fromaltstack s a with
      | ok p => rw [hres] at hconf; exact ⟨p.1, p.2, rfl, hconf.symm⟩
      | fail => rw [hres] at hconf; exact ⟨hconf.symm, rfl⟩
      | err e => rw [hres] at hconf; exact ⟨hconf.symm, rfl⟩

theorem step_model_if (env : Env) (neg : Bool) (rest : List Cmd) (s a : Stack) :
    step Cfg.repaired env ⟨rest, s, a, none, false⟩ (IFop neg)
      = (op_ifx neg s rest).toOut fun p => .ok ⟨p.2, p.1, a, none, false⟩ := by
  cases neg <;> rfl

theorem bool_flip (z neg : Bool) : ((!z) != neg) = !(z != neg) := by cases z <;> cases neg <;> rfl

/-! ## properly nested programs: splicing = exec stack -/

theorem run_nested (env : Env) (hlt : env.locktime ≤ 4294967295) :
    ∀ (n : Nat) (cmds : List Cmd), cmds.length ≤ n → Bal cmds →
      ∀ (s a : Stack) (fuel : Nat), cmds.length ≤ fuel →
      run Cfg.repaired env fuel ⟨cmds, s, a, none, false⟩ ≠ .err .valueError →
      Consensus.runFrom (ctxOf env) ⟨s, a, []⟩ cmds ≠ .oversize →
      (run Cfg.repaired env fuel ⟨cmds, s, a, none, false⟩).toSpec
        = some (Consensus.runFrom (ctxOf env) ⟨s, a, []⟩ cmds) := by
  intro n
  induction n with
  | zero =>
    intro cmds hlen _ s a fuel _ _ _
    have : cmds = [] := List.eq_nil_of_length_eq_zero (by omega)
    subst this
    rw [run_nil _ _ _ _ rfl]
    exact finalTest_spec _ _ _
  | succ n ih =>
    intro cmds hlen hb s a fuel hfuel hve hov
    cases hb with
    | nil =>
      rw [run_nil _ _ _ _ rfl]
      exact finalTest_spec _ _ _
    | cmd c t hc hbt =>
      obtain ⟨f, rfl⟩ : ∃ f, fuel = f + 1 := ⟨fuel - 1, by simp at hfuel; omega⟩
      have hf : t.length ≤ f := by simp at hfuel; omega
      have hn : t.length ≤ n := by simp at hlen; omega
      rw [run_cons _ _ _ _ c t rfl] at hve ⊢
      rw [runFrom_cons, step_base (ctxOf env) s a [] c hc rfl] at hov ⊢
      have hov' : baseStep (ctxOf env) s a c ≠ .oversize := by
        intro e; apply hov; rw [e]; rfl
      have hve' : step Cfg.repaired env ⟨t, s, a, none, false⟩ c ≠ .error (.err .valueError) := by
        intro e; apply hve; rw [e]
      have hm := step_model_base env hlt c hc t hbt.pushes s a hov' hve'
      cases hst : step Cfg.repaired env ⟨t, s, a, none, false⟩ c with
      | ok st' =>
        rw [hst] at hm hve
        obtain ⟨s', a', rfl, hbs⟩ := hm
        rw [hbs] at hov ⊢
        exact ih t hn hbt s' a' f hf hve hov
      | error o =>
        rw [hst] at hm
        obtain ⟨hbs, ho⟩ := hm
        rw [hbs]
        exact ho
    | ifThen neg a' t ha ht =>
      obtain ⟨f, rfl⟩ : ∃ f, fuel = f + 1 := ⟨fuel - 1, by simp at hfuel; omega⟩
      rw [run_cons _ _ _ _ (IFop neg) (a' ++ ENDIF :: t) rfl, step_model_if] at hve ⊢
      cases s with
      | nil =>
        rw [runFrom_if_empty]
        rfl
      | cons v s' =>
        rw [runFrom_ifThen (ctxOf env) ha] at hov ⊢
        have hscan := scanIf_ifThen ha t
        have hstep : op_ifx neg (v :: s') (a' ++ ENDIF :: t) =
            .ok (s', (if (Consensus.castToBool v != neg) then a' else []) ++ t) := by
          simp only [op_ifx, hscan, castToBool_eq]
          cases (decodeNum v == 0) <;> cases neg <;> rfl
        rw [hstep] at hve ⊢
        simp only [Res.toOut] at hve ⊢
        have hbal : Bal ((if (Consensus.castToBool v != neg) then a' else []) ++ t) := by
          split
          · exact ha.append ht
          · exact Bal.nil.append ht
        have hl : ((if (Consensus.castToBool v != neg) then a' else []) ++ t).length
            ≤ (a' ++ ENDIF :: t).length := by
          split <;> simp <;> omega
        have hl2 : (a' ++ ENDIF :: t).length ≤ n := by simp at hlen ⊢; omega
        have hl3 : (a' ++ ENDIF :: t).length ≤ f := by simp at hfuel ⊢; omega
        exact ih _ (by omega) hbal s' a f (by omega) hve hov
    | ifElse neg a' b t ha hb' ht =>
      obtain ⟨f, rfl⟩ : ∃ f, fuel = f + 1 := ⟨fuel - 1, by simp at hfuel; omega⟩
      rw [run_cons _ _ _ _ (IFop neg) (a' ++ ELSE :: (b ++ ENDIF :: t)) rfl, step_model_if] at hve ⊢
      cases s with
      | nil =>
        rw [runFrom_if_empty]
        rfl
      | cons v s' =>
        rw [runFrom_ifElse (ctxOf env) ha hb'] at hov ⊢
        have hscan := scanIf_ifElse ha hb' t
        have hstep : op_ifx neg (v :: s') (a' ++ ELSE :: (b ++ ENDIF :: t)) =
            .ok (s', (if (Consensus.castToBool v != neg) then a' else b) ++ t) := by
          simp only [op_ifx, hscan, castToBool_eq]
          cases (decodeNum v == 0) <;> cases neg <;> rfl
        rw [hstep] at hve ⊢
        simp only [Res.toOut] at hve ⊢
        have hbal : Bal ((if (Consensus.castToBool v != neg) then a' else b) ++ t) := by
          split
          · exact ha.append ht
          · exact hb'.append ht
        have hl : ((if (Consensus.castToBool v != neg) then a' else b) ++ t).length
            ≤ (a' ++ ELSE :: (b ++ ENDIF :: t)).length := by
          split <;> simp <;> omega
        have hl2 : (a' ++ ELSE :: (b ++ ENDIF :: t)).length ≤ n := by simp at hlen ⊢; omega
        have hl3 : (a' ++ ELSE :: (b ++ ENDIF :: t)).length ≤ f := by simp at hfuel ⊢; omega
        exact ih _ (by omega) hbal s' a f (by omega) hve hov

end Buidl.Interp
