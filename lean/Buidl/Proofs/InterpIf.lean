/-
  Helper lemmas for C07, conditionals: relating the splicing `op_if` / `op_notif` of buidl/op.py to
  the exec-stack (`vfExec`) semantics of consensus on properly nested programs.
-/
import Buidl.Proofs.Interp
namespace Buidl.Interp
open Buidl Buidl.Script Buidl.Spec

end Buidl.Interp
