/-
  Buidl.Proofs.HD — the facts about secp256k1 that the C08 theorems of Buidl.Proofs.HDPath are stated
  relative to, discharged from Buidl.Proofs.Secp256k1 / SecpCodec (C03):
    groupAdd        ((a + b) mod N)·G = b·G + a·G
    sadd_comm_G     a·G + X = X + a·G for every curve point X
    sec_roundtrip   parse(sec(Q)) = Q and |sec(Q)| = 33 for every curve point Q
    smul_G_ne_inf   k·G ≠ ∞ for 1 ≤ k < N, smul_G_valid
-/
import Buidl.Proofs.HDPath
import Buidl.Proofs.Secp256k1
import Buidl.Proofs.SecpCodec
import Buidl.Proofs.Base58
namespace Buidl.HD
open Buidl Buidl.EC

attribute [local irreducible] pmul

theorem smul_G_valid (k : Int) : Valid P A B (smul k G) := smul_valid G_valid k

theorem groupAdd : GroupAdd := by
  intro a b
  have h1 : (((a + b) % N : Nat) : Int) = ((a : Int) + (b : Int)) % (N : Int) := by
    push_cast; rfl
  rw [h1, smul_emod, ← smul_add G_tors, sadd_comm (smul_G_valid _) (smul_G_valid _)]

theorem sadd_comm_G (a : Nat) {X : Pt} (hX : Valid P A B X) :
    sadd (smul (a : Int) G) X = sadd X (smul (a : Int) G) :=
  sadd_comm (smul_G_valid _) hX

theorem sec_roundtrip {Q : Pt} (hQ : Valid P A B Q) (s : Bytes) (h : sec Q true = some s) :
    s.length = 33 ∧ parsePoint s = some Q :=
  ⟨by simpa using sec_length h, parsePoint_sec hQ true h⟩

theorem smul_G_ne_inf {k : Nat} (h1 : 1 ≤ k) (h2 : k < N) : smul (k : Int) G ≠ .inf := by
  intro h
  have hd := (smul_G_eq_inf_iff (k : Int)).mp h
  have : (N : Int) ≤ (k : Int) := Int.le_of_dvd (by omega) hd
  omega

theorem sec_smul_G_isSome {k : Nat} (h1 : 1 ≤ k) (h2 : k < N) : (sec (smul (k : Int) G) true).isSome := by
  cases h : smul (k : Int) G with
  | inf => exact absurd h (smul_G_ne_inf h1 h2)
  | aff x y => simp [sec]

/-- Base58Check round trip from `Buidl.Base58.decodeCombined_encodeBase58` (C09), for any `hash256` that
    returns at least four bytes -/
theorem b58RoundTrip (hash256 : Bytes → Bytes) (hh : ∀ b, 4 ≤ (hash256 b).length) : B58RoundTrip hash256 := by
  intro p s h
  unfold Base58.encodeBase58Checksum at h
  have hd := Base58.decodeCombined_encodeBase58 _ _ h
  have hc : ((hash256 p).take 4).length = 4 := by
    have := hh p; simp; omega
  unfold Base58.rawDecodeBase58
  simp only [hd, Gen.b58EncChecksumWidth, Gen.b58DecChecksumTail, Gen.b58DecHashedCut, Gen.b58DecHashWidth,
    Gen.b58DecReturnCut, Base58.pyLast, Base58.pyButLast, List.length_append, hc, Nat.add_sub_cancel]
  rw [take_append_len _ _ _ rfl, drop_append_len _ _ _ rfl]
  simp

end Buidl.HD
