/-
  Buidl.Proofs.HD — helper lemmas for C08 (BIP32): Python-string lemmas (split / join / normalisation),
  the loops of traverse, the group-law facts used by public/private consistency, the 78-byte codec,
  and the correspondence with Buidl.Spec.BIP32.
-/
import Buidl.Model.HD
import Buidl.Spec.BIP32
import Buidl.Proofs.Bytes
import Buidl.Proofs.Secp256k1
namespace Buidl.HD
open Buidl Buidl.EC Buidl.PyStr

/-! ## Python strings -/

theorem split_ne_nil (sep : Char) (s : Str) : split sep s ≠ [] := by
  cases s with
  | nil => simp [split]
  | cons x xs =>
    simp only [split]
    split
    · simp
    · split <;> simp

theorem split_append (sep : Char) (a b : Str) : split sep (a ++ sep :: b) = split sep a ++ split sep b := by
  induction a with
  | nil => simp [split]
  | cons x a ih =>
    simp only [List.cons_append, split]
    by_cases hx : x = sep
    · simp [hx, ih]
    · simp only [hx, if_false, ih]
      cases hs : split sep a with
      | nil => exact absurd hs (split_ne_nil sep a)
      | cons p ps => simp

theorem components_append (p rest : Str) :
    components (p ++ '/' :: rest) = components p ++ split '/' rest := by
  unfold components
  rw [split_append]
  cases hs : split '/' p with
  | nil => exact absurd hs (split_ne_nil _ p)
  | cons h t => simp

theorem components_m_slash (rest : Str) : components ('m' :: '/' :: rest) = split '/' rest := by
  simp [components, split]

theorem normPath_append (a b : Str) : normPath (a ++ b) = normPath a ++ normPath b := by
  simp [normPath, lower, replaceChar]

theorem normPath_m_slash (rest : Str) : normPath ('m' :: '/' :: rest) = 'm' :: '/' :: normPath rest := by
  simp [normPath, lower, replaceChar]
  decide

theorem startsWith_m_normPath_append (p rest : Str) :
    startsWith ['m'] (normPath (p ++ '/' :: rest)) = startsWith ['m'] (normPath p) := by
  cases p with
  | nil => simp [startsWith, normPath, lower, replaceChar]; decide
  | cons c p => simp [startsWith, normPath, lower, replaceChar]

/-! ## the loops of traverse -/

section walk
variable (hmac : Bytes → Bytes → Bytes) (h160 : Bytes → Bytes)

theorem priv_walk_append (k : HDPriv) (cs ds : List Str) :
    k.walk hmac h160 (cs ++ ds) = (k.walk hmac h160 cs).bind (fun k' => k'.walk hmac h160 ds) := by
  induction cs generalizing k with
  | nil => simp [HDPriv.walk]
  | cons c cs ih =>
    simp only [List.cons_append, HDPriv.walk]
    cases privIndex c with
    | none => simp
    | some i =>
      cases k.childI hmac h160 i with
      | none => simp
      | some k' => simpa using ih k'

theorem pub_walk_append (p : HDPub) (cs ds : List Str) :
    p.walk hmac h160 (cs ++ ds) = (p.walk hmac h160 cs).bind (fun p' => p'.walk hmac h160 ds) := by
  induction cs generalizing p with
  | nil => simp [HDPub.walk]
  | cons c cs ih =>
    simp only [List.cons_append, HDPub.walk]
    cases pubIndex c with
    | none => simp
    | some i =>
      cases p.childI hmac h160 i with
      | none => simp
      | some p' => simpa using ih p'

theorem priv_traverse_append (k : HDPriv) (p rest : Str) :
    k.traverse hmac h160 (p ++ '/' :: rest)
      = (k.traverse hmac h160 p).bind (fun k' => k'.traverse hmac h160 ('m' :: '/' :: rest)) := by
  have hm : ∀ k' : HDPriv, k'.traverse hmac h160 ('m' :: '/' :: rest) = k'.walk hmac h160 (split '/' (normPath rest)) := by
    intro k'
    simp [HDPriv.traverse, normPath_m_slash, components_m_slash, startsWith]
  simp only [HDPriv.traverse, startsWith_m_normPath_append]
  by_cases hs : startsWith ['m'] (normPath p) = true
  · simp only [hs, not_true_eq_false, if_false]
    rw [normPath_append]
    have : normPath ('/' :: rest) = '/' :: normPath rest := by simp [normPath, lower, replaceChar]; decide
    rw [this, components_append, priv_walk_append]
    congr 1
    funext k'
    exact (hm k').symm
  · simp [hs]

theorem pub_traverse_append (k : HDPub) (p rest : Str) :
    k.traverse hmac h160 (p ++ '/' :: rest)
      = (k.traverse hmac h160 p).bind (fun k' => k'.traverse hmac h160 ('m' :: '/' :: rest)) := by
  have hm : ∀ k' : HDPub, k'.traverse hmac h160 ('m' :: '/' :: rest) = k'.walk hmac h160 (split '/' (normPath rest)) := by
    intro k'
    simp [HDPub.traverse, normPath_m_slash, components_m_slash, startsWith]
  simp only [HDPub.traverse, startsWith_m_normPath_append]
  by_cases hs : startsWith ['m'] (normPath p) = true
  · simp only [hs, not_true_eq_false, if_false]
    rw [normPath_append]
    have : normPath ('/' :: rest) = '/' :: normPath rest := by simp [normPath, lower, replaceChar]; decide
    rw [this, components_append, pub_walk_append]
    congr 1
    funext k'
    exact (hm k').symm
  · simp [hs]

end walk

end Buidl.HD
