/-
  Buidl.Proofs.Pow — compact targets, retargeting and proof-of-work of buidl/helper.py and
  buidl/block.py against arith_uint256::SetCompact / GetCompact, CalculateNextWorkRequired and
  CheckProofOfWork (C17).
-/
import Buidl.Model.Merkle
import Buidl.Spec.Merkle
import Buidl.Proofs.Bytes
namespace Buidl.Merkle
open Buidl Buidl.Wire Spec.Merkle

/-! ### bits_to_target -/

theorem bits4 {bits : Bytes} (h4 : bits.length = 4) : ∃ a b c e, bits = [a, b, c, e] := by
  rcases bits with _ | ⟨a, _ | ⟨b, _ | ⟨c, _ | ⟨e, _ | ⟨x, r⟩⟩⟩⟩⟩ <;> simp at h4
  exact ⟨a, b, c, e, rfl⟩

theorem leToNat4 (a b c e : UInt8) :
    leToNat [a, b, c, e] % 2 ^ 24 = leToNat [a, b, c] ∧ leToNat [a, b, c, e] / 2 ^ 24 = e.toNat := by
  have ha := a.toNat_lt; have hb := b.toNat_lt; have hc := c.toNat_lt
  simp only [leToNat, Nat.reducePow]
  omega

/-- what the code computes in general for exponent ≥ 3: the 24-bit mantissa INCLUDING the sign bit, times
    256^(e-3), never truncated -/
theorem bitsToTarget_general (bits : Bytes) (h4 : bits.length = 4) (hexp : 3 ≤ leToNat bits / 2 ^ 24) :
    bitsToTarget bits = some (.int ((leToNat bits % 2 ^ 24) * 256 ^ (leToNat bits / 2 ^ 24 - 3))) := by
  obtain ⟨a, b, c, e, rfl⟩ := bits4 h4
  obtain ⟨h1, h2⟩ := leToNat4 a b c e
  rw [h2] at hexp
  rw [h1, h2]
  simp [bitsToTarget, hexp]

theorem two_pow_8_mul (k : Nat) : 2 ^ (8 * k) = 256 ^ k := by
  rw [Nat.pow_mul]

theorem setCompact_value_of_ok (n : Nat) (hexp : 3 ≤ n / 2 ^ 24) (hsign : (n / 2 ^ 23) % 2 = 0)
    (hov : (setCompact n).overflow = false) :
    (setCompact n).value = (n % 2 ^ 24) * 256 ^ (n / 2 ^ 24 - 3) ∧ (setCompact n).negative = false := by
  have hw : n % 2 ^ 24 % 2 ^ 23 = n % 2 ^ 24 := by
    simp only [Nat.reducePow] at hsign ⊢; omega
  have hwlt : n % 2 ^ 24 < 2 ^ 23 := by
    simp only [Nat.reducePow] at hsign ⊢; omega
  refine ⟨?_, by simp [setCompact, hsign]⟩
  simp only [setCompact, hw, decide_eq_false_iff_not, not_and, not_or, Nat.not_lt] at hov ⊢
  by_cases h3 : n / 2 ^ 24 ≤ 3
  · have : n / 2 ^ 24 = 3 := by omega
    simp [this]
  · rw [if_neg h3, two_pow_8_mul]
    apply Nat.mod_eq_of_lt
    by_cases h0 : n % 2 ^ 24 = 0
    · rw [h0, Nat.zero_mul]; exact Nat.two_pow_pos _
    · obtain ⟨o1, o2, o3⟩ := hov h0
      rw [← two_pow_8_mul]
      -- nWord < 2^k and 8·(nSize-3) ≤ 256 - k in each of the three cases
      have key : ∀ k : Nat, n % 2 ^ 24 < 2 ^ k → k + 8 * (n / 2 ^ 24 - 3) ≤ 256 →
          n % 2 ^ 24 * 2 ^ (8 * (n / 2 ^ 24 - 3)) < 2 ^ 256 := by
        intro k hk hle
        calc n % 2 ^ 24 * 2 ^ (8 * (n / 2 ^ 24 - 3)) < 2 ^ k * 2 ^ (8 * (n / 2 ^ 24 - 3)) :=
              Nat.mul_lt_mul_of_pos_right hk (Nat.two_pow_pos _)
          _ = 2 ^ (k + 8 * (n / 2 ^ 24 - 3)) := (Nat.pow_add _ _ _).symm
          _ ≤ 2 ^ 256 := Nat.pow_le_pow_right (by decide) hle
      by_cases c1 : n / 2 ^ 24 ≤ 32
      · exact key 23 hwlt (by omega)
      · by_cases c2 : n / 2 ^ 24 ≤ 33
        · exact key 16 (by false_or_by_contra; rename_i hc; have := o3 (by simp only [Nat.reducePow] at hc ⊢; omega); omega) (by omega)
        · exact key 8 (by false_or_by_contra; rename_i hc; have := o2 (by simp only [Nat.reducePow] at hc ⊢; omega); omega) (by omega)

/-- bits_to_target = SetCompact for 4-byte bits with exponent ≥ 3, clear sign bit, no overflow -/
theorem bitsToTarget_eq_setCompact (bits : Bytes) (h4 : bits.length = 4)
    (hexp : 3 ≤ leToNat bits / 2 ^ 24) (hsign : (leToNat bits / 2 ^ 23) % 2 = 0)
    (hov : (setCompact (leToNat bits)).overflow = false) :
    bitsToTarget bits = some (.int (setCompact (leToNat bits)).value) ∧
      (setCompact (leToNat bits)).negative = false := by
  obtain ⟨h1, h2⟩ := setCompact_value_of_ok _ hexp hsign hov
  exact ⟨by rw [h1]; exact bitsToTarget_general bits h4 hexp, h2⟩

/-! ### byte strings -/

theorem leToNat_append (x y : Bytes) : leToNat (x ++ y) = leToNat x + 256 ^ x.length * leToNat y := by
  induction x with
  | nil => simp [leToNat]
  | cons a xs ih =>
    simp only [List.cons_append, leToNat, ih, List.length_cons, Nat.pow_succ, Nat.mul_add]
    rw [Nat.add_assoc, Nat.mul_comm (256 ^ xs.length) 256, Nat.mul_assoc]

theorem beToNat_eq_leToNat_reverse (b : Bytes) : beToNat b = leToNat b.reverse := by
  have := beToNat_reverse b.reverse
  rwa [List.reverse_reverse] at this

theorem beToNat_append (a b : Bytes) : beToNat (a ++ b) = beToNat a * 256 ^ b.length + beToNat b := by
  rw [beToNat_eq_leToNat_reverse, List.reverse_append, leToNat_append, List.length_reverse,
    ← beToNat_eq_leToNat_reverse, ← beToNat_eq_leToNat_reverse, Nat.add_comm, Nat.mul_comm]

theorem beToNat_lt (b : Bytes) : beToNat b < 256 ^ b.length := by
  rw [beToNat_eq_leToNat_reverse]
  have := leToNat_lt b.reverse
  rwa [List.length_reverse] at this

theorem beToNat_take (r : Bytes) (k : Nat) : beToNat (r.take k) = beToNat r / 256 ^ (r.length - k) := by
  have h := beToNat_append (r.take k) (r.drop k)
  rw [List.take_append_drop, List.length_drop] at h
  have hlt := beToNat_lt (r.drop k)
  rw [List.length_drop] at hlt
  rw [h, Nat.add_comm, Nat.add_mul_div_right _ _ (Nat.pow_pos (by decide)), Nat.div_eq_of_lt hlt, Nat.zero_add]

theorem beToNat_singleton (x : UInt8) : beToNat [x] = x.toNat := by
  simp [beToNat, beToNatAux]

theorem beToNat_cons_zero (b : Bytes) : beToNat (0 :: b) = beToNat b := by
  simp [beToNat, beToNatAux]

theorem beToNat_lstripZeros (b : Bytes) : beToNat (lstripZeros b) = beToNat b := by
  induction b with
  | nil => rfl
  | cons x xs ih =>
    unfold lstripZeros at ih ⊢
    by_cases hx : x = 0
    · subst hx
      rw [List.dropWhile_cons_of_pos (by simp), ih, beToNat_cons_zero]
    · rw [List.dropWhile_cons_of_neg (by simpa using hx)]

theorem lstripZeros_head (b : Bytes) (x : UInt8) (r : Bytes) (h : lstripZeros b = x :: r) : x ≠ 0 := by
  induction b with
  | nil => simp [lstripZeros] at h
  | cons y ys ih =>
    unfold lstripZeros at ih h
    by_cases hy : y = 0
    · subst hy
      rw [List.dropWhile_cons_of_pos (by simp)] at h
      exact ih h
    · rw [List.dropWhile_cons_of_neg (by simpa using hy)] at h
      cases h
      exact hy

theorem lstripZeros_length_le (b : Bytes) : (lstripZeros b).length ≤ b.length :=
  (List.dropWhile_sublist _).length_le

/-! ### byteLen and GetCompact -/

theorem byteLen_zero : byteLen 0 = 0 := by rw [byteLen]

theorem byteLen_succ (n : Nat) : byteLen (n + 1) = byteLen ((n + 1) / 256) + 1 := by rw [byteLen]

theorem byteLen_le_iff (n t : Nat) : byteLen t ≤ n ↔ t < 256 ^ n := by
  induction n generalizing t with
  | zero =>
    cases t with
    | zero => simp [byteLen_zero]
    | succ k => rw [byteLen_succ]; simp
  | succ n ih =>
    cases t with
    | zero => simp [byteLen_zero, Nat.pow_pos]
    | succ k =>
      rw [byteLen_succ, Nat.add_le_add_iff_right, ih, Nat.pow_succ, Nat.div_lt_iff_lt_mul (by decide)]

theorem byteLen_eq {n t : Nat} (hn : 1 ≤ n) (hlo : 256 ^ (n - 1) ≤ t) (hhi : t < 256 ^ n) : byteLen t = n := by
  have h1 := (byteLen_le_iff n t).mpr hhi
  have h2 : ¬ byteLen t ≤ n - 1 := fun h => by
    have := (byteLen_le_iff (n - 1) t).mp h; omega
  omega

theorem getCompact_eq {t n : Nat} (hn : 3 ≤ n) (hlo : 256 ^ (n - 1) ≤ t) (hhi : t < 256 ^ n) :
    getCompact t =
      if 2 ^ 23 ≤ t / 256 ^ (n - 3) then t / 256 ^ (n - 3) / 256 + (n + 1) * 2 ^ 24
      else t / 256 ^ (n - 3) + n * 2 ^ 24 := by
  have hb := byteLen_eq (by omega) hlo hhi
  have hA : t / 256 ^ (n - 3) < 2 ^ 24 := by
    rw [Nat.div_lt_iff_lt_mul (Nat.pow_pos (by decide))]
    have : (2 : Nat) ^ 24 = 256 ^ 3 := by decide
    rw [this, ← Nat.pow_add]
    have : 3 + (n - 3) = n := by omega
    rwa [this]
  have h0 : (if n ≤ 3 then t * 2 ^ (8 * (3 - n)) else t / 2 ^ (8 * (n - 3))) = t / 256 ^ (n - 3) := by
    by_cases h3 : n ≤ 3
    · have : n = 3 := by omega
      subst this; simp
    · rw [if_neg h3, two_pow_8_mul]
  unfold getCompact
  simp only [hb, h0]
  generalize t / 256 ^ (n - 3) = A at hA ⊢
  simp only [Nat.reducePow] at hA ⊢
  by_cases hbit : 8388608 ≤ A
  · have : A / 8388608 % 2 = 1 := by omega
    simp [this, hbit]
  · have : ¬ A / 8388608 % 2 = 1 := by omega
    simp [this, hbit]

/-! ### target_to_bits -/

theorem out_lo (r : Bytes) (hn : 3 ≤ r.length) (hn2 : r.length < 256) :
    ((r.take 3).reverse ++ [UInt8.ofNat r.length]).length = 4 ∧
      leToNat ((r.take 3).reverse ++ [UInt8.ofNat r.length]) = beToNat (r.take 3) + r.length * 2 ^ 24 := by
  have hl : (r.take 3).length = 3 := by rw [List.length_take]; omega
  refine ⟨by simp [hl], ?_⟩
  rw [leToNat_append, ← beToNat_eq_leToNat_reverse, List.length_reverse, hl]
  simp only [leToNat, u8_ofNat_toNat, Nat.mod_eq_of_lt hn2, Nat.reducePow]
  omega

theorem out_hi (r : Bytes) (hn : 3 ≤ r.length) (hn2 : r.length + 1 < 256) :
    ((0 :: r.take 2).reverse ++ [UInt8.ofNat (r.length + 1)]).length = 4 ∧
      leToNat ((0 :: r.take 2).reverse ++ [UInt8.ofNat (r.length + 1)])
        = beToNat (r.take 2) + (r.length + 1) * 2 ^ 24 := by
  have hl : (r.take 2).length = 2 := by rw [List.length_take]; omega
  refine ⟨by simp [hl], ?_⟩
  rw [List.reverse_cons, List.append_assoc, leToNat_append, ← beToNat_eq_leToNat_reverse, List.length_reverse, hl]
  simp only [List.cons_append, List.nil_append, leToNat, u8_ofNat_toNat, Nat.mod_eq_of_lt hn2, Nat.reducePow]
  have : (0 : UInt8).toNat = 0 := rfl
  omega

/-- target_to_bits = GetCompact for 2^16 ≤ target < 2^256 -/
theorem targetToBits_eq_getCompact (t : Nat) (hlo : 2 ^ 16 ≤ t) (hhi : t < 2 ^ 256) :
    ∃ b, targetToBits t = some b ∧ b.length = 4 ∧ leToNat b = getCompact t := by
  have h256 : (2 : Nat) ^ 256 = 256 ^ 32 := by decide
  have hhi' : t < 256 ^ 32 := by rwa [← h256]
  have hbe : natToBE t Gen.targetWidth = some (natToBE' 32 t) := by
    unfold natToBE; rw [if_pos hhi']
  -- the stripped string
  have hval : beToNat (lstripZeros (natToBE' 32 t)) = t := by
    rw [beToNat_lstripZeros, beToNat_natToBE' hhi']
  have hlen : (lstripZeros (natToBE' 32 t)).length ≤ 32 := by
    have := lstripZeros_length_le (natToBE' 32 t)
    rwa [natToBE'_length] at this
  have hhead := lstripZeros_head (natToBE' 32 t)
  unfold targetToBits
  rw [hbe]
  simp only [Option.bind_eq_bind, Option.bind_some]
  generalize lstripZeros (natToBE' 32 t) = r at hval hlen hhead
  cases r with
  | nil => simp [beToNat, beToNatAux] at hval; omega
  | cons x r' =>
    have hx : x ≠ 0 := hhead x r' rfl
    have hx1 : 1 ≤ x.toNat := by
      rcases Nat.eq_zero_or_pos x.toNat with h | h
      · exact absurd (UInt8.toNat_inj.mp (by rw [h]; rfl)) hx
      · exact h
    generalize hr : x :: r' = r at hval hlen
    have hrl : r.length = r'.length + 1 := by rw [← hr]; rfl
    -- bounds on t in terms of the length
    have hlt := beToNat_lt r
    rw [hval] at hlt
    have h1 := beToNat_take r 1
    have h2 := beToNat_take r 2
    have h3 := beToNat_take r 3
    rw [hval] at h1 h2 h3
    have hx' : x.toNat = t / 256 ^ (r.length - 1) := by
      rw [← h1, ← hr]; simp [beToNat_singleton]
    have hge : 256 ^ (r.length - 1) ≤ t := by
      have hpos : 0 < 256 ^ (r.length - 1) := Nat.pow_pos (by decide)
      have := (Nat.le_div_iff_mul_le hpos).mp (hx' ▸ hx1)
      omega
    have hn : 3 ≤ r.length := by
      false_or_by_contra; rename_i hc
      have : 256 ^ r.length ≤ 256 ^ 2 := Nat.pow_le_pow_right (by decide) (by omega)
      simp only [Nat.reducePow] at hlo this; omega
    rw [getCompact_eq hn hge hlt]
    -- relations between the leading 1, 2, 3 bytes
    have e2 : t / 256 ^ (r.length - 2) = t / 256 ^ (r.length - 3) / 256 := by
      rw [Nat.div_div_eq_div_mul, ← Nat.pow_succ]; congr 2; omega
    have e1 : t / 256 ^ (r.length - 1) = t / 256 ^ (r.length - 3) / 65536 := by
      have : (65536 : Nat) = 256 ^ 2 := by decide
      rw [this, Nat.div_div_eq_div_mul, ← Nat.pow_add]; congr 2; omega
    obtain ⟨lo1, lo2⟩ := out_lo r hn (by omega)
    obtain ⟨hi1, hi2⟩ := out_hi r hn (by omega)
    rw [h3] at lo2
    rw [h2, e2] at hi2
    rw [e1] at hx'
    generalize t / 256 ^ (r.length - 3) = A at *
    subst hr
    simp only [Gen.targetSignCmp, Nat.reducePow] at lo2 hi2 ⊢
    by_cases hb : x.toNat > 127
    · rw [if_pos hb, if_pos (by omega)]
      exact ⟨_, rfl, hi1, hi2⟩
    · rw [if_neg hb, if_neg (by omega)]
      exact ⟨_, rfl, lo1, lo2⟩

/-! ### calculate_new_bits -/

/-- the two clamps of calculate_new_bits, in the order of the code -/
def clampTd (td : Int) : Int :=
  let td : Int := if td > (Gen.retargetHiCmp : Int) then (Gen.retargetHiSet : Int) else td
  if td < (Gen.retargetLoCmp : Int) then (Gen.retargetLoSet : Int) else td

theorem clampTd_eq (td : Int) : clampTd td = max 302400 (min td 4838400) := by
  simp only [clampTd, Gen.retargetHiCmp, Gen.retargetHiSet, Gen.retargetLoCmp, Gen.retargetLoSet]
  split <;> split <;> omega

theorem calculateNewBits_clampTd (bits : Bytes) (td : Int) :
    calculateNewBits bits td = (match bitsToTarget bits with
      | none => none
      | some (.frac _ _) => none
      | some (.int t) =>
        let nt : Int := ((t : Int) * clampTd td) / (Gen.retargetDivisor : Int)
        let nt : Int := if nt > (Gen.retargetCapCmp : Int) then (Gen.retargetCapSet : Int) else nt
        if nt < 0 then none else targetToBits nt.toNat) := by
  unfold calculateNewBits clampTd
  cases bitsToTarget bits with
  | none => rfl
  | some t => cases t <;> rfl

/-- the two clamps -/
theorem retarget_clamp (bits : Bytes) (td : Int) :
    calculateNewBits bits td = calculateNewBits bits (max 302400 (min td 4838400)) := by
  rw [calculateNewBits_clampTd, calculateNewBits_clampTd]
  have : clampTd (max 302400 (min td 4838400)) = clampTd td := by
    rw [clampTd_eq, clampTd_eq]; omega
  rw [this]

theorem powLimitMainnet_eq : powLimitMainnet = Gen.maxTarget := by decide

/-- calculate_new_bits = CalculateNextWorkRequired (14-day timespan, clamp to [¼, 4], cap at the limit,
    GetCompact) -/
theorem calculateNewBits_eq_spec (bits : Bytes) (td : Int) (h4 : bits.length = 4)
    (hexp : 3 ≤ leToNat bits / 2 ^ 24) (hsign : (leToNat bits / 2 ^ 23) % 2 = 0)
    (hov : (setCompact (leToNat bits)).overflow = false)
    (hprod : (setCompact (leToNat bits)).value * 4838400 < 2 ^ 256)
    (hbig : 2 ^ 16 * 1209600 ≤ (setCompact (leToNat bits)).value * 302400) :
    ∃ b, calculateNewBits bits td = some b ∧ b.length = 4 ∧
      leToNat b = nextWorkRequired (leToNat bits) td powLimitMainnet := by
  obtain ⟨hbt, _⟩ := bitsToTarget_eq_setCompact bits h4 hexp hsign hov
  generalize hV : (setCompact (leToNat bits)).value = V at hbt hprod hbig
  -- the clamped timespan as a natural number
  have hc := clampTd_eq td
  have hcnn : 0 ≤ clampTd td := by omega
  obtain ⟨c, hcc⟩ := Int.eq_ofNat_of_zero_le hcnn
  have hc1 : 302400 ≤ c := by omega
  have hc2 : c ≤ 4838400 := by omega
  -- the product
  have hp1 : V * c ≤ V * 4838400 := Nat.mul_le_mul_left V hc2
  have hp2 : V * 302400 ≤ V * c := Nat.mul_le_mul_left V hc1
  have hpc : (V : Int) * clampTd td = ((V * c : Nat) : Int) := by rw [hcc]; simp
  -- the specification side
  have hspec : nextWorkRequired (leToNat bits) td powLimitMainnet
      = getCompact (min (V * c / 1209600) Gen.maxTarget) := by
    have hts : (if (if td < (14 * 24 * 60 * 60 : Int) / 4 then (14 * 24 * 60 * 60 : Int) / 4 else td)
          > (14 * 24 * 60 * 60 : Int) * 4 then (14 * 24 * 60 * 60 : Int) * 4
        else (if td < (14 * 24 * 60 * 60 : Int) / 4 then (14 * 24 * 60 * 60 : Int) / 4 else td)) = (c : Int) := by
      rw [← hcc, hc]
      have e1 : (14 * 24 * 60 * 60 : Int) / 4 = 302400 := by decide
      have e2 : (14 * 24 * 60 * 60 : Int) * 4 = 4838400 := by decide
      rw [e1, e2]
      split <;> split <;> omega
    have e3 : (14 * 24 * 60 * 60 : Int).toNat = 1209600 := by decide
    simp only [nextWorkRequired]
    rw [hV, hts, Int.toNat_natCast, e3, Nat.mod_eq_of_lt (by omega), powLimitMainnet_eq, Nat.min_def]
    congr 1
    split <;> split <;> omega
  -- the code side
  have hX1 : 2 ^ 16 ≤ min (V * c / 1209600) Gen.maxTarget := by
    simp only [Gen.maxTarget, Nat.reducePow] at hbig ⊢; omega
  have hX2 : min (V * c / 1209600) Gen.maxTarget < 2 ^ 256 := by
    simp only [Gen.maxTarget, Nat.reducePow]; omega
  obtain ⟨b, hb1, hb2, hb3⟩ := targetToBits_eq_getCompact _ hX1 hX2
  refine ⟨b, ?_, hb2, by rw [hb3, hspec]⟩
  rw [calculateNewBits_clampTd, hbt]
  simp only [hpc, Gen.retargetDivisor, Gen.retargetCapCmp, Gen.retargetCapSet]
  rw [← hb1]
  have hdiv : ((V * c : Nat) : Int) / ((1209600 : Nat) : Int) = ((V * c / 1209600 : Nat) : Int) := by
    omega
  rw [hdiv]
  generalize V * c / 1209600 = q
  simp only [Gen.maxTarget]
  split
  · rw [if_neg (by omega)]; congr 1; omega
  · rw [if_neg (by omega)]; congr 1; omega

/-- Core's real mainnet limit 2^224 - 1 gives the same compact value as buidl's MAX_TARGET = 0xFFFF·2^208 -/
theorem getCompact_cap (t : Nat) : getCompact (min t (2 ^ 224 - 1)) = getCompact (min t powLimitMainnet) := by
  by_cases h : t ≤ powLimitMainnet
  · have h' : t ≤ 2 ^ 224 - 1 := by
      unfold powLimitMainnet at h; simp only [Nat.reducePow] at h ⊢; omega
    rw [Nat.min_eq_left h, Nat.min_eq_left h']
  · have hr : min t powLimitMainnet = powLimitMainnet := Nat.min_eq_right (by omega)
    rw [hr]
    have h28 : (256 : Nat) ^ 28 = 2 ^ 224 := by decide
    have h27 : (256 : Nat) ^ (28 - 1) = 2 ^ 216 := by decide
    have h25 : (256 : Nat) ^ (28 - 3) = 2 ^ 200 := by decide
    have e1 : getCompact powLimitMainnet = 0x1d00ffff := by
      rw [getCompact_eq (n := 28) (by decide) (by decide) (by decide)]
      decide
    rw [e1, getCompact_eq (n := 28) (by decide)
      (by rw [h27]; unfold powLimitMainnet at h; simp only [Nat.reducePow] at h ⊢; omega)
      (by rw [h28]; simp only [Nat.reducePow]; omega)]
    rw [h25]
    unfold powLimitMainnet at h
    simp only [Nat.reducePow] at h ⊢
    rw [if_pos (by omega)]
    omega

/-! ### check_pow -/

theorem powCompare_int (proof t : Nat) : powCompare proof (.int t) = decide (proof < t) := by
  simp [powCompare, cmpOp, Gen.checkPowOp]

/-- check_pow: the code tests `proof < target` -/
theorem checkPow_eq (hash256 : Bytes → Bytes) (h : Header) (s : Bytes) (hs : h.serialize = some s)
    (h4 : h.bits.length = 4) (hexp : 3 ≤ leToNat h.bits / 2 ^ 24) :
    checkPow hash256 h = some (decide (leToNat (hash256 s) <
      (leToNat h.bits % 2 ^ 24) * 256 ^ (leToNat h.bits / 2 ^ 24 - 3))) := by
  unfold checkPow
  rw [hs, bitsToTarget_general _ h4 hexp]
  simp only [Option.bind_eq_bind, Option.bind_some, powCompare_int]
  rfl

/-- agreement with CheckProofOfWork on in-range bits except when hash = target -/
theorem checkPow_eq_spec_of_ne (hash256 : Bytes → Bytes) (h : Header) (s : Bytes) (hs : h.serialize = some s)
    (h4 : h.bits.length = 4) (hexp : 3 ≤ leToNat h.bits / 2 ^ 24) (hsign : (leToNat h.bits / 2 ^ 23) % 2 = 0)
    (hov : (setCompact (leToNat h.bits)).overflow = false) (hnz : (setCompact (leToNat h.bits)).value ≠ 0)
    (limit : Nat) (hlim : (setCompact (leToNat h.bits)).value ≤ limit)
    (hne : leToNat (hash256 s) ≠ (setCompact (leToNat h.bits)).value) :
    checkPow hash256 h = some (checkProofOfWork (leToNat (hash256 s)) (leToNat h.bits) limit) := by
  obtain ⟨hv, hneg⟩ := setCompact_value_of_ok _ hexp hsign hov
  rw [checkPow_eq hash256 h s hs h4 hexp, ← hv]
  unfold checkProofOfWork
  simp only [hneg, hov, hnz, Nat.not_lt.mpr hlim, Bool.false_eq_true, or_self, if_false]
  congr 1
  rw [decide_eq_decide]
  omega

/-! ### HeadersMessage.is_valid -/

theorem checkPow_some_hash (hash256 : Bytes → Bytes) (h : Header) (b : Bool) (hc : checkPow hash256 h = some b) :
    ∃ s, h.serialize = some s ∧ h.hash hash256 = some (hash256 s).reverse := by
  unfold checkPow at hc
  cases hs : h.serialize with
  | none => rw [hs] at hc; simp at hc
  | some s => exact ⟨s, rfl, by simp [Header.hash, hs]⟩

/-- the link test of is_valid: `if last_block and h.prev_block != last_block: return False` -/
def linkedTo (last : Option Bytes) (h : Header) : Bool :=
  match last with
  | none => true
  | some l => (l == []) || (h.prevBlock == l)

theorem linkedTo_iff (last : Option Bytes) (h : Header) :
    linkedTo last h = true ↔ (∀ l, last = some l → l ≠ [] → h.prevBlock = l) := by
  cases last with
  | none => simp [linkedTo]
  | some l =>
    by_cases hl : l = []
    · simp [linkedTo, hl]
    · simp [linkedTo, hl]

theorem headersValidFrom_cons (hash256 : Bytes → Bytes) (last : Option Bytes) (h : Header) (hs : List Header) :
    headersValidFrom hash256 last (h :: hs) = (do
      let ok ← checkPow hash256 h
      if !ok then pure false else
      if !(linkedTo last h) then pure false else
      let hh ← h.hash hash256
      headersValidFrom hash256 (some hh) hs) := by
  cases last <;> rfl

theorem headersValidFrom_iff (hash256 : Bytes → Bytes) (hne : ∀ b, hash256 b ≠ []) (hs : List Header) :
    ∀ last : Option Bytes, headersValidFrom hash256 last hs = some true ↔
      (∀ h ∈ hs, checkPow hash256 h = some true) ∧
      (∀ l b, last = some l → l ≠ [] → hs[0]? = some b → b.prevBlock = l) ∧
      (∀ i, ∀ a b, hs[i]? = some a → hs[i+1]? = some b → some b.prevBlock = a.hash hash256) := by
  induction hs with
  | nil => intro last; simp [headersValidFrom]
  | cons h hs ih =>
    intro last
    rw [headersValidFrom_cons]
    cases hc : checkPow hash256 h with
    | none =>
      simp only [Option.bind_eq_bind, Option.bind_none, reduceCtorEq, false_iff]
      intro hcon
      have := hcon.1 h List.mem_cons_self
      rw [hc] at this; cases this
    | some ok =>
      cases ok with
      | false =>
        simp only [Option.bind_eq_bind, Option.bind_some, Bool.not_false, if_true, pure, Option.some.injEq,
          Bool.false_eq_true, false_iff]
        intro hcon
        have := hcon.1 h List.mem_cons_self
        rw [hc] at this; cases this
      | true =>
        obtain ⟨s, hser, hhash⟩ := checkPow_some_hash hash256 h true hc
        have hhne : (hash256 s).reverse ≠ [] := by simpa using hne s
        simp only [Option.bind_eq_bind, Option.bind_some, Bool.not_true, Bool.false_eq_true, if_false, hhash]
        have hlink := linkedTo_iff last h
        cases hlk : linkedTo last h with
        | true =>
          rw [hlk] at hlink
          simp only [Bool.not_true, Bool.false_eq_true, if_false]
          rw [ih (some (hash256 s).reverse)]
          have hl := hlink.mp rfl
          constructor
          · rintro ⟨a1, a2, a3⟩
            refine ⟨?_, ?_, ?_⟩
            · intro x hx
              rcases List.mem_cons.mp hx with rfl | hx
              · exact hc
              · exact a1 x hx
            · intro l b hlast hlne hb
              simp only [List.getElem?_cons_zero, Option.some.injEq] at hb
              subst hb
              exact hl l hlast hlne
            · intro i a b ha hb
              cases i with
              | zero =>
                simp only [List.getElem?_cons_zero, Option.some.injEq] at ha
                subst ha
                simp only [Nat.zero_add, List.getElem?_cons_succ] at hb
                rw [hhash, a2 _ b rfl hhne hb]
              | succ i =>
                simp only [List.getElem?_cons_succ] at ha hb
                exact a3 i a b ha hb
          · rintro ⟨a1, a2, a3⟩
            refine ⟨fun x hx => a1 x (List.mem_cons_of_mem _ hx), ?_, ?_⟩
            · intro l b hlast _ hb
              cases hlast
              have := a3 0 h b (by simp) (by simpa using hb)
              rw [hhash] at this
              exact Option.some.inj this
            · intro i a b ha hb
              exact a3 (i + 1) a b (by simpa using ha) (by simpa using hb)
        | false =>
          rw [hlk] at hlink
          simp only [Bool.not_false, if_true, pure, Option.some.injEq, Bool.false_eq_true, false_iff]
          rintro ⟨_, a2, _⟩
          have : false = true := hlink.mpr (fun l hlast hlne => a2 l h hlast hlne (by simp))
          cases this

/-- HeadersMessage.is_valid is the fold it should be: true iff every header passes check_pow and each
    prev_block equals the previous header's hash (`hash256` never returns the empty string) -/
theorem headersValid_iff (hash256 : Bytes → Bytes) (hne : ∀ b, hash256 b ≠ []) (hs : List Header) :
    headersValid hash256 hs = some true ↔
      (∀ h ∈ hs, checkPow hash256 h = some true) ∧
      (∀ i, ∀ a b, hs[i]? = some a → hs[i+1]? = some b → some b.prevBlock = a.hash hash256) := by
  unfold headersValid
  rw [headersValidFrom_iff hash256 hne hs none]
  simp

/-! ### the known findings -/

/-- F17c: exponent < 3 yields a float (Core shifts the mantissa right instead), and the sign bit is taken as
    magnitude (Core: negative, magnitude without bit 23).  A mantissa of exactly 0x800000 is *not* negative
    for Core (nWord = 0), its value is 0. -/
theorem F17c_witness :
    bitsToTarget [0x12, 0x34, 0x56, 0x02] = some (.frac 0x563412 1) ∧ (setCompact 0x02563412).value = 0x5634 ∧
    bitsToTarget [0x00, 0x00, 0x80, 0x03] = some (.int 0x800000) ∧
      (setCompact 0x03800000).negative = false ∧ (setCompact 0x03800000).value = 0 ∧
    bitsToTarget [0x01, 0x00, 0x80, 0x03] = some (.int 0x800001) ∧
      (setCompact 0x03800001).negative = true ∧ (setCompact 0x03800001).value = 1 := by
  decide

theorem getCompact_small : getCompact 0x1234 = 0x02123400 ∧ getCompact 0 = 0 := by
  have h2 : byteLen 0x1234 = 2 := byteLen_eq (n := 2) (by decide) (by decide) (by decide)
  constructor
  · unfold getCompact; rw [h2]; decide
  · unfold getCompact; rw [byteLen_zero]; decide

/-- F17d: a target below 2^16 gives fewer than 4 bytes; 0 raises -/
theorem F17d_witness :
    targetToBits 0x1234 = some [0x34, 0x12, 0x02] ∧ getCompact 0x1234 = 0x02123400 ∧
    targetToBits 0 = none ∧ getCompact 0 = 0 :=
  ⟨by decide +kernel, getCompact_small.1, by decide +kernel, getCompact_small.2⟩

/-- the header used by the F17e witnesses -/
def f17eHeader (bits : Bytes) : Header :=
  ⟨1, List.replicate 32 0, List.replicate 32 0, 0, bits, List.replicate 4 0⟩

/-- F17e: (a) with a hash equal to the target, consensus accepts and check_pow refuses;
    (b) an overflowing target (exponent 34) is accepted by check_pow for every 32-byte hash while SetCompact
    reports overflow and CheckProofOfWork refuses every hash -/
theorem F17e_witness :
    (checkPow (fun _ => natToLE' 32 (0xffff * 256 ^ 26)) (f17eHeader [0xff, 0xff, 0x00, 0x1d]) = some false ∧
      leToNat [0xff, 0xff, 0x00, 0x1d] = 0x1d00ffff ∧
      checkProofOfWork (leToNat (natToLE' 32 (0xffff * 256 ^ 26))) 0x1d00ffff powLimitMainnet = true) ∧
    ((∀ hash256 : Bytes → Bytes, (∀ b, (hash256 b).length = 32) →
        checkPow hash256 (f17eHeader [0xff, 0xff, 0x7f, 0x22]) = some true) ∧
      leToNat [0xff, 0xff, 0x7f, 0x22] = 0x227fffff ∧
      (setCompact 0x227fffff).overflow = true ∧
      ∀ hash, checkProofOfWork hash 0x227fffff (2 ^ 256 - 1) = false) := by
  refine ⟨⟨by decide +kernel, by decide, by decide +kernel⟩, ?_, by decide, by decide, ?_⟩
  · intro hash256 hlen
    have hser : ∃ s, (f17eHeader [0xff, 0xff, 0x7f, 0x22]).serialize = some s :=
      Option.isSome_iff_exists.mp (by decide +kernel)
    obtain ⟨s, hs⟩ := hser
    rw [checkPow_eq hash256 _ s hs (by decide) (by decide)]
    have hlt := leToNat_lt (hash256 s)
    rw [hlen] at hlt
    have hbig : (256 : Nat) ^ 32 ≤ leToNat (f17eHeader [0xff, 0xff, 0x7f, 0x22]).bits % 2 ^ 24 *
        256 ^ (leToNat (f17eHeader [0xff, 0xff, 0x7f, 0x22]).bits / 2 ^ 24 - 3) := by decide +kernel
    congr 1
    rw [decide_eq_true_eq]
    omega
  · intro hash
    have hov : (setCompact 0x227fffff).overflow = true := by decide
    simp [checkProofOfWork, hov]

end Buidl.Merkle
