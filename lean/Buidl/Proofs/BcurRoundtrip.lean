/-
  Helper lemmas about Buidl.Model.Bcur, part 2: the text format (lower / strip / split / int),
  `_parse_bcur_helper` on the strings the encoders write, and parse ∘ encode.
-/
import Buidl.Proofs.Bcur
namespace Buidl.Bcur
open Buidl Buidl.Base58 Buidl.Bech32

/-! ### strings without upper-case letters and white space -/

def Clean (s : Str) : Prop := ∀ c ∈ s, asciiLower c = c ∧ isSpace c = false

theorem Clean.append {a b : Str} (ha : Clean a) (hb : Clean b) : Clean (a ++ b) := by
  intro c hc
  rcases List.mem_append.mp hc with h | h
  · exact ha c h
  · exact hb c h

theorem Clean.cons {c : Char} {s : Str} (hc : asciiLower c = c ∧ isSpace c = false) (hs : Clean s) : Clean (c :: s) := by
  intro x hx
  rcases List.mem_cons.mp hx with rfl | h
  · exact hc
  · exact hs x h

theorem alphabet_clean : ∀ c ∈ Bech32.alphabet, asciiLower c = c ∧ isSpace c = false := by decide

theorem clean_of_alphabet {s : Str} (h : ∀ c ∈ s, c ∈ Bech32.alphabet) : Clean s :=
  fun c hc => alphabet_clean c (h c hc)

theorem map_lower_clean {s : Str} (h : Clean s) : s.map asciiLower = s := by
  conv_rhs => rw [← List.map_id s]
  apply List.map_congr_left
  intro c hc
  exact (h c hc).1

theorem dropWhile_none {α} (p : α → Bool) (l : List α) (h : ∀ c ∈ l, p c = false) : l.dropWhile p = l := by
  cases l with
  | nil => rfl
  | cons x xs => simp [h x (by simp)]

theorem pyStrip_clean {s : Str} (h : Clean s) : pyStrip s = s := by
  unfold pyStrip
  rw [dropWhile_none _ s (fun c hc => (h c hc).2),
    dropWhile_none _ s.reverse (fun c hc => (h c (List.mem_reverse.mp hc)).2), List.reverse_reverse]

/-! ### decimal numerals -/

/-- the character of decimal digit `d` -/
def digitChar (d : Nat) : Char := Char.ofNat ('0'.toNat + d)

theorem digitChar_facts : ∀ d < 10, isDigit (digitChar d) = true ∧ (digitChar d).toNat - '0'.toNat = d ∧
    asciiLower (digitChar d) = digitChar d ∧ isSpace (digitChar d) = false ∧ isSpaceC (digitChar d) = false ∧
    digitChar d ≠ 'o' ∧ digitChar d ≠ '/' ∧ digitChar d ≠ '-' ∧ digitChar d ≠ '+' := by decide

theorem natToDec_eq (n : Nat) :
    natToDec n = if n = 0 then ['0'] else ((Nat.digits 10 n).reverse).map digitChar := by
  unfold natToDec
  split
  · rfl
  · rw [digitsBE_eq 10 (by omega) _ _ _ (Nat.le_refl _), List.append_nil]; rfl

/-- the digits of `n` written most significant first, at least one -/
def decDigits (n : Nat) : List Nat := if n = 0 then [0] else (Nat.digits 10 n).reverse

theorem natToDec_map (n : Nat) : natToDec n = (decDigits n).map digitChar := by
  rw [natToDec_eq]; unfold decDigits; split <;> rfl

theorem decDigits_lt (n : Nat) : ∀ d ∈ decDigits n, d < 10 := by
  intro d hd
  unfold decDigits at hd
  split at hd
  · simp at hd; omega
  · exact Nat.digits_lt_base (by omega) (List.mem_reverse.mp hd)

theorem decDigits_ne_nil (n : Nat) : decDigits n ≠ [] := by
  unfold decDigits; split
  · simp
  · next h => simpa using Nat.digits_ne_nil_iff_ne_zero.mpr h

theorem foldl_digits (ds : List Nat) (v : Nat) :
    ds.foldl (fun v d => 10 * v + d) v = v * 10 ^ ds.length + Nat.ofDigits 10 ds.reverse := by
  induction ds generalizing v with
  | nil => simp
  | cons d ds ih =>
    rw [List.foldl_cons, ih, List.reverse_cons, Nat.ofDigits_append, List.length_reverse, List.length_cons,
      Nat.ofDigits_singleton, Nat.pow_succ]
    ring

theorem decDigits_value (n : Nat) : (decDigits n).foldl (fun v d => 10 * v + d) 0 = n := by
  rw [foldl_digits]
  unfold decDigits
  split
  · next h => subst h; simp
  · simp [Nat.ofDigits_digits]

theorem decDigits_length (n : Nat) (hn : n < 10 ^ 16) : (decDigits n).length ≤ 16 := by
  unfold decDigits
  split
  · simp
  · rw [List.length_reverse]; exact (Nat.digits_length_le_iff (by omega) n).mpr hn

theorem natToDec_clean (n : Nat) : Clean (natToDec n) := by
  rw [natToDec_map]
  intro c hc
  obtain ⟨d, hd, rfl⟩ := List.mem_map.mp hc
  have := digitChar_facts d (decDigits_lt n d hd)
  exact ⟨this.2.2.1, this.2.2.2.1⟩

theorem natToDec_not_mem (n : Nat) : 'o' ∉ natToDec n ∧ '/' ∉ natToDec n := by
  rw [natToDec_map]
  constructor <;> intro hc <;> obtain ⟨d, hd, e⟩ := List.mem_map.mp hc <;>
    have := digitChar_facts d (decDigits_lt n d hd)
  · exact this.2.2.2.2.2.1 e
  · exact this.2.2.2.2.2.2.1 e

theorem intBody_digits (ds : List Nat) (h : ∀ d ∈ ds, d < 10) (v k : Nat) (b : Bool) (hne : ds ≠ [] ∨ b = true) :
    intBody (ds.map digitChar) v k b = some (ds.foldl (fun v d => 10 * v + d) v, k + ds.length) := by
  induction ds generalizing v k b with
  | nil =>
    rcases hne with h0 | h0
    · exact absurd rfl h0
    · simp [intBody, h0]
  | cons d ds ih =>
    have hd := digitChar_facts d (h d (by simp))
    simp only [List.map_cons, intBody, hd.1, if_true, hd.2.1]
    rw [ih (fun x hx => h x (by simp [hx])) _ _ true (Or.inr rfl)]
    simp only [List.foldl_cons, List.length_cons]
    congr 2; omega

/-- `int(str(n)) == n` (numbers below 10^16; CPython refuses more than 4300 digits) -/
theorem pyInt_natToDec (n : Nat) (hn : n < 10 ^ 16) : pyInt (natToDec n) = some (n : Int) := by
  rw [natToDec_map]
  obtain ⟨d0, rest, hds⟩ := List.exists_cons_of_ne_nil (decDigits_ne_nil n)
  have hlt := decDigits_lt n
  have hf0 := digitChar_facts d0 (hlt d0 (by rw [hds]; simp))
  have hstrip : ((((decDigits n).map digitChar).dropWhile isSpaceC).reverse.dropWhile isSpaceC).reverse
      = (decDigits n).map digitChar := by
    have hc : ∀ c ∈ (decDigits n).map digitChar, isSpaceC c = false := by
      intro c hc
      obtain ⟨d, hd, rfl⟩ := List.mem_map.mp hc
      exact (digitChar_facts d (hlt d hd)).2.2.2.2.1
    rw [dropWhile_none _ _ hc, dropWhile_none _ _ (fun c hc' => hc c (List.mem_reverse.mp hc')), List.reverse_reverse]
  unfold pyInt
  simp only [hstrip]
  have hbody := intBody_digits (decDigits n) hlt 0 0 false (Or.inl (decDigits_ne_nil n))
  rw [decDigits_value, Nat.zero_add] at hbody
  have hk : ¬ (decDigits n).length > intMaxStrDigits := by
    have := decDigits_length n hn
    simp only [intMaxStrDigits]; omega
  -- the sign match falls through: the first character is a digit
  rw [hds] at hbody ⊢
  simp only [List.map_cons] at hbody ⊢
  have hm : signSplit (digitChar d0 :: rest.map digitChar) = (false, digitChar d0 :: rest.map digitChar) := by
    unfold signSplit
    split
    · next h => exact absurd (List.cons.inj h).1 hf0.2.2.2.2.2.2.2.1
    · next h => exact absurd (List.cons.inj h).1 hf0.2.2.2.2.2.2.2.2
    · rfl
  rw [hm]
  simp only [hbody]
  rw [hds] at hk
  simp only [List.length_cons] at hk ⊢
  simp [hk]

/-! ### `str.split` -/

theorem isPrefixOf_cons_ne (c x : Char) (sep' xs : Str) (h : x ≠ c) : (c :: sep').isPrefixOf (x :: xs) = false := by
  have : (c == x) = false := by simpa using fun e : c = x => h e.symm
  simp [List.isPrefixOf, this]

theorem isPrefixOf_self_append (a b : Str) : a.isPrefixOf (a ++ b) = true := by
  induction a with
  | nil => simp [List.isPrefixOf]
  | cons x xs ih => simp [List.isPrefixOf, ih]

theorem splitGo_no_sep (c : Char) (sep' : Str) (s cur : Str) (fuel : Nat) (hf : s.length + 1 ≤ fuel) (hc : c ∉ s) :
    splitGo (c :: sep') fuel s cur = [cur.reverse ++ s] := by
  induction s generalizing cur fuel with
  | nil =>
    cases fuel with
    | zero => omega
    | succ f => simp [splitGo]
  | cons x xs ih =>
    cases fuel with
    | zero => simp at hf
    | succ f =>
      have hx : x ≠ c := fun e => hc (by simp [e])
      have hxs : c ∉ xs := fun e => hc (by simp [e])
      rw [splitGo, isPrefixOf_cons_ne c x sep' xs hx]
      simp only [Bool.false_eq_true, if_false]
      rw [ih (x :: cur) f (by simp at hf; omega) hxs]
      simp

theorem splitGo_sep (c : Char) (sep' : Str) (a rest cur : Str) (fuel : Nat)
    (hf : (a ++ (c :: sep') ++ rest).length + 1 ≤ fuel) (ha : c ∉ a) :
    splitGo (c :: sep') fuel (a ++ (c :: sep') ++ rest) cur =
      (cur.reverse ++ a) :: splitGo (c :: sep') (fuel - a.length - 1) rest [] := by
  induction a generalizing cur fuel with
  | nil =>
    cases fuel with
    | zero => omega
    | succ f =>
      have hp : (c :: sep').isPrefixOf (c :: (sep' ++ rest)) = true := by
        simpa using isPrefixOf_self_append (c :: sep') rest
      simp [splitGo, hp]
  | cons x xs ih =>
    cases fuel with
    | zero => simp at hf
    | succ f =>
      have hx : x ≠ c := fun e => ha (by simp [e])
      have hxs : c ∉ xs := fun e => ha (by simp [e])
      simp only [List.cons_append]
      rw [splitGo, isPrefixOf_cons_ne c x sep' _ hx]
      simp only [Bool.false_eq_true, if_false]
      have := ih (x :: cur) f (by simp at hf ⊢; omega) hxs
      rw [this]
      simp only [List.reverse_cons, List.append_assoc, List.singleton_append, List.length_cons]
      congr 2
      omega

/-- `"a/b/c/d".split("/")` -/
theorem pySplit_slash4 (a b c d : Str) (ha : '/' ∉ a) (hb : '/' ∉ b) (hc : '/' ∉ c) (hd : '/' ∉ d) :
    pySplit ['/'] (a ++ ['/'] ++ (b ++ ['/'] ++ (c ++ ['/'] ++ d))) = [a, b, c, d] := by
  unfold pySplit
  rw [if_neg (by simp)]
  rw [splitGo_sep '/' [] a _ [] _ (Nat.le_refl _) ha,
    splitGo_sep '/' [] b _ [] _ (by simp; omega) hb,
    splitGo_sep '/' [] c _ [] _ (by simp; omega) hc,
    splitGo_no_sep '/' [] d [] _ (by simp; omega) hd]
  simp

theorem pySplit_slash3 (a b c : Str) (ha : '/' ∉ a) (hb : '/' ∉ b) (hc : '/' ∉ c) :
    pySplit ['/'] (a ++ ['/'] ++ (b ++ ['/'] ++ c)) = [a, b, c] := by
  unfold pySplit
  rw [if_neg (by simp)]
  rw [splitGo_sep '/' [] a _ [] _ (Nat.le_refl _) ha,
    splitGo_sep '/' [] b _ [] _ (by simp; omega) hb,
    splitGo_no_sep '/' [] c [] _ (by simp; omega) hc]
  simp

theorem pySplit_slash2 (a b : Str) (ha : '/' ∉ a) (hb : '/' ∉ b) :
    pySplit ['/'] (a ++ ['/'] ++ b) = [a, b] := by
  unfold pySplit
  rw [if_neg (by simp)]
  rw [splitGo_sep '/' [] a _ [] _ (Nat.le_refl _) ha,
    splitGo_no_sep '/' [] b [] _ (by simp; omega) hb]
  simp

theorem pySplit_of (a b : Str) (ha : 'o' ∉ a) (hb : 'o' ∉ b) :
    pySplit ['o', 'f'] (a ++ ['o', 'f'] ++ b) = [a, b] := by
  unfold pySplit
  rw [if_neg (by simp)]
  rw [splitGo_sep 'o' ['f'] a _ [] _ (Nat.le_refl _) ha,
    splitGo_no_sep 'o' ['f'] b [] _ (by simp; omega) hb]
  simp

/-! ### `_parse_bcur_helper` on the strings the encoders write -/

def urBytes : Str := ['u', 'r', ':', 'b', 'y', 't', 'e', 's']

theorem fmt_consts :
    Gen.bcurParsePrefix.toList = urBytes ++ ['/'] ∧ Gen.bcurParseSep.toList = ['/'] ∧ Gen.bcurParseOf.toList = ['o', 'f'] ∧
    Gen.bcurSingleFmtA.toList = urBytes ++ ['/'] ∧ Gen.bcurSingleFmtB.toList = ['/'] ∧
    Gen.bcurSingleFmtNoChk.toList = urBytes ++ ['/'] ∧ Gen.bcurMultiFmtA.toList = urBytes ++ ['/'] ∧
    Gen.bcurMultiFmtB.toList = ['o', 'f'] ∧ Gen.bcurMultiFmtC.toList = ['/'] ∧ Gen.bcurMultiFmtD.toList = ['/'] ∧
    Gen.bech32CharsReClass.toList = Bech32.alphabet := by decide

theorem urBytes_facts : Clean urBytes ∧ '/' ∉ urBytes ∧ Clean ['/'] ∧ Clean ['o', 'f'] := by
  refine ⟨?_, by decide, ?_, ?_⟩ <;> (intro c hc; revert c; decide)

theorem slash_not_mem_alphabet : '/' ∉ Bech32.alphabet := by decide

theorem usesOnly_of_alphabet (s : Str) (h : ∀ c ∈ s, c ∈ Bech32.alphabet) : usesOnlyBech32Chars s = true := by
  unfold usesOnlyBech32Chars
  rw [map_lower_clean (clean_of_alphabet h), fmt_consts.2.2.2.2.2.2.2.2.2.2]
  have : s.all (fun c => Bech32.alphabet.contains c) = true := by
    rw [List.all_eq_true]
    intro c hc
    simpa using h c hc
  simp only [this, Bool.true_or]

theorem not_slash_of_alphabet {s : Str} (h : ∀ c ∈ s, c ∈ Bech32.alphabet) : '/' ∉ s :=
  fun hm => slash_not_mem_alphabet (h _ hm)

/-- a part written by BCURMulti.encode -/
def partStr (x n : Nat) (chk payload : Str) : Str :=
  urBytes ++ ['/'] ++ ((natToDec x ++ ['o', 'f'] ++ natToDec n) ++ ['/'] ++ (chk ++ ['/'] ++ payload))

theorem parseBcurHelper_part (x n : Nat) (chk payload : Str) (hxn : x ≤ n) (hn : n < 10 ^ 16)
    (hchk : chk.length = 58) (hca : ∀ c ∈ chk, c ∈ Bech32.alphabet) (hpa : ∀ c ∈ payload, c ∈ Bech32.alphabet) :
    parseBcurHelper (partStr x n chk payload) = some ⟨payload, some chk, x, n⟩ := by
  have hclean : Clean (partStr x n chk payload) := by
    unfold partStr
    exact (urBytes_facts.1.append urBytes_facts.2.2.1).append
      ((((natToDec_clean x).append urBytes_facts.2.2.2).append (natToDec_clean n)).append urBytes_facts.2.2.1 |>.append
        (((clean_of_alphabet hca).append urBytes_facts.2.2.1).append (clean_of_alphabet hpa)))
  have hxofy : '/' ∉ natToDec x ++ ['o', 'f'] ++ natToDec n := by
    intro hm
    rcases List.mem_append.mp hm with h | h
    · rcases List.mem_append.mp h with h | h
      · exact (natToDec_not_mem x).2 h
      · revert h; decide
    · exact (natToDec_not_mem n).2 h
  have hsplit := pySplit_slash4 urBytes (natToDec x ++ ['o', 'f'] ++ natToDec n) chk payload urBytes_facts.2.1 hxofy
    (not_slash_of_alphabet hca) (not_slash_of_alphabet hpa)
  have hof := pySplit_of (natToDec x) (natToDec n) (natToDec_not_mem x).1 (natToDec_not_mem n).1
  have hpre : (urBytes ++ ['/']).isPrefixOf (partStr x n chk payload) = true := by
    unfold partStr; exact isPrefixOf_self_append _ _
  have hxlt : x < 10 ^ 16 := by omega
  unfold parseBcurHelper
  simp only [map_lower_clean hclean, pyStrip_clean hclean, fmt_consts.1, fmt_consts.2.1, fmt_consts.2.2.1, hpre,
    not_true_eq_false, if_false]
  unfold partStr
  rw [hsplit]
  simp only [List.length_cons, List.length_nil, Gen.bcurParts2, Gen.bcurParts3, Gen.bcurParts4, Gen.bcurXofyParts, hof,
    pyInt_natToDec x hxlt, pyInt_natToDec n hn]
  have hgt : ¬ ((x : Int) > (n : Int)) := by omega
  have hne : ¬ chk = [] := by intro e; rw [e] at hchk; simp at hchk
  simp [hgt, hchk, Gen.bcurChecksumLen, usesOnly_of_alphabet chk hca, usesOnly_of_alphabet payload hpa, hne]

/-- what BCURSingle.encode writes, with and without the checksum -/
def singleStr (chk : Option Str) (payload : Str) : Str :=
  match chk with
  | some c => urBytes ++ ['/'] ++ (c ++ ['/'] ++ payload)
  | none => urBytes ++ ['/'] ++ payload

theorem parseBcurHelper_single (chk : Option Str) (payload : Str)
    (hchk : ∀ c, chk = some c → c.length = 58 ∧ ∀ x ∈ c, x ∈ Bech32.alphabet) (hpa : ∀ c ∈ payload, c ∈ Bech32.alphabet) :
    parseBcurHelper (singleStr chk payload) = some ⟨payload, chk, 1, 1⟩ := by
  cases chk with
  | none =>
    have hclean : Clean (singleStr none payload) := by
      unfold singleStr
      exact (urBytes_facts.1.append urBytes_facts.2.2.1).append (clean_of_alphabet hpa)
    have hsplit := pySplit_slash2 urBytes payload urBytes_facts.2.1 (not_slash_of_alphabet hpa)
    have hpre : (urBytes ++ ['/']).isPrefixOf (singleStr none payload) = true := by
      unfold singleStr; exact isPrefixOf_self_append _ _
    unfold parseBcurHelper
    simp only [map_lower_clean hclean, pyStrip_clean hclean, fmt_consts.1, fmt_consts.2.1, hpre, not_true_eq_false, if_false]
    unfold singleStr
    rw [hsplit]
    simp [Gen.bcurParts2, Gen.bcurDefaultX2, Gen.bcurDefaultY2, usesOnly_of_alphabet payload hpa]
  | some c =>
    obtain ⟨hl, hca⟩ := hchk c rfl
    have hclean : Clean (singleStr (some c) payload) := by
      unfold singleStr
      exact (urBytes_facts.1.append urBytes_facts.2.2.1).append
        (((clean_of_alphabet hca).append urBytes_facts.2.2.1).append (clean_of_alphabet hpa))
    have hsplit := pySplit_slash3 urBytes c payload urBytes_facts.2.1 (not_slash_of_alphabet hca) (not_slash_of_alphabet hpa)
    have hpre : (urBytes ++ ['/']).isPrefixOf (singleStr (some c) payload) = true := by
      unfold singleStr; exact isPrefixOf_self_append _ _
    have hne : ¬ c = [] := by intro e; rw [e] at hl; simp at hl
    unfold parseBcurHelper
    simp only [map_lower_clean hclean, pyStrip_clean hclean, fmt_consts.1, fmt_consts.2.1, hpre, not_true_eq_false, if_false]
    unfold singleStr
    rw [hsplit]
    simp [Gen.bcurParts2, Gen.bcurParts3, Gen.bcurDefaultX3, Gen.bcurDefaultY3, Gen.bcurChecksumLen, hl, hne,
      usesOnly_of_alphabet c hca, usesOnly_of_alphabet payload hpa]

end Buidl.Bcur
