/-
  Buidl.Proofs.ComposeTapEC — BIP340 signatures made by the library pass the interpreter's tapscript
  signature check under `Compose.realEnv`; `AllSigned` (Buidl.Proofs.ComposeTap) from a list of signers.
  Helper lemmas for Buidl.Props.C13ComposeEC.
-/
import Buidl.Props.C13Compose

namespace Buidl.ComposeTapEC
open Buidl Buidl.EC Buidl.Script Buidl.Interp Buidl.Compose Buidl.ComposeTap

attribute [local irreducible] pmul

/-- `s` is a tapscript signature element made by the library for the x-only key `x`: `x = xonly(d·G)` for a
    secret `d ∈ [1, n−1]`, and `s` is the BIP340 signature of the 32-byte digest `m` by `d` (what
    `PrivateKey(d).sign_schnorr(m, aux)` serialises to, C02 `signSchnorr_eq_spec`), either as 64 bytes when `m`
    is the digest of the default hash type or with the hash-type byte of `m` appended; the BIP340 nonce is
    non-zero (explicit hypothesis for an event of probability ≈ 2⁻²⁵⁶) -/
def LibSchnorrSig (sha256 : Bytes → Bytes) (msgOf : Nat → Option Bytes) (x s : Bytes) : Prop :=
  ∃ (d : Nat) (m a sig : Bytes), 1 ≤ d ∧ d < N ∧ m.length = 32 ∧ a.length = 32 ∧
    Spec.BIP340.nonce sha256 d m a ≠ some 0 ∧ x = xonly (smul (d : Int) G) ∧
    Spec.BIP340.sign sha256 d m a = some sig ∧
    ((msgOf 0 = some m ∧ s = sig) ∨ ∃ htb : UInt8, msgOf htb.toNat = some m ∧ s = sig ++ [htb])

variable (base : Env) (zOf : Nat → Option Nat) (msgOf : Nat → Option Bytes) (c : Schnorr.Cache)

theorem schnorrCheck_of_libSig (hc : Schnorr.CacheOK base.sha256 c) {x s : Bytes}
    (h : LibSchnorrSig base.sha256 msgOf x s) :
    schnorrCheck (realEnv base zOf msgOf c) x s = .ok (some true) := by
  obtain ⟨d, m, a, sig, hd1, hd2, hm, ha, hk, rfl, hspec, hcase⟩ := h
  obtain ⟨sig', R, sv, c', _, _, _, hspec', h64, h65⟩ :=
    schnorrCheck_of_sign base zOf msgOf c hc d m a hd1 hd2 hm ha hk
  rw [hspec] at hspec'
  injection hspec' with e
  subst e
  rcases hcase with ⟨hmsg, rfl⟩ | ⟨htb, hmsg, rfl⟩
  · exact h64 hmsg
  · exact h65 htb hmsg

/-- what `sign_schnorr` returns (under any state of the tag cache satisfying the invariant) is a library
    signature -/
theorem libSig_of_signSchnorr (cs : Schnorr.Cache) (hcs : Schnorr.CacheOK base.sha256 cs) (d : Nat) (m a : Bytes)
    (hd1 : 1 ≤ d) (hd2 : d < N) (hm : m.length = 32) (ha : a.length = 32)
    (hk : Spec.BIP340.nonce base.sha256 d m a ≠ some 0) :
    ∃ sig R sv c', Schnorr.signSchnorr base.sha256 cs d m (some a) = some ((R, sv), c') ∧
      Schnorr.serialize R sv = some sig ∧
      (msgOf 0 = some m → LibSchnorrSig base.sha256 msgOf (xonly (smul (d : Int) G)) sig) ∧
      (∀ htb : UInt8, msgOf htb.toNat = some m →
        LibSchnorrSig base.sha256 msgOf (xonly (smul (d : Int) G)) (sig ++ [htb])) := by
  obtain ⟨sig, R, sv, c', hs, _, hser, _, hspec, _⟩ :=
    Props.C02.sign_verifies base.sha256 cs hcs d m a hd1 hd2 hm ha hk
  exact ⟨sig, R, sv, c', hs, hser,
    fun hmsg => ⟨d, m, a, sig, hd1, hd2, hm, ha, hk, rfl, hspec, Or.inl ⟨hmsg, rfl⟩⟩,
    fun htb hmsg => ⟨d, m, a, sig, hd1, hd2, hm, ha, hk, rfl, hspec, Or.inr ⟨htb, hmsg, rfl⟩⟩⟩

/-- one library signature per key, in script order: every key of the leaf signed -/
theorem allSigned_of_lib (hc : Schnorr.CacheOK base.sha256 c) {keys sigs : List Bytes}
    (h : List.Forall₂ (LibSchnorrSig base.sha256 msgOf) keys sigs) :
    AllSigned (realEnv base zOf msgOf c) keys sigs := by
  induction h with
  | nil => exact List.Forall₂.nil
  | cons h1 _ ih => exact List.Forall₂.cons (schnorrCheck_of_libSig base zOf msgOf c hc h1) ih

/-- a key of a k-of-n leaf either signed (library signature) or contributes the empty element (and is a
    well-formed x-only key, as every key the library puts into a script is) -/
def SignedOrEmpty (sha256 : Bytes → Bytes) (msgOf : Nat → Option Bytes) (x s : Bytes) : Prop :=
  LibSchnorrSig sha256 msgOf x s ∨ (s = [] ∧ ∃ Q, parseXonly x = some Q)

theorem schnorrCheck_empty {x : Bytes} {Q : Pt} (h : parseXonly x = some Q) :
    schnorrCheck (realEnv base zOf msgOf c) x [] = .ok none := by
  simp [schnorrCheck, realEnv, h, optErr]

/-- every element can be checked, and the valid ones are exactly the non-empty ones -/
theorem checks_of_signedOrEmpty (hc : Schnorr.CacheOK base.sha256 c) {keys sigs : List Bytes}
    (h : List.Forall₂ (SignedOrEmpty base.sha256 msgOf) keys sigs) :
    ChecksOK (realEnv base zOf msgOf c) keys sigs ∧
      countValid (realEnv base zOf msgOf c) keys sigs = (sigs.filter (fun s => !s.isEmpty)).length := by
  induction h with
  | nil => exact ⟨trivial, rfl⟩
  | @cons x s xs ss h1 _ ih =>
    obtain ⟨ih1, ih2⟩ := ih
    rcases h1 with hl | ⟨rfl, Q, hQ⟩
    · have hv := schnorrCheck_of_libSig base zOf msgOf c hc hl
      have hne : s ≠ [] := by
        rintro rfl
        obtain ⟨d, m, a, sig, _, _, _, _, _, rfl, _, _⟩ := hl
        have hx : ∃ Q, parseXonly (xonly (smul (d : Int) G)) = some Q := by
          cases hp : parseXonly (xonly (smul (d : Int) G)) with
          | none => simp [schnorrCheck, realEnv, hp, optErr] at hv
          | some Q => exact ⟨Q, rfl⟩
        obtain ⟨Q, hQ⟩ := hx
        rw [schnorrCheck_empty base zOf msgOf c hQ] at hv
        cases hv
      refine ⟨⟨⟨_, hv⟩, ih1⟩, ?_⟩
      have : (!s.isEmpty) = true := by cases s with | nil => exact absurd rfl hne | cons _ _ => rfl
      simp only [countValid, sigCount, hv, if_true, ih2, List.filter_cons, this]
      simp; omega
    · have hv := schnorrCheck_empty base zOf msgOf c hQ
      refine ⟨⟨⟨_, hv⟩, ih1⟩, ?_⟩
      simp [countValid, sigCount, hv, ih2]

end Buidl.ComposeTapEC
