/-
  Buidl.Proofs.ShamirSplit — `split_secret` / `recover_secret`: the shares produced by the code all lie on
  the polynomials of degree < k through the k base points (k−2 random shares, the digest share at 254, the
  secret at 255); hence any ≥ k of them recover the secret and pass the digest check.
-/
import Buidl.Proofs.ShamirLagrange
namespace Buidl.Shamir
open Buidl Polynomial

theorem takeRandom_length {n : Nat} {ρ ρ' : List Nat} {b : Bytes} (h : takeRandom n ρ = some (b, ρ')) :
    b.length = n := by
  unfold takeRandom at h
  split at h
  · cases h
  · rename_i hlen
    split at h
    · cases h
    · simp only [Option.some.injEq, Prod.mk.injEq] at h
      rw [← h.1]; simp; omega

theorem randomShares_spec (nb : Nat) : ∀ (c i : Nat) (ρ ρ' : List Nat) (l : ShareData),
    randomShares nb c i ρ = some (l, ρ') →
      nodes l = List.range' i c ∧ ∀ o ∈ l, o.2.length = nb := by
  intro c
  induction c with
  | zero =>
    intro i ρ ρ' l h
    simp only [randomShares, Option.some.injEq, Prod.mk.injEq] at h
    rw [← h.1]; simp [nodes]
  | succ c ih =>
    intro i ρ ρ' l h
    rw [randomShares] at h
    cases ht : takeRandom nb ρ with
    | none => rw [ht] at h; cases h
    | some p =>
      obtain ⟨b, ρ1⟩ := p
      rw [ht] at h
      simp only at h
      cases hr : randomShares nb c (i + 1) ρ1 with
      | none => rw [hr] at h; cases h
      | some q =>
        obtain ⟨l', ρ2⟩ := q
        rw [hr] at h
        simp only [Option.some.injEq, Prod.mk.injEq] at h
        obtain ⟨h1, h2⟩ := ih (i + 1) ρ1 ρ2 l' hr
        rw [← h.1]
        refine ⟨?_, ?_⟩
        · simp only [nodes, List.map_cons, List.range'_succ] at h1 ⊢
          rw [h1]
        · intro o ho
          simp only [List.mem_cons] at ho
          rcases ho with rfl | ho
          · exact takeRandom_length ht
          · exact h2 o ho

theorem derivedShares_spec (base : ShareData) : ∀ (is : List Nat) (l : ShareData),
    derivedShares base is = some l →
      nodes l = is ∧ ∀ o ∈ l, interpolate o.1 base = some o.2 := by
  intro is
  induction is with
  | nil =>
    intro l h
    simp only [derivedShares, Option.some.injEq] at h
    rw [← h]; simp [nodes]
  | cons i is ih =>
    intro l h
    rw [derivedShares] at h
    cases hi : interpolate i base with
    | none => rw [hi] at h; cases h
    | some y =>
      cases hr : derivedShares base is with
      | none => rw [hi, hr] at h; cases h
      | some l' =>
        rw [hi, hr] at h
        simp only [Option.some.injEq] at h
        obtain ⟨h1, h2⟩ := ih l' hr
        rw [← h]
        refine ⟨by simp only [nodes, List.map_cons] at h1 ⊢; rw [h1], ?_⟩
        intro o ho
        simp only [List.mem_cons] at ho
        rcases ho with rfl | ho
        · exact hi
        · exact h2 o ho

/-- what `split_secret` returns for `k ≥ 2`, unpacked -/
theorem splitSecret_unpack (hmac256 : Bytes → Bytes → Bytes) (secret : Bytes) (k n : Nat) (ρ : List Nat)
    (shares : ShareData) (rest : List Nat) (hk : 2 ≤ k)
    (h : splitSecret hmac256 secret k n ρ = .ok shares rest) :
    k ≤ n ∧ n ≤ 16 ∧ (secret.length = 16 ∨ secret.length = 32) ∧
    ∃ (random : Bytes) (shareData more : ShareData),
      random.length = secret.length - 4 ∧
      nodes shareData = List.range' 0 (k - 2) ∧ (∀ o ∈ shareData, o.2.length = secret.length) ∧
      nodes more = (List.range n).drop (k - 2) ∧
      (∀ o ∈ more, interpolate o.1
        (shareData ++ [(254, digest hmac256 random secret ++ random), (255, secret)]) = some o.2) ∧
      shares = shareData ++ more := by
  unfold splitSecret at h
  by_cases h1 : n < 1
  · simp [h1] at h
  by_cases h2 : n > Gen.splitMaxN
  · simp [h1, h2] at h
  by_cases h3 : k < 1
  · simp [h1, h2, h3] at h
  by_cases h4 : k > n
  · simp [h1, h2, h3, h4] at h
  simp only [h1, h2, h3, h4, if_false] at h
  by_cases h5 : Gen.splitLens.contains secret.length = true
  · have hk1 : (k == 1) = false := by simp; omega
    simp only [h5, Bool.not_true, Bool.false_eq_true, if_false, hk1] at h
    cases ht : takeRandom (secret.length - Gen.splitRandShort) ρ with
    | none => rw [ht] at h; cases h
    | some p =>
      obtain ⟨random, ρ1⟩ := p
      rw [ht] at h
      simp only at h
      cases hr : randomShares secret.length (k - 2) 0 ρ1 with
      | none => rw [hr] at h; cases h
      | some q =>
        obtain ⟨shareData, ρ2⟩ := q
        rw [hr] at h
        simp only at h
        cases hd : derivedShares (shareData ++ [(Gen.splitDigestX, digest hmac256 random secret ++ random),
            (Gen.splitSecretX, secret)]) ((List.range n).drop (k - 2)) with
        | none => rw [hd] at h; cases h
        | some more =>
          rw [hd] at h
          simp only [SplitResult.ok.injEq] at h
          obtain ⟨r1, r2⟩ := randomShares_spec _ _ _ _ _ _ hr
          obtain ⟨d1, d2⟩ := derivedShares_spec _ _ _ hd
          have hlen : secret.length = 16 ∨ secret.length = 32 := by
            simp only [Gen.splitLens, List.contains_eq_mem, List.mem_cons, List.not_mem_nil, or_false,
              decide_eq_true_eq] at h5
            exact h5
          refine ⟨by omega, by simpa [Gen.splitMaxN] using h2, hlen, random, shareData, more,
            takeRandom_length ht, r1, r2, d1, d2, h.1.symm⟩
  · have h5' : Gen.splitLens.contains secret.length = false := by simpa using h5
    rw [h5'] at h
    simp at h

/-- **any `m ≥ k` distinct shares of `split_secret s k n ρ` recover `s`** (k ≥ 2), for every randomness `ρ`,
    both secret lengths, every HMAC returning at least 4 bytes -/
theorem recoverSecret_of_split (hmac256 : Bytes → Bytes → Bytes) (hh : ∀ k m, 4 ≤ (hmac256 k m).length)
    (secret : Bytes) (k n : Nat) (ρ : List Nat) (shares : ShareData) (rest : List Nat) (hk : 2 ≤ k)
    (h : splitSecret hmac256 secret k n ρ = .ok shares rest)
    (sub : ShareData) (hsub : ∀ p ∈ sub, p ∈ shares) (hnd : (sub.map (·.1)).Nodup) (hlen : k ≤ sub.length) :
    recoverSecret hmac256 sub = some secret := by
  obtain ⟨hkn, hn16, hL, random, shareData, more, hrl, hsd1, hsd2, hm1, hm2, hshares⟩ :=
    splitSecret_unpack hmac256 secret k n ρ shares rest hk h
  set L := secret.length with hLdef
  set ds := digest hmac256 random secret ++ random with hds
  set base := shareData ++ [(254, ds), (255, secret)] with hbase
  have hdg : (digest hmac256 random secret).length = 4 := by
    simp only [digest, Gen.digestLen, List.length_take]
    have := hh random secret; omega
  have hdsl : ds.length = L := by
    rw [hds, List.length_append, hdg, hrl]; rcases hL with h | h <;> omega
  -- node bookkeeping
  have hsdn : ∀ o ∈ shareData, o.1 < k - 2 := by
    intro o ho
    have : o.1 ∈ nodes shareData := List.mem_map_of_mem ho
    rw [hsd1] at this
    simp [List.mem_range'] at this; omega
  have hmn : ∀ o ∈ more, k - 2 ≤ o.1 ∧ o.1 < n := by
    intro o ho
    have : o.1 ∈ nodes more := List.mem_map_of_mem ho
    rw [hm1] at this
    have h1 := List.mem_of_mem_drop this
    simp only [List.mem_range] at h1
    refine ⟨?_, h1⟩
    -- an element of `drop d (range n)` is ≥ d
    have hidx := List.getElem_of_mem this
    obtain ⟨i, hi, he⟩ := hidx
    rw [List.getElem_drop, List.getElem_range] at he
    omega
  have hbnodes : nodes base = List.range' 0 (k - 2) ++ [254, 255] := by
    simp only [hbase, nodes, List.map_append, List.map_cons, List.map_nil]
    rw [← hsd1]; rfl
  have hbwf : WFset base L := by
    refine ⟨?_, ?_, ?_⟩
    · intro o ho
      simp only [hbase, List.mem_append, List.mem_cons, List.not_mem_nil, or_false] at ho
      rcases ho with ho | rfl | rfl
      · have := hsdn o ho; omega
      · show 254 < 256; decide
      · show 255 < 256; decide
    · rw [hbnodes]
      rw [List.nodup_append]
      refine ⟨List.nodup_range', by decide, ?_⟩
      intro a ha b hb
      simp only [List.mem_range'] at ha
      simp only [List.mem_cons, List.not_mem_nil, or_false] at hb
      obtain ⟨i, hi, rfl⟩ := ha
      rcases hb with rfl | rfl <;> omega
    · intro o ho
      simp only [hbase, List.mem_append, List.mem_cons, List.not_mem_nil, or_false] at ho
      rcases ho with ho | rfl | rfl
      · exact hsd2 o ho
      · exact hdsl
      · rfl
  have hblen : base.length = k := by
    have : shareData.length = k - 2 := by
      have := congrArg List.length hsd1
      simpa [nodes] using this
    simp [hbase, this]; omega
  -- every share lies on the base polynomials
  have hon : ∀ sh ∈ shares, sh.1 < 16 ∧ sh.2.length = L ∧
      ∀ j, j < L → toF (col j sh.2) = eval (natF sh.1) (polyOf base j) := by
    intro sh hsh
    rw [hshares, List.mem_append] at hsh
    rcases hsh with hsh | hsh
    · have hb : sh ∈ base := by rw [hbase]; exact List.mem_append_left _ hsh
      refine ⟨by have := hsdn sh hsh; omega, hsd2 sh hsh, ?_⟩
      intro j _
      exact (eval_polyOf_node hbwf j sh hb).symm
    · obtain ⟨hlo, hhi⟩ := hmn sh hsh
      have hxn : sh.1 ∉ nodes base := by
        rw [hbnodes]
        simp only [List.mem_append, List.mem_range', List.mem_cons, List.not_mem_nil, or_false, not_or]
        refine ⟨?_, by omega, by omega⟩
        rintro ⟨i, hi, he⟩; omega
      have hbne : base ≠ [] := by rw [hbase]; simp
      obtain ⟨out, ho, hol, hoc⟩ := interpolate_eq_lagrange (hbwf.wf sh.1 (by omega) hxn) hbne L hbwf.hL
      have := hm2 sh hsh
      rw [this] at ho
      simp only [Option.some.injEq] at ho
      rw [ho]
      exact ⟨by omega, hol, hoc⟩
  have hswf : WFset sub L := by
    refine ⟨?_, hnd, ?_⟩
    · intro o ho; have := (hon o (hsub o ho)).1; omega
    · intro o ho; exact (hon o (hsub o ho)).2.1
  have hsubn : ∀ x, 16 ≤ x → x ∉ nodes sub := by
    intro x hx hm
    simp only [nodes, List.mem_map] at hm
    obtain ⟨o, ho, rfl⟩ := hm
    have := (hon o (hsub o ho)).1; omega
  have hon' : ∀ sh ∈ sub, ∀ j, j < L → toF (col j sh.2) = eval (natF sh.1) (polyOf base j) :=
    fun sh hsh => (hon sh (hsub sh hsh)).2.2
  have hsec := interpolate_recovers hbwf hswf (by omega) hon' (255, secret)
    (by rw [hbase]; simp) (hsubn 255 (by decide))
  have hdig := interpolate_recovers hbwf hswf (by omega) hon' (254, ds)
    (by rw [hbase]; simp) (hsubn 254 (by decide))
  simp only at hsec hdig
  unfold recoverSecret
  rw [show Gen.recSecretX = 255 from rfl, show Gen.recDigestX = 254 from rfl, hsec, hdig]
  simp only [Gen.recDigestTake, Gen.recDigestDrop]
  rw [hds, List.take_left' hdg, List.drop_left' hdg]
  simp

/-- the data returned by `split_secret` (any k ≥ 1): indices below n, pairwise distinct, values as long as
    the secret -/
theorem split_data_facts (hmac256 : Bytes → Bytes → Bytes) (hh : ∀ k m, 4 ≤ (hmac256 k m).length)
    (secret : Bytes) (k n : Nat) (ρ : List Nat) (shares : ShareData) (rest : List Nat)
    (h : splitSecret hmac256 secret k n ρ = .ok shares rest) :
    1 ≤ k ∧ k ≤ n ∧ n ≤ 16 ∧ (secret.length = 16 ∨ secret.length = 32) ∧
      (∀ p ∈ shares, p.1 < n ∧ p.2.length = secret.length) ∧ (shares.map (·.1)).Nodup ∧
      (k = 1 → shares = [(0, secret)]) := by
  by_cases hk : 2 ≤ k
  · obtain ⟨hkn, hn16, hL, random, shareData, more, hrl, hsd1, hsd2, hm1, hm2, hshares⟩ :=
      splitSecret_unpack hmac256 secret k n ρ shares rest hk h
    have hdg : (digest hmac256 random secret).length = 4 := by
      simp only [digest, Gen.digestLen, List.length_take]
      have := hh random secret; omega
    have hsdn : ∀ o ∈ shareData, o.1 < k - 2 := by
      intro o ho
      have : o.1 ∈ nodes shareData := List.mem_map_of_mem ho
      rw [hsd1] at this
      simp [List.mem_range'] at this; omega
    have hmn : ∀ o ∈ more, k - 2 ≤ o.1 ∧ o.1 < n := by
      intro o ho
      have : o.1 ∈ nodes more := List.mem_map_of_mem ho
      rw [hm1] at this
      have h1 := List.mem_of_mem_drop this
      simp only [List.mem_range] at h1
      refine ⟨?_, h1⟩
      obtain ⟨i, hi, he⟩ := List.getElem_of_mem this
      rw [List.getElem_drop, List.getElem_range] at he
      omega
    have hbwf : WFset (shareData ++ [(254, digest hmac256 random secret ++ random), (255, secret)])
        secret.length := by
      refine ⟨?_, ?_, ?_⟩
      · intro o ho
        simp only [List.mem_append, List.mem_cons, List.not_mem_nil, or_false] at ho
        rcases ho with ho | rfl | rfl
        · have := hsdn o ho; omega
        · show 254 < 256; decide
        · show 255 < 256; decide
      · have : nodes (shareData ++ [(254, digest hmac256 random secret ++ random), (255, secret)])
            = List.range' 0 (k - 2) ++ [254, 255] := by
          simp only [nodes, List.map_append, List.map_cons, List.map_nil]
          rw [← hsd1]; rfl
        rw [this, List.nodup_append]
        refine ⟨List.nodup_range', by decide, ?_⟩
        intro a ha b hb
        simp only [List.mem_range'] at ha
        simp only [List.mem_cons, List.not_mem_nil, or_false] at hb
        obtain ⟨i, hi, rfl⟩ := ha
        rcases hb with rfl | rfl <;> omega
      · intro o ho
        simp only [List.mem_append, List.mem_cons, List.not_mem_nil, or_false] at ho
        rcases ho with ho | rfl | rfl
        · exact hsd2 o ho
        · show (digest hmac256 random secret ++ random).length = secret.length
          rw [List.length_append, hdg, hrl]; rcases hL with h | h <;> omega
        · rfl
    refine ⟨by omega, hkn, hn16, hL, ?_, ?_, fun h1 => by omega⟩
    · intro p hp
      rw [hshares, List.mem_append] at hp
      rcases hp with hp | hp
      · exact ⟨by have := hsdn p hp; omega, hsd2 p hp⟩
      · obtain ⟨hlo, hhi⟩ := hmn p hp
        refine ⟨hhi, ?_⟩
        have hxn : p.1 ∉ nodes (shareData ++ [(254, digest hmac256 random secret ++ random), (255, secret)]) := by
          simp only [nodes, List.map_append, List.map_cons, List.map_nil, List.mem_append, List.mem_cons,
            List.not_mem_nil, or_false, not_or]
          refine ⟨?_, by omega, by omega⟩
          intro hm
          have : p.1 ∈ nodes shareData := hm
          rw [hsd1] at this
          simp [List.mem_range'] at this; omega
        obtain ⟨out, ho, hol, _⟩ := interpolate_eq_lagrange (hbwf.wf p.1 (by omega) hxn) (by simp)
          secret.length hbwf.hL
        rw [hm2 p hp] at ho
        simp only [Option.some.injEq] at ho
        rw [ho]; exact hol
    · rw [hshares, List.map_append]
      have e1 : shareData.map (·.1) = List.range' 0 (k - 2) := hsd1
      have e2 : more.map (·.1) = (List.range n).drop (k - 2) := hm1
      rw [e1, e2, List.range_eq_range', List.drop_range']
      simp only [Nat.mul_one]
      rw [List.range'_append_1]
      exact List.nodup_range'
  · -- k ≤ 1
    unfold splitSecret at h
    by_cases h1 : n < 1
    · simp [h1] at h
    by_cases h2 : n > Gen.splitMaxN
    · simp [h1, h2] at h
    by_cases h3 : k < 1
    · simp [h1, h2, h3] at h
    by_cases h4 : k > n
    · simp [h1, h2, h3, h4] at h
    have hk1 : k = 1 := by omega
    subst hk1
    simp only [h1, h2, h3, if_false] at h
    by_cases h5 : Gen.splitLens.contains secret.length = true
    · simp only [h5, Bool.not_true, Bool.false_eq_true, if_false, beq_self_eq_true, if_true,
        SplitResult.ok.injEq] at h
      have hlen : secret.length = 16 ∨ secret.length = 32 := by
        simp only [Gen.splitLens, List.contains_eq_mem, List.mem_cons, List.not_mem_nil, or_false,
          decide_eq_true_eq] at h5
        exact h5
      rw [← h.1]
      refine ⟨by omega, by omega, by simpa [Gen.splitMaxN] using h2, hlen, ?_, by simp, fun _ => rfl⟩
      intro p hp
      simp only [List.mem_singleton] at hp
      rw [hp]; exact ⟨by show 0 < n; omega, rfl⟩
    · have h5' : Gen.splitLens.contains secret.length = false := by simpa using h5
      rw [h5'] at h
      simp at h

end Buidl.Shamir
