/-
  Helper lemmas about Buidl.Model.Tx, part 1: the wire codec (Script stream layer, Witness, TxIn,
  TxOut, Tx round trips, injectivity of the legacy serialisation).
-/
import Buidl.Proofs.Script
import Buidl.Model.Tx
namespace Buidl.Tx
open Buidl Buidl.Script

/-! ### small tools -/

theorem sread_append (n : Nat) (a b : Bytes) (h : a.length = n) : sread n (a ++ b) = (a, b) := by
  simp [sread, take_append_len _ _ _ h, drop_append_len _ _ _ h]

theorem bind_some_iff {α β} {o : Option α} {f : α → Option β} {b : β} :
    o.bind f = some b ↔ ∃ a, o = some a ∧ f a = some b := Option.bind_eq_some_iff

theorem natToLE_inv {n w : Nat} {b : Bytes} (h : natToLE n w = some b) : n < 256 ^ w ∧ b = natToLE' w n := by
  unfold natToLE at h
  split at h
  · next hlt => cases h; exact ⟨hlt, rfl⟩
  · cases h

/-! ### scripts on a stream -/

/-- a script the codec theorems cover: no `raw` attribute, well-formed commands, and a size that
    `BytesIO.read` accepts -/
def ScriptWF (s : Script) : Prop :=
  s.raw = none ∧ (∀ c ∈ s.cmds, CmdWF c) ∧ cmdsSize s.cmds < 2 ^ 63

instance (s : Script) : Decidable (ScriptWF s) := by unfold ScriptWF; infer_instance

/-- the script read back: canonical commands (N04c), `raw` unset -/
def canonScript (s : Script) : Script := { cmds := canon s.cmds, raw := none }

theorem rawSerialize_wf {s : Script} (wf : ScriptWF s) :
    ∃ r, rawSerialize s = some r ∧ serCmds s.cmds = some r ∧ r.length = cmdsSize s.cmds := by
  obtain ⟨hraw, hc, _⟩ := wf
  obtain ⟨r, hr⟩ := serCmds_isSome hc
  exact ⟨r, by simp [rawSerialize, hraw, hr], hr, serCmds_length hc hr⟩

theorem serialize_wf {s : Script} (wf : ScriptWF s) :
    ∃ r e, serCmds s.cmds = some r ∧ encodeVarstr r = some e ∧ Script.serialize s = some e ∧ r.length < 2 ^ 63 := by
  obtain ⟨r, h1, h2, h3⟩ := rawSerialize_wf wf
  have hl : r.length < 2 ^ 63 := by rw [h3]; exact wf.2.2
  have : (encodeVarint r.length).isSome := (encodeVarint_isSome_iff _).mpr (by omega)
  obtain ⟨v, hv⟩ := Option.isSome_iff_exists.mp this
  refine ⟨r, v ++ r, h2, by simp [encodeVarstr, hv], ?_, hl⟩
  simp [Script.serialize, h1, encodeVarstr, hv]

theorem script_parse_serialize {s : Script} {e : Bytes} (rest : Bytes) (wf : ScriptWF s)
    (h : Script.serialize s = some e) : Script.parse (e ++ rest) = some (canonScript s, rest) := by
  obtain ⟨r, e', h1, h2, h3, hl⟩ := serialize_wf wf
  rw [h3] at h; cases h
  simp only [Script.parse, readVarstr_encodeVarstr r rest e hl h2, Option.pure_def, Option.bind_eq_bind,
    Option.bind_some, parseRaw_serCmds s.cmds r wf.2.1 h1]
  rfl

theorem canonScript_wf {s : Script} (wf : ScriptWF s) : ScriptWF (canonScript s) := by
  obtain ⟨r, h1, h2, h3⟩ := rawSerialize_wf wf
  refine ⟨rfl, canon_wf wf.2.1, ?_⟩
  have h4 : serCmds (canon s.cmds) = some r := by rw [serCmds_canon]; exact h2
  have := serCmds_length (canon_wf wf.2.1) h4
  show cmdsSize (canon s.cmds) < 2 ^ 63
  rw [← this, h3]; exact wf.2.2

theorem serialize_canonScript (s : Script) (hraw : s.raw = none) :
    Script.serialize (canonScript s) = Script.serialize s := by
  simp [Script.serialize, rawSerialize, canonScript, hraw, serCmds_canon]

theorem canonScript_idem (s : Script) : canonScript (canonScript s) = canonScript s := by
  simp [canonScript, canon_idem]

/-- ScriptPubKey.parse rebuilds template scripts; on a script whose `raw` is unset that changes nothing -/
theorem parseScriptPubKey_serialize {s : Script} {e : Bytes} (rest : Bytes) (wf : ScriptWF s)
    (h : Script.serialize s = some e) : parseScriptPubKey (e ++ rest) = some (canonScript s, rest) := by
  simp only [parseScriptPubKey, script_parse_serialize rest wf h, Option.pure_def, Option.bind_eq_bind, Option.bind_some]
  split <;> rfl

/-! ### witness -/

def WitnessWF (w : Witness) : Prop := w.items.length < 2 ^ 64 ∧ ∀ i ∈ w.items, i.length < 2 ^ 63

instance (w : Witness) : Decidable (WitnessWF w) := by unfold WitnessWF; infer_instance

theorem serItems_cons {i : Bytes} {r : List Bytes} {b : Bytes} (h : serItems (i :: r) = some b) :
    ∃ b1 b2, encodeVarstr i = some b1 ∧ serItems r = some b2 ∧ b = b1 ++ b2 := by
  simp only [serItems, Option.pure_def, Option.bind_eq_bind, bind_some_iff] at h
  obtain ⟨b1, h1, b2, h2, h3⟩ := h
  cases h3; exact ⟨b1, b2, h1, h2, rfl⟩

theorem parseItems_serItems (items : List Bytes) (b rest : Bytes) (wf : ∀ i ∈ items, i.length < 2 ^ 63)
    (h : serItems items = some b) : parseItems items.length (b ++ rest) = some (items, rest) := by
  induction items generalizing b with
  | nil => cases h; rfl
  | cons i r ih =>
    obtain ⟨b1, b2, h1, h2, rfl⟩ := serItems_cons h
    simp only [List.length_cons, parseItems, List.append_assoc,
      readVarstr_encodeVarstr i (b2 ++ rest) b1 (wf i (by simp)) h1, Option.pure_def, Option.bind_eq_bind,
      Option.bind_some, ih b2 (fun i hi => wf i (by simp [hi])) h2]

theorem serItems_isSome {items : List Bytes} (wf : ∀ i ∈ items, i.length < 2 ^ 63) : ∃ b, serItems items = some b := by
  induction items with
  | nil => exact ⟨[], rfl⟩
  | cons i r ih =>
    obtain ⟨b2, h2⟩ := ih (fun i hi => wf i (by simp [hi]))
    have : (encodeVarint i.length).isSome := (encodeVarint_isSome_iff _).mpr (by have := wf i (by simp); omega)
    obtain ⟨v, hv⟩ := Option.isSome_iff_exists.mp this
    exact ⟨v ++ i ++ b2, by simp [serItems, encodeVarstr, hv, h2]⟩

theorem witness_serialize_isSome {w : Witness} (wf : WitnessWF w) : ∃ e, w.serialize = some e := by
  obtain ⟨b, hb⟩ := serItems_isSome wf.2
  have : (encodeVarint w.items.length).isSome := (encodeVarint_isSome_iff _).mpr wf.1
  obtain ⟨v, hv⟩ := Option.isSome_iff_exists.mp this
  exact ⟨v ++ b, by simp [Witness.serialize, hv, hb]⟩

theorem witness_parse_serialize {w : Witness} {e : Bytes} (rest : Bytes) (wf : WitnessWF w)
    (h : w.serialize = some e) : Witness.parse (e ++ rest) = some (w, rest) := by
  simp only [Witness.serialize, Option.pure_def, Option.bind_eq_bind, bind_some_iff] at h
  obtain ⟨n, hn, b, hb, h3⟩ := h
  cases h3
  simp only [Witness.parse, List.append_assoc, readVarint_encodeVarint _ _ _ hn, Option.pure_def,
    Option.bind_eq_bind, Option.bind_some, parseItems_serItems w.items b rest wf.2 hb]

/-! ### inputs and outputs -/

def TxInWF (i : TxIn) : Prop :=
  i.prevTx.length = 32 ∧ i.prevIndex < 2 ^ 32 ∧ ScriptWF i.scriptSig ∧ i.sequence < 2 ^ 32 ∧ WitnessWF i.witness

instance (i : TxIn) : Decidable (TxInWF i) := by unfold TxInWF; infer_instance

def TxOutWF (o : TxOut) : Prop := o.amount < 2 ^ 64 ∧ ScriptWF o.scriptPubkey

instance (o : TxOut) : Decidable (TxOutWF o) := by unfold TxOutWF; infer_instance

/-- an input as the wire carries it in the segwit form: canonical scriptSig, no `_value` /
    `_script_pubkey` annotations -/
def canonIn (i : TxIn) : TxIn :=
  { i with scriptSig := canonScript i.scriptSig, value := none, scriptPubkey := none }

/-- an input as the legacy form carries it: additionally no witness -/
def stripIn (i : TxIn) : TxIn := { canonIn i with witness := {} }

def canonOut (o : TxOut) : TxOut := { o with scriptPubkey := canonScript o.scriptPubkey }

theorem txin_serialize_wf {i : TxIn} (wf : TxInWF i) :
    ∃ sc, Script.serialize i.scriptSig = some sc ∧
      i.serialize = some (i.prevTx.reverse ++ natToLE' 4 i.prevIndex ++ sc ++ natToLE' 4 i.sequence) := by
  obtain ⟨_, hi, hs, hq, _⟩ := wf
  obtain ⟨r, e, _, _, h3, _⟩ := serialize_wf hs
  refine ⟨e, h3, ?_⟩
  have a : i.prevIndex < 256 ^ 4 := by omega
  have b : i.sequence < 256 ^ 4 := by omega
  simp [TxIn.serialize, Gen.txinSerIndexW, Gen.sequenceSerW, natToLE_some a, natToLE_some b, h3]

theorem txin_parse_serialize {i : TxIn} {e : Bytes} (rest : Bytes) (wf : TxInWF i) (h : i.serialize = some e) :
    TxIn.parse (e ++ rest) = some (stripIn i, rest) := by
  obtain ⟨sc, hsc, hser⟩ := txin_serialize_wf wf
  obtain ⟨hp, hi, hs, hq, _⟩ := wf
  rw [hser] at h; cases h
  have a : i.prevIndex < 256 ^ 4 := by omega
  have b : i.sequence < 256 ^ 4 := by omega
  have l1 : i.prevTx.reverse.length = 32 := by simp [hp]
  simp only [TxIn.parse, List.append_assoc, Gen.txinParPrevW, Gen.txinParIndexW, Gen.sequenceParW,
    sread_append 32 _ _ l1, sread_append 4 _ _ (natToLE'_length 4 _)]
  rw [script_parse_serialize _ hs hsc]
  simp only [Option.pure_def, Option.bind_eq_bind, Option.bind_some, sread_append 4 _ _ (natToLE'_length 4 _),
    leToNat_natToLE'_of_lt a, leToNat_natToLE'_of_lt b, List.reverse_reverse]
  have hr : inRange i.sequence Gen.maxSequence = true := by simp [inRange, Gen.maxSequence]; omega
  simp [hr, stripIn, canonIn]

def txoutBytes (o : TxOut) (sc : Bytes) : Bytes := natToLE' 8 o.amount ++ sc

theorem txout_serialize_wf {o : TxOut} (wf : TxOutWF o) :
    ∃ sc, Script.serialize o.scriptPubkey = some sc ∧ o.serialize = some (natToLE' 8 o.amount ++ sc) := by
  obtain ⟨ha, hs⟩ := wf
  obtain ⟨r, e, _, _, h3, _⟩ := serialize_wf hs
  refine ⟨e, h3, ?_⟩
  have a : o.amount < 256 ^ 8 := by omega
  simp [TxOut.serialize, Gen.txoutSerAmountW, natToLE_some a, h3]

theorem txout_parse_serialize {o : TxOut} {e : Bytes} (rest : Bytes) (wf : TxOutWF o) (h : o.serialize = some e) :
    TxOut.parse (e ++ rest) = some (canonOut o, rest) := by
  obtain ⟨sc, hsc, hser⟩ := txout_serialize_wf wf
  obtain ⟨ha, hs⟩ := wf
  rw [hser] at h; cases h
  have a : o.amount < 256 ^ 8 := by omega
  simp only [TxOut.parse, List.append_assoc, Gen.txoutParAmountW, sread_append 8 _ _ (natToLE'_length 8 _),
    parseScriptPubKey_serialize _ hs hsc, Option.pure_def, Option.bind_eq_bind, Option.bind_some,
    leToNat_natToLE'_of_lt a]
  rfl

/-! ### lists of inputs / outputs / witnesses -/

theorem serIns_cons {i : TxIn} {r : List TxIn} {b : Bytes} (h : serIns (i :: r) = some b) :
    ∃ b1 b2, i.serialize = some b1 ∧ serIns r = some b2 ∧ b = b1 ++ b2 := by
  simp only [serIns, Option.pure_def, Option.bind_eq_bind, bind_some_iff] at h
  obtain ⟨b1, h1, b2, h2, h3⟩ := h
  cases h3; exact ⟨b1, b2, h1, h2, rfl⟩

theorem serOuts_cons {o : TxOut} {r : List TxOut} {b : Bytes} (h : serOuts (o :: r) = some b) :
    ∃ b1 b2, o.serialize = some b1 ∧ serOuts r = some b2 ∧ b = b1 ++ b2 := by
  simp only [serOuts, Option.pure_def, Option.bind_eq_bind, bind_some_iff] at h
  obtain ⟨b1, h1, b2, h2, h3⟩ := h
  cases h3; exact ⟨b1, b2, h1, h2, rfl⟩

theorem serWitnesses_cons {i : TxIn} {r : List TxIn} {b : Bytes} (h : serWitnesses (i :: r) = some b) :
    ∃ b1 b2, i.witness.serialize = some b1 ∧ serWitnesses r = some b2 ∧ b = b1 ++ b2 := by
  simp only [serWitnesses, Option.pure_def, Option.bind_eq_bind, bind_some_iff] at h
  obtain ⟨b1, h1, b2, h2, h3⟩ := h
  cases h3; exact ⟨b1, b2, h1, h2, rfl⟩

theorem parseIns_serIns (ins : List TxIn) (b rest : Bytes) (wf : ∀ i ∈ ins, TxInWF i) (h : serIns ins = some b) :
    parseIns ins.length (b ++ rest) = some (ins.map stripIn, rest) := by
  induction ins generalizing b with
  | nil => cases h; rfl
  | cons i r ih =>
    obtain ⟨b1, b2, h1, h2, rfl⟩ := serIns_cons h
    simp only [List.length_cons, parseIns, List.append_assoc, txin_parse_serialize _ (wf i (by simp)) h1,
      Option.pure_def, Option.bind_eq_bind, Option.bind_some, ih b2 (fun i hi => wf i (by simp [hi])) h2, List.map_cons]

theorem parseOuts_serOuts (outs : List TxOut) (b rest : Bytes) (wf : ∀ o ∈ outs, TxOutWF o) (h : serOuts outs = some b) :
    parseOuts outs.length (b ++ rest) = some (outs.map canonOut, rest) := by
  induction outs generalizing b with
  | nil => cases h; rfl
  | cons o r ih =>
    obtain ⟨b1, b2, h1, h2, rfl⟩ := serOuts_cons h
    simp only [List.length_cons, parseOuts, List.append_assoc, txout_parse_serialize _ (wf o (by simp)) h1,
      Option.pure_def, Option.bind_eq_bind, Option.bind_some, ih b2 (fun o ho => wf o (by simp [ho])) h2, List.map_cons]

theorem parseWitnesses_serWitnesses (ins : List TxIn) (b rest : Bytes) (wf : ∀ i ∈ ins, TxInWF i)
    (h : serWitnesses ins = some b) :
    parseWitnesses (ins.map stripIn) (b ++ rest) = some (ins.map canonIn, rest) := by
  induction ins generalizing b with
  | nil => cases h; rfl
  | cons i r ih =>
    obtain ⟨b1, b2, h1, h2, rfl⟩ := serWitnesses_cons h
    simp only [List.map_cons, parseWitnesses, List.append_assoc,
      witness_parse_serialize _ (wf i (by simp)).2.2.2.2 h1, Option.pure_def, Option.bind_eq_bind, Option.bind_some,
      ih b2 (fun i hi => wf i (by simp [hi])) h2]
    rfl

theorem serIns_isSome {ins : List TxIn} (wf : ∀ i ∈ ins, TxInWF i) : ∃ b, serIns ins = some b := by
  induction ins with
  | nil => exact ⟨[], rfl⟩
  | cons i r ih =>
    obtain ⟨b2, h2⟩ := ih (fun i hi => wf i (by simp [hi]))
    obtain ⟨sc, _, h1⟩ := txin_serialize_wf (wf i (by simp))
    exact ⟨(i.prevTx.reverse ++ natToLE' 4 i.prevIndex ++ sc ++ natToLE' 4 i.sequence) ++ b2, by simp [serIns, h1, h2]⟩

theorem serOuts_isSome {outs : List TxOut} (wf : ∀ o ∈ outs, TxOutWF o) : ∃ b, serOuts outs = some b := by
  induction outs with
  | nil => exact ⟨[], rfl⟩
  | cons o r ih =>
    obtain ⟨b2, h2⟩ := ih (fun o ho => wf o (by simp [ho]))
    obtain ⟨sc, _, h1⟩ := txout_serialize_wf (wf o (by simp))
    exact ⟨(natToLE' 8 o.amount ++ sc) ++ b2, by simp [serOuts, h1, h2]⟩

theorem serWitnesses_isSome {ins : List TxIn} (wf : ∀ i ∈ ins, TxInWF i) : ∃ b, serWitnesses ins = some b := by
  induction ins with
  | nil => exact ⟨[], rfl⟩
  | cons i r ih =>
    obtain ⟨b2, h2⟩ := ih (fun i hi => wf i (by simp [hi]))
    obtain ⟨b1, h1⟩ := witness_serialize_isSome (wf i (by simp)).2.2.2.2
    exact ⟨b1 ++ b2, by simp [serWitnesses, h1, h2]⟩

/-! ### transactions -/

/-- fields in range.  The legacy form additionally needs at least one input (N04d). -/
def TxWF (t : Tx) : Prop :=
  t.version < 2 ^ 32 ∧ t.locktime < 2 ^ 32 ∧ t.ins.length < 2 ^ 64 ∧ t.outs.length < 2 ^ 64 ∧
  (∀ i ∈ t.ins, TxInWF i) ∧ (∀ o ∈ t.outs, TxOutWF o) ∧ (t.segwit = false → t.ins ≠ [])

instance (t : Tx) : Decidable (TxWF t) := by unfold TxWF; infer_instance

/-- the transaction as the wire carries it: canonical scripts, no spent-output annotations, and in
    the legacy form no witnesses -/
def canonTx (t : Tx) : Tx :=
  { t with ins := if t.segwit then t.ins.map canonIn else t.ins.map stripIn, outs := t.outs.map canonOut }

/-- the witness-stripped part of a transaction (what the txid commits to) -/
def coreTx (t : Tx) : Tx := { t with ins := t.ins.map stripIn, outs := t.outs.map canonOut, segwit := false }

theorem encodeVarint_head_ne_zero {n : Nat} {e : Bytes} (h : encodeVarint n = some e) (hn : 1 ≤ n) :
    ∃ x t, e = x :: t ∧ x ≠ 0 := by
  by_cases h0 : n < 0xFD
  · rw [encodeVarint_c0 h0] at h; cases h
    refine ⟨_, [], rfl, ?_⟩
    intro hx
    have : (UInt8.ofNat n).toNat = 0 := by rw [hx]; rfl
    rw [u8_ofNat_toNat] at this; omega
  · by_cases h1 : n < 0x10000
    · rw [encodeVarint_c1 h0 h1] at h; cases h; exact ⟨_, _, rfl, by decide⟩
    · by_cases h2 : n < 0x100000000
      · rw [encodeVarint_c2 h1 h2] at h; cases h; exact ⟨_, _, rfl, by decide⟩
      · by_cases h3 : n < 0x10000000000000000
        · rw [encodeVarint_c3 h2 h3] at h; cases h; exact ⟨_, _, rfl, by decide⟩
        · rw [encodeVarint_c4 h3] at h; cases h

theorem encodeVarint_some {n : Nat} (h : n < 2 ^ 64) : ∃ e, encodeVarint n = some e :=
  Option.isSome_iff_exists.mp ((encodeVarint_isSome_iff n).mpr h)

/-- closed form of the legacy serialisation -/
theorem serializeLegacy_wf {t : Tx} (wf : TxWF t) :
    ∃ n i m o, encodeVarint t.ins.length = some n ∧ serIns t.ins = some i ∧ encodeVarint t.outs.length = some m ∧
      serOuts t.outs = some o ∧
      t.serializeLegacy = some (natToLE' 4 t.version ++ n ++ i ++ m ++ o ++ natToLE' 4 t.locktime) := by
  obtain ⟨hv, hl, hn, hm, hi, ho, _⟩ := wf
  obtain ⟨n, en⟩ := encodeVarint_some hn
  obtain ⟨m, em⟩ := encodeVarint_some hm
  obtain ⟨i, ei⟩ := serIns_isSome hi
  obtain ⟨o, eo⟩ := serOuts_isSome ho
  have a : t.version < 256 ^ 4 := by omega
  have b : t.locktime < 256 ^ 4 := by omega
  exact ⟨n, i, m, o, en, ei, em, eo, by
    simp [Tx.serializeLegacy, Gen.serLegacyVersionW, Gen.locktimeSerW, natToLE_some a, natToLE_some b, en, ei, em, eo]⟩

theorem serializeSegwit_wf {t : Tx} (wf : TxWF t) :
    ∃ n i m o w, encodeVarint t.ins.length = some n ∧ serIns t.ins = some i ∧ encodeVarint t.outs.length = some m ∧
      serOuts t.outs = some o ∧ serWitnesses t.ins = some w ∧
      t.serializeSegwit = some (natToLE' 4 t.version ++ [0, 1] ++ n ++ i ++ m ++ o ++ w ++ natToLE' 4 t.locktime) := by
  obtain ⟨hv, hl, hn, hm, hi, ho, _⟩ := wf
  obtain ⟨n, en⟩ := encodeVarint_some hn
  obtain ⟨m, em⟩ := encodeVarint_some hm
  obtain ⟨i, ei⟩ := serIns_isSome hi
  obtain ⟨o, eo⟩ := serOuts_isSome ho
  obtain ⟨w, ew⟩ := serWitnesses_isSome hi
  have a : t.version < 256 ^ 4 := by omega
  have b : t.locktime < 256 ^ 4 := by omega
  exact ⟨n, i, m, o, w, en, ei, em, eo, ew, by
    simp [Tx.serializeSegwit, Gen.serSegwitVersionW, Gen.locktimeSerW, Gen.serSegwitMarker, natToLE_some a,
      natToLE_some b, en, ei, em, eo, ew]⟩

theorem parseLegacy_serializeLegacy {t : Tx} {e : Bytes} (rest : Bytes) (wf : TxWF t)
    (h : t.serializeLegacy = some e) :
    Tx.parseLegacy (e ++ rest) = some (coreTx t, rest) := by
  obtain ⟨n, i, m, o, en, ei, em, eo, hs⟩ := serializeLegacy_wf wf
  obtain ⟨hv, hl, _, _, hi, ho, _⟩ := wf
  rw [hs] at h; cases h
  have a : t.version < 256 ^ 4 := by omega
  have b : t.locktime < 256 ^ 4 := by omega
  simp only [Tx.parseLegacy, List.append_assoc, Gen.parLegacyVersionW, Gen.locktimeParW,
    sread_append 4 _ _ (natToLE'_length 4 _), readVarint_encodeVarint _ _ _ en, Option.pure_def,
    Option.bind_eq_bind, Option.bind_some, parseIns_serIns t.ins i _ hi ei, readVarint_encodeVarint _ _ _ em,
    parseOuts_serOuts t.outs o _ ho eo, leToNat_natToLE'_of_lt a, leToNat_natToLE'_of_lt b]
  have hr : inRange t.locktime Gen.maxLocktime = true := by simp [inRange, Gen.maxLocktime]; omega
  simp [hr, coreTx]

theorem parseSegwit_serializeSegwit {t : Tx} {e : Bytes} (rest : Bytes) (wf : TxWF t)
    (h : t.serializeSegwit = some e) :
    Tx.parseSegwit (e ++ rest) = some ({ t with ins := t.ins.map canonIn, outs := t.outs.map canonOut, segwit := true }, rest) := by
  obtain ⟨n, i, m, o, w, en, ei, em, eo, ew, hs⟩ := serializeSegwit_wf wf
  obtain ⟨hv, hl, _, _, hi, ho, _⟩ := wf
  rw [hs] at h; cases h
  have a : t.version < 256 ^ 4 := by omega
  have b : t.locktime < 256 ^ 4 := by omega
  have l2 : ([0, 1] : Bytes).length = 2 := rfl
  simp only [Tx.parseSegwit, List.append_assoc, Gen.parSegwitVersionW, Gen.parSegwitMarkerW, Gen.locktimeParW,
    sread_append 4 _ _ (natToLE'_length 4 _), sread_append 2 _ _ l2, Gen.parSegwitMarker, ne_eq, not_true_eq_false,
    if_false, readVarint_encodeVarint _ _ _ en, Option.pure_def,
    Option.bind_eq_bind, Option.bind_some, parseIns_serIns t.ins i _ hi ei, readVarint_encodeVarint _ _ _ em,
    parseOuts_serOuts t.outs o _ ho eo, parseWitnesses_serWitnesses t.ins w _ hi ew,
    leToNat_natToLE'_of_lt a, leToNat_natToLE'_of_lt b]
  have hr : inRange t.locktime Gen.maxLocktime = true := by simp [inRange, Gen.maxLocktime]; omega
  simp [hr]

/-- the marker sniffing of Tx.parse on a stream of at least five bytes -/
theorem parse_sniff (v : Bytes) (x : UInt8) (tail : Bytes) (hv : v.length = 4) :
    Tx.parse (v ++ x :: tail) = if x = 0 then Tx.parseSegwit (v ++ x :: tail) else Tx.parseLegacy (v ++ x :: tail) := by
  simp only [Tx.parse, Gen.sniffSkip, Gen.sniffWidth, Gen.sniffSeekBack, Gen.sniffMarker,
    sread_append 4 _ _ hv]
  simp only [sread, List.take_succ_cons, List.take_zero, List.drop_succ_cons, List.drop_zero, List.length_append,
    List.length_cons, hv]
  have e1 : 4 + (tail.length + 1) - tail.length = 5 := by omega
  simp only [e1, Nat.lt_irrefl, if_false, Nat.sub_self, List.drop_zero]
  by_cases hx : x = 0
  · simp [hx]
  · simp [hx]


/-! ### the canonical form serialises to the same bytes -/

theorem txin_serialize_canonIn {i : TxIn} (hraw : i.scriptSig.raw = none) : (canonIn i).serialize = i.serialize := by
  simp [TxIn.serialize, canonIn, serialize_canonScript _ hraw]

theorem txin_serialize_stripIn {i : TxIn} (hraw : i.scriptSig.raw = none) : (stripIn i).serialize = i.serialize := by
  simp [TxIn.serialize, stripIn, canonIn, serialize_canonScript _ hraw]

theorem txout_serialize_canonOut {o : TxOut} (hraw : o.scriptPubkey.raw = none) : (canonOut o).serialize = o.serialize := by
  simp [TxOut.serialize, canonOut, serialize_canonScript _ hraw]

theorem serIns_map_stripIn {ins : List TxIn} (wf : ∀ i ∈ ins, TxInWF i) : serIns (ins.map stripIn) = serIns ins := by
  induction ins with
  | nil => rfl
  | cons i r ih =>
    simp only [List.map_cons, serIns, txin_serialize_stripIn (wf i (by simp)).2.2.1.1, ih (fun i hi => wf i (by simp [hi]))]

theorem serIns_map_canonIn {ins : List TxIn} (wf : ∀ i ∈ ins, TxInWF i) : serIns (ins.map canonIn) = serIns ins := by
  induction ins with
  | nil => rfl
  | cons i r ih =>
    simp only [List.map_cons, serIns, txin_serialize_canonIn (wf i (by simp)).2.2.1.1, ih (fun i hi => wf i (by simp [hi]))]

theorem serOuts_map_canonOut {outs : List TxOut} (wf : ∀ o ∈ outs, TxOutWF o) : serOuts (outs.map canonOut) = serOuts outs := by
  induction outs with
  | nil => rfl
  | cons o r ih =>
    simp only [List.map_cons, serOuts, txout_serialize_canonOut (wf o (by simp)).2.1, ih (fun o ho => wf o (by simp [ho]))]

theorem serWitnesses_map_canonIn (ins : List TxIn) : serWitnesses (ins.map canonIn) = serWitnesses ins := by
  induction ins with
  | nil => rfl
  | cons i r ih => simp only [List.map_cons, serWitnesses, ih]; rfl

theorem serializeLegacy_coreTx {t : Tx} (wf : TxWF t) : (coreTx t).serializeLegacy = t.serializeLegacy := by
  simp [Tx.serializeLegacy, coreTx, serIns_map_stripIn wf.2.2.2.2.1, serOuts_map_canonOut wf.2.2.2.2.2.1]

theorem serialize_canonTx {t : Tx} (wf : TxWF t) : (canonTx t).serialize = t.serialize := by
  cases hs : t.segwit with
  | true =>
    simp [Tx.serialize, Tx.serializeSegwit, canonTx, hs, serIns_map_canonIn wf.2.2.2.2.1,
      serOuts_map_canonOut wf.2.2.2.2.2.1, serWitnesses_map_canonIn]
  | false =>
    simp [Tx.serialize, Tx.serializeLegacy, canonTx, hs, serIns_map_stripIn wf.2.2.2.2.1,
      serOuts_map_canonOut wf.2.2.2.2.2.1]

/-- the legacy serialisation does not look at witnesses, the segwit flag or the spent-output annotations -/
def noWit (i : TxIn) : TxIn := { i with witness := {}, value := none, scriptPubkey := none }

theorem serIns_noWit (ins : List TxIn) : serIns (ins.map noWit) = serIns ins := by
  induction ins with
  | nil => rfl
  | cons i r ih => simp only [List.map_cons, serIns, ih]; rfl

/-- Tx.parse of a serialised well-formed transaction -/
theorem parse_serialize {t : Tx} {e : Bytes} (rest : Bytes) (wf : TxWF t) (h : t.serialize = some e) :
    Tx.parse (e ++ rest) = some (canonTx t, rest) := by
  cases hs : t.segwit with
  | true =>
    obtain ⟨n, i, m, o, w, en, ei, em, eo, ew, hser⟩ := serializeSegwit_wf wf
    have h' : t.serializeSegwit = some e := by simpa [Tx.serialize, hs] using h
    have := parseSegwit_serializeSegwit rest wf h'
    rw [hser] at h'; cases h'
    have l4 := natToLE'_length 4 t.version
    simp only [List.append_assoc, List.cons_append, List.nil_append] at this ⊢
    rw [parse_sniff _ _ _ l4, if_pos rfl, this]
    simp [canonTx, hs]
  | false =>
    obtain ⟨n, i, m, o, en, ei, em, eo, hser⟩ := serializeLegacy_wf wf
    have h' : t.serializeLegacy = some e := by simpa [Tx.serialize, hs] using h
    have := parseLegacy_serializeLegacy rest wf h'
    rw [hser] at h'; cases h'
    have hne : t.ins ≠ [] := wf.2.2.2.2.2.2 hs
    have hpos : 1 ≤ t.ins.length := by
      cases hl : t.ins with
      | nil => exact absurd hl hne
      | cons _ _ => simp
    obtain ⟨x, tl, rfl, hx⟩ := encodeVarint_head_ne_zero en hpos
    have l4 := natToLE'_length 4 t.version
    simp only [List.append_assoc, List.cons_append] at this ⊢
    rw [parse_sniff _ _ _ l4, if_neg hx, this]
    simp [canonTx, coreTx, hs]


/-! ### the fetcher's cache -/

theorem fetch_id {hash256 : Bytes → Bytes} {network txId response : String} {t : Tx}
    (h : fetch hash256 network txId response = some t) : t.id hash256 = some txId := by
  unfold fetch at h
  split at h
  · cases h
  · split at h
    · cases h
    · split at h
      · cases h
      · split at h
        · cases h
        · next tx _ _ computed hc =>
          split at h
          · cases h
          · next hne =>
            cases h
            simp only [ne_eq, Decidable.not_not] at hne
            rw [hc, hne]

/-- every cached transaction hashes to the id it is stored under -/
def CacheOK (hash256 : Bytes → Bytes) (c : FetchCache) : Prop :=
  ∀ k t, cacheGet c k = some t → t.id hash256 = some k

theorem cacheGet_set (c : FetchCache) (k k' : String) (t : Tx) :
    cacheGet (cacheSet c k t) k' = if k = k' then some t else cacheGet c k' := by
  induction c with
  | nil => simp [cacheSet, cacheGet]
  | cons e r ih =>
    obtain ⟨k0, t0⟩ := e
    by_cases h0 : k0 = k
    · subst h0
      by_cases h1 : k0 = k' <;> simp [cacheSet, cacheGet, h1]
    · by_cases h1 : k0 = k'
      · subst h1
        have : ¬ k = k0 := fun h => h0 h.symm
        simp [cacheSet, cacheGet, h0, this]
      · simp [cacheSet, cacheGet, h0, h1, ih]

theorem cacheOK_nil (hash256 : Bytes → Bytes) : CacheOK hash256 [] := by
  intro k t h; simp [cacheGet] at h

theorem fetchStep_sound {hash256 : Bytes → Bytes} {c : FetchCache} (ok : CacheOK hash256 c) (call : FetchCall) :
    CacheOK hash256 (fetchStep hash256 c call).2 ∧
    ∀ t, (fetchStep hash256 c call).1 = some t → t.id hash256 = some call.txId := by
  unfold fetchStep
  by_cases hc : call.fresh ∨ (cacheGet c call.txId).isNone
  · rw [if_pos hc]
    cases hf : fetch hash256 call.network call.txId call.response with
    | none => exact ⟨ok, fun t h => by cases h⟩
    | some tx =>
      have hid := fetch_id hf
      refine ⟨?_, fun t h => by cases h; exact hid⟩
      intro k t h
      rw [cacheGet_set] at h
      by_cases hk : call.txId = k
      · rw [if_pos hk] at h; cases h; rw [← hk]; exact hid
      · rw [if_neg hk] at h; exact ok k t h
  · rw [if_neg hc]
    exact ⟨ok, fun t h => ok _ t h⟩

theorem fetchRun_sound {hash256 : Bytes → Bytes} (calls : List FetchCall) {c : FetchCache} (ok : CacheOK hash256 c) :
    CacheOK hash256 (fetchRun hash256 c calls).2 ∧
    ∀ (n : Nat) (call : FetchCall) (t : Tx), calls[n]? = some call →
      (fetchRun hash256 c calls).1[n]? = some (some t) → t.id hash256 = some call.txId := by
  induction calls generalizing c with
  | nil => exact ⟨ok, fun n call t h => by simp at h⟩
  | cons call r ih =>
    obtain ⟨ok', ans⟩ := fetchStep_sound ok call
    obtain ⟨okr, ansr⟩ := ih ok'
    simp only [fetchRun]
    refine ⟨okr, ?_⟩
    intro n call' t h1 h2
    cases n with
    | zero =>
      simp only [List.getElem?_cons_zero, Option.some.injEq] at h1 h2
      subst h1
      exact ans t h2
    | succ n =>
      simp only [List.getElem?_cons_succ] at h1 h2
      exact ansr n call' t h1 h2

end Buidl.Tx
