/-
  Buidl.Proofs.SipHash — the Python-integer model of buidl/siphash.py (`Buidl.Filters.siphash`) computes
  SipHash-2-4 as specified on 64-bit machine words (`Buidl.Spec.Filters.sipHash24`), for every key and
  every message of every length.

  Route: `rotN` / `roundN` are SipRound on naturals below 2^64.
    * `toV_sipRound`   : the `UInt64` SipRound, read through `toNat`, is `roundN`
    * `half1_eq`/`half2_eq` : the two halves of `_doublesipround` (with its partially masked and unmasked
                         intermediates) are `roundN`
    * `doubleSipRound_toV` : `_doublesipround` = `sipCompress` through `toNat`
    * `sipUpdate_spec` : induction over the 8-byte blocks
    * `sipFinal_spec`, `siphash_eq_spec`, `siphash_none`
-/
import Buidl.Model.Filters
import Buidl.Spec.Filters
import Buidl.Proofs.Bytes
namespace Buidl.Filters
open Buidl Buidl.Spec.Filters

/-! ### rotations and masks on naturals -/

/-- rotate-left by `k` of a natural below 2^64 -/
def rotN (k x : Nat) : Nat := ((x <<< k) % 2 ^ 64) ||| (x >>> (64 - k))

theorem mask64 (x : Nat) : x &&& 18446744073709551615 = x % 2 ^ 64 :=
  Nat.and_two_pow_sub_one_eq_mod x 64

theorem rotN_lt {k x : Nat} (hx : x < 2 ^ 64) : rotN k x < 2 ^ 64 := by
  unfold rotN
  apply Nat.or_lt_two_pow (Nat.mod_lt _ (by decide))
  rw [Nat.shiftRight_eq_div_pow]
  exact Nat.lt_of_le_of_lt (Nat.div_le_self _ _) hx

/-- the masked form `((x & (2^(64-k) - 1)) << k) | (x >> (64-k))` is the rotation (any `x`) -/
theorem rot_masked (k x : Nat) (hk : k ≤ 64) :
    ((x &&& (2 ^ (64 - k) - 1)) <<< k) ||| (x >>> (64 - k)) = rotN k x := by
  unfold rotN
  congr 1
  rw [Nat.and_two_pow_sub_one_eq_mod, Nat.shiftLeft_eq, Nat.shiftLeft_eq, ← Nat.mul_mod_mul_right,
    ← Nat.pow_add, Nat.sub_add_cancel hk]

/-- the unmasked form `(x << k) | (x >> (64-k))`, reduced mod 2^64, is the rotation (x below 2^64) -/
theorem rot_unmasked_mod {k x : Nat} (hx : x < 2 ^ 64) :
    ((x <<< k) ||| (x >>> (64 - k))) % 2 ^ 64 = rotN k x := by
  unfold rotN
  rw [Nat.or_mod_two_pow]
  congr 1
  apply Nat.mod_eq_of_lt
  rw [Nat.shiftRight_eq_div_pow]
  exact Nat.lt_of_le_of_lt (Nat.div_le_self _ _) hx

/-- `((x << k | x >> (64-k)) ^ y) & M` -/
theorem rot_xor_mask {k x : Nat} (y : Nat) (hx : x < 2 ^ 64) :
    (((x <<< k) ||| (x >>> (64 - k))) ^^^ y) &&& 18446744073709551615 = rotN k x ^^^ (y % 2 ^ 64) := by
  rw [mask64, Nat.xor_mod_two_pow, rot_unmasked_mod hx]

theorem rot13_masked (x : Nat) : ((x &&& 2251799813685247) <<< 13) ||| (x >>> 51) = rotN 13 x :=
  rot_masked 13 x (by decide)
theorem rot17_masked (x : Nat) : ((x &&& 140737488355327) <<< 17) ||| (x >>> 47) = rotN 17 x :=
  rot_masked 17 x (by decide)
theorem rot21_masked (x : Nat) : ((x &&& 8796093022207) <<< 21) ||| (x >>> 43) = rotN 21 x :=
  rot_masked 21 x (by decide)
theorem rot32_masked (x : Nat) : ((x &&& 4294967295) <<< 32) ||| (x >>> 32) = rotN 32 x :=
  rot_masked 32 x (by decide)

/-! ### SipRound on naturals -/

/-- SipRound on four naturals below 2^64 -/
def roundN (v : V4) : V4 :=
  let (a, b, c, d) := v
  let v0 := (a + b) % 2 ^ 64
  let v1 := rotN 13 b ^^^ v0
  let v2 := (c + d) % 2 ^ 64
  let v3 := rotN 16 d ^^^ v2
  let w0 := (rotN 32 v0 + v3) % 2 ^ 64
  let w3 := rotN 21 v3 ^^^ w0
  let w2 := (v2 + v1) % 2 ^ 64
  let w1 := rotN 17 v1 ^^^ w2
  (w0, w1, rotN 32 w2, w3)

def V4.lt64 (v : V4) : Prop := v.1 < 2 ^ 64 ∧ v.2.1 < 2 ^ 64 ∧ v.2.2.1 < 2 ^ 64 ∧ v.2.2.2 < 2 ^ 64

def toV (s : SipState) : V4 := (s.v0.toNat, s.v1.toNat, s.v2.toNat, s.v3.toNat)

theorem toV_lt64 (s : SipState) : (toV s).lt64 :=
  ⟨s.v0.toNat_lt, s.v1.toNat_lt, s.v2.toNat_lt, s.v3.toNat_lt⟩

theorem toNat_rotl64 (x : UInt64) (k : Nat) (hk : k < 64) :
    (rotl64 x (UInt64.ofNat k)).toNat = rotN k x.toNat := by
  have h1 : (UInt64.ofNat k).toNat % 64 = k := by
    rw [UInt64.toNat_ofNat']; omega
  have h2 : ((64 : UInt64) - UInt64.ofNat k).toNat % 64 = (64 - k) % 64 := by
    rw [UInt64.toNat_sub, UInt64.toNat_ofNat']
    have : (64 : UInt64).toNat = 64 := rfl
    omega
  unfold rotl64 rotN
  rw [UInt64.toNat_or, UInt64.toNat_shiftLeft, UInt64.toNat_shiftRight, h1, h2]
  rcases Nat.eq_zero_or_pos k with rfl | hpos
  · -- k = 0 does not occur in SipHash; both sides still agree
    have hx := x.toNat_lt
    simp only [Nat.shiftLeft_zero, Nat.sub_zero, Nat.mod_self, Nat.shiftRight_zero]
    rw [Nat.shiftRight_eq_div_pow, Nat.div_eq_of_lt hx, Nat.mod_eq_of_lt hx]
    simp
  · have h3 : (64 - k) % 64 = 64 - k := Nat.mod_eq_of_lt (by omega)
    rw [h3]

theorem toV_sipRound (s : SipState) : toV (sipRound s) = roundN (toV s) := by
  have r13 := fun x => toNat_rotl64 x 13 (by decide)
  have r16 := fun x => toNat_rotl64 x 16 (by decide)
  have r17 := fun x => toNat_rotl64 x 17 (by decide)
  have r21 := fun x => toNat_rotl64 x 21 (by decide)
  have r32 := fun x => toNat_rotl64 x 32 (by decide)
  simp only [toV, sipRound, roundN, UInt64.toNat_add, UInt64.toNat_xor]
  refine Prod.ext ?_ (Prod.ext ?_ (Prod.ext ?_ ?_)) <;>
    simp only [show (13 : UInt64) = UInt64.ofNat 13 from rfl, show (16 : UInt64) = UInt64.ofNat 16 from rfl,
      show (17 : UInt64) = UInt64.ofNat 17 from rfl, show (21 : UInt64) = UInt64.ofNat 21 from rfl,
      show (32 : UInt64) = UInt64.ofNat 32 from rfl, r13, r16, r17, r21, r32,
      UInt64.toNat_add, UInt64.toNat_xor]

theorem roundN_lt64 {v : V4} (hv : v.lt64) : (roundN v).lt64 := by
  obtain ⟨a, b, c, d⟩ := v
  obtain ⟨ha, hb, hc, hd⟩ := hv
  have hm : ∀ x, x % 2 ^ 64 < 2 ^ 64 := fun x => Nat.mod_lt _ (by decide)
  simp only at ha hb hc hd
  simp only [roundN, V4.lt64]
  refine ⟨hm _, ?_, ?_, ?_⟩
  · exact Nat.xor_lt_two_pow (rotN_lt (Nat.xor_lt_two_pow (rotN_lt hb) (hm _))) (hm _)
  · exact rotN_lt (hm _)
  · exact Nat.xor_lt_two_pow (rotN_lt (Nat.xor_lt_two_pow (rotN_lt hd) (hm _))) (hm _)

/-! ### `_doublesipround` is two SipRounds -/

/-- first half of `_doublesipround` (after `d ^= m`): returns the unmasked `k`, `l`, the unrotated `h`, `o` -/
def half1 (a b c d : Nat) : Nat × Nat × Nat × Nat :=
  let e := (a + b) &&& Gen.sipC0
  let i := (((b &&& Gen.sipC1) <<< Gen.sipC2) ||| (b >>> Gen.sipC3)) ^^^ e
  let f := c + d
  let j := (((d <<< Gen.sipC4) ||| (d >>> Gen.sipC5)) ^^^ f) &&& Gen.sipC6
  let h := (f + i) &&& Gen.sipC7
  let k := ((e <<< Gen.sipC8) ||| (e >>> Gen.sipC9)) + j
  let l := (((i &&& Gen.sipC10) <<< Gen.sipC11) ||| (i >>> Gen.sipC12)) ^^^ h
  let o := (((j <<< Gen.sipC13) ||| (j >>> Gen.sipC14)) ^^^ k) &&& Gen.sipC15
  (k, l, h, o)

/-- second half of `_doublesipround` (before `^ m` on the first component) -/
def half2 (k l h o : Nat) : V4 :=
  let p := (k + l) &&& Gen.sipC16
  let q := (((l &&& Gen.sipC17) <<< Gen.sipC18) ||| (l >>> Gen.sipC19)) ^^^ p
  let r := ((h <<< Gen.sipC20) ||| (h >>> Gen.sipC21)) + o
  let s := (((o <<< Gen.sipC22) ||| (o >>> Gen.sipC23)) ^^^ r) &&& Gen.sipC24
  let t := (r + q) &&& Gen.sipC25
  let u := (((p <<< Gen.sipC26) ||| (p >>> Gen.sipC27)) + s) &&& Gen.sipC28
  (u,
   (((q &&& Gen.sipC29) <<< Gen.sipC30) ||| (q >>> Gen.sipC31)) ^^^ t,
   ((t &&& Gen.sipC32) <<< Gen.sipC33) ||| (t >>> Gen.sipC34),
   (((s &&& Gen.sipC35) <<< Gen.sipC36) ||| (s >>> Gen.sipC37)) ^^^ u)

theorem doubleSipRound_split (a b c d m : Nat) :
    doubleSipRound (a, b, c, d) m =
      (let x := half1 a b c (d ^^^ m)
       let y := half2 x.1 x.2.1 x.2.2.1 x.2.2.2
       (y.1 ^^^ m, y.2.1, y.2.2.1, y.2.2.2)) := by
  simp only [doubleSipRound, half1, half2]

private theorem hm (x : Nat) : x % 2 ^ 64 < 2 ^ 64 := Nat.mod_lt _ (by decide)

/-- `((x << k | x >> (64-k)) + y) mod 2^64` -/
theorem rot_add_mod {k x y : Nat} (hx : x < 2 ^ 64) (hy : y < 2 ^ 64) :
    (((x <<< k) ||| (x >>> (64 - k))) + y) % 2 ^ 64 = (rotN k x + y) % 2 ^ 64 := by
  rw [Nat.add_mod, rot_unmasked_mod hx, Nat.mod_eq_of_lt hy]

theorem half1_eq {a b c d : Nat} (hd : d < 2 ^ 64) :
    let x := half1 a b c d
    (x.1 % 2 ^ 64, x.2.1, rotN 32 x.2.2.1, x.2.2.2) = roundN (a, b, c, d) ∧ x.2.2.1 < 2 ^ 64 := by
  have he := hm (a + b)
  have hj : rotN 16 d ^^^ (c + d) % 2 ^ 64 < 2 ^ 64 := Nat.xor_lt_two_pow (rotN_lt hd) (hm _)
  simp only [half1, roundN, Gen.sipC0, Gen.sipC1, Gen.sipC2, Gen.sipC3, Gen.sipC4, Gen.sipC5, Gen.sipC6,
    Gen.sipC7, Gen.sipC8, Gen.sipC9, Gen.sipC10, Gen.sipC11, Gen.sipC12, Gen.sipC13, Gen.sipC14, Gen.sipC15]
  rw [mask64 (a + b), rot13_masked, rot_xor_mask (k := 16) (c + d) hd, rot17_masked, mask64 (c + d + _),
    rot_xor_mask (k := 21) _ hj, rot_add_mod (k := 32) he hj, Nat.mod_add_mod]
  exact ⟨rfl, hm _⟩

theorem half2_eq {k l h o : Nat} (hh : h < 2 ^ 64) (ho : o < 2 ^ 64) :
    half2 k l h o = roundN (k % 2 ^ 64, l, rotN 32 h, o) := by
  have hs : rotN 16 o ^^^ (rotN 32 h + o) % 2 ^ 64 < 2 ^ 64 := Nat.xor_lt_two_pow (rotN_lt ho) (hm _)
  simp only [half2, roundN, Gen.sipC16, Gen.sipC17, Gen.sipC18, Gen.sipC19, Gen.sipC20, Gen.sipC21,
    Gen.sipC22, Gen.sipC23, Gen.sipC24, Gen.sipC25, Gen.sipC26, Gen.sipC27, Gen.sipC28, Gen.sipC29,
    Gen.sipC30, Gen.sipC31, Gen.sipC32, Gen.sipC33, Gen.sipC34, Gen.sipC35, Gen.sipC36, Gen.sipC37]
  rw [mask64 (k + l), rot13_masked, rot_xor_mask (k := 16) _ ho, rot_add_mod (k := 32) hh ho,
    mask64 (_ + _), mask64 (_ + _), rot17_masked, rot32_masked, rot21_masked]
  rw [Nat.mod_add_mod k, rot_add_mod (k := 32) (hm (k + l)) hs,
    ← Nat.mod_add_mod ((h <<< 32 ||| h >>> 32) + o), rot_add_mod (k := 32) hh ho]

/-- `_doublesipround` on four naturals below 2^64 and a word below 2^64 is: `v3 ^= m`, two SipRounds, `v0 ^= m` -/
theorem doubleSipRound_eq {v : V4} {m : Nat} (hv : v.lt64) (hm64 : m < 2 ^ 64) :
    doubleSipRound v m =
      (let y := roundN (roundN (v.1, v.2.1, v.2.2.1, v.2.2.2 ^^^ m))
       (y.1 ^^^ m, y.2.1, y.2.2.1, y.2.2.2)) := by
  obtain ⟨a, b, c, d⟩ := v
  obtain ⟨ha, hb, hc, hd⟩ := hv
  simp only at ha hb hc hd
  have hd' : d ^^^ m < 2 ^ 64 := Nat.xor_lt_two_pow hd hm64
  rw [doubleSipRound_split]
  have h1 := half1_eq (a := a) (b := b) (c := c) hd'
  have hlt : (roundN (a, b, c, d ^^^ m)).lt64 := roundN_lt64 ⟨ha, hb, hc, hd'⟩
  generalize half1 a b c (d ^^^ m) = x at h1
  obtain ⟨k, l, h, o⟩ := x
  simp only at h1 ⊢
  obtain ⟨h1, hh⟩ := h1
  rw [← h1] at hlt ⊢
  rw [half2_eq hh hlt.2.2.2]

theorem sipCompress_toV (s : SipState) (m : UInt64) :
    toV (sipCompress s m) =
      (let y := roundN (roundN ((toV s).1, (toV s).2.1, (toV s).2.2.1, (toV s).2.2.2 ^^^ m.toNat))
       (y.1 ^^^ m.toNat, y.2.1, y.2.2.1, y.2.2.2)) := by
  have h : toV { s with v3 := s.v3 ^^^ m } = ((toV s).1, (toV s).2.1, (toV s).2.2.1, (toV s).2.2.2 ^^^ m.toNat) := by
    simp only [toV, UInt64.toNat_xor]
  simp only [sipCompress]
  rw [← h, ← toV_sipRound, ← toV_sipRound]
  simp only [toV, UInt64.toNat_xor]

/-- the refinement of one compression: `_doublesipround` is `sipCompress` read through `toNat` -/
theorem doubleSipRound_toV (s : SipState) (m : UInt64) :
    doubleSipRound (toV s) m.toNat = toV (sipCompress s m) := by
  rw [doubleSipRound_eq (toV_lt64 s) m.toNat_lt, sipCompress_toV]

theorem doubleSipRound_lt64 {v : V4} {m : Nat} (hv : v.lt64) (hm64 : m < 2 ^ 64) :
    (doubleSipRound v m).lt64 := by
  obtain ⟨a, b, c, d⟩ := v
  have h := doubleSipRound_toV ⟨UInt64.ofNat a, UInt64.ofNat b, UInt64.ofNat c, UInt64.ofNat d⟩ (UInt64.ofNat m)
  obtain ⟨ha, hb, hc, hd⟩ := hv
  simp only at ha hb hc hd
  simp only [toV, UInt64.toNat_ofNat', Nat.mod_eq_of_lt ha, Nat.mod_eq_of_lt hb, Nat.mod_eq_of_lt hc,
    Nat.mod_eq_of_lt hd, Nat.mod_eq_of_lt hm64] at h
  rw [h]
  exact toV_lt64 _

/-! ### message words -/

theorem toNat_word64 {b : Bytes} (hb : b.length ≤ 8) : (word64 b).toNat = leToNat b := by
  unfold word64
  rw [UInt64.toNat_ofNat']
  apply Nat.mod_eq_of_lt
  have h1 := leToNat_lt b
  have h2 : 256 ^ b.length ≤ 256 ^ 8 := Nat.pow_le_pow_right (by decide) hb
  have h3 : 256 ^ 8 = 2 ^ 64 := by decide
  omega

/-- the loop of `update` against the word loop of the specification: the state after all complete blocks
    is the `toNat` image of a specification state `s'`, and what the specification still has to do is
    compress the last word made from the model's unprocessed tail -/
theorem sipUpdate_spec (len : Nat) (v : V4) (msg : Bytes) : ∀ s : SipState, v = toV s →
    ∃ s' : SipState, (sipUpdate v msg).1 = toV s' ∧
      sipWords s len msg = sipCompress s' (word64 (sipUpdate v msg).2 ||| (UInt64.ofNat (len % 256) <<< 56)) ∧
      (sipUpdate v msg).2.length < 8 ∧ (sipUpdate v msg).2.length ≤ msg.length := by
  induction v, msg using sipUpdate.induct with
  | case1 v b0 b1 b2 b3 b4 b5 b6 b7 rest ih =>
    intro s hs
    subst hs
    have hw : leToNat [b0, b1, b2, b3, b4, b5, b6, b7] = (word64 [b0, b1, b2, b3, b4, b5, b6, b7]).toNat :=
      (toNat_word64 (by simp)).symm
    obtain ⟨s', h1, h2, h3, h4⟩ := ih (sipCompress s (word64 [b0, b1, b2, b3, b4, b5, b6, b7]))
      (by rw [hw, doubleSipRound_toV])
    simp only [sipUpdate, sipWords]
    refine ⟨s', h1, h2, h3, ?_⟩
    simp only [List.length_cons]
    omega
  | case2 v tail hnot =>
    intro s hs
    rw [sipUpdate.eq_2 _ _ hnot, sipWords.eq_2 _ _ _ hnot]
    refine ⟨s, hs, rfl, ?_, Nat.le_refl _⟩
    rcases tail with _ | ⟨b0, _ | ⟨b1, _ | ⟨b2, _ | ⟨b3, _ | ⟨b4, _ | ⟨b5, _ | ⟨b6, _ | ⟨b7, rest⟩⟩⟩⟩⟩⟩⟩⟩
    all_goals first
      | exact (hnot _ _ _ _ _ _ _ _ _ rfl).elim
      | simp

/-! ### finalisation -/

theorem leToNat_replicate_zero (n : Nat) : leToNat (List.replicate n 0) = 0 := by
  induction n with
  | zero => rfl
  | succ n ih => simp [List.replicate_succ, leToNat, ih]

theorem leToNat_append_zeros (t : Bytes) (n : Nat) : leToNat (t ++ List.replicate n 0) = leToNat t := by
  induction t with
  | nil => simp [leToNat_replicate_zero, leToNat]
  | cons x xs ih => simp only [List.cons_append, leToNat, ih]

/-- the last word: `(len & 0xFF) << 56 | int.from_bytes((tail + b"\0"*8)[:8], "little")` -/
theorem lastWord_eq (len : Nat) (tail : Bytes) (ht : tail.length < 8) :
    ((len &&& Gen.sipLenMask) <<< Gen.sipLenShift) ||| leToNat ((tail ++ List.replicate 8 0).take 8)
      = (word64 tail ||| (UInt64.ofNat (len % 256) <<< 56)).toNat := by
  have h1 : (tail ++ List.replicate 8 (0 : UInt8)).take 8 = tail ++ List.replicate (8 - tail.length) 0 := by
    rw [List.take_append, List.take_of_length_le (by omega), List.take_replicate]
    congr 2; omega
  have h2 : len &&& 255 = len % 256 := Nat.and_two_pow_sub_one_eq_mod len 8
  have h3 : (len % 256) <<< 56 < 2 ^ 64 := by
    rw [Nat.shiftLeft_eq]
    have : len % 256 < 256 := Nat.mod_lt _ (by decide)
    omega
  have h4 : ((56 : UInt64).toNat % 64) = 56 := rfl
  rw [h1, leToNat_append_zeros, UInt64.toNat_or, toNat_word64 (by omega), UInt64.toNat_shiftLeft,
    UInt64.toNat_ofNat', h4, Nat.mod_eq_of_lt (a := len % 256) (by omega), Nat.mod_eq_of_lt h3]
  show ((len &&& 255) <<< 56) ||| leToNat tail = _
  rw [h2, Nat.or_comm]

theorem sipCompress_zero (s : SipState) : sipCompress s 0 = sipRound (sipRound s) := by
  simp [sipCompress]

theorem sipFinal_spec (s : SipState) (blen : Nat) (tail : Bytes) (ht : tail.length < 8) :
    sipFinal (toV s) blen tail =
      (let s1 := sipCompress s (word64 tail ||| (UInt64.ofNat ((blen + tail.length) % 256) <<< 56))
       let s2 : SipState := { s1 with v2 := s1.v2 ^^^ 0xff }
       let s3 := sipRound (sipRound (sipRound (sipRound s2)))
       (s3.v0 ^^^ s3.v1 ^^^ s3.v2 ^^^ s3.v3).toNat) := by
  unfold sipFinal
  simp only []
  rw [lastWord_eq _ _ ht, doubleSipRound_toV]
  generalize sipCompress s (word64 tail ||| (UInt64.ofNat ((blen + tail.length) % 256) <<< 56)) = s1
  have h : ((toV s1).1, (toV s1).2.1, (toV s1).2.2.1 ^^^ Gen.sipFinalXor, (toV s1).2.2.2)
      = toV { s1 with v2 := s1.v2 ^^^ 0xff } := by
    simp only [toV, UInt64.toNat_xor]; rfl
  have h0 : (0 : Nat) = (0 : UInt64).toNat := rfl
  show (let w := doubleSipRound (doubleSipRound
      ((toV s1).1, (toV s1).2.1, (toV s1).2.2.1 ^^^ Gen.sipFinalXor, (toV s1).2.2.2) 0) 0
      w.1 ^^^ w.2.1 ^^^ w.2.2.1 ^^^ w.2.2.2) = _
  rw [h, h0, doubleSipRound_toV, doubleSipRound_toV, sipCompress_zero, sipCompress_zero]
  simp only [toV, UInt64.toNat_xor]

/-! ### the whole function -/

theorem sipInit_toV (key : Bytes) :
    sipInit key = toV
      { v0 := word64 (key.take 8) ^^^ 0x736f6d6570736575, v1 := word64 ((key.drop 8).take 8) ^^^ 0x646f72616e646f6d,
        v2 := word64 (key.take 8) ^^^ 0x6c7967656e657261, v3 := word64 ((key.drop 8).take 8) ^^^ 0x7465646279746573 } := by
  have h0 : (word64 (key.take 8)).toNat = leToNat (key.take 8) := toNat_word64 (by simp; omega)
  have h1 : (word64 ((key.drop 8).take 8)).toNat = leToNat ((key.drop 8).take 8) := toNat_word64 (by simp; omega)
  simp only [sipInit, toV, UInt64.toNat_xor, h0, h1]
  refine Prod.ext ?_ (Prod.ext ?_ (Prod.ext ?_ ?_)) <;> exact Nat.xor_comm _ _

/-- SipHash-2-4 of buidl/siphash.py (as used by compactfilter._siphash) is the SipHash-2-4 of the
    specification, for every 16-byte key and every message -/
theorem siphash_eq_spec (key msg : Bytes) (hk : key.length = 16) :
    siphash key msg = some (Spec.Filters.sipHash24 key msg).toNat := by
  unfold siphash
  rw [if_neg (by rw [hk]; decide)]
  obtain ⟨s', h1, h2, h3, h4⟩ := sipUpdate_spec msg.length (sipInit key) msg _ (sipInit_toV key)
  generalize sipUpdate (sipInit key) msg = r at h1 h2 h3 h4
  obtain ⟨v, tail⟩ := r
  simp only at h1 h2 h3 h4 ⊢
  subst h1
  rw [sipFinal_spec _ _ _ h3, Nat.sub_add_cancel h4]
  simp only [sipHash24, h2]

theorem siphash_none (key msg : Bytes) (hk : key.length ≠ 16) : siphash key msg = none := by
  unfold siphash
  rw [if_pos hk]

end Buidl.Filters
