/-
  The BCH checksum of bech32 / bech32m / bc32 as linear algebra over XOR (no Mathlib needed).

  * `polymodStep` is XOR-linear in (state, value); hence `polymodFrom` is, and the difference
    of the checksums of two equally long words is the checksum (from state 0) of their XOR.
  * `D c = polymodStep c 0` has trivial kernel on states below 2^30 (32-case kernel table on
    the low five bits of the generator mix), so a single non-zero symbol never cancels.
  * the orbit table: `D^j a ≥ 32` for 1 ≤ j ≤ 89, 1 ≤ a ≤ 31 (31 × 89 kernel evaluations), so
    two non-zero symbols at distance ≤ 89 never cancel.
-/
import Buidl.Model.Bech32
namespace Buidl.Bech32
open Buidl

theorem gen_length : Gen.bech32Gen.length = Gen.polymodGenCount := by decide

theorem xor_eq_zero {x y : Nat} (h : x ^^^ y = 0) : x = y := by
  have := congrArg (· ^^^ y) h
  simp only [Nat.xor_assoc, Nat.xor_self, Nat.xor_zero, Nat.zero_xor] at this
  exact this

theorem xor_ne_zero {x y : Nat} (h : x ≠ y) : x ^^^ y ≠ 0 := fun e => h (xor_eq_zero e)

/-- the contribution of generator coefficient `i` for top bits `b` -/
def term (b i : Nat) : Nat := if b.testBit i then genAt i else 0

theorem polymodStep_eq (c v : Nat) : polymodStep c v =
    ((c &&& 0x1FFFFFF) <<< 5) ^^^ v ^^^ term (c >>> 25) 0 ^^^ term (c >>> 25) 1 ^^^ term (c >>> 25) 2
      ^^^ term (c >>> 25) 3 ^^^ term (c >>> 25) 4 := by
  simp only [polymodStep, Gen.polymodTopShift, Gen.polymodLowMask, Gen.polymodShl, Gen.polymodGenCount]
  rfl

theorem term_xor (x y i : Nat) : term (x ^^^ y) i = term x i ^^^ term y i := by
  unfold term
  rw [Nat.testBit_xor]
  cases x.testBit i <;> cases y.testBit i <;> simp

/-- `polymodStep` is linear over XOR -/
theorem polymodStep_xor (a b v w : Nat) :
    polymodStep (a ^^^ b) (v ^^^ w) = polymodStep a v ^^^ polymodStep b w := by
  simp only [polymodStep_eq, Nat.and_xor_distrib_right, Nat.shiftLeft_xor_distrib, Nat.shiftRight_xor_distrib,
    term_xor]
  ac_rfl

/-- `polymodFrom` is linear over XOR (words of equal length) -/
theorem polymodFrom_xor (vs ws : List Nat) (h : vs.length = ws.length) (a b : Nat) :
    polymodFrom (a ^^^ b) (List.zipWith (· ^^^ ·) vs ws) = polymodFrom a vs ^^^ polymodFrom b ws := by
  induction vs generalizing ws a b with
  | nil =>
    cases ws with
    | nil => rfl
    | cons _ _ => simp at h
  | cons v vs ih =>
    cases ws with
    | nil => simp at h
    | cons w ws =>
      simp only [List.zipWith_cons_cons, polymodFrom, List.foldl_cons]
      rw [polymodStep_xor]
      exact ih ws (by simpa using h) _ _

theorem polymodFrom_append (c : Nat) (a b : List Nat) :
    polymodFrom c (a ++ b) = polymodFrom (polymodFrom c a) b := by
  simp [polymodFrom, List.foldl_append]

/-- the difference of two checksums is the checksum of the difference word, started at 0 -/
theorem polymodFrom_diff (c : Nat) (vs ws : List Nat) (h : vs.length = ws.length) :
    polymodFrom c vs ^^^ polymodFrom c ws = polymodFrom 0 (List.zipWith (· ^^^ ·) vs ws) := by
  rw [← polymodFrom_xor vs ws h, Nat.xor_self]

/-! ### states stay below 2^30 -/

theorem genAt_lt (i : Nat) : genAt i < 2 ^ 30 := by
  by_cases h : i < 5
  · have : ∀ j < 5, genAt j < 2 ^ 30 := by decide
    exact this i h
  · have : Gen.bech32Gen[i]? = none := by
      apply List.getElem?_eq_none
      have := gen_length; simp only [Gen.polymodGenCount] at this; omega
    simp [genAt, this]

theorem term_lt (b i : Nat) : term b i < 2 ^ 30 := by
  unfold term; split
  · exact genAt_lt i
  · exact Nat.pow_pos (by omega)

theorem polymodStep_lt (c v : Nat) (hv : v < 2 ^ 30) : polymodStep c v < 2 ^ 30 := by
  rw [polymodStep_eq]
  have h1 : (c &&& 0x1FFFFFF) <<< 5 < 2 ^ 30 := by
    have : c &&& 0x1FFFFFF < 2 ^ 25 := Nat.and_lt_two_pow c (by omega)
    rw [Nat.shiftLeft_eq]; omega
  exact Nat.xor_lt_two_pow (Nat.xor_lt_two_pow (Nat.xor_lt_two_pow (Nat.xor_lt_two_pow
    (Nat.xor_lt_two_pow (Nat.xor_lt_two_pow h1 hv) (term_lt _ _)) (term_lt _ _)) (term_lt _ _)) (term_lt _ _))
    (term_lt _ _)

theorem polymodFrom_lt (c : Nat) (vs : List Nat) (hc : c < 2 ^ 30) (hvs : ∀ v ∈ vs, v < 2 ^ 30) :
    polymodFrom c vs < 2 ^ 30 := by
  induction vs generalizing c with
  | nil => exact hc
  | cons v vs ih =>
    simp only [polymodFrom, List.foldl_cons]
    exact ih _ (polymodStep_lt c v (hvs v (by simp))) (fun x hx => hvs x (by simp [hx]))

/-! ### the zero-input map `D c = polymodStep c 0` -/

theorem polymodStep_zero_zero : polymodStep 0 0 = 0 := by decide

theorem polymodFrom_zero_zeros (k : Nat) : polymodFrom 0 (List.replicate k 0) = 0 := by
  induction k with
  | zero => rfl
  | succ k ih => simp only [List.replicate_succ, polymodFrom, List.foldl_cons, polymodStep_zero_zero]; exact ih

theorem polymodStep_zero_left (v : Nat) : polymodStep 0 v = v := by
  rw [polymodStep_eq]; simp [term]

/-- `polymodStep c v = D c ^^^ v` -/
theorem polymodStep_split (c v : Nat) : polymodStep c v = polymodStep c 0 ^^^ v := by
  have := polymodStep_xor c 0 0 v
  rw [Nat.xor_zero, Nat.zero_xor, polymodStep_zero_left] at this
  exact this

/-- the generator mix of the five top bits, low five bits only: trivial kernel (32 cases) -/
theorem mix_low5_kernel : ∀ b < 32,
    (term b 0 ^^^ term b 1 ^^^ term b 2 ^^^ term b 3 ^^^ term b 4) % 32 = 0 → b = 0 := by
  decide +kernel

/-- the low five bits of the generator mix determine the five top bits (1024 cases) -/
theorem mix_low5_injective : ∀ b < 32, ∀ b' < 32,
    (term b 0 ^^^ term b 1 ^^^ term b 2 ^^^ term b 3 ^^^ term b 4) % 32 =
    (term b' 0 ^^^ term b' 1 ^^^ term b' 2 ^^^ term b' 3 ^^^ term b' 4) % 32 → b = b' := by
  decide +kernel

theorem xor_mod_two_pow (x y n : Nat) : (x ^^^ y) % 2 ^ n = (x % 2 ^ n) ^^^ (y % 2 ^ n) := by
  apply Nat.eq_of_testBit_eq
  intro i
  simp only [Nat.testBit_mod_two_pow, Nat.testBit_xor]
  cases decide (i < n) <;> simp

/-- `D` has trivial kernel on states below 2^30 -/
theorem polymodStep_zero_kernel (c : Nat) (hc : c < 2 ^ 30) (h : polymodStep c 0 = 0) : c = 0 := by
  rw [polymodStep_eq, Nat.xor_zero] at h
  have hb : c >>> 25 < 32 := by rw [Nat.shiftRight_eq_div_pow]; omega
  simp only [Nat.xor_assoc] at h
  have hS := xor_eq_zero h
  have hlow : ((c &&& 0x1FFFFFF) <<< 5) % 32 = 0 := by rw [Nat.shiftLeft_eq]; omega
  have hmix : (term (c >>> 25) 0 ^^^ term (c >>> 25) 1 ^^^ term (c >>> 25) 2 ^^^ term (c >>> 25) 3
      ^^^ term (c >>> 25) 4) % 32 = 0 := by
    simp only [Nat.xor_assoc]; rw [← hS]; exact hlow
  have hb0 := mix_low5_kernel _ hb hmix
  rw [hb0] at hS
  have hS0 : (c &&& 0x1FFFFFF) <<< 5 = 0 := by rw [hS]; decide
  have hc25 : c < 2 ^ 25 := by
    rw [Nat.shiftRight_eq_div_pow] at hb0; omega
  have hand : c &&& 0x1FFFFFF = c := by
    have := Nat.and_two_pow_sub_one_eq_mod c 25
    rw [show (0x1FFFFFF : Nat) = 2 ^ 25 - 1 by decide, this, Nat.mod_eq_of_lt hc25]
  rw [hand, Nat.shiftLeft_eq] at hS0
  omega

/-- zeros never cancel a non-zero state -/
theorem polymodFrom_zeros_ne_zero (k c : Nat) (hc : c < 2 ^ 30) (h0 : c ≠ 0) :
    polymodFrom c (List.replicate k 0) ≠ 0 := by
  induction k generalizing c with
  | zero => exact h0
  | succ k ih =>
    simp only [List.replicate_succ, polymodFrom, List.foldl_cons]
    exact ih _ (polymodStep_lt c 0 (by omega)) (fun e => h0 (polymodStep_zero_kernel c hc e))

/-! ### one substituted symbol -/

theorem zipWith_xor_self (l : List Nat) : List.zipWith (· ^^^ ·) l l = List.replicate l.length 0 := by
  induction l with
  | nil => rfl
  | cons x xs ih => rw [List.zipWith_cons_cons, ih, Nat.xor_self, List.length_cons, List.replicate_succ]

/-- Two words that differ in exactly one symbol (both symbols below 2^30, e.g. 5-bit) never
    have the same checksum, whatever the start state, prefix, suffix and length. -/
theorem polymodFrom_single (c : Nat) (pre post : List Nat) (x y : Nat) (hx : x < 2 ^ 30) (hy : y < 2 ^ 30)
    (hxy : x ≠ y) : polymodFrom c (pre ++ x :: post) ≠ polymodFrom c (pre ++ y :: post) := by
  intro heq
  have hd := polymodFrom_diff c (pre ++ x :: post) (pre ++ y :: post) (by simp)
  rw [heq, Nat.xor_self] at hd
  have hz : List.zipWith (· ^^^ ·) (pre ++ x :: post) (pre ++ y :: post) =
      List.replicate pre.length 0 ++ (x ^^^ y) :: List.replicate post.length 0 := by
    rw [List.zipWith_append (by rfl), List.zipWith_cons_cons, zipWith_xor_self, zipWith_xor_self]
  rw [hz, polymodFrom_append, polymodFrom_zero_zeros] at hd
  simp only [polymodFrom, List.foldl_cons] at hd
  rw [polymodStep_zero_left] at hd
  exact polymodFrom_zeros_ne_zero post.length (x ^^^ y) (Nat.xor_lt_two_pow hx hy) (xor_ne_zero hxy) hd.symm

/-! ### two substituted symbols -/

/-- along the orbit of `c` under `D`, the next `n` states are all ≥ 32 -/
def orbitGe32 : Nat → Nat → Bool
  | 0, _ => true
  | n + 1, c => decide (32 ≤ polymodStep c 0) && orbitGe32 n (polymodStep c 0)

/-- the kernel table: 31 start symbols × 89 steps -/
theorem orbit_table : ∀ a < 32, a ≠ 0 → orbitGe32 89 a = true := by decide +kernel

theorem orbitGe32_spec (n c : Nat) (h : orbitGe32 n c = true) (j : Nat) (hj : j < n) :
    32 ≤ polymodFrom c (List.replicate (j + 1) 0) := by
  induction n generalizing c j with
  | zero => omega
  | succ n ih =>
    simp only [orbitGe32, Bool.and_eq_true, decide_eq_true_eq] at h
    cases j with
    | zero => simpa [polymodFrom] using h.1
    | succ j =>
      have := ih _ h.2 j (by omega)
      simpa [polymodFrom, List.replicate_succ] using this

/-- Two words that differ in exactly two symbols (5-bit symbols) at distance at most 89
    never have the same checksum. -/
theorem polymodFrom_double (c : Nat) (pre mid post : List Nat) (x y x' y' : Nat)
    (hx : x < 32) (hy : y < 32) (hx' : x' < 32) (hy' : y' < 32) (hxy : x ≠ y) (hxy' : x' ≠ y')
    (hmid : mid.length < 89) :
    polymodFrom c (pre ++ x :: mid ++ x' :: post) ≠ polymodFrom c (pre ++ y :: mid ++ y' :: post) := by
  intro heq
  have hd := polymodFrom_diff c (pre ++ x :: mid ++ x' :: post) (pre ++ y :: mid ++ y' :: post) (by simp)
  rw [heq, Nat.xor_self] at hd
  have hz : List.zipWith (· ^^^ ·) (pre ++ x :: mid ++ x' :: post) (pre ++ y :: mid ++ y' :: post) =
      List.replicate pre.length 0 ++ (x ^^^ y) :: List.replicate mid.length 0 ++ (x' ^^^ y') ::
        List.replicate post.length 0 := by
    rw [List.zipWith_append (by simp), List.zipWith_append (by rfl), List.zipWith_cons_cons,
      List.zipWith_cons_cons, zipWith_xor_self, zipWith_xor_self, zipWith_xor_self]
  rw [hz, List.append_assoc, polymodFrom_append, polymodFrom_zero_zeros] at hd
  have ha : x ^^^ y < 32 := Nat.xor_lt_two_pow (n := 5) hx hy
  have hb : x' ^^^ y' < 32 := Nat.xor_lt_two_pow (n := 5) hx' hy'
  have ha0 : x ^^^ y ≠ 0 := xor_ne_zero hxy
  have hb0 : x' ^^^ y' ≠ 0 := xor_ne_zero hxy'
  -- state after the first difference symbol and the zeros in between
  have hstep : polymodFrom 0 ((x ^^^ y) :: List.replicate mid.length 0 ++ (x' ^^^ y') :: List.replicate post.length 0)
      = polymodFrom (polymodFrom (x ^^^ y) (List.replicate (mid.length + 1) 0) ^^^ (x' ^^^ y'))
          (List.replicate post.length 0) := by
    have hsucc : polymodFrom (x ^^^ y) (List.replicate (mid.length + 1) 0) =
        polymodStep (polymodFrom (x ^^^ y) (List.replicate mid.length 0)) 0 := by
      rw [List.replicate_succ', polymodFrom_append]; rfl
    rw [polymodFrom_append, hsucc]
    simp only [polymodFrom, List.foldl_cons, polymodStep_zero_left]
    rw [← polymodStep_split]
  rw [hstep] at hd
  have hge : 32 ≤ polymodFrom (x ^^^ y) (List.replicate (mid.length + 1) 0) :=
    orbitGe32_spec 89 _ (orbit_table _ ha ha0) mid.length hmid
  have hlt : polymodFrom (x ^^^ y) (List.replicate (mid.length + 1) 0) < 2 ^ 30 :=
    polymodFrom_lt _ _ (by omega) (by intro v hv; rw [List.eq_of_mem_replicate hv]; omega)
  have hne : polymodFrom (x ^^^ y) (List.replicate (mid.length + 1) 0) ^^^ (x' ^^^ y') ≠ 0 := by
    apply xor_ne_zero; omega
  exact polymodFrom_zeros_ne_zero post.length _ (Nat.xor_lt_two_pow hlt (by omega)) hne hd.symm

/-! ### one substituted symbol that also switches the target constant (bech32 ↔ bech32m) -/

/-- along the orbit of `c` under `D`, the next `n` states all differ from `t` -/
def orbitNe (t : Nat) : Nat → Nat → Bool
  | 0, _ => true
  | n + 1, c => decide (polymodStep c 0 ≠ t) && orbitNe t n (polymodStep c 0)

theorem orbit_table_switch : ∀ a < 32, a ≠ 0 →
    (a ≠ (Gen.b32VerifyConst ^^^ Gen.b32mVerifyConst) ∧
      orbitNe (Gen.b32VerifyConst ^^^ Gen.b32mVerifyConst) 89 a = true) := by decide +kernel

theorem orbitNe_spec (t n c : Nat) (h : orbitNe t n c = true) (j : Nat) (hj : j < n) :
    polymodFrom c (List.replicate (j + 1) 0) ≠ t := by
  induction n generalizing c j with
  | zero => omega
  | succ n ih =>
    simp only [orbitNe, Bool.and_eq_true, decide_eq_true_eq] at h
    cases j with
    | zero => simpa [polymodFrom] using h.1
    | succ j =>
      have := ih _ h.2 j (by omega)
      simpa [polymodFrom, List.replicate_succ] using this

/-- If a word has the bech32 checksum constant, the word obtained by substituting one symbol
    followed by at most 89 further symbols does not have the bech32m constant (and vice versa). -/
theorem polymodFrom_single_switch (c : Nat) (pre post : List Nat) (x y : Nat) (hx : x < 32) (hy : y < 32)
    (hxy : x ≠ y) (hpost : post.length ≤ 89) :
    polymodFrom c (pre ++ x :: post) ^^^ polymodFrom c (pre ++ y :: post)
      ≠ Gen.b32VerifyConst ^^^ Gen.b32mVerifyConst := by
  rw [polymodFrom_diff c _ _ (by simp)]
  have hz : List.zipWith (· ^^^ ·) (pre ++ x :: post) (pre ++ y :: post) =
      List.replicate pre.length 0 ++ (x ^^^ y) :: List.replicate post.length 0 := by
    rw [List.zipWith_append (by rfl), List.zipWith_cons_cons, zipWith_xor_self, zipWith_xor_self]
  rw [hz, polymodFrom_append, polymodFrom_zero_zeros]
  simp only [polymodFrom, List.foldl_cons]
  rw [polymodStep_zero_left]
  have ha : x ^^^ y < 32 := Nat.xor_lt_two_pow (n := 5) hx hy
  have ha0 : x ^^^ y ≠ 0 := xor_ne_zero hxy
  obtain ⟨h0, htab⟩ := orbit_table_switch _ ha ha0
  cases hp : post.length with
  | zero => simpa using h0
  | succ k =>
    have := orbitNe_spec _ 89 _ htab k (by omega)
    simpa [polymodFrom] using this

end Buidl.Bech32
