/-
  Helper lemmas for C01 (ECDSA): Buidl.Model.ECDSA against Buidl.Spec.RFC6979 / Buidl.Spec.ECDSA.
  Part 1 (this file) needs neither the group law nor primality.
-/
import Buidl.Model.ECDSA
import Buidl.Spec.RFC6979
import Buidl.Proofs.Bytes
namespace Buidl.ECDSA
open Buidl Buidl.EC

/-! ### the extracted comparisons, as evaluated -/

theorem detkReduce_eq (z : Nat) : detkReduce z = decide (z ≥ N) := by
  simp [detkReduce, cmpAt, Gen.detkCmp, cmpOp]

theorem detkCandOK_eq (c : Nat) : detkCandOK c = decide (1 ≤ c ∧ c < N) := by
  simp [detkCandOK, cmpAt, Gen.detkCmp, cmpOp]

/-- the low-S threshold is the integer `N / 2` (F01b repaired: not the float 2^255) -/
theorem lowSRhs_eq : Gen.lowSRhs = N / 2 := by decide

theorem highS_eq (s : Nat) : highS s = decide (s > N / 2) := by
  simp [highS, cmpOp, Gen.lowSOp, lowSRhs_eq]

theorem rangeOK_eq (r s : Nat) : rangeOK r s = decide (1 ≤ r ∧ r < N ∧ 1 ≤ s ∧ s < N) := by
  simp [rangeOK, cmpAt, Gen.verifyRange, cmpOp, Bool.and_assoc]

/-! numeric facts about the group order, in the form `omega` can use (with `N` as an atom) -/
theorem N_pos : 0 < N := by decide
theorem N_odd : N % 2 = 1 := by decide
theorem N_lt : N < 2 ^ 256 := by decide
theorem two_N_gt : 2 ^ 256 < 2 * N := by decide
theorem N_gt_one : 1 < N := by decide

theorem validSecret_eq (d : Nat) : validSecret d = decide (1 ≤ d ∧ d < N) := by
  simp only [validSecret, N, Gen.secpN]
  by_cases h1 : 1 ≤ d <;>
    by_cases h2 : d < 115792089237316195423570985008687907852837564279074904382605163141518161494337 <;>
    simp [h1, h2] <;> omega

/-! ### RFC 6979 -/

open Spec.RFC6979 in
theorem genT_256 (hmac : Bytes → Bytes → Bytes) (hlen : ∀ k m, (hmac k m).length = 32) (K V : Bytes) :
    genT hmac 256 K 256 V [] = (hmac K V, hmac K V) := by
  show genT hmac 256 K (254 + 1 + 1) V [] = _
  simp [genT, hlen]

open Spec.RFC6979 in
theorem detkLoop_eq_stepH (hmac : Bytes → Bytes → Bytes) (hlen : ∀ k m, (hmac k m).length = 32) :
    ∀ (fuel : Nat) (K V : Bytes), detkLoop hmac fuel K V =
      match stepH hmac N 256 fuel K V with
      | some k => .ok k
      | none => .error .outOfFuel := by
  intro fuel
  induction fuel with
  | zero => intro K V; rfl
  | succ n ih =>
    intro K V
    have hb : bits2int 256 (hmac K V) = beToNat (hmac K V) := by simp [bits2int, hlen]
    simp only [detkLoop, stepH, genT_256 hmac hlen, detkCandOK_eq, hb]
    by_cases h : 1 ≤ beToNat (hmac K V) ∧ beToNat (hmac K V) < N
    · simp [h]
    · simp only [h, decide_false, Bool.false_eq_true, if_false]
      rw [ih]

theorem reduce_eq_mod {z : Nat} (hz : z < 2 ^ 256) : (if z ≥ N then z - N else z) = z % N := by
  simp only [N, Gen.secpN] at *
  split <;> omega

/-- **PrivateKey.deterministic_k is RFC 6979 section 3.2** (HMAC-SHA256 instance, qlen = 256):
    for every HMAC with 32-byte outputs, every secret and digest integer below 2^256 and every
    amount of fuel, the code's loop and the RFC's step h agree (also on running out of fuel). -/
theorem deterministicK_eq_spec (hmac : Bytes → Bytes → Bytes) (hlen : ∀ k m, (hmac k m).length = 32)
    (fuel d z : Nat) (hd : d < 2 ^ 256) (hz : z < 2 ^ 256) :
    deterministicK hmac fuel d z =
      match Spec.RFC6979.rfc6979 hmac fuel d z with
      | some k => .ok k
      | none => .error .outOfFuel := by
  have hzr : z % N < 256 ^ 32 := by
    have : z % N ≤ z := Nat.mod_le _ _
    have e : (256 : Nat) ^ 32 = 2 ^ 256 := by decide
    omega
  have hd' : d < 256 ^ 32 := by
    have e : (256 : Nat) ^ 32 = 2 ^ 256 := by decide
    omega
  have hz' : z < 256 ^ 32 := by
    have e : (256 : Nat) ^ 32 = 2 ^ 256 := by decide
    omega
  have hb : Spec.RFC6979.bits2octets N 256 (natToBE' 32 z) = natToBE' 32 (z % N) := by
    simp [Spec.RFC6979.bits2octets, Spec.RFC6979.bits2int, Spec.RFC6979.int2octets, beToNat_natToBE' hz']
  have hi : Spec.RFC6979.int2octets 256 d = natToBE' 32 d := by
    simp [Spec.RFC6979.int2octets]
  simp only [deterministicK, detkReduce_eq, decide_eq_true_eq, reduce_eq_mod hz, natToBE, hzr, hd',
    if_true, Spec.RFC6979.rfc6979, Spec.RFC6979.generateK, hb, hi]
  exact detkLoop_eq_stepH hmac hlen fuel _ _

/-- more fuel never changes an answer already given -/
theorem detkLoop_mono (hmac : Bytes → Bytes → Bytes) : ∀ (fuel : Nat) (K V : Bytes) (k : Nat),
    detkLoop hmac fuel K V = .ok k → ∀ extra, detkLoop hmac (fuel + extra) K V = .ok k := by
  intro fuel
  induction fuel with
  | zero => intro K V k h; cases h
  | succ n ih =>
    intro K V k h extra
    rw [show n + 1 + extra = (n + extra) + 1 by omega]
    simp only [detkLoop] at h ⊢
    split
    · next hc => simpa [hc] using h
    · next hc =>
      simp only [hc] at h
      exact ih _ _ _ h extra

/-- every nonce returned lies in [1, N-1] -/
theorem detkLoop_range (hmac : Bytes → Bytes → Bytes) : ∀ (fuel : Nat) (K V : Bytes) (k : Nat),
    detkLoop hmac fuel K V = .ok k → 1 ≤ k ∧ k < N := by
  intro fuel
  induction fuel with
  | zero => intro K V k h; cases h
  | succ n ih =>
    intro K V k h
    simp only [detkLoop] at h
    split at h
    · next hc =>
      injection h with h; subst h
      simpa [detkCandOK_eq] using hc
    · exact ih _ _ _ h

theorem deterministicK_range (hmac : Bytes → Bytes → Bytes) (fuel d z k : Nat)
    (h : deterministicK hmac fuel d z = .ok k) : 1 ≤ k ∧ k < N := by
  simp only [deterministicK] at h
  split at h
  · exact detkLoop_range hmac _ _ _ _ h
  · cases h

/-! ### DER -/

/-- the loop of Signature.der with its comparisons written out -/
def stripS : Bytes → Option Bytes
  | [] => none
  | b0 :: rest =>
    if b0.toNat = 0 then
      match rest with
      | [] => none
      | b1 :: _ => if b1.toNat ≥ 128 then some (b0 :: rest) else stripS rest
    else some (b0 :: rest)

theorem stripS_cons_cons (b0 b1 : UInt8) (t : Bytes) : stripS (b0 :: b1 :: t) =
    if b0.toNat = 0 then (if b1.toNat ≥ 128 then some (b0 :: b1 :: t) else stripS (b1 :: t))
    else some (b0 :: b1 :: t) := by rw [stripS]

theorem derStrip_cons_cons (i : Nat) (b0 b1 : UInt8) (t : Bytes) : derStrip i (b0 :: b1 :: t) =
    if cmpAt Gen.derCmp i b0.toNat then
      (if cmpAt Gen.derCmp (i + 1) b1.toNat then some (b0 :: b1 :: t) else derStrip i (b1 :: t))
    else some (b0 :: b1 :: t) := by rw [derStrip]

theorem derStrip_eq (i : Nat) (hi : i = 1 ∨ i = 4) (l : Bytes) : derStrip i l = stripS l := by
  induction l with
  | nil => rfl
  | cons b0 rest ih =>
    cases rest with
    | nil => rcases hi with rfl | rfl <;> simp [derStrip, stripS, cmpAt, Gen.derCmp, cmpOp]
    | cons b1 t =>
      rw [derStrip_cons_cons, stripS_cons_cons, ih]
      rcases hi with rfl | rfl <;> simp [cmpAt, Gen.derCmp, cmpOp]

/-- DER content octets of a positive INTEGER `n`: big-endian, first octet below 0x80 (positive),
    and no superfluous leading zero octet (a leading 00 is followed by an octet ≥ 0x80) -/
def MinimalInt (R : Bytes) (n : Nat) : Prop :=
  beToNat R = n ∧ ∃ b0 t, R = b0 :: t ∧ b0.toNat < 128 ∧
    (b0.toNat = 0 → ∃ b1 t', t = b1 :: t' ∧ 128 ≤ b1.toNat)

theorem beToNat_cons_zero (b0 : UInt8) (rest : Bytes) (h : b0.toNat = 0) :
    beToNat (b0 :: rest) = beToNat rest := by
  simp [beToNat, beToNatAux, h]

theorem stripS_spec : ∀ l : Bytes, beToNat l ≠ 0 → (∀ b t, l = b :: t → b.toNat < 128) →
    ∃ R, stripS l = some R ∧ MinimalInt R (beToNat l) ∧ R.length ≤ l.length := by
  intro l
  induction l with
  | nil => intro h; exact absurd rfl h
  | cons b0 rest ih =>
    intro hne hhead
    have hb0 := hhead b0 rest rfl
    by_cases h0 : b0.toNat = 0
    · cases rest with
      | nil => exact absurd (by simp [beToNat, beToNatAux, h0]) hne
      | cons b1 t =>
        by_cases h1 : b1.toNat ≥ 128
        · refine ⟨b0 :: b1 :: t, by rw [stripS_cons_cons]; simp [h0, h1], ⟨rfl, b0, b1 :: t, rfl, hb0, fun _ => ⟨b1, t, rfl, h1⟩⟩, Nat.le_refl _⟩
        · have e := beToNat_cons_zero b0 (b1 :: t) h0
          obtain ⟨R, hR, hmin, hlen⟩ := ih (by rw [← e]; exact hne) (by intro b t' hbt; cases hbt; omega)
          refine ⟨R, by rw [stripS_cons_cons]; simp [h0, h1, hR], by rw [e]; exact hmin, by simp at hlen ⊢; omega⟩
    · exact ⟨b0 :: rest, by simp [stripS, h0], ⟨rfl, b0, rest, rfl, hb0, fun h => absurd h h0⟩, Nat.le_refl _⟩

theorem derInt_spec (i : Nat) (hi : i = 0 ∨ i = 3) (n : Nat) (h1 : 1 ≤ n) (h2 : n < 2 ^ 256) :
    ∃ R, derInt i n = some ([2, UInt8.ofNat R.length] ++ R) ∧ MinimalInt R n ∧ R.length ≤ 33 := by
  have h2' : n < 256 ^ 32 := by
    have e : (256 : Nat) ^ 32 = 2 ^ 256 := by decide
    omega
  have hlen := natToBE'_length 32 n
  have hval := beToNat_natToBE' h2'
  cases hbin : natToBE' 32 n with
  | nil => rw [hbin] at hlen; cases hlen
  | cons b0 t =>
    rw [hbin] at hlen hval
    have hi' : i + 1 = 1 ∨ i + 1 = 4 := by omega
    have hc : cmpAt Gen.derCmp i b0.toNat = decide (b0.toNat ≥ 128) := by
      rcases hi with rfl | rfl <;> simp [cmpAt, Gen.derCmp, cmpOp]
    simp only [derInt, natToBE, h2', if_true, hbin, hc, derStrip_eq _ hi']
    by_cases hb : b0.toNat ≥ 128
    · obtain ⟨R, hR, hmin, hl⟩ := stripS_spec (0 :: b0 :: t)
        (by rw [beToNat_cons_zero _ _ rfl, hval]; omega) (by intro b t' h; cases h; decide)
      rw [beToNat_cons_zero _ _ rfl, hval] at hmin
      simp only [List.length_cons] at hl hlen
      refine ⟨R, ?_, hmin, by omega⟩
      have : R.length < 256 := by omega
      simp [hb, hR, this]
    · obtain ⟨R, hR, hmin, hl⟩ := stripS_spec (b0 :: t) (by rw [hval]; omega)
        (by intro b t' h; cases h; omega)
      rw [hval] at hmin
      simp only [List.length_cons] at hl hlen
      refine ⟨R, ?_, hmin, by omega⟩
      have : R.length < 256 := by omega
      simp [hb, hR, this]

theorem u8_toNat_ofNat_lt {k : Nat} (h : k < 256) : (UInt8.ofNat k).toNat = k := by
  rw [u8_ofNat_toNat, Nat.mod_eq_of_lt h]

/-- Signature.parse on the DER layout `30 L 02 |R| R 02 |S| S` -/
theorem parseDer_layout (R S : Bytes) (hR : R ≠ []) (hS : S ≠ []) (hlr : R.length ≤ 33) (hls : S.length ≤ 33) :
    parseDer ([0x30, UInt8.ofNat (2 + R.length + (2 + S.length))] ++
      (([2, UInt8.ofNat R.length] ++ R) ++ ([2, UInt8.ofNat S.length] ++ S))) = some (beToNat R, beToNat S) := by
  have m1 : (2 + R.length + (2 + S.length)) % 256 = 2 + R.length + (2 + S.length) := Nat.mod_eq_of_lt (by omega)
  have m2 : R.length % 256 = R.length := Nat.mod_eq_of_lt (by omega)
  have m3 : S.length % 256 = S.length := Nat.mod_eq_of_lt (by omega)
  have n2 : R.length ≠ 0 := by cases R <;> simp_all
  have n3 : S.length ≠ 0 := by cases S <;> simp_all
  simp [parseDer, read1, readInt, sread, cmpAt, Gen.parseDerCmp, cmpOp, hR, hS, m1, m2, m3, n2, n3]
  omega

/-- Signature.der for `1 ≤ r, s < 2^256`: the DER layout with minimal INTEGER contents -/
theorem der_spec (r s : Nat) (hr1 : 1 ≤ r) (hr2 : r < 2 ^ 256) (hs1 : 1 ≤ s) (hs2 : s < 2 ^ 256) :
    ∃ R S, MinimalInt R r ∧ MinimalInt S s ∧ R.length ≤ 33 ∧ S.length ≤ 33 ∧
      der r s = some ([0x30, UInt8.ofNat (2 + R.length + (2 + S.length))] ++
        (([2, UInt8.ofNat R.length] ++ R) ++ ([2, UInt8.ofNat S.length] ++ S))) := by
  obtain ⟨R, hR, mR, lR⟩ := derInt_spec 0 (Or.inl rfl) r hr1 hr2
  obtain ⟨S, hS, mS, lS⟩ := derInt_spec 3 (Or.inr rfl) s hs1 hs2
  refine ⟨R, S, mR, mS, lR, lS, ?_⟩
  have hl : ([2, UInt8.ofNat R.length] ++ R ++ ([2, UInt8.ofNat S.length] ++ S)).length
      = 2 + R.length + (2 + S.length) := by simp; omega
  simp only [der, hR, hS, hl]
  rw [if_pos (by omega)]

theorem MinimalInt.ne_nil {R : Bytes} {n : Nat} (h : MinimalInt R n) : R ≠ [] := by
  obtain ⟨_, b0, t, rfl, _⟩ := h
  simp

/-! ### range check and low S -/

theorem verify_out_of_range (Q : Pt) (z r s : Nat) (h : r = 0 ∨ s = 0 ∨ r ≥ N ∨ s ≥ N) :
    verify Q z r s = some false := by
  have : rangeOK r s = false := by
    rw [rangeOK_eq]; simp; omega
  simp [verify, this]

theorem verify_true_range (Q : Pt) (z r s : Nat) (h : verify Q z r s = some true) :
    1 ≤ r ∧ r < N ∧ 1 ≤ s ∧ s < N := by
  by_cases hr : rangeOK r s = true
  · simpa [rangeOK_eq] using hr
  · simp [verify, hr] at h

/-- the `s` returned by the signing equation is at most `(N - 1) / 2` -/
theorem signWith_lowS (k d z r s : Nat) (h : signWith k d z = some (r, s)) : s ≤ (N - 1) / 2 := by
  simp only [signWith] at h
  split at h
  · cases h
  · next x y hx =>
    simp only [Option.some.injEq, Prod.mk.injEq, highS_eq, decide_eq_true_eq] at h
    obtain ⟨_, hs⟩ := h
    have hlt : (z + x * d) * powmod k (N - 2) N % N < N := Nat.mod_lt _ N_pos
    generalize (z + x * d) * powmod k (N - 2) N % N = s0 at hs hlt
    simp only [N, Gen.secpN] at *
    split at hs <;> omega

end Buidl.ECDSA
