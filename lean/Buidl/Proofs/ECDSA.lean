/-
  Helper lemmas for C01 (ECDSA): Buidl.Model.ECDSA against Buidl.Spec.RFC6979 / Buidl.Spec.ECDSA.
  Part 1 (this file) needs neither the group law nor primality.
-/
import Buidl.Model.ECDSA
import Buidl.Spec.RFC6979
import Buidl.Proofs.Bytes
namespace Buidl.ECDSA
open Buidl Buidl.EC

/-! ### the extracted comparisons, as evaluated -/

theorem detkReduce_eq (z : Nat) : detkReduce z = decide (z ≥ N) := by
  simp [detkReduce, cmpAt, Gen.detkCmp, cmpOp]

theorem detkCandOK_eq (c : Nat) : detkCandOK c = decide (1 ≤ c ∧ c < N) := by
  simp [detkCandOK, cmpAt, Gen.detkCmp, cmpOp]

/-- the low-S threshold is the integer `N / 2` (F01b repaired: not the float 2^255) -/
theorem lowSRhs_eq : Gen.lowSRhs = N / 2 := by decide

theorem highS_eq (s : Nat) : highS s = decide (s > N / 2) := by
  simp [highS, cmpOp, Gen.lowSOp, lowSRhs_eq]

theorem rangeOK_eq (r s : Nat) : rangeOK r s = decide (1 ≤ r ∧ r < N ∧ 1 ≤ s ∧ s < N) := by
  simp [rangeOK, cmpAt, Gen.verifyRange, cmpOp, Bool.and_assoc]

/-! numeric facts about the group order, in the form `omega` can use (with `N` as an atom) -/
theorem N_pos : 0 < N := by decide
theorem N_odd : N % 2 = 1 := by decide
theorem N_lt : N < 2 ^ 256 := by decide
theorem two_N_gt : 2 ^ 256 < 2 * N := by decide
theorem N_gt_one : 1 < N := by decide

theorem validSecret_eq (d : Nat) : validSecret d = decide (1 ≤ d ∧ d < N) := by
  simp only [validSecret, N, Gen.secpN]
  by_cases h1 : 1 ≤ d <;>
    by_cases h2 : d < 115792089237316195423570985008687907852837564279074904382605163141518161494337 <;>
    simp [h1, h2] <;> omega

/-! ### RFC 6979 -/

open Spec.RFC6979 in
theorem genT_256 (hmac : Bytes → Bytes → Bytes) (hlen : ∀ k m, (hmac k m).length = 32) (K V : Bytes) :
    genT hmac 256 K 256 V [] = (hmac K V, hmac K V) := by
  show genT hmac 256 K (254 + 1 + 1) V [] = _
  simp [genT, hlen]

open Spec.RFC6979 in
theorem detkLoop_eq_stepH (hmac : Bytes → Bytes → Bytes) (hlen : ∀ k m, (hmac k m).length = 32) :
    ∀ (fuel : Nat) (K V : Bytes), detkLoop hmac fuel K V =
      match stepH hmac N 256 fuel K V with
      | some k => .ok k
      | none => .error .outOfFuel := by
  intro fuel
  induction fuel with
  | zero => intro K V; rfl
  | succ n ih =>
    intro K V
    have hb : bits2int 256 (hmac K V) = beToNat (hmac K V) := by simp [bits2int, hlen]
    simp only [detkLoop, stepH, genT_256 hmac hlen, detkCandOK_eq, hb]
    by_cases h : 1 ≤ beToNat (hmac K V) ∧ beToNat (hmac K V) < N
    · simp [h]
    · simp only [h, decide_false, Bool.false_eq_true, if_false]
      rw [ih]

theorem reduce_eq_mod {z : Nat} (hz : z < 2 ^ 256) : (if z ≥ N then z - N else z) = z % N := by
  simp only [N, Gen.secpN] at *
  split <;> omega

/-- **PrivateKey.deterministic_k is RFC 6979 section 3.2** (HMAC-SHA256 instance, qlen = 256):
    for every HMAC with 32-byte outputs, every secret and digest integer below 2^256 and every
    amount of fuel, the code's loop and the RFC's step h agree (also on running out of fuel). -/
theorem deterministicK_eq_spec (hmac : Bytes → Bytes → Bytes) (hlen : ∀ k m, (hmac k m).length = 32)
    (fuel d z : Nat) (hd : d < 2 ^ 256) (hz : z < 2 ^ 256) :
    deterministicK hmac fuel d z =
      match Spec.RFC6979.rfc6979 hmac fuel d z with
      | some k => .ok k
      | none => .error .outOfFuel := by
  have hzr : z % N < 256 ^ 32 := by
    have : z % N ≤ z := Nat.mod_le _ _
    have e : (256 : Nat) ^ 32 = 2 ^ 256 := by decide
    omega
  have hd' : d < 256 ^ 32 := by
    have e : (256 : Nat) ^ 32 = 2 ^ 256 := by decide
    omega
  have hz' : z < 256 ^ 32 := by
    have e : (256 : Nat) ^ 32 = 2 ^ 256 := by decide
    omega
  have hb : Spec.RFC6979.bits2octets N 256 (natToBE' 32 z) = natToBE' 32 (z % N) := by
    simp [Spec.RFC6979.bits2octets, Spec.RFC6979.bits2int, Spec.RFC6979.int2octets, beToNat_natToBE' hz']
  have hi : Spec.RFC6979.int2octets 256 d = natToBE' 32 d := by
    simp [Spec.RFC6979.int2octets]
  simp only [deterministicK, detkReduce_eq, decide_eq_true_eq, reduce_eq_mod hz, natToBE, hzr, hd',
    if_true, Spec.RFC6979.rfc6979, Spec.RFC6979.generateK, hb, hi]
  exact detkLoop_eq_stepH hmac hlen fuel _ _

/-- more fuel never changes an answer already given -/
theorem detkLoop_mono (hmac : Bytes → Bytes → Bytes) : ∀ (fuel : Nat) (K V : Bytes) (k : Nat),
    detkLoop hmac fuel K V = .ok k → ∀ extra, detkLoop hmac (fuel + extra) K V = .ok k := by
  intro fuel
  induction fuel with
  | zero => intro K V k h; cases h
  | succ n ih =>
    intro K V k h extra
    rw [show n + 1 + extra = (n + extra) + 1 by omega]
    simp only [detkLoop] at h ⊢
    split
    · next hc => simpa [hc] using h
    · next hc =>
      simp only [hc] at h
      exact ih _ _ _ h extra

/-- every nonce returned lies in [1, N-1] -/
theorem detkLoop_range (hmac : Bytes → Bytes → Bytes) : ∀ (fuel : Nat) (K V : Bytes) (k : Nat),
    detkLoop hmac fuel K V = .ok k → 1 ≤ k ∧ k < N := by
  intro fuel
  induction fuel with
  | zero => intro K V k h; cases h
  | succ n ih =>
    intro K V k h
    simp only [detkLoop] at h
    split at h
    · next hc =>
      injection h with h; subst h
      simpa [detkCandOK_eq] using hc
    · exact ih _ _ _ h

theorem deterministicK_range (hmac : Bytes → Bytes → Bytes) (fuel d z k : Nat)
    (h : deterministicK hmac fuel d z = .ok k) : 1 ≤ k ∧ k < N := by
  simp only [deterministicK] at h
  split at h
  · exact detkLoop_range hmac _ _ _ _ h
  · cases h

end Buidl.ECDSA
