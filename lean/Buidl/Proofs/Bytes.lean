/-
  Helper lemmas about Buidl.Model.Bytes (integer codecs, varint).
-/
import Buidl.Model.Bytes
namespace Buidl

@[simp] theorem natToLE'_length (w n : Nat) : (natToLE' w n).length = w := by
  induction w generalizing n with
  | zero => rfl
  | succ w ih => simp [natToLE', ih]

theorem u8_ofNat_toNat (n : Nat) : (UInt8.ofNat n).toNat = n % 256 := by
  simp [UInt8.toNat_ofNat']

theorem leToNat_natToLE' (w n : Nat) : leToNat (natToLE' w n) = n % 256 ^ w := by
  induction w generalizing n with
  | zero => simp [natToLE', leToNat, Nat.mod_one]
  | succ w ih =>
    simp only [natToLE', leToNat, ih, u8_ofNat_toNat]
    rw [Nat.pow_succ, Nat.mul_comm (256 ^ w) 256, Nat.mod_mul, Nat.mod_mod]

theorem leToNat_natToLE'_of_lt {w n : Nat} (h : n < 256 ^ w) : leToNat (natToLE' w n) = n := by
  rw [leToNat_natToLE', Nat.mod_eq_of_lt h]

theorem leToNat_lt (b : Bytes) : leToNat b < 256 ^ b.length := by
  induction b with
  | nil => simp [leToNat]
  | cons x xs ih =>
    simp only [leToNat, List.length_cons, Nat.pow_succ]
    have := x.toNat_lt
    omega

theorem natToLE'_leToNat (b : Bytes) : natToLE' b.length (leToNat b) = b := by
  induction b with
  | nil => rfl
  | cons x xs ih =>
    simp only [List.length_cons, natToLE', leToNat]
    have hx := x.toNat_lt
    have h1 : (x.toNat + 256 * leToNat xs) % 256 = x.toNat := by omega
    have h2 : (x.toNat + 256 * leToNat xs) / 256 = leToNat xs := by omega
    rw [h1, h2, ih]
    simp

theorem natToLE_some {n w : Nat} (h : n < 256 ^ w) : natToLE n w = some (natToLE' w n) := by
  simp [natToLE, h]

theorem natToLE_length {n w : Nat} {b : Bytes} (h : natToLE n w = some b) : b.length = w := by
  unfold natToLE at h
  split at h
  · cases h; simp
  · cases h

theorem leToNat_of_natToLE {n w : Nat} {b : Bytes} (h : natToLE n w = some b) : leToNat b = n := by
  unfold natToLE at h
  split at h
  · next hlt => cases h; exact leToNat_natToLE'_of_lt hlt
  · cases h

/-- big-endian accumulator -/
theorem beToNatAux_append (acc : Nat) (a b : Bytes) :
    beToNatAux acc (a ++ b) = beToNatAux (beToNatAux acc a) b := by
  induction a generalizing acc with
  | nil => rfl
  | cons x xs ih => simp [beToNatAux, ih]

theorem beToNat_reverse (b : Bytes) : beToNat b.reverse = leToNat b := by
  induction b with
  | nil => rfl
  | cons x xs ih =>
    simp only [List.reverse_cons, beToNat, beToNatAux_append, beToNatAux, leToNat]
    unfold beToNat at ih
    rw [ih]; omega

theorem beToNat_natToBE' {w n : Nat} (h : n < 256 ^ w) : beToNat (natToBE' w n) = n := by
  unfold natToBE'
  rw [beToNat_reverse, leToNat_natToLE'_of_lt h]

@[simp] theorem natToBE'_length (w n : Nat) : (natToBE' w n).length = w := by
  simp [natToBE']

theorem natToBE'_beToNat (b : Bytes) : natToBE' b.length (beToNat b) = b := by
  have := natToLE'_leToNat b.reverse
  unfold natToBE'
  rw [← beToNat_reverse, List.reverse_reverse, List.length_reverse] at this
  rw [this, List.reverse_reverse]

/-! ### varint -/

theorem take_append_len {α} (a b : List α) (n : Nat) (h : a.length = n) : (a ++ b).take n = a := by
  subst h; simp

theorem drop_append_len {α} (a b : List α) (n : Nat) (h : a.length = n) : (a ++ b).drop n = b := by
  subst h; simp

theorem encodeVarint_c0 {n : Nat} (h : n < 0xFD) : encodeVarint n = some [UInt8.ofNat n] := by
  have h1 : n < 256 ^ 1 := by omega
  have h2 : n % 256 = n := by omega
  simp [encodeVarint, Gen.varintEncT0, natToLE, natToLE', h, h1, h2]

theorem encodeVarint_c1 {n : Nat} (h0 : ¬ n < 0xFD) (h : n < 0x10000) :
    encodeVarint n = some (0xFD :: natToLE' 2 n) := by
  have h1 : n < 256 ^ 2 := by omega
  simp [encodeVarint, Gen.varintEncT0, Gen.varintEncT1, Gen.varintEncW0, Gen.varintEncP0, natToLE, h0, h]

theorem encodeVarint_c2 {n : Nat} (h0 : ¬ n < 0x10000) (h : n < 0x100000000) :
    encodeVarint n = some (0xFE :: natToLE' 4 n) := by
  have h1 : n < 256 ^ 4 := by omega
  have h00 : ¬ n < 0xFD := by omega
  simp [encodeVarint, Gen.varintEncT0, Gen.varintEncT1, Gen.varintEncT2, Gen.varintEncW1, Gen.varintEncP1,
    natToLE, h0, h00, h]

theorem encodeVarint_c3 {n : Nat} (h0 : ¬ n < 0x100000000) (h : n < 0x10000000000000000) :
    encodeVarint n = some (0xFF :: natToLE' 8 n) := by
  have h1 : n < 256 ^ 8 := by omega
  have h00 : ¬ n < 0xFD := by omega
  have h01 : ¬ n < 0x10000 := by omega
  simp [encodeVarint, Gen.varintEncT0, Gen.varintEncT1, Gen.varintEncT2, Gen.varintEncT3, Gen.varintEncW2,
    Gen.varintEncP2, natToLE, h0, h00, h01, h]

theorem encodeVarint_c4 {n : Nat} (h : ¬ n < 0x10000000000000000) : encodeVarint n = none := by
  have h00 : ¬ n < 0xFD := by omega
  have h01 : ¬ n < 0x10000 := by omega
  have h02 : ¬ n < 0x100000000 := by omega
  simp [encodeVarint, Gen.varintEncT0, Gen.varintEncT1, Gen.varintEncT2, Gen.varintEncT3, h, h00, h01, h02]

/-- `read_varint` inverts `encode_varint` on a stream, for every integer the encoder accepts
    and every continuation of the stream. -/
theorem readVarint_encodeVarint (n : Nat) (rest : Bytes) (e : Bytes)
    (h : encodeVarint n = some e) : readVarint (e ++ rest) = some (n, rest) := by
  by_cases h0 : n < 0xFD
  · rw [encodeVarint_c0 h0] at h; cases h
    have hm : n % 256 = n := by omega
    have a0 : ¬ n = 253 := by omega
    have a1 : ¬ n = 254 := by omega
    have a2 : ¬ n = 255 := by omega
    simp [readVarint, Gen.varintDecM0, Gen.varintDecM1, Gen.varintDecM2, hm, a0, a1, a2]
  · by_cases h1 : n < 0x10000
    · rw [encodeVarint_c1 h0 h1] at h; cases h
      have hl : n < 256 ^ 2 := by omega
      simp [readVarint, Gen.varintDecM0, Gen.varintDecW0,
        take_append_len _ _ _ (natToLE'_length 2 n), drop_append_len _ _ _ (natToLE'_length 2 n),
        leToNat_natToLE'_of_lt hl]
    · by_cases h2 : n < 0x100000000
      · rw [encodeVarint_c2 h1 h2] at h; cases h
        have hl : n < 256 ^ 4 := by omega
        simp [readVarint, Gen.varintDecM0, Gen.varintDecM1, Gen.varintDecW1,
          take_append_len _ _ _ (natToLE'_length 4 n), drop_append_len _ _ _ (natToLE'_length 4 n),
          leToNat_natToLE'_of_lt hl]
      · by_cases h3 : n < 0x10000000000000000
        · rw [encodeVarint_c3 h2 h3] at h; cases h
          have hl : n < 256 ^ 8 := by omega
          simp [readVarint, Gen.varintDecM0, Gen.varintDecM1, Gen.varintDecM2, Gen.varintDecW2,
            take_append_len _ _ _ (natToLE'_length 8 n), drop_append_len _ _ _ (natToLE'_length 8 n),
            leToNat_natToLE'_of_lt hl]
        · rw [encodeVarint_c4 h3] at h; cases h

theorem encodeVarint_isSome_iff (n : Nat) : (encodeVarint n).isSome ↔ n < 2 ^ 64 := by
  by_cases h0 : n < 0xFD
  · rw [encodeVarint_c0 h0]; simp; omega
  · by_cases h1 : n < 0x10000
    · rw [encodeVarint_c1 h0 h1]; simp; omega
    · by_cases h2 : n < 0x100000000
      · rw [encodeVarint_c2 h1 h2]; simp; omega
      · by_cases h3 : n < 0x10000000000000000
        · rw [encodeVarint_c3 h2 h3]; simp; omega
        · rw [encodeVarint_c4 h3]; simp; omega

/-- length of the encoding: 1, 3, 5 or 9 bytes at exactly the protocol's boundaries -/
theorem encodeVarint_length (n : Nat) (e : Bytes) (h : encodeVarint n = some e) :
    e.length = if n < 0xFD then 1 else if n < 0x10000 then 3 else if n < 0x100000000 then 5 else 9 := by
  by_cases h0 : n < 0xFD
  · rw [encodeVarint_c0 h0] at h; cases h; simp [h0]
  · by_cases h1 : n < 0x10000
    · rw [encodeVarint_c1 h0 h1] at h; cases h; simp [h0, h1]
    · by_cases h2 : n < 0x100000000
      · rw [encodeVarint_c2 h1 h2] at h; cases h; simp [h0, h1, h2]
      · by_cases h3 : n < 0x10000000000000000
        · rw [encodeVarint_c3 h2 h3] at h; cases h; simp [h0, h1, h2]
        · rw [encodeVarint_c4 h3] at h; cases h

theorem readVarstr_encodeVarstr (b rest e : Bytes) (hb : b.length < 2 ^ 63) (h : encodeVarstr b = some e) :
    readVarstr (e ++ rest) = some (b, rest) := by
  unfold encodeVarstr at h
  obtain ⟨v, hv, rfl⟩ := Option.map_eq_some_iff.mp h
  unfold readVarstr
  rw [List.append_assoc, readVarint_encodeVarint _ _ _ hv]
  simp [hb]

end Buidl
