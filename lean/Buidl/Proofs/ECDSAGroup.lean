/-
  Helper lemmas for C01 (ECDSA), part 2: what needs the primality of N (Fermat inverse) and the
  group law of secp256k1 (Buidl.Proofs.Secp256k1, on top of Buidl.Proofs.ECGroup / Mathlib).
-/
import Mathlib.Tactic.FieldSimp
import Mathlib.Tactic.LinearCombination
import Buidl.Proofs.ECDSA
import Buidl.Proofs.SecpCodec
namespace Buidl.ECDSA
open Buidl Buidl.EC

/-! ### arithmetic modulo the group order -/

theorem cast_ne_zero_N {x : ℕ} (h1 : 1 ≤ x) (h2 : x < N) : (x : ZMod N) ≠ 0 :=
  cast_ne_zero_of_lt N h2 (by omega)

/-- `pow(s, N-2, N)` is the inverse of `s` in `ZMod N` -/
theorem powmod_inv_cast (s : ℕ) (h1 : 1 ≤ s) (h2 : s < N) :
    ((powmod s (N - 2) N : ℕ) : ZMod N) = (s : ZMod N)⁻¹ := by
  rw [powmod_cast, inv_eq_pow N _ (cast_ne_zero_N h1 h2)]

/-- Fermat: `pow(s, N-2, N) * s ≡ 1 (mod N)` for `1 ≤ s < N` -/
theorem powmod_inv_mul (s : ℕ) (h1 : 1 ≤ s) (h2 : s < N) : powmod s (N - 2) N * s % N = 1 := by
  have h : ((powmod s (N - 2) N * s : ℕ) : ZMod N) = ((1 : ℕ) : ZMod N) := by
    push_cast
    rw [powmod_inv_cast s h1 h2, inv_mul_cancel₀ (cast_ne_zero_N h1 h2)]
  rw [ZMod.natCast_eq_natCast_iff'] at h
  rw [h]; decide

/-- inverses modulo N are unique -/
theorem inv_unique {w w' s : ℕ} (hw : w < N) (hw' : w' < N) (h : w * s % N = 1) (h' : w' * s % N = 1) :
    w = w' := by
  have e : ((w * s : ℕ) : ZMod N) = ((1 : ℕ) : ZMod N) := by
    rw [ZMod.natCast_eq_natCast_iff', h]; decide
  have e' : ((w' * s : ℕ) : ZMod N) = ((1 : ℕ) : ZMod N) := by
    rw [ZMod.natCast_eq_natCast_iff', h']; decide
  push_cast at e e'
  apply cast_inj_of_lt N hw hw'
  calc (w : ZMod N) = w * (w' * s) := by rw [e', mul_one]
    _ = (w * s) * w' := by ring
    _ = w' := by rw [e, one_mul]

/-- the code's `k * X` for a natural `k` -/
theorem smul_natCast (k : ℕ) (X : Pt) : smul (k : ℤ) X = pmul P A (k % N) X := by
  show pmul P A ((k : ℤ) % (N : ℤ)).toNat X = _
  rw [← Int.natCast_mod, Int.toNat_natCast]

theorem smul_natCast_mod (k : ℕ) (X : Pt) : smul ((k % N : ℕ) : ℤ) X = smul (k : ℤ) X := by
  rw [smul_natCast, smul_natCast, Nat.mod_mod]

/-! ### verification against the ECDSA predicate -/

/-- soundness: whatever S256Point.verify accepts satisfies the ECDSA verification predicate -/
theorem verify_sound' (Q : Pt) (z r s : ℕ) (h : verify Q z r s = some true) : Spec.ECDSA.Valid Q z r s := by
  obtain ⟨hr1, hr2, hs1, hs2⟩ := verify_true_range Q z r s h
  have hro : rangeOK r s = true := by rw [rangeOK_eq]; simp [hr1, hr2, hs1, hs2]
  simp only [verify, hro, Bool.not_true, Bool.false_eq_true, if_false] at h
  refine ⟨hr1, hr2, hs1, hs2, powmod s (N - 2) N, powmod_lt _ _ _ N_pos, powmod_inv_mul s hs1 hs2, ?_⟩
  rw [← smul_natCast_mod (z * _), ← smul_natCast_mod (r * _)]
  split at h
  · cases h
  · next x y hxy =>
    refine ⟨x, y, hxy, ?_⟩
    have : x = r := by simpa using h
    rw [this, Nat.mod_eq_of_lt hr2]

/-- completeness: a tuple satisfying the predicate is accepted, provided the x coordinate of the
    point `u₁G + u₂Q` is below `n` (it is below `p`; the interval `[n, p)` has relative size ≈ 2⁻¹²⁸) -/
theorem verify_complete' (Q : Pt) (z r s : ℕ) (h : Spec.ECDSA.Valid Q z r s)
    (hx : ∀ x y, sadd (smul ((z * powmod s (N - 2) N : ℕ) : ℤ) G) (smul ((r * powmod s (N - 2) N : ℕ) : ℤ) Q)
      = .aff x y → x < N) :
    verify Q z r s = some true := by
  obtain ⟨hr1, hr2, hs1, hs2, w, hw, hws, x, y, hxy, hxr⟩ := h
  have hro : rangeOK r s = true := by rw [rangeOK_eq]; simp [hr1, hr2, hs1, hs2]
  have hwe : w = powmod s (N - 2) N :=
    inv_unique hw (powmod_lt _ _ _ N_pos) hws (powmod_inv_mul s hs1 hs2)
  rw [hwe] at hxy
  simp only [verify, hro, Bool.not_true, Bool.false_eq_true, if_false]
  rw [smul_natCast_mod (z * _), smul_natCast_mod (r * _), hxy]
  have := hx x y hxy
  rw [Nat.mod_eq_of_lt this] at hxr
  simp [hxr]

/-! ### signing then verifying -/

theorem signWith_some {k d z r s : ℕ} (h : signWith k d z = some (r, s)) :
    ∃ y, smul (k : ℤ) G = .aff r y ∧
      s = (if (z + r * d) * powmod k (N - 2) N % N > N / 2 then N - (z + r * d) * powmod k (N - 2) N % N
           else (z + r * d) * powmod k (N - 2) N % N) := by
  simp only [signWith] at h
  split at h
  · cases h
  · next x y hx =>
    simp only [Option.some.injEq, Prod.mk.injEq, highS_eq, decide_eq_true_eq] at h
    obtain ⟨rfl, hs⟩ := h
    exact ⟨y, hx, hs.symm⟩

/-- the x coordinate survives negation -/
theorem pneg_x {x y : ℕ} : pneg P (.aff x y) = .aff x ((P - y) % P) := rfl

/-- **sign → verify**: for a secret `d`, a nonce `k ∈ [1, n-1]`, any digest `z`: if the body of
    PrivateKey.sign returns `(r, s)` with `s ≠ 0` and `r = x(kG) < n`, then S256Point.verify on the
    public key `dG` accepts `(z, r, s)`. -/
theorem verify_signWith (k d z r s : ℕ) (hk1 : 1 ≤ k) (hk2 : k < N)
    (h : signWith k d z = some (r, s)) (hr : r < N) (hs0 : s ≠ 0) :
    verify (smul (d : ℤ) G) z r s = some true := by
  obtain ⟨y, hkG, hs⟩ := signWith_some h
  have hvalid : Valid P A B (.aff r y) := hkG ▸ smul_valid G_valid _
  have hr0 : r ≠ 0 := valid_x_ne_zero hvalid
  set s0 := (z + r * d) * powmod k (N - 2) N % N with hs0def
  have hs0lt : s0 < N := Nat.mod_lt _ N_pos
  have hs0ne : s0 ≠ 0 := by
    intro h0; rw [h0] at hs; simp at hs; exact hs0 hs
  have hs1 : 1 ≤ s := by omega
  have hs2 : s < N := by
    rw [hs]; split <;> omega
  have hro : rangeOK r s = true := by
    rw [rangeOK_eq]; simp [hs1, hs2, hr]; omega
  -- in the field ZMod N
  have hK : (k : ZMod N) ≠ 0 := cast_ne_zero_N hk1 hk2
  have hS : (s : ZMod N) ≠ 0 := cast_ne_zero_N hs1 hs2
  have hS0 : (s0 : ZMod N) = ((z : ZMod N) + r * d) * (k : ZMod N)⁻¹ := by
    rw [hs0def, ZMod.natCast_mod]; push_cast; rw [powmod_inv_cast k hk1 hk2]
  have hS0ne : (s0 : ZMod N) ≠ 0 := cast_ne_zero_N (by omega) hs0lt
  have hZ : ((z : ZMod N) + r * d) ≠ 0 := by
    intro h0; rw [h0, zero_mul] at hS0; exact hS0ne hS0
  -- s = ± s0
  have hsign : (s : ZMod N) = (s0 : ZMod N) ∨ (s : ZMod N) = -(s0 : ZMod N) := by
    rw [hs]; split
    · right; rw [Nat.cast_sub hs0lt.le, ZMod.natCast_self, zero_sub]
    · left; rfl
  -- u + v d = ± k
  have huv : (((z * powmod s (N - 2) N % N + r * powmod s (N - 2) N % N * d : ℕ) : ℤ) : ZMod N) = (k : ZMod N) ∨
      (((z * powmod s (N - 2) N % N + r * powmod s (N - 2) N % N * d : ℕ) : ℤ) : ZMod N) = -(k : ZMod N) := by
    have e : (((z * powmod s (N - 2) N % N + r * powmod s (N - 2) N % N * d : ℕ) : ℤ) : ZMod N) =
        ((z : ZMod N) + r * d) * (s : ZMod N)⁻¹ := by
      rw [Int.cast_natCast, Nat.cast_add, Nat.cast_mul,
        ZMod.natCast_mod, ZMod.natCast_mod, Nat.cast_mul, Nat.cast_mul, powmod_inv_cast s hs1 hs2]
      ring
    rw [e]
    rcases hsign with hsg | hsg
    · left; rw [hsg, hS0]; field_simp
    · right; rw [hsg, hS0]; field_simp
  -- the point computed by verify
  have htot : sadd (smul ((z * powmod s (N - 2) N % N : ℕ) : ℤ) G)
      (smul ((r * powmod s (N - 2) N % N : ℕ) : ℤ) (smul (d : ℤ) G)) =
      smul (((z * powmod s (N - 2) N % N + r * powmod s (N - 2) N % N * d : ℕ) : ℤ)) G := by
    rw [smul_smul G_tors, smul_add G_tors]; push_cast; rfl
  have hx : ∃ y', sadd (smul ((z * powmod s (N - 2) N % N : ℕ) : ℤ) G)
      (smul ((r * powmod s (N - 2) N % N : ℕ) : ℤ) (smul (d : ℤ) G)) = .aff r y' := by
    rw [htot]
    rcases huv with hu | hu
    · refine ⟨y, ?_⟩
      rw [← hkG]
      apply (smul_G_eq_iff _ _).mpr
      have : ((k : ℤ) : ZMod N) = (k : ZMod N) := by push_cast; rfl
      rw [← this] at hu
      exact (ZMod.intCast_eq_intCast_iff' _ _ _).mp hu
    · refine ⟨(P - y) % P, ?_⟩
      rw [← pneg_x, ← hkG, ← smul_neg G_tors]
      apply (smul_G_eq_iff _ _).mpr
      have : ((-(k : ℤ) : ℤ) : ZMod N) = -(k : ZMod N) := by push_cast; rfl
      rw [← this] at hu
      exact (ZMod.intCast_eq_intCast_iff' _ _ _).mp hu
  obtain ⟨y', hy'⟩ := hx
  simp only [verify, hro, Bool.not_true, Bool.false_eq_true, if_false, hy']
  simp

end Buidl.ECDSA
