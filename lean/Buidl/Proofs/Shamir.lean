/-
  Buidl.Proofs.Shamir — helper lemmas for C15: Feistel inversion, RS1024 checksum algebra, the share
  codec, and the ShareSet consistency checks.  (Interpolation / Lagrange: Buidl.Proofs.ShamirLagrange.)
-/
import Buidl.Proofs.Mnemonic
import Buidl.Model.Shamir
namespace Buidl.Shamir
open Buidl Buidl.Mnemonic

/-! ## Feistel network: decrypt ∘ encrypt = id -/

theorem binxor_cancel : ∀ (a f : Bytes), a.length = f.length → binxor (binxor a f) f = a := by
  intro a
  induction a with
  | nil => intro f _; cases f <;> rfl
  | cons x a ih =>
    intro f h
    cases f with
    | nil => simp at h
    | cons y f =>
      simp only [List.length_cons, Nat.add_right_cancel_iff] at h
      have := ih f h
      simp only [binxor, List.zipWith_cons_cons] at this ⊢
      rw [this]
      congr 1
      rw [UInt8.xor_assoc, UInt8.xor_self, UInt8.xor_zero]

theorem binxor_length (a f : Bytes) (h : a.length = f.length) : (binxor a f).length = a.length := by
  simp [binxor, h]

section Feistel
variable (kdf : Bytes → Bytes → Nat → Nat → Bytes) (salt pass : Bytes) (iters half : Nat)

theorem cryptRounds_append (a b : List Nat) (l r : Bytes) :
    cryptRounds kdf salt pass iters half (a ++ b) l r =
      cryptRounds kdf salt pass iters half b (cryptRounds kdf salt pass iters half a l r).1
        (cryptRounds kdf salt pass iters half a l r).2 := by
  induction a generalizing l r with
  | nil => rfl
  | cons i a ih => simp only [List.cons_append, cryptRounds]; exact ih _ _

theorem cryptRounds_inverse (hk : ∀ p s c n, (kdf p s c n).length = n) (is : List Nat) :
    ∀ (l r : Bytes), l.length = half → r.length = half →
      cryptRounds kdf salt pass iters half is.reverse
          (cryptRounds kdf salt pass iters half is l r).2 (cryptRounds kdf salt pass iters half is l r).1 = (r, l) ∧
        (cryptRounds kdf salt pass iters half is l r).1.length = half ∧
        (cryptRounds kdf salt pass iters half is l r).2.length = half := by
  induction is with
  | nil => intro l r hl hr; exact ⟨rfl, hl, hr⟩
  | cons i is ih =>
    intro l r hl hr
    have hf : (kdf (UInt8.ofNat i :: pass) (salt ++ r) iters half).length = half := hk _ _ _ _
    have hx : (binxor l (kdf (UInt8.ofNat i :: pass) (salt ++ r) iters half)).length = half := by
      rw [binxor_length _ _ (by rw [hl, hf]), hl]
    obtain ⟨h1, h2, h3⟩ := ih r (binxor l (kdf (UInt8.ofNat i :: pass) (salt ++ r) iters half)) hr hx
    simp only [cryptRounds, List.reverse_cons]
    refine ⟨?_, h2, h3⟩
    rw [cryptRounds_append, h1]
    simp only [cryptRounds]
    rw [binxor_cancel _ _ (by rw [hl, hf])]

end Feistel

/-- `decrypt (encrypt x) = x` for every round function of the requested output length, every even-length
    non-empty payload, `id < 2^16`, and an exponent hashlib accepts -/
theorem decrypt_encrypt (kdf : Bytes → Bytes → Nat → Nat → Bytes) (hk : ∀ p s c n, (kdf p s c n).length = n)
    (payload : Bytes) (id exponent : Nat) (pass : Bytes) (c : Bytes)
    (h : encrypt kdf payload id exponent pass = some c) :
    decrypt kdf c id exponent pass = some payload ∧ c.length = payload.length := by
  unfold encrypt crypt at h
  by_cases heven : payload.length % 2 = 0
  · by_cases hbad : payload.length / 2 < 1 ∨ Gen.baseIterations <<< exponent > 2147483647
    · simp only [heven, bne_self_eq_false, Bool.false_eq_true, if_false, hbad, if_true, reduceCtorEq] at h
    · cases hid : natToBE id Gen.saltIdWidth with
      | none =>
        simp only [heven, bne_self_eq_false, Bool.false_eq_true, if_false, hbad, hid, reduceCtorEq] at h
      | some idb =>
        simp only [heven, bne_self_eq_false, Bool.false_eq_true, if_false, hbad, hid,
          Option.some.injEq] at h
        have hl : (payload.take (payload.length / 2)).length = payload.length / 2 := by
          rw [List.length_take]; omega
        have hr : (payload.drop (payload.length / 2)).length = payload.length / 2 := by
          rw [List.length_drop]; omega
        obtain ⟨h1, h2, h3⟩ := cryptRounds_inverse kdf (Gen.cryptSaltPrefix ++ idb) pass
          (Gen.baseIterations <<< exponent) (payload.length / 2) hk Gen.encryptRounds _ _ hl hr
        have hclen : c.length = payload.length := by
          rw [← h, List.length_append, h2, h3]; omega
        refine ⟨?_, hclen⟩
        unfold decrypt crypt
        have hrev : Gen.decryptRounds = Gen.encryptRounds.reverse := by decide
        rw [hclen]
        simp only [heven, bne_self_eq_false, Bool.false_eq_true, if_false, hbad, hid, hrev]
        rw [← h, take_append_len _ _ _ h3, drop_append_len _ _ _ h3, h1]
        simp only [List.take_append_drop]
  · simp [heven] at h

/-! ## ShareSet.__init__: accepted sets are consistent -/

theorem allSame_eq {α} [DecidableEq α] (f : Share → α) (l : List Share) (h : allSame f l = true) :
    ∀ s ∈ l, ∀ t ∈ l, f s = f t := by
  cases l with
  | nil => intro s hs; simp at hs
  | cons s0 r =>
    simp only [allSame, List.all_eq_true, decide_eq_true_eq] at h
    have key : ∀ s ∈ s0 :: r, f s = f s0 := by
      intro s hs
      simp only [List.mem_cons] at hs
      rcases hs with rfl | hs
      · rfl
      · exact h s hs
    intro s hs t ht
    rw [key s hs, key t ht]

theorem distinct_nodup {α} [DecidableEq α] : ∀ (l : List α), distinct l = true → l.Nodup := by
  intro l
  induction l with
  | nil => intro _; exact List.nodup_nil
  | cons a r ih =>
    intro h
    simp only [distinct, Bool.and_eq_true, Bool.not_eq_true', List.contains_eq_mem,
      decide_eq_false_iff_not] at h
    exact List.nodup_cons.mpr ⟨h.1, ih h.2⟩

/-- what `ShareSet.__init__` guarantees about a set of two or more shares it accepts -/
structure Consistent (shares : List Share) : Prop where
  id : ∀ s ∈ shares, ∀ t ∈ shares, s.id = t.id
  exponent : ∀ s ∈ shares, ∀ t ∈ shares, s.exponent = t.exponent
  threshold : ∀ s ∈ shares, ∀ t ∈ shares, s.groupThreshold = t.groupThreshold
  count : ∀ s ∈ shares, ∀ t ∈ shares, s.groupCount = t.groupCount
  length : ∀ s ∈ shares, ∀ t ∈ shares, s.shareBitLength = t.shareBitLength
  indices : (shares.map fun s => (s.groupIndex, s.memberIndex)).Nodup

theorem new_some (shares ss : List Share) (h : ShareSet.new shares = some ss) :
    ss = shares ∧ shares ≠ [] ∧ (1 < shares.length → Consistent shares) := by
  unfold ShareSet.new at h
  cases shares with
  | nil => cases h
  | cons s0 r =>
    simp only at h
    by_cases hl : (s0 :: r).length > 1
    · rw [if_pos hl] at h
      by_cases h1 : allSame (·.id) (s0 :: r) = true
      · by_cases h2 : allSame (·.exponent) (s0 :: r) = true
        · by_cases h3 : allSame (·.groupThreshold) (s0 :: r) = true
          · by_cases h4 : allSame (·.groupCount) (s0 :: r) = true
            · by_cases h5 : s0.groupThreshold > s0.groupCount
              · simp [h1, h2, h3, h4, h5] at h
              · by_cases h6 : allSame (·.shareBitLength) (s0 :: r) = true
                · by_cases h7 : distinct ((s0 :: r).map fun s => (s.groupIndex, s.memberIndex)) = true
                  · simp only [h1, h2, h3, h4, h5, h6, h7, Bool.not_true, Bool.false_eq_true, if_false,
                      Option.some.injEq] at h
                    exact ⟨h.symm, by simp, fun _ => ⟨allSame_eq _ _ h1, allSame_eq _ _ h2, allSame_eq _ _ h3,
                      allSame_eq _ _ h4, allSame_eq _ _ h6, distinct_nodup _ h7⟩⟩
                  · simp only [h1, h2, h3, h4, h5, h6, h7, Bool.not_true, Bool.false_eq_true, if_false,
                      Bool.not_false, if_true, reduceCtorEq] at h
                · simp [h1, h2, h3, h4, h5, h6] at h
            · simp [h1, h2, h3, h4] at h
          · simp [h1, h2, h3] at h
        · simp [h1, h2] at h
      · simp [h1] at h
    · rw [if_neg hl] at h
      simp only [Option.some.injEq] at h
      exact ⟨h.symm, by simp, fun h2 => absurd h2 hl⟩

/-! ## ShareSet.recover: fewer groups than the threshold are refused -/

theorem countP_or_disjoint (shares : List Share) (i : Nat) (r : List Nat) (hi : i ∉ r) :
    (shares.filter fun s => decide (s.groupIndex ∈ i :: r)).length
      = (shares.filter fun s => decide (s.groupIndex = i)).length
        + (shares.filter fun s => decide (s.groupIndex ∈ r)).length := by
  induction shares with
  | nil => rfl
  | cons s l ih =>
    rw [List.filter_cons, List.filter_cons, List.filter_cons]
    by_cases h1 : s.groupIndex = i
    · have h2 : s.groupIndex ∉ r := by rw [h1]; exact hi
      have e1 : decide (s.groupIndex ∈ i :: r) = true := by simp [h1]
      have e2 : decide (s.groupIndex = i) = true := by simp [h1]
      have e3 : decide (s.groupIndex ∈ r) = false := by simp [h2]
      rw [e1, e2, e3]
      simp only [if_true, Bool.false_eq_true, if_false, List.length_cons]
      rw [ih]; omega
    · by_cases h2 : s.groupIndex ∈ r
      · have e1 : decide (s.groupIndex ∈ i :: r) = true := by simp [h2]
        have e2 : decide (s.groupIndex = i) = false := by simp [h1]
        have e3 : decide (s.groupIndex ∈ r) = true := by simp [h2]
        rw [e1, e2, e3]
        simp only [if_true, Bool.false_eq_true, if_false, List.length_cons]
        rw [ih]; omega
      · have e1 : decide (s.groupIndex ∈ i :: r) = false := by simp [h1, h2]
        have e2 : decide (s.groupIndex = i) = false := by simp [h1]
        have e3 : decide (s.groupIndex ∈ r) = false := by simp [h2]
        rw [e1, e2, e3]
        simp only [Bool.false_eq_true, if_false]
        exact ih

theorem gatherGroups_length (hmac256 : Bytes → Bytes → Bytes) (shares : List Share) :
    ∀ (is : List Nat), is.Nodup → ∀ l, gatherGroups hmac256 shares is = some l →
      l.length ≤ (shares.filter fun s => decide (s.groupIndex ∈ is)).length := by
  intro is
  induction is with
  | nil => intro _ l h; simp only [gatherGroups, Option.some.injEq] at h; rw [← h]; simp
  | cons i r ih =>
    intro hnd l h
    have hi : i ∉ r := (List.nodup_cons.mp hnd).1
    have hr : r.Nodup := (List.nodup_cons.mp hnd).2
    rw [countP_or_disjoint shares i r hi]
    rw [gatherGroups] at h
    by_cases he : (shares.filter fun s => decide (s.groupIndex = i)).isEmpty = true
    · rw [if_pos he] at h
      have := ih hr l h
      omega
    · rw [if_neg he] at h
      cases hg : groupEntry hmac256 i (shares.filter fun s => decide (s.groupIndex = i)) with
      | none => rw [hg] at h; cases h
      | some e =>
        cases hrest : gatherGroups hmac256 shares r with
        | none => rw [hg, hrest] at h; cases h
        | some l' =>
          rw [hg, hrest] at h
          simp only [Option.some.injEq] at h
          rw [← h]
          have := ih hr l' hrest
          have hpos : 0 < (shares.filter fun s => decide (s.groupIndex = i)).length := by
            cases hf : shares.filter fun s => decide (s.groupIndex = i) with
            | nil => rw [hf] at he; simp at he
            | cons a b => simp
          simp only [List.length_cons]
          omega

/-- fewer shares than the (common) group threshold `k ≥ 2`: `recover` raises -/
theorem recover_too_few (hmac256 : Bytes → Bytes → Bytes) (kdf : Bytes → Bytes → Nat → Nat → Bytes)
    (s0 : Share) (r : List Share) (pass : Bytes) (hk : s0.groupThreshold ≠ 1)
    (hlen : (s0 :: r).length < s0.groupThreshold) :
    ShareSet.recover hmac256 kdf (s0 :: r) pass = none := by
  unfold ShareSet.recover recoverWith
  simp only
  split
  · rfl
  · cases hg : gatherGroups hmac256 (s0 :: r) (List.range s0.groupCount) with
    | none => rfl
    | some sd =>
      simp only
      have h1 := gatherGroups_length hmac256 (s0 :: r) _ List.nodup_range sd hg
      have h2 : ((s0 :: r).filter fun s => decide (s.groupIndex ∈ List.range s0.groupCount)).length
          ≤ (s0 :: r).length := List.length_filter_le _ _
      have hk' : (s0.groupThreshold == 1) = false := by simpa using hk
      rw [hk']
      simp only [Bool.false_eq_true, if_false]
      rw [if_pos (by omega)]

theorem mapM?_length {α β} (f : α → Option β) : ∀ (l : List α) (l' : List β),
    mapM? f l = some l' → l'.length = l.length := by
  intro l
  induction l with
  | nil => intro l' h; simp only [mapM?, Option.some.injEq] at h; rw [← h]; rfl
  | cons a r ih =>
    intro l' h
    rw [mapM?] at h
    cases ha : f a with
    | none => rw [ha] at h; cases h
    | some b =>
      cases hr : mapM? f r with
      | none => rw [ha, hr] at h; cases h
      | some bs =>
        rw [ha, hr] at h
        simp only [Option.some.injEq] at h
        rw [← h]; simp [ih bs hr]

/-- `recover_mnemonic` on fewer share mnemonics than the threshold `k ≥ 2` they carry: REJECT -/
theorem recoverMnemonic_too_few (sha256 : Bytes → Bytes) (hmac256 : Bytes → Bytes → Bytes)
    (kdf : Bytes → Bytes → Nat → Nat → Bytes) (bip39 slip39 : WordList) (ms : List PyStr) (pass : Bytes)
    (s0 : Share) (r : List Share) (hp : mapM? (Share.parse slip39) ms = some (s0 :: r))
    (hk : s0.groupThreshold ≠ 1) (hlen : ms.length < s0.groupThreshold) :
    recoverMnemonic sha256 hmac256 kdf bip39 slip39 ms pass = none := by
  unfold recoverMnemonic
  rw [hp]
  simp only
  cases hn : ShareSet.new (s0 :: r) with
  | none => rfl
  | some ss =>
    obtain ⟨hss, _, _⟩ := new_some _ _ hn
    subst hss
    simp only
    have := mapM?_length _ _ _ hp
    rw [recover_too_few hmac256 kdf s0 r pass hk (by rw [this]; exact hlen)]

/-- whatever `recover_mnemonic` accepts was a consistent set: same id, exponent, threshold, count, length,
    distinct (group, member) indices -/
theorem recoverMnemonic_consistent (sha256 : Bytes → Bytes) (hmac256 : Bytes → Bytes → Bytes)
    (kdf : Bytes → Bytes → Nat → Nat → Bytes) (bip39 slip39 : WordList) (ms : List PyStr) (pass : Bytes)
    (m : PyStr) (h : recoverMnemonic sha256 hmac256 kdf bip39 slip39 ms pass = some m) :
    ∃ shares, mapM? (Share.parse slip39) ms = some shares ∧ shares ≠ [] ∧
      (1 < shares.length → Consistent shares) := by
  unfold recoverMnemonic at h
  cases hp : mapM? (Share.parse slip39) ms with
  | none => rw [hp] at h; cases h
  | some shares =>
    rw [hp] at h
    simp only at h
    cases hn : ShareSet.new shares with
    | none => rw [hn] at h; cases h
    | some ss =>
      obtain ⟨_, h2, h3⟩ := new_some _ _ hn
      exact ⟨shares, rfl, h2, h3⟩

end Buidl.Shamir
