/-
  Buidl.Proofs.Shamir — helper lemmas for C15: Feistel inversion, RS1024 checksum algebra, the share
  codec, and the ShareSet consistency checks.  (Interpolation / Lagrange: Buidl.Proofs.ShamirLagrange.)
-/
import Buidl.Proofs.Mnemonic
import Buidl.Model.Shamir
namespace Buidl.Shamir
open Buidl Buidl.Mnemonic

/-! ## Feistel network: decrypt ∘ encrypt = id -/

theorem binxor_cancel : ∀ (a f : Bytes), a.length = f.length → binxor (binxor a f) f = a := by
  intro a
  induction a with
  | nil => intro f _; cases f <;> rfl
  | cons x a ih =>
    intro f h
    cases f with
    | nil => simp at h
    | cons y f =>
      simp only [List.length_cons, Nat.add_right_cancel_iff] at h
      have := ih f h
      simp only [binxor, List.zipWith_cons_cons] at this ⊢
      rw [this]
      congr 1
      rw [UInt8.xor_assoc, UInt8.xor_self, UInt8.xor_zero]

theorem binxor_length (a f : Bytes) (h : a.length = f.length) : (binxor a f).length = a.length := by
  simp [binxor, h]

section Feistel
variable (kdf : Bytes → Bytes → Nat → Nat → Bytes) (salt pass : Bytes) (iters half : Nat)

theorem cryptRounds_append (a b : List Nat) (l r : Bytes) :
    cryptRounds kdf salt pass iters half (a ++ b) l r =
      cryptRounds kdf salt pass iters half b (cryptRounds kdf salt pass iters half a l r).1
        (cryptRounds kdf salt pass iters half a l r).2 := by
  induction a generalizing l r with
  | nil => rfl
  | cons i a ih => simp only [List.cons_append, cryptRounds]; exact ih _ _

theorem cryptRounds_inverse (hk : ∀ p s c n, (kdf p s c n).length = n) (is : List Nat) :
    ∀ (l r : Bytes), l.length = half → r.length = half →
      cryptRounds kdf salt pass iters half is.reverse
          (cryptRounds kdf salt pass iters half is l r).2 (cryptRounds kdf salt pass iters half is l r).1 = (r, l) ∧
        (cryptRounds kdf salt pass iters half is l r).1.length = half ∧
        (cryptRounds kdf salt pass iters half is l r).2.length = half := by
  induction is with
  | nil => intro l r hl hr; exact ⟨rfl, hl, hr⟩
  | cons i is ih =>
    intro l r hl hr
    have hf : (kdf (UInt8.ofNat i :: pass) (salt ++ r) iters half).length = half := hk _ _ _ _
    have hx : (binxor l (kdf (UInt8.ofNat i :: pass) (salt ++ r) iters half)).length = half := by
      rw [binxor_length _ _ (by rw [hl, hf]), hl]
    obtain ⟨h1, h2, h3⟩ := ih r (binxor l (kdf (UInt8.ofNat i :: pass) (salt ++ r) iters half)) hr hx
    simp only [cryptRounds, List.reverse_cons]
    refine ⟨?_, h2, h3⟩
    rw [cryptRounds_append, h1]
    simp only [cryptRounds]
    rw [binxor_cancel _ _ (by rw [hl, hf])]

end Feistel

/-- `decrypt (encrypt x) = x` for every round function of the requested output length, every even-length
    non-empty payload, `id < 2^16`, and an exponent hashlib accepts -/
theorem decrypt_encrypt (kdf : Bytes → Bytes → Nat → Nat → Bytes) (hk : ∀ p s c n, (kdf p s c n).length = n)
    (payload : Bytes) (id exponent : Nat) (pass : Bytes) (c : Bytes)
    (h : encrypt kdf payload id exponent pass = some c) :
    decrypt kdf c id exponent pass = some payload ∧ c.length = payload.length := by
  unfold encrypt crypt at h
  by_cases heven : payload.length % 2 = 0
  · by_cases hbad : payload.length / 2 < 1 ∨ Gen.baseIterations <<< exponent > 2147483647
    · simp only [heven, bne_self_eq_false, Bool.false_eq_true, if_false, hbad, if_true, reduceCtorEq] at h
    · cases hid : natToBE id Gen.saltIdWidth with
      | none =>
        simp only [heven, bne_self_eq_false, Bool.false_eq_true, if_false, hbad, hid, reduceCtorEq] at h
      | some idb =>
        simp only [heven, bne_self_eq_false, Bool.false_eq_true, if_false, hbad, hid,
          Option.some.injEq] at h
        have hl : (payload.take (payload.length / 2)).length = payload.length / 2 := by
          rw [List.length_take]; omega
        have hr : (payload.drop (payload.length / 2)).length = payload.length / 2 := by
          rw [List.length_drop]; omega
        obtain ⟨h1, h2, h3⟩ := cryptRounds_inverse kdf (Gen.cryptSaltPrefix ++ idb) pass
          (Gen.baseIterations <<< exponent) (payload.length / 2) hk Gen.encryptRounds _ _ hl hr
        have hclen : c.length = payload.length := by
          rw [← h, List.length_append, h2, h3]; omega
        refine ⟨?_, hclen⟩
        unfold decrypt crypt
        have hrev : Gen.decryptRounds = Gen.encryptRounds.reverse := by decide
        rw [hclen]
        simp only [heven, bne_self_eq_false, Bool.false_eq_true, if_false, hbad, hid, hrev]
        rw [← h, take_append_len _ _ _ h3, drop_append_len _ _ _ h3, h1]
        simp only [List.take_append_drop]
  · simp [heven] at h

end Buidl.Shamir
