/-
  Helper lemmas about Buidl.Model.Bcur, part 3: what the encoders write and parse ∘ encode.
-/
import Buidl.Proofs.BcurRoundtrip
namespace Buidl.Bcur
open Buidl Buidl.Base58 Buidl.Bech32

theorem bc32encode_chars (data : Bytes) (s : Str) (h : bc32encode data = some s) : ∀ c ∈ s, c ∈ Bech32.alphabet := by
  obtain ⟨dd, _, hlt, _, he⟩ := bc32encode_eq data
  rw [he] at h; cases h
  intro c hc
  obtain ⟨d, hd, rfl⟩ := List.mem_map.mp hc
  apply b32char_mem
  rcases List.mem_append.mp hd with hd | hd
  · exact hlt d hd
  · exact chkDigits_lt _ d hd

theorem cborEncode_length (d e : Bytes) (h : cborEncode d = some e) : e.length ≤ d.length + 5 ∧ d.length < 2 ^ 32 := by
  have hlen : d.length < 2 ^ 32 := (cborEncode_isSome_iff d).mp (by rw [h]; rfl)
  rw [cborEncode_eq d hlen] at h
  cases h
  refine ⟨?_, hlen⟩
  split
  · simp
  · split
    · simp
    · split <;> (simp; omega)

/-- everything `bcur_encode` produces -/
theorem bcurEncode_facts (sha256 : Bytes → Bytes) (hh : ∀ b, (sha256 b).length = 32) (data : Bytes)
    (hd : data.length < 2 ^ 32) :
    ∃ cbor enc encHash, cborEncode data = some cbor ∧ bc32encode cbor = some enc ∧
      bc32encode (sha256 cbor) = some encHash ∧ bcurEncode sha256 data = some (enc, encHash) ∧
      encHash.length = 58 ∧ (∀ c ∈ enc, c ∈ Bech32.alphabet) ∧ (∀ c ∈ encHash, c ∈ Bech32.alphabet) ∧
      6 ≤ enc.length ∧ enc.length < 2 ^ 36 := by
  obtain ⟨cbor, hc⟩ := Option.isSome_iff_exists.mp ((cborEncode_isSome_iff data).mpr hd)
  obtain ⟨enc, h1⟩ := Option.isSome_iff_exists.mp (bc32encode_isSome cbor)
  obtain ⟨encHash, h2⟩ := Option.isSome_iff_exists.mp (bc32encode_isSome (sha256 cbor))
  have hcl := (cborEncode_length data cbor hc).1
  have l1 := bc32encode_length cbor enc h1
  have l2 := bc32encode_length (sha256 cbor) encHash h2
  rw [hh] at l2
  refine ⟨cbor, enc, encHash, hc, h1, h2, ?_, by omega, bc32encode_chars _ _ h1, bc32encode_chars _ _ h2, by omega, by omega⟩
  simp [bcurEncode, hc, h1, h2]

theorem bcurDecode_encoded (sha256 : Bytes → Bytes) (data cbor : Bytes) (enc encHash : Str)
    (hc : cborEncode data = some cbor) (h1 : bc32encode cbor = some enc) (h2 : bc32encode (sha256 cbor) = some encHash)
    (chk : Option Str) (hchk : chk = none ∨ chk = some encHash) :
    bcurDecode sha256 enc chk = some data := by
  unfold bcurDecode
  rw [bc32decode_bc32encode cbor enc h1]
  rcases hchk with rfl | rfl
  · exact cborDecode_cborEncode data cbor hc
  · simp only [bc32decode_bc32encode _ encHash h2, ne_eq, not_true_eq_false, if_false]
    exact cborDecode_cborEncode data cbor hc

theorem construct_ok (sha256 : Bytes → Bytes) (data : Bytes) (enc encHash : Str)
    (he : bcurEncode sha256 data = some (enc, encHash)) (a b : Option Str) (ha : a = none ∨ a = some enc)
    (hb : b = none ∨ b = some encHash) : construct sha256 data a b = some (enc, encHash) := by
  unfold construct
  rw [he]
  have h1 : badArg a enc = false := by rcases ha with rfl | rfl <;> simp [badArg]
  have h2 : badArg b encHash = false := by rcases hb with rfl | rfl <;> simp [badArg]
  simp [h1, h2]

/-! ### BCURSingle -/

theorem singleEncode_eq (sha256 : Bytes → Bytes) (data : Bytes) (enc encHash : Str)
    (he : bcurEncode sha256 data = some (enc, encHash)) (use : Bool) :
    singleEncode sha256 data use = some (singleStr (if use then some encHash else none) enc) := by
  unfold singleEncode
  rw [construct_ok sha256 data enc encHash he none none (Or.inl rfl) (Or.inl rfl)]
  cases use <;>
    simp [singleStr, fmt_consts.2.2.2.1, fmt_consts.2.2.2.2.1, fmt_consts.2.2.2.2.2.1, List.append_assoc]

theorem singleParse_singleEncode (sha256 : Bytes → Bytes) (hh : ∀ b, (sha256 b).length = 32) (data : Bytes)
    (hd : data.length < 2 ^ 32) (use : Bool) :
    ∃ s, singleEncode sha256 data use = some s ∧ singleParse sha256 s = some data := by
  obtain ⟨cbor, enc, encHash, hc, h1, h2, he, hl, hea, hha, _, _⟩ := bcurEncode_facts sha256 hh data hd
  refine ⟨_, singleEncode_eq sha256 data enc encHash he use, ?_⟩
  have hparse := parseBcurHelper_single (if use then some encHash else none) enc
    (by intro c hc'; cases use <;> simp at hc'; subst hc'; exact ⟨hl, hha⟩) hea
  unfold singleParse
  rw [hparse]
  simp only [Gen.bcurSingleX, Gen.bcurSingleY]
  have hdec := bcurDecode_encoded sha256 data cbor enc encHash hc h1 h2 (if use then some encHash else none)
    (by cases use <;> simp)
  simp only [Nat.cast_one, ne_eq, not_true_eq_false, or_self, if_false, hdec]
  rw [construct_ok sha256 data enc encHash he (some enc) _ (Or.inr rfl) (by cases use <;> simp)]
  rfl

/-! ### BCURMulti -/

theorem multiEncode_eq (sha256 : Bytes → Bytes) (data : Bytes) (enc encHash : Str)
    (he : bcurEncode sha256 data = some (enc, encHash)) (m : Nat) (hm : 1 ≤ m) (animate : Bool) (n cl : Nat)
    (hn : n = if animate then (enc.length + m - 1) / m else 1) (hn1 : 1 ≤ n) (hcl : cl = (enc.length + n - 1) / n) :
    multiEncode sha256 data m animate =
      some ((List.range n).map fun i => partStr (i + 1) n encHash ((enc.drop (i * cl)).take cl)) := by
  unfold multiEncode
  rw [construct_ok sha256 data enc encHash he none none (Or.inl rfl) (Or.inl rfl)]
  have hm0 : ¬ m = 0 := by omega
  have hn0 : ¬ n = 0 := by omega
  have hnn : (if animate = true then floatCeilDiv enc.length m else some 1) = some n := by
    cases animate <;> simp [floatCeilDiv, hm0, hn]
  have hcc : floatCeilDiv enc.length n = some cl := by simp [floatCeilDiv, hn0, hcl]
  simp only [hnn, hcc]
  congr 1
  apply List.map_congr_left
  intro i _
  simp [partStr, fmt_consts.2.2.2.2.2.2.1, fmt_consts.2.2.2.2.2.2.2.1, fmt_consts.2.2.2.2.2.2.2.2.1,
    fmt_consts.2.2.2.2.2.2.2.2.2.1, List.append_assoc]

theorem multiLoop_rest (f pl : Nat → Str) (chk : Str) (y : Nat) (m k : Nat) (hk : 1 ≤ k)
    (hall : ∀ i, k ≤ i → i < k + m → parseBcurHelper (f i) = some ⟨pl i, some chk, ((i + 1 : Nat) : Int), (y : Int)⟩)
    (ps : List Str) :
    multiLoop ((List.range' k m).map f) k (some chk) y ps = some (some chk, ps.reverse ++ (List.range' k m).map pl) := by
  induction m generalizing k ps with
  | zero => simp [multiLoop]
  | succ m ih =>
    rw [List.range'_succ, List.map_cons, multiLoop, hall k (Nat.le_refl _) (by omega)]
    have hk0 : ¬ k = 0 := by omega
    simp only [Nat.cast_add, Nat.cast_one, ne_eq, not_true_eq_false, if_false, hk0]
    rw [ih (k + 1) (by omega) (fun i h1 h2 => hall i (by omega) (by omega))]
    simp

theorem multiLoop_parts (f pl : Nat → Str) (chk : Str) (n : Nat) (hn : 1 ≤ n)
    (hall : ∀ i, i < n → parseBcurHelper (f i) = some ⟨pl i, some chk, ((i + 1 : Nat) : Int), (n : Int)⟩) :
    multiLoop ((List.range n).map f) 0 (some []) 0 [] = some (some chk, (List.range n).map pl) := by
  obtain ⟨n', rfl⟩ : ∃ n', n = n' + 1 := ⟨n - 1, by omega⟩
  rw [List.range_eq_range', List.range'_succ, List.map_cons]
  rw [multiLoop_first (f 0) _ _ (hall 0 (by omega)) (by simp)]
  simp only
  rw [multiLoop_rest f pl chk (n' + 1) n' 1 (Nat.le_refl _) (fun i h1 h2 => hall i (by omega))]
  simp

/-- parse ∘ encode for BCURMulti, any chunk size ≥ 1, animated or not -/
theorem multiParse_multiEncode (sha256 : Bytes → Bytes) (hh : ∀ b, (sha256 b).length = 32) (data : Bytes)
    (hd : data.length < 2 ^ 32) (m : Nat) (hm : 1 ≤ m) (animate : Bool) :
    ∃ parts enc encHash, bcurEncode sha256 data = some (enc, encHash) ∧
      multiEncode sha256 data m animate = some parts ∧ multiParse sha256 parts = some (data, some encHash) := by
  obtain ⟨cbor, enc, encHash, hc, h1, h2, he, hl, hea, hha, hL6, hL36⟩ := bcurEncode_facts sha256 hh data hd
  -- number of parts and chunk length
  obtain ⟨n, cl, hn, hn1, hcl, hcl1, hcover, hnL⟩ : ∃ n cl, (n = if animate then (enc.length + m - 1) / m else 1) ∧
      1 ≤ n ∧ cl = (enc.length + n - 1) / n ∧ 1 ≤ cl ∧ enc.length ≤ n * cl ∧ n ≤ enc.length := by
    cases animate with
    | true =>
      obtain ⟨a1, a2, _, a4, a5⟩ := chunk_arith enc.length m (by omega) hm
      refine ⟨_, _, rfl, a1, rfl, a2, a5, ?_⟩
      have : (enc.length + m - 1) / m - 1 ≤ ((enc.length + m - 1) / m - 1) * ((enc.length + (enc.length + m - 1) / m - 1) / ((enc.length + m - 1) / m)) :=
        Nat.le_mul_of_pos_right _ (by omega)
      simp only [if_true]
      omega
    | false =>
      refine ⟨1, enc.length, rfl, Nat.le_refl _, by simp, by omega, by omega, by omega⟩
  have hmulti := multiEncode_eq sha256 data enc encHash he m hm animate n cl hn hn1 hcl
  refine ⟨_, enc, encHash, he, hmulti, ?_⟩
  have hn16 : n < 10 ^ 16 := by
    have : (2 : Nat) ^ 36 < 10 ^ 16 := by decide
    omega
  have hchunk : ∀ i, ∀ c ∈ (enc.drop (i * cl)).take cl, c ∈ Bech32.alphabet :=
    fun i c hc' => hea c (List.mem_of_mem_drop (List.mem_of_mem_take hc'))
  have hparse : ∀ i, i < n → parseBcurHelper (partStr (i + 1) n encHash ((enc.drop (i * cl)).take cl)) =
      some ⟨(enc.drop (i * cl)).take cl, some encHash, ((i + 1 : Nat) : Int), (n : Int)⟩ :=
    fun i hi => parseBcurHelper_part (i + 1) n encHash _ (by omega) hn16 hl hha (hchunk i)
  unfold multiParse
  rw [multiLoop_parts _ (fun i => (enc.drop (i * cl)).take cl) encHash n hn1 hparse]
  simp only
  rw [chunks_flatten enc cl n, List.take_of_length_le hcover,
    bcurDecode_encoded sha256 data cbor enc encHash hc h1 h2 (some encHash) (Or.inr rfl)]
  simp only
  rw [construct_ok sha256 data enc encHash he none (some encHash) (Or.inl rfl) (Or.inr rfl)]
  rfl

/-- the chunks written by BCURMulti.encode -/
theorem multiEncode_chunks (sha256 : Bytes → Bytes) (hh : ∀ b, (sha256 b).length = 32) (data : Bytes)
    (hd : data.length < 2 ^ 32) (m : Nat) (hm : 1 ≤ m) :
    ∃ enc encHash n cl, bcurEncode sha256 data = some (enc, encHash) ∧
      multiEncode sha256 data m true =
        some ((List.range n).map fun i => partStr (i + 1) n encHash ((enc.drop (i * cl)).take cl)) ∧
      n = (enc.length + m - 1) / m ∧ cl = (enc.length + n - 1) / n ∧ 1 ≤ n ∧ 1 ≤ cl ∧ cl ≤ m ∧
      ((List.range n).map fun i => (enc.drop (i * cl)).take cl).flatten = enc ∧
      (∀ i, i + 1 < n → ((enc.drop (i * cl)).take cl).length = cl) ∧
      (1 ≤ ((enc.drop ((n - 1) * cl)).take cl).length ∧ ((enc.drop ((n - 1) * cl)).take cl).length ≤ cl) := by
  obtain ⟨cbor, enc, encHash, hc, h1, h2, he, hl, hea, hha, hL6, hL36⟩ := bcurEncode_facts sha256 hh data hd
  obtain ⟨a1, a2, a3, a4, a5⟩ := chunk_arith enc.length m (by omega) hm
  refine ⟨enc, encHash, _, _, he, multiEncode_eq sha256 data enc encHash he m hm true _ _ (by simp) a1 rfl, rfl, rfl, a1, a2, a3,
    ?_, ?_, ?_⟩
  · rw [chunks_flatten, List.take_of_length_le a5]
  · intro i hi
    rw [chunk_length]
    set n := (enc.length + m - 1) / m
    set cl := (enc.length + n - 1) / n
    have : (i + 1) * cl ≤ (n - 1) * cl := Nat.mul_le_mul_right _ (by omega)
    have e : (i + 1) * cl = i * cl + cl := by rw [Nat.add_mul, Nat.one_mul]
    omega
  · rw [chunk_length]
    omega

end Buidl.Bcur
