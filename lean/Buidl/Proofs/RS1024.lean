/-
  Buidl.Proofs.RS1024 — algebra of the SLIP39 checksum (`rs1024_polymod`): the state update is
  XOR-affine, `L(s) = ((s & 0xFFFFF) << 10) ^ G(s >> 20)` is XOR-linear and has trivial kernel on 30-bit
  states (a 1024-case kernel check on the generated `GEN`), hence
    * any single-word error changes the polymod (and is rejected),
    * `rs1024_create_checksum` produces words that verify.
-/
import Buidl.Model.Shamir
namespace Buidl.Shamir
open Buidl

def rsGens : List Nat := Gen.rs1024Gen.take Gen.rsGenCount

/-- the XOR of the generator constants selected by the bits of `b` -/
def rsG (b : Nat) : Nat := rsMix b rsGens 0 0

/-- the linear part of one polymod step -/
def rsL (s : Nat) : Nat := ((s &&& Gen.rsLowMask) <<< Gen.rsWordBits) ^^^ rsG (s >>> Gen.rsTopShift)

theorem xor_eq_zero_imp {a b : Nat} (h : a ^^^ b = 0) : a = b := by
  have : a ^^^ (a ^^^ b) = b := by rw [← Nat.xor_assoc, Nat.xor_self, Nat.zero_xor]
  rw [h, Nat.xor_zero] at this
  exact this

theorem rsMix_acc (b : Nat) (gs : List Nat) : ∀ (i acc : Nat), rsMix b gs i acc = acc ^^^ rsMix b gs i 0 := by
  induction gs with
  | nil => intro i acc; simp [rsMix]
  | cons g gs ih =>
    intro i acc
    simp only [rsMix]
    by_cases h : ((b >>> i) &&& 1 != 0) = true
    · rw [if_pos h, if_pos h, ih (i + 1) (acc ^^^ g), ih (i + 1) (0 ^^^ g), Nat.zero_xor, Nat.xor_assoc]
    · rw [if_neg h, if_neg h]; exact ih (i + 1) acc

theorem bit_xor (x y : Nat) :
    (((x ^^^ y) &&& 1 != 0) = true) ↔ ¬ (((x &&& 1 != 0) = true) ↔ ((y &&& 1 != 0) = true)) := by
  rw [Nat.and_xor_distrib_right, Nat.and_one_is_mod, Nat.and_one_is_mod]
  rcases Nat.mod_two_eq_zero_or_one x with hx | hx <;> rcases Nat.mod_two_eq_zero_or_one y with hy | hy <;>
    simp [hx, hy]

theorem rsMix_xor (b1 b2 : Nat) (gs : List Nat) :
    ∀ i, rsMix (b1 ^^^ b2) gs i 0 = rsMix b1 gs i 0 ^^^ rsMix b2 gs i 0 := by
  induction gs with
  | nil => intro i; simp [rsMix]
  | cons g gs ih =>
    intro i
    simp only [rsMix]
    have hb := bit_xor (b1 >>> i) (b2 >>> i)
    rw [← Nat.shiftRight_xor_distrib] at hb
    by_cases h1 : ((b1 >>> i) &&& 1 != 0) = true <;> by_cases h2 : ((b2 >>> i) &&& 1 != 0) = true
    · have h : ¬ (((b1 ^^^ b2) >>> i) &&& 1 != 0) = true :=
        fun hx => (hb.mp hx) ⟨fun _ => h2, fun _ => h1⟩
      rw [if_neg h, if_pos h1, if_pos h2, rsMix_acc b1 gs (i + 1) (0 ^^^ g), rsMix_acc b2 gs (i + 1) (0 ^^^ g), ih]
      simp only [Nat.zero_xor]
      have : ∀ a c : Nat, (g ^^^ a) ^^^ (g ^^^ c) = a ^^^ c := by
        intro a c
        have : (g ^^^ a) ^^^ (g ^^^ c) = (a ^^^ c) ^^^ (g ^^^ g) := by ac_rfl
        rw [this, Nat.xor_self, Nat.xor_zero]
      rw [this]
    · have h : (((b1 ^^^ b2) >>> i) &&& 1 != 0) = true := hb.mpr (fun hiff => h2 (hiff.mp h1))
      rw [if_pos h, if_pos h1, if_neg h2, rsMix_acc _ gs (i + 1) (0 ^^^ g), rsMix_acc b1 gs (i + 1) (0 ^^^ g), ih]
      ac_rfl
    · have h : (((b1 ^^^ b2) >>> i) &&& 1 != 0) = true := hb.mpr (fun hiff => h1 (hiff.mpr h2))
      rw [if_pos h, if_neg h1, if_pos h2, rsMix_acc _ gs (i + 1) (0 ^^^ g), rsMix_acc b2 gs (i + 1) (0 ^^^ g), ih]
      ac_rfl
    · have h : ¬ (((b1 ^^^ b2) >>> i) &&& 1 != 0) = true :=
        fun hx => hb.mp hx ⟨fun a => absurd a h1, fun a => absurd a h2⟩
      rw [if_neg h, if_neg h1, if_neg h2, ih]

theorem rsG_xor (a b : Nat) : rsG (a ^^^ b) = rsG a ^^^ rsG b := rsMix_xor a b rsGens 0

theorem rsG_zero : rsG 0 = 0 := by decide

theorem rsStep_eq (chk v : Nat) : rsStep chk v = rsL chk ^^^ v := by
  unfold rsStep rsL rsG
  show rsMix _ rsGens 0 _ = _
  rw [rsMix_acc]
  ac_rfl

theorem rsL_xor (s d : Nat) : rsL (s ^^^ d) = rsL s ^^^ rsL d := by
  unfold rsL
  rw [Nat.and_xor_distrib_right, Nat.shiftLeft_xor_distrib, Nat.shiftRight_xor_distrib, rsG_xor]
  ac_rfl

theorem rsL_zero : rsL 0 = 0 := by decide

theorem rsMix_lt (b : Nat) (gs : List Nat) (hg : ∀ g ∈ gs, g < 2 ^ 30) :
    ∀ (i acc : Nat), acc < 2 ^ 30 → rsMix b gs i acc < 2 ^ 30 := by
  induction gs with
  | nil => intro i acc h; exact h
  | cons g gs ih =>
    intro i acc h
    simp only [rsMix]
    split
    · exact ih (fun x hx => hg x (by simp [hx])) _ _ (Nat.xor_lt_two_pow h (hg g (by simp)))
    · exact ih (fun x hx => hg x (by simp [hx])) _ _ h

theorem rsGens_lt : ∀ g ∈ rsGens, g < 2 ^ 30 := by decide

theorem rsL_lt (s : Nat) : rsL s < 2 ^ 30 := by
  unfold rsL
  apply Nat.xor_lt_two_pow
  · have h1 : s &&& Gen.rsLowMask < 2 ^ 20 := by
      have : s &&& Gen.rsLowMask ≤ Gen.rsLowMask := Nat.and_le_right
      have : Gen.rsLowMask < 2 ^ 20 := by decide
      omega
    rw [Nat.shiftLeft_eq]
    calc (s &&& Gen.rsLowMask) * 2 ^ Gen.rsWordBits < 2 ^ 20 * 2 ^ Gen.rsWordBits :=
          Nat.mul_lt_mul_of_pos_right h1 (Nat.pow_pos (by decide))
      _ = 2 ^ 30 := by decide
  · exact rsMix_lt _ _ rsGens_lt 0 0 (by decide)

/-- the low ten bits of `G(b)` determine `b` (the "injective step") -/
theorem rsG_low_inj : ∀ b, b < 1024 → rsG b % 1024 = 0 → b = 0 := by decide +kernel

theorem rsL_eq_zero (d : Nat) (hd : d < 2 ^ 30) (h : rsL d = 0) : d = 0 := by
  unfold rsL at h
  have heq : (d &&& Gen.rsLowMask) <<< Gen.rsWordBits = rsG (d >>> Gen.rsTopShift) := by
    exact xor_eq_zero_imp h
  have hb : d >>> Gen.rsTopShift < 1024 := by
    rw [Nat.shiftRight_eq_div_pow]
    exact Nat.div_lt_of_lt_mul (by
      have : (2 : Nat) ^ Gen.rsTopShift * 1024 = 2 ^ 30 := by decide
      omega)
  have hlow : rsG (d >>> Gen.rsTopShift) % 1024 = 0 := by
    rw [← heq, Nat.shiftLeft_eq]
    exact Nat.mul_mod_left _ _
  have hb0 := rsG_low_inj _ hb hlow
  rw [hb0, rsG_zero, Nat.shiftLeft_eq] at heq
  have hand : d &&& Gen.rsLowMask = 0 := by
    rcases Nat.mul_eq_zero.mp heq with h1 | h1
    · exact h1
    · exact absurd h1 (by decide)
  have hm : d &&& Gen.rsLowMask = d % 2 ^ 20 := Nat.and_two_pow_sub_one_eq_mod d 20
  rw [Nat.shiftRight_eq_div_pow] at hb0
  have := Nat.div_add_mod d (2 ^ 20)
  have e1 : d / 2 ^ Gen.rsTopShift = d / 2 ^ 20 := rfl
  omega

/-- `n`-fold application of `L` -/
def rsLpow : Nat → Nat → Nat
  | 0, d => d
  | n + 1, d => rsLpow n (rsL d)

theorem rsLpow_ne_zero : ∀ (n d : Nat), d < 2 ^ 30 → d ≠ 0 → rsLpow n d ≠ 0 := by
  intro n
  induction n with
  | zero => intro d _ h; exact h
  | succ n ih =>
    intro d hd h
    exact ih (rsL d) (rsL_lt d) (fun h0 => h (rsL_eq_zero d hd h0))

theorem foldl_rsStep_xor : ∀ (vs : List Nat) (s d : Nat),
    vs.foldl rsStep (s ^^^ d) = vs.foldl rsStep s ^^^ rsLpow vs.length d := by
  intro vs
  induction vs with
  | nil => intro s d; rfl
  | cons v vs ih =>
    intro s d
    simp only [List.foldl_cons, List.length_cons, rsLpow]
    rw [rsStep_eq, rsL_xor, rsStep_eq]
    have : rsL s ^^^ rsL d ^^^ v = (rsL s ^^^ v) ^^^ rsL d := by ac_rfl
    rw [this, ih]

/-- changing exactly one value (both below 2^30, e.g. word indices) changes the polymod -/
theorem polymod_single_error (pre post : List Nat) (a a' : Nat) (ha : a < 2 ^ 30) (ha' : a' < 2 ^ 30)
    (hne : a ≠ a') : rs1024Polymod (pre ++ a :: post) ≠ rs1024Polymod (pre ++ a' :: post) := by
  unfold rs1024Polymod
  simp only [List.foldl_append, List.foldl_cons]
  generalize pre.foldl rsStep Gen.rsInit = s
  have hd : a ^^^ a' < 2 ^ 30 := Nat.xor_lt_two_pow ha ha'
  have hd0 : a ^^^ a' ≠ 0 := by
    intro h; exact hne (xor_eq_zero_imp h)
  have e : rsStep s a = rsStep s a' ^^^ (a ^^^ a') := by
    rw [rsStep_eq, rsStep_eq]
    have : rsL s ^^^ a' ^^^ (a ^^^ a') = (rsL s ^^^ a) ^^^ (a' ^^^ a') := by ac_rfl
    rw [this, Nat.xor_self, Nat.xor_zero]
  rw [e, foldl_rsStep_xor]
  intro h
  have hz : rsLpow post.length (a ^^^ a') = 0 := by
    have := congrArg (fun t => post.foldl rsStep (rsStep s a') ^^^ t) h
    simp only [← Nat.xor_assoc, Nat.xor_self, Nat.zero_xor] at this
    exact this
  exact rsLpow_ne_zero _ _ hd hd0 hz

theorem polymod_lt (vs : List Nat) (hv : ∀ v ∈ vs, v < 2 ^ 30) : rs1024Polymod vs < 2 ^ 30 := by
  unfold rs1024Polymod
  have : ∀ (vs : List Nat) (s : Nat), s < 2 ^ 30 → (∀ v ∈ vs, v < 2 ^ 30) → vs.foldl rsStep s < 2 ^ 30 := by
    intro vs
    induction vs with
    | nil => intro s hs _; exact hs
    | cons v vs ih =>
      intro s hs hv
      simp only [List.foldl_cons]
      apply ih _ _ (fun x hx => hv x (by simp [hx]))
      rw [rsStep_eq]
      exact Nat.xor_lt_two_pow (rsL_lt s) (hv v (by simp))
  exact this vs _ (by decide) hv

theorem rsL_small (v : Nat) (hv : v < 2 ^ 20) : rsL v = v <<< 10 := by
  unfold rsL
  have h1 : v >>> Gen.rsTopShift = 0 := by
    rw [Nat.shiftRight_eq_div_pow]; exact Nat.div_eq_of_lt hv
  have h2 : v &&& Gen.rsLowMask = v := by
    have hm : v &&& Gen.rsLowMask = v % 2 ^ 20 := Nat.and_two_pow_sub_one_eq_mod v 20
    rw [hm, Nat.mod_eq_of_lt hv]
  rw [h1, h2, rsG_zero, Nat.xor_zero]

theorem split30 (p : Nat) (hp : p < 2 ^ 30) :
    (((p >>> 20) &&& 1023) <<< 20) ^^^ ((((p >>> 10) &&& 1023) <<< 10) ^^^ (p &&& 1023)) = p := by
  apply Nat.eq_of_testBit_eq
  intro i
  have h1023 : (1023 : Nat) = 2 ^ 10 - 1 := by decide
  simp only [Nat.testBit_xor, Nat.testBit_shiftLeft, Nat.testBit_and, Nat.testBit_shiftRight, h1023,
    Nat.testBit_two_pow_sub_one]
  by_cases h1 : i < 10
  · have : ¬ 20 ≤ i := by omega
    have : ¬ 10 ≤ i := by omega
    simp [*]
  · by_cases h2 : i < 20
    · have e : 10 + (i - 10) = i := by omega
      have : ¬ 20 ≤ i := by omega
      have : 10 ≤ i := by omega
      have : i - 10 < 10 := by omega
      simp [*]
    · by_cases h3 : i < 30
      · have e : 20 + (i - 20) = i := by omega
        have : 20 ≤ i := by omega
        have : 10 ≤ i := by omega
        have : ¬ i - 10 < 10 := by omega
        have : i - 20 < 10 := by omega
        simp [*]
      · have hbig : p.testBit i = false := by
          apply Nat.testBit_lt_two_pow
          calc p < 2 ^ 30 := hp
            _ ≤ 2 ^ i := Nat.pow_le_pow_right (by decide) (by omega)
        have : 20 ≤ i := by omega
        have : 10 ≤ i := by omega
        have : ¬ i - 10 < 10 := by omega
        have : ¬ i - 20 < 10 := by omega
        simp [*]

theorem polymod_three (vals : List Nat) (x y z : Nat) :
    rs1024Polymod (vals ++ [x, y, z]) = rsStep (rsStep (rsStep (vals.foldl rsStep Gen.rsInit) x) y) z := by
  simp only [rs1024Polymod, List.foldl_append, List.foldl_cons, List.foldl_nil]

theorem rsStep_zero (s : Nat) : rsStep s 0 = rsL s := by rw [rsStep_eq, Nat.xor_zero]

/-- the three words of `rs1024_create_checksum` make the polymod equal to 1 -/
theorem polymod_create (vals : List Nat) (hv : ∀ v ∈ vals, v < 2 ^ 30) (p : Nat)
    (hpdef : p = rs1024Polymod (vals ++ [0, 0, 0]) ^^^ 1) :
    rs1024Polymod (vals ++ [(p >>> 20) &&& 1023, (p >>> 10) &&& 1023, p &&& 1023]) = 1 := by
  have hP : rs1024Polymod (vals ++ [0, 0, 0]) < 2 ^ 30 := by
    apply polymod_lt
    intro v h
    simp only [List.mem_append, List.mem_cons, List.not_mem_nil, or_false] at h
    rcases h with h | h | h | h
    · exact hv v h
    all_goals (subst h; decide)
  have hp : p < 2 ^ 30 := by rw [hpdef]; exact Nat.xor_lt_two_pow hP (by decide)
  have hc : ∀ x : Nat, x &&& 1023 < 2 ^ 10 := by
    intro x
    have : x &&& 1023 ≤ 1023 := Nat.and_le_right
    omega
  have hsplit := split30 p hp
  have b0 := hc (p >>> 20)
  have b1 := hc (p >>> 10)
  have b2 := hc p
  generalize (p >>> 20) &&& 1023 = c0 at hsplit b0 ⊢
  generalize (p >>> 10) &&& 1023 = c1 at hsplit b1 ⊢
  generalize p &&& 1023 = c2 at hsplit b2 ⊢
  rw [polymod_three] at hpdef ⊢
  generalize vals.foldl rsStep Gen.rsInit = s at hpdef ⊢
  rw [rsStep_zero, rsStep_zero, rsStep_zero] at hpdef
  rw [rsStep_eq s c0, rsStep_eq _ c1, rsStep_eq _ c2]
  have e0 : rsL (rsL s ^^^ c0) = rsL (rsL s) ^^^ (c0 <<< 10) := by
    rw [rsL_xor, rsL_small c0 (by omega)]
  have hc0 : c0 <<< 10 < 2 ^ 20 := by
    rw [Nat.shiftLeft_eq]
    calc c0 * 2 ^ 10 < 2 ^ 10 * 2 ^ 10 := Nat.mul_lt_mul_of_pos_right b0 (by decide)
      _ = 2 ^ 20 := by decide
  have e1 : rsL (rsL (rsL s) ^^^ (c0 <<< 10) ^^^ c1) = rsL (rsL (rsL s)) ^^^ (c0 <<< 20) ^^^ (c1 <<< 10) := by
    rw [rsL_xor, rsL_xor, rsL_small c1 (by omega), rsL_small _ hc0, ← Nat.shiftLeft_add]
  rw [e0, e1]
  have e2 : rsL (rsL (rsL s)) ^^^ c0 <<< 20 ^^^ c1 <<< 10 ^^^ c2
      = rsL (rsL (rsL s)) ^^^ (c0 <<< 20 ^^^ (c1 <<< 10 ^^^ c2)) := by
    rw [Nat.xor_assoc, Nat.xor_assoc]
  rw [e2, hsplit, hpdef, ← Nat.xor_assoc, Nat.xor_self, Nat.zero_xor]

/-- `rs1024_verify_checksum(cs, data + rs1024_create_checksum(cs, data))` holds -/
theorem verify_create (cs : Bytes) (data : List Nat) (hd : ∀ v ∈ data, v < 2 ^ 30) :
    rs1024Verify cs (data ++ rs1024Create cs data) = true := by
  unfold rs1024Verify rs1024Create
  have hv : ∀ v ∈ cs.map (·.toNat) ++ data, v < 2 ^ 30 := by
    intro v h
    simp only [List.mem_append, List.mem_map] at h
    rcases h with ⟨b, _, rfl⟩ | h
    · have := b.toNat_lt; omega
    · exact hd v h
  have := polymod_create (cs.map (·.toNat) ++ data) hv _ rfl
  simp only [List.append_assoc] at this ⊢
  rw [this]
  decide

/-- a single wrong word is never accepted: if a sequence verifies, no sequence differing from it in exactly
    one position (values below 2^30 — word indices are below 1024) verifies -/
theorem verify_single_error (cs : Bytes) (pre post : List Nat) (a a' : Nat) (ha : a < 2 ^ 30)
    (ha' : a' < 2 ^ 30) (hne : a ≠ a') (hok : rs1024Verify cs (pre ++ a :: post) = true) :
    rs1024Verify cs (pre ++ a' :: post) = false := by
  unfold rs1024Verify at hok ⊢
  simp only [beq_iff_eq] at hok
  rw [← List.append_assoc] at hok ⊢
  have := polymod_single_error (cs.map (·.toNat) ++ pre) post a a' ha ha' hne
  rw [hok] at this
  simp only [beq_eq_false_iff_ne, ne_eq]
  exact fun h => this h.symm

end Buidl.Shamir
