/-
  Lemmas about the Python-dict model of Buidl.Model.PsbtCodec (`dget`, `dset`, `dunion`, `sortKeys`,
  `sortedItems`): lookup after update / union, key sets, preservation of key distinctness, the order
  `bytesLe` is a total order, and — the fact every "up to serialisation" theorem rests on —
  `sortedItems` depends only on the lookup function of a dict with distinct keys.
-/
import Buidl.Model.PsbtCodec
namespace Buidl.Psbt
open Buidl

variable {β : Type}

/-- a Python dict never holds a key twice -/
def DNodup (d : Dict β) : Prop := (dkeys d).Nodup

@[simp] theorem dkeys_nil : dkeys ([] : Dict β) = [] := rfl
@[simp] theorem dkeys_cons (k : Bytes) (v : β) (r : Dict β) : dkeys ((k, v) :: r) = k :: dkeys r := rfl
@[simp] theorem dget_nil (k : Bytes) : dget ([] : Dict β) k = none := rfl

theorem dget_cons (k' : Bytes) (v : β) (r : Dict β) (k : Bytes) :
    dget ((k', v) :: r) k = if k' = k then some v else dget r k := rfl

theorem dget_eq_none_iff (d : Dict β) (k : Bytes) : dget d k = none ↔ k ∉ dkeys d := by
  induction d with
  | nil => simp
  | cons e r ih =>
    obtain ⟨k', v⟩ := e
    rw [dget_cons]
    by_cases h : k' = k
    · simp [h]
    · simp [h, ih, Ne.symm h]

theorem mem_dkeys_iff (d : Dict β) (k : Bytes) : k ∈ dkeys d ↔ (dget d k).isSome := by
  cases h : dget d k with
  | none => simpa using (dget_eq_none_iff d k).mp h
  | some v =>
    simp only [Option.isSome_some, iff_true]
    apply Classical.byContradiction
    intro hn
    rw [(dget_eq_none_iff d k).mpr hn] at h
    cases h

theorem dget_some_mem {d : Dict β} {k : Bytes} {v : β} (h : dget d k = some v) : (k, v) ∈ d := by
  induction d with
  | nil => simp at h
  | cons e r ih =>
    obtain ⟨k', v'⟩ := e
    rw [dget_cons] at h
    by_cases hk : k' = k
    · simp only [hk, if_true, Option.some.injEq] at h; subst h; subst hk; simp
    · simp only [hk, if_false] at h; exact List.mem_cons_of_mem _ (ih h)

theorem dget_of_mem {d : Dict β} (hd : DNodup d) {k : Bytes} {v : β} (h : (k, v) ∈ d) : dget d k = some v := by
  induction d with
  | nil => simp at h
  | cons e r ih =>
    obtain ⟨k', v'⟩ := e
    simp only [DNodup, dkeys_cons, List.nodup_cons] at hd
    rw [dget_cons]
    rcases List.mem_cons.mp h with h | h
    · cases h; simp
    · have : k ∈ dkeys r := List.mem_map.mpr ⟨(k, v), h, rfl⟩
      have hne : k' ≠ k := fun e => hd.1 (e ▸ this)
      simp only [hne, if_false]
      exact ih hd.2 h

/-! ### `d[k] = v` -/

theorem dget_dset_self (d : Dict β) (k : Bytes) (v : β) : dget (dset d k v) k = some v := by
  induction d with
  | nil => simp [dset, dget_cons]
  | cons e r ih =>
    obtain ⟨k', v'⟩ := e
    by_cases h : k' = k
    · simp [dset, h, dget_cons]
    · simp [dset, h, dget_cons, ih]

theorem dget_dset_ne (d : Dict β) {k k' : Bytes} (v : β) (h : k' ≠ k) : dget (dset d k v) k' = dget d k' := by
  induction d with
  | nil => simp [dset, dget_cons, Ne.symm h]
  | cons e r ih =>
    obtain ⟨k0, v0⟩ := e
    by_cases h0 : k0 = k
    · subst h0; simp [dset, dget_cons, Ne.symm h]
    · simp only [dset, h0, if_false, dget_cons, ih]

theorem dget_dset (d : Dict β) (k k' : Bytes) (v : β) :
    dget (dset d k v) k' = if k' = k then some v else dget d k' := by
  by_cases h : k' = k
  · subst h; simp [dget_dset_self]
  · simp [h, dget_dset_ne d v h]

theorem dkeys_dset_of_mem (d : Dict β) (k : Bytes) (v : β) (h : k ∈ dkeys d) : dkeys (dset d k v) = dkeys d := by
  induction d with
  | nil => simp at h
  | cons e r ih =>
    obtain ⟨k0, v0⟩ := e
    by_cases h0 : k0 = k
    · subst h0; simp [dset]
    · simp only [dkeys_cons, List.mem_cons] at h
      have : k ∈ dkeys r := by rcases h with h | h; exact absurd h.symm h0; exact h
      simp [dset, h0, ih this]

theorem dkeys_dset_of_not_mem (d : Dict β) (k : Bytes) (v : β) (h : k ∉ dkeys d) :
    dkeys (dset d k v) = dkeys d ++ [k] := by
  induction d with
  | nil => simp [dset]
  | cons e r ih =>
    obtain ⟨k0, v0⟩ := e
    simp only [dkeys_cons, List.mem_cons, not_or] at h
    have h0 : k0 ≠ k := fun e => h.1 e.symm
    simp [dset, h0, ih h.2]

theorem dset_of_not_mem (d : Dict β) (k : Bytes) (v : β) (h : k ∉ dkeys d) : dset d k v = d ++ [(k, v)] := by
  induction d with
  | nil => simp [dset]
  | cons e r ih =>
    obtain ⟨k0, v0⟩ := e
    simp only [dkeys_cons, List.mem_cons, not_or] at h
    have h0 : k0 ≠ k := fun e => h.1 e.symm
    simp [dset, h0, ih h.2]

theorem mem_dkeys_dset (d : Dict β) (k k' : Bytes) (v : β) : k' ∈ dkeys (dset d k v) ↔ k' = k ∨ k' ∈ dkeys d := by
  by_cases h : k ∈ dkeys d
  · rw [dkeys_dset_of_mem d k v h]
    constructor
    · exact Or.inr
    · rintro (rfl | h'); exact h; exact h'
  · rw [dkeys_dset_of_not_mem d k v h]; simp [or_comm]

theorem dnodup_dset {d : Dict β} (hd : DNodup d) (k : Bytes) (v : β) : DNodup (dset d k v) := by
  unfold DNodup at *
  by_cases h : k ∈ dkeys d
  · rw [dkeys_dset_of_mem d k v h]; exact hd
  · rw [dkeys_dset_of_not_mem d k v h]
    rw [List.nodup_append]
    refine ⟨hd, by simp, ?_⟩
    intro a ha b hb
    rw [List.mem_singleton] at hb
    subst hb
    exact fun e => h (e ▸ ha)

/-! ### `{**a, **b}` -/

theorem dunion_nil (a : Dict β) : dunion a [] = a := rfl

theorem dunion_cons (a : Dict β) (e : Bytes × β) (b : Dict β) : dunion a (e :: b) = dunion (dset a e.1 e.2) b := rfl

theorem dnodup_dunion {a : Dict β} (ha : DNodup a) (b : Dict β) : DNodup (dunion a b) := by
  induction b generalizing a with
  | nil => exact ha
  | cons e r ih => rw [dunion_cons]; exact ih (dnodup_dset ha _ _)

theorem mem_dkeys_dunion (a b : Dict β) (k : Bytes) : k ∈ dkeys (dunion a b) ↔ k ∈ dkeys a ∨ k ∈ dkeys b := by
  induction b generalizing a with
  | nil => simp [dunion_nil]
  | cons e r ih =>
    obtain ⟨k0, v0⟩ := e
    rw [dunion_cons, ih, mem_dkeys_dset, dkeys_cons, List.mem_cons]
    constructor
    · rintro ((h | h) | h)
      · exact Or.inr (Or.inl h)
      · exact Or.inl h
      · exact Or.inr (Or.inr h)
    · rintro (h | h | h)
      · exact Or.inl (Or.inr h)
      · exact Or.inl (Or.inl h)
      · exact Or.inr h

/-- lookup in `{**a, **b}`: `b` wins (when `b` is a dict, i.e. has distinct keys) -/
theorem dget_dunion (a : Dict β) {b : Dict β} (hb : DNodup b) (k : Bytes) :
    dget (dunion a b) k = (dget b k).or (dget a k) := by
  induction b generalizing a with
  | nil => simp [dunion_nil]
  | cons e r ih =>
    obtain ⟨k0, v0⟩ := e
    simp only [DNodup, dkeys_cons, List.nodup_cons] at hb
    rw [dunion_cons, ih _ hb.2, dget_cons]
    by_cases h : k0 = k
    · subst h
      have : dget r k0 = none := (dget_eq_none_iff r k0).mpr hb.1
      simp [this, dget_dset_self]
    · simp only [h, if_false]
      rw [dget_dset_ne _ _ (Ne.symm h)]

/-! ### the order of `sorted()` on bytes -/

theorem bytesLe_refl (a : Bytes) : bytesLe a a = true := by
  induction a with
  | nil => rfl
  | cons x xs ih => simp [bytesLe, ih]

theorem bytesLe_total (a b : Bytes) : (bytesLe a b || bytesLe b a) = true := by
  induction a generalizing b with
  | nil => simp [bytesLe]
  | cons x xs ih =>
    cases b with
    | nil => simp [bytesLe]
    | cons y ys =>
      simp only [bytesLe]
      rcases Nat.lt_trichotomy x.toNat y.toNat with h | h | h
      · have : x < y := UInt8.lt_iff_toNat_lt.mpr h
        simp [this]
      · have : x = y := UInt8.toNat_inj.mp h
        subst this
        have := ih ys
        simp only [Bool.or_eq_true] at this ⊢
        rcases this with h | h
        · left; simp [h]
        · right; simp [h]
      · have : y < x := UInt8.lt_iff_toNat_lt.mpr h
        simp [this]

theorem bytesLe_trans {a b c : Bytes} (h1 : bytesLe a b = true) (h2 : bytesLe b c = true) : bytesLe a c = true := by
  induction a generalizing b c with
  | nil => simp [bytesLe]
  | cons x xs ih =>
    cases b with
    | nil => simp [bytesLe] at h1
    | cons y ys =>
      cases c with
      | nil => simp [bytesLe] at h2
      | cons z zs =>
        simp only [bytesLe, Bool.or_eq_true, Bool.and_eq_true, decide_eq_true_eq, beq_iff_eq] at h1 h2 ⊢
        rcases h1 with h1 | ⟨rfl, h1⟩
        · rcases h2 with h2 | ⟨rfl, _⟩
          · left; exact UInt8.lt_trans h1 h2
          · left; exact h1
        · rcases h2 with h2 | ⟨rfl, h2⟩
          · left; exact h2
          · right; exact ⟨rfl, ih h1 h2⟩

theorem bytesLe_antisymm {a b : Bytes} (h1 : bytesLe a b = true) (h2 : bytesLe b a = true) : a = b := by
  induction a generalizing b with
  | nil => cases b with
    | nil => rfl
    | cons y ys => simp [bytesLe] at h2
  | cons x xs ih =>
    cases b with
    | nil => simp [bytesLe] at h1
    | cons y ys =>
      simp only [bytesLe, Bool.or_eq_true, Bool.and_eq_true, decide_eq_true_eq, beq_iff_eq] at h1 h2
      rcases h1 with h1 | ⟨rfl, h1⟩
      · rcases h2 with h2 | ⟨rfl, _⟩
        · exact absurd (UInt8.lt_trans h1 h2) (UInt8.lt_irrefl _)
        · exact absurd h1 (UInt8.lt_irrefl _)
      · rcases h2 with h2 | ⟨_, h2⟩
        · exact absurd h2 (UInt8.lt_irrefl _)
        · rw [ih h1 h2]

theorem sortKeys_perm (l : List Bytes) : (sortKeys l).Perm l := List.mergeSort_perm l _

theorem sortKeys_pairwise (l : List Bytes) : (sortKeys l).Pairwise (fun a b => bytesLe a b = true) :=
  List.pairwise_mergeSort (le := bytesLe) (fun _ _ _ h1 h2 => bytesLe_trans h1 h2) bytesLe_total l

theorem mem_sortKeys (l : List Bytes) (k : Bytes) : k ∈ sortKeys l ↔ k ∈ l := (sortKeys_perm l).mem_iff

theorem sortKeys_nodup {l : List Bytes} (h : l.Nodup) : (sortKeys l).Nodup := (sortKeys_perm l).nodup_iff.mpr h

/-- `sorted()` of two lists with the same elements (each without repetition) is the same list -/
theorem sortKeys_eq_of_perm {l1 l2 : List Bytes} (h : l1.Perm l2) : sortKeys l1 = sortKeys l2 :=
  List.Perm.eq_of_pairwise (le := fun a b => bytesLe a b = true) (fun _ _ _ _ h1 h2 => bytesLe_antisymm h1 h2)
    (sortKeys_pairwise l1) (sortKeys_pairwise l2) ((sortKeys_perm l1).trans (h.trans (sortKeys_perm l2).symm))

theorem sortKeys_of_sorted {l : List Bytes} (h : l.Pairwise (fun a b => bytesLe a b = true)) : sortKeys l = l :=
  List.mergeSort_of_pairwise h

theorem sortKeys_idem (l : List Bytes) : sortKeys (sortKeys l) = sortKeys l := sortKeys_of_sorted (sortKeys_pairwise l)

/-! ### serialisation order depends on the lookup function only -/

theorem dkeys_perm_of_dget_eq {a b : Dict β} (ha : DNodup a) (hb : DNodup b) (h : ∀ k, dget a k = dget b k) :
    (dkeys a).Perm (dkeys b) := by
  refine (List.perm_ext_iff_of_nodup ha hb).mpr fun k => ?_
  rw [mem_dkeys_iff, mem_dkeys_iff, h k]

/-- two dicts with the same lookup function serialise identically -/
theorem sortedItems_ext {a b : Dict β} (ha : DNodup a) (hb : DNodup b) (h : ∀ k, dget a k = dget b k) :
    sortedItems a = sortedItems b := by
  unfold sortedItems
  rw [sortKeys_eq_of_perm (dkeys_perm_of_dget_eq ha hb h)]
  congr 1
  funext k
  rw [h k]

theorem filterMap_eq_self_of {α : Type} {f : α → Option α} {l : List α} (h : ∀ x ∈ l, f x = some x) :
    l.filterMap f = l := by
  induction l with
  | nil => rfl
  | cons a r ih =>
    rw [List.filterMap_cons, h a (List.mem_cons_self ..)]
    simp only
    rw [ih fun x hx => h x (List.mem_cons_of_mem _ hx)]

theorem dkeys_sortedItems (d : Dict β) : dkeys (sortedItems d) = sortKeys (dkeys d) := by
  unfold sortedItems dkeys
  rw [List.map_filterMap]
  have : ∀ k ∈ sortKeys (List.map (fun x => x.1) d),
      (Option.map (fun (x : Bytes × β) => x.1) ((dget d k).map fun v => (k, v))) = some k := by
    intro k hk
    have hk' : k ∈ dkeys d := (mem_sortKeys _ k).mp hk
    obtain ⟨v, hv⟩ := Option.isSome_iff_exists.mp ((mem_dkeys_iff d k).mp hk')
    simp [hv]
  exact filterMap_eq_self_of this

theorem dnodup_sortedItems {d : Dict β} (hd : DNodup d) : DNodup (sortedItems d) := by
  unfold DNodup
  rw [dkeys_sortedItems]
  exact sortKeys_nodup hd

theorem dget_sortedItems {d : Dict β} (hd : DNodup d) (k : Bytes) : dget (sortedItems d) k = dget d k := by
  cases h : dget d k with
  | none =>
    rw [dget_eq_none_iff, dkeys_sortedItems, mem_sortKeys, ← dget_eq_none_iff]
    exact h
  | some v =>
    apply dget_of_mem (dnodup_sortedItems hd)
    unfold sortedItems
    rw [List.mem_filterMap]
    refine ⟨k, ?_, by simp [h]⟩
    rw [mem_sortKeys, mem_dkeys_iff, h]; rfl

/-- re-sorting the items of a sorted dict changes nothing: the second serialisation is the first -/
theorem sortedItems_idem {d : Dict β} (hd : DNodup d) : sortedItems (sortedItems d) = sortedItems d :=
  sortedItems_ext (dnodup_sortedItems hd) hd (dget_sortedItems hd)

end Buidl.Psbt
