/-
  Buidl.Proofs.HDPath — Mathlib-free helper lemmas for C08: Python-string lemmas (split, normalisation)
  and the loops of HDPrivateKey.traverse / HDPublicKey.traverse.
-/
import Buidl.Model.HD
import Buidl.Spec.BIP32
import Buidl.Proofs.Bytes
namespace Buidl.HD
open Buidl Buidl.EC Buidl.PyStr

/-! ## Python strings -/

theorem split_ne_nil (sep : Char) (s : Str) : split sep s ≠ [] := by
  cases s with
  | nil => simp [split]
  | cons x xs =>
    simp only [split]
    split
    · simp
    · split <;> simp

theorem split_append (sep : Char) (a b : Str) : split sep (a ++ sep :: b) = split sep a ++ split sep b := by
  induction a with
  | nil => simp [split]
  | cons x a ih =>
    simp only [List.cons_append, split]
    by_cases hx : x = sep
    · simp [hx, ih]
    · simp only [hx, if_false, ih]
      cases hs : split sep a with
      | nil => exact absurd hs (split_ne_nil sep a)
      | cons p ps => simp

theorem components_append (p rest : Str) :
    components (p ++ '/' :: rest) = components p ++ split '/' rest := by
  unfold components
  rw [split_append]
  cases hs : split '/' p with
  | nil => exact absurd hs (split_ne_nil _ p)
  | cons h t => simp

theorem components_m_slash (rest : Str) : components ('m' :: '/' :: rest) = split '/' rest := by
  simp [components, split]

theorem normPath_append (a b : Str) : normPath (a ++ b) = normPath a ++ normPath b := by
  simp [normPath, lower, replaceChar]

theorem normPath_m_slash (rest : Str) : normPath ('m' :: '/' :: rest) = 'm' :: '/' :: normPath rest := by
  simp [normPath, lower, replaceChar]

theorem startsWith_m_normPath_append (p rest : Str) :
    startsWith ['m'] (normPath (p ++ '/' :: rest)) = startsWith ['m'] (normPath p) := by
  cases p with
  | nil => simp [startsWith, normPath, lower, replaceChar, List.isPrefixOf]
  | cons c p => simp [startsWith, normPath, lower, replaceChar, List.isPrefixOf]

/-! ## the loops of traverse -/

section walk
variable (hmac : Bytes → Bytes → Bytes) (h160 : Bytes → Bytes)

theorem priv_walk_append (k : HDPriv) (cs ds : List Str) :
    k.walk hmac h160 (cs ++ ds) = (k.walk hmac h160 cs).bind (fun k' => k'.walk hmac h160 ds) := by
  induction cs generalizing k with
  | nil => simp [HDPriv.walk]
  | cons c cs ih =>
    simp only [List.cons_append, HDPriv.walk]
    cases privIndex c with
    | none => simp
    | some i =>
      simp only [Option.bind_eq_bind, Option.bind_some, Option.bind_assoc]
      congr 1
      funext k'
      exact ih k'

theorem pub_walk_append (p : HDPub) (cs ds : List Str) :
    p.walk hmac h160 (cs ++ ds) = (p.walk hmac h160 cs).bind (fun p' => p'.walk hmac h160 ds) := by
  induction cs generalizing p with
  | nil => simp [HDPub.walk]
  | cons c cs ih =>
    simp only [List.cons_append, HDPub.walk]
    cases pubIndex c with
    | none => simp
    | some i =>
      simp only [Option.bind_eq_bind, Option.bind_some, Option.bind_assoc]
      congr 1
      funext p'
      exact ih p'

theorem priv_traverse_append (k : HDPriv) (p rest : Str) :
    k.traverse hmac h160 (p ++ '/' :: rest)
      = (k.traverse hmac h160 p).bind (fun k' => k'.traverse hmac h160 ('m' :: '/' :: rest)) := by
  have hm : ∀ k' : HDPriv, k'.traverse hmac h160 ('m' :: '/' :: rest) = k'.walk hmac h160 (split '/' (normPath rest)) := by
    intro k'
    simp [HDPriv.traverse, normPath_m_slash, components_m_slash, startsWith]
  simp only [HDPriv.traverse, startsWith_m_normPath_append]
  by_cases hs : startsWith ['m'] (normPath p) = true
  · simp only [hs, not_true_eq_false, if_false]
    rw [normPath_append]
    have : normPath ('/' :: rest) = '/' :: normPath rest := by simp [normPath, lower, replaceChar]
    rw [this, components_append, priv_walk_append]
    simp [normPath_m_slash, components_m_slash, startsWith]
  · simp [hs]

theorem pub_traverse_append (k : HDPub) (p rest : Str) :
    k.traverse hmac h160 (p ++ '/' :: rest)
      = (k.traverse hmac h160 p).bind (fun k' => k'.traverse hmac h160 ('m' :: '/' :: rest)) := by
  have hm : ∀ k' : HDPub, k'.traverse hmac h160 ('m' :: '/' :: rest) = k'.walk hmac h160 (split '/' (normPath rest)) := by
    intro k'
    simp [HDPub.traverse, normPath_m_slash, components_m_slash, startsWith]
  simp only [HDPub.traverse, startsWith_m_normPath_append]
  by_cases hs : startsWith ['m'] (normPath p) = true
  · simp only [hs, not_true_eq_false, if_false]
    rw [normPath_append]
    have : normPath ('/' :: rest) = '/' :: normPath rest := by simp [normPath, lower, replaceChar]
    rw [this, components_append, pub_walk_append]
    simp [normPath_m_slash, components_m_slash, startsWith]
  · simp [hs]

/-- the loops are the monadic left fold of `child` over the components -/
theorem priv_walk_eq_foldlM (k : HDPriv) (cs : List Str) :
    k.walk hmac h160 cs = cs.foldlM (fun k c => (privIndex c).bind (k.childI hmac h160)) k := by
  induction cs generalizing k with
  | nil => simp [HDPriv.walk]
  | cons c cs ih =>
    simp only [HDPriv.walk, List.foldlM_cons, Option.bind_eq_bind, Option.bind_assoc]
    congr 1; funext i; congr 1; funext k'; exact ih k'

theorem pub_walk_eq_foldlM (p : HDPub) (cs : List Str) :
    p.walk hmac h160 cs = cs.foldlM (fun p c => (pubIndex c).bind (p.childI hmac h160)) p := by
  induction cs generalizing p with
  | nil => simp [HDPub.walk]
  | cons c cs ih =>
    simp only [HDPub.walk, List.foldlM_cons, Option.bind_eq_bind, Option.bind_assoc]
    congr 1; funext i; congr 1; funext p'; exact ih p'

/-! ## hardened derivation from a public key -/

theorem pub_child_hardened (p : HDPub) (i : Nat) (hi : 2 ^ 31 ≤ i) : p.child hmac h160 i = none := by
  have h : cmpOp Gen.hdPubHardOp i Gen.hdPubHardT = true := by
    simp [cmpOp, Gen.hdPubHardOp]; omega
  simp [HDPub.child, h]

theorem pub_childI_hardened (p : HDPub) (i : Int) (hi : 2 ^ 31 ≤ i) : p.childI hmac h160 i = none := by
  have h : cmpOpI Gen.hdPubHardOp i Gen.hdPubHardT = true := by
    simp [cmpOpI, Gen.hdPubHardOp]; omega
  unfold HDPub.childI
  rw [if_pos h]

theorem pub_childI_neg (p : HDPub) (i : Int) (hi : i < 0) : p.childI hmac h160 i = none := by
  have h : cmpOpI Gen.hdPubNegOp i Gen.hdPubNegT = true := by
    simp [cmpOpI, Gen.hdPubNegOp]; omega
  unfold HDPub.childI
  rw [if_pos h]
  split <;> rfl

theorem pub_walk_reject_of_step (p : HDPub) (cs : List Str)
    (h : ∃ c ∈ cs, ∀ q : HDPub, (pubIndex c).bind (q.childI hmac h160) = none) : p.walk hmac h160 cs = none := by
  induction cs generalizing p with
  | nil => obtain ⟨c, hc, _⟩ := h; cases hc
  | cons c cs ih =>
    rw [pub_walk_eq_foldlM, List.foldlM_cons]
    by_cases hc : ∀ q : HDPub, (pubIndex c).bind (q.childI hmac h160) = none
    · simp [hc p]
    · have h' : ∃ c ∈ cs, ∀ q : HDPub, (pubIndex c).bind (q.childI hmac h160) = none := by
        obtain ⟨d, hd, hde⟩ := h
        rcases List.mem_cons.mp hd with rfl | hd
        · exact absurd hde hc
        · exact ⟨d, hd, hde⟩
      cases hq : (pubIndex c).bind (p.childI hmac h160) with
      | none => simp
      | some p' =>
        simp only [Option.bind_eq_bind, Option.bind_some]
        rw [← pub_walk_eq_foldlM]
        exact ih p' h'

/-- a component written as hardened (`'`, `h`, `H` after normalisation) makes the public walk fail -/
theorem pub_walk_hardened (p : HDPub) (cs : List Str) (h : ∃ c ∈ cs, endsWithChar '\'' c = true) :
    p.walk hmac h160 cs = none := by
  apply pub_walk_reject_of_step
  obtain ⟨c, hc, he⟩ := h
  exact ⟨c, hc, fun q => by simp [pubIndex, he]⟩

/-- a component whose number is a hardened index makes the public walk fail -/
theorem pub_walk_hardened_index (p : HDPub) (cs : List Str)
    (h : ∃ c ∈ cs, ∃ i : Int, pyInt c = some i ∧ 2 ^ 31 ≤ i) : p.walk hmac h160 cs = none := by
  apply pub_walk_reject_of_step
  obtain ⟨c, hc, i, hi, hge⟩ := h
  refine ⟨c, hc, fun q => ?_⟩
  unfold pubIndex
  split
  · simp
  · simp [hi, pub_childI_hardened hmac h160 q i hge]

/-! ## upper-case `M` (finding F08a) -/

theorem normPath_M (rest : Str) : normPath ('M' :: rest) = normPath ('m' :: rest) := by
  simp [normPath, lower, replaceChar]

theorem pub_traverse_M (p : HDPub) (rest : Str) :
    p.traverse hmac h160 ('M' :: rest) = p.traverse hmac h160 ('m' :: rest) := by
  simp only [HDPub.traverse, normPath_M]

theorem priv_traverse_M (k : HDPriv) (rest : Str) :
    k.traverse hmac h160 ('M' :: rest) = k.traverse hmac h160 ('m' :: rest) := by
  simp only [HDPriv.traverse, normPath_M]

theorem pub_traverseF08a_M (p : HDPub) (rest : Str) : p.traverseF08a hmac h160 ('M' :: rest) = none := by
  simp [HDPub.traverseF08a, startsWith, List.isPrefixOf]

end walk

/-! ## public / private consistency, relative to the one group-law fact it needs
    (`Buidl.Proofs.HD.groupAdd` proves it from Buidl.Proofs.Secp256k1) -/

/-- `((a + b) mod N)·G = b·G + a·G` with the code's operators -/
def GroupAdd : Prop :=
  ∀ a b : Nat, smul (((a + b) % N : Nat) : Int) G = sadd (smul (b : Int) G) (smul (a : Int) G)

theorem mkSecret_some {s t : Nat} (h : mkSecret s = some t) : t = s ∧ 1 ≤ s ∧ s < N := by
  unfold mkSecret at h
  split at h
  · cases h
  · split at h
    · cases h
    · cases h
      refine ⟨rfl, by omega, ?_⟩
      have : 0 < N := by decide
      omega

theorem mkSecret_of_range {s : Nat} (h1 : 1 ≤ s) (h2 : s < N) : mkSecret s = some s := by
  unfold mkSecret
  have : 0 < N := by decide
  rw [if_neg (by omega), if_neg (by omega)]

theorem mkSecret_none_of_lt {s : Nat} (h : mkSecret s = none) (h2 : s < N) : s = 0 := by
  by_cases h1 : 1 ≤ s
  · rw [mkSecret_of_range h1 h2] at h; cases h
  · omega

section consistency
variable (hmac : Bytes → Bytes → Bytes) (h160 : Bytes → Bytes)

theorem priv_childData_normal (k : HDPriv) (i : Nat) (hi : i < 2 ^ 31) :
    k.childData i = (sec (smul (k.secret : Int) G) true).bind fun a =>
      (natToBE i Gen.hdPrivChildIndexW).bind fun b => some (a ++ b) := by
  have hc1 : cmpOp Gen.hdPrivHardOp i Gen.hdPrivHardT = false := by
    simp [cmpOp, Gen.hdPrivHardOp, Gen.hdPrivHardT]; omega
  simp [HDPriv.childData, hc1]

theorem pub_child_normal (p : HDPub) (i : Nat) (hi : i < 2 ^ 31) :
    p.child hmac h160 i = (sec p.point true).bind fun a =>
      (natToBE i Gen.hdPubChildIndexW).bind fun b => p.childFromData hmac h160 i (a ++ b) := by
  have hc2 : cmpOp Gen.hdPubHardOp i Gen.hdPubHardT = false := by
    simp [cmpOp, Gen.hdPubHardOp, Gen.hdPubHardT]; omega
  simp [HDPub.child, hc2]

theorem child_pub_consistent_rel (hg : GroupAdd) (k : HDPriv) (i : Nat) (hi : i < 2 ^ 31) (k' : HDPriv)
    (h : k.child hmac h160 i = some k') : k.pub.child hmac h160 i = some k'.pub := by
  rw [HDPriv.child, priv_childData_normal k i hi] at h
  simp only [HDPriv.childFromData, Option.bind_eq_some_iff] at h
  obtain ⟨d, ⟨a, ha, b, hb, hd⟩, s', hs', fp, hfp, hk⟩ := h
  cases hd; cases hk
  obtain ⟨rfl, -, -⟩ := mkSecret_some hs'
  have hfp' : HDPub.fingerprint h160 k.pub = some fp := hfp
  have hb' : natToBE i Gen.hdPubChildIndexW = some b := hb
  have ha' : sec k.pub.point true = some a := ha
  rw [pub_child_normal hmac h160 k.pub i hi]
  simp only [ha', hb', hfp', HDPub.childFromData, Option.bind_some]
  simp only [HDPriv.pub, saddInt]
  rw [hg]

/-- the zero-key case: the private derivation refuses (PrivateKey(0) raises) while the public one
    returns the point at infinity -/
theorem child_pub_zero_key_rel (hg : GroupAdd) (k : HDPriv) (i : Nat) (hi : i < 2 ^ 31) (q : HDPub)
    (hpriv : k.child hmac h160 i = none) (hpub : k.pub.child hmac h160 i = some q) : q.point = .inf := by
  rw [pub_child_normal hmac h160 k.pub i hi] at hpub
  simp only [HDPub.childFromData, Option.bind_eq_some_iff] at hpub
  obtain ⟨a, ha, b, hb, fp, hfp, hq⟩ := hpub
  cases hq
  have ha' : sec (smul (k.secret : Int) G) true = some a := ha
  have hb' : natToBE i Gen.hdPrivChildIndexW = some b := hb
  have hfp' : HDPriv.fingerprint h160 k = some fp := hfp
  rw [HDPriv.child, priv_childData_normal k i hi] at hpriv
  simp only [ha', hb', hfp', HDPriv.childFromData, Option.bind_some] at hpriv
  have hz : mkSecret ((beToNat (List.take Gen.hdPrivChildKeyHi (hmac k.chainCode (a ++ b))) + k.secret) % N) = none := by
    cases hm : mkSecret ((beToNat (List.take Gen.hdPrivChildKeyHi (hmac k.chainCode (a ++ b))) + k.secret) % N) with
    | none => rfl
    | some s => rw [hm] at hpriv; simp at hpriv
  have h0 := mkSecret_none_of_lt hz (Nat.mod_lt _ (by decide))
  have := hg (beToNat (List.take Gen.hdPrivChildKeyHi (hmac k.chainCode (a ++ b)))) k.secret
  rw [h0] at this
  simp only [HDPriv.pub, saddInt]
  rw [← this]
  rfl

end consistency

/-! ## byte-level facts used by the codec and the specification -/

theorem natToLE'_succ_snoc (w n : Nat) :
    natToLE' (w + 1) n = natToLE' w n ++ [UInt8.ofNat (n / 256 ^ w % 256)] := by
  induction w generalizing n with
  | zero => simp [natToLE']
  | succ w ih =>
    rw [natToLE', ih (n / 256), natToLE']
    simp only [List.cons_append]
    congr 3
    rw [Nat.div_div_eq_div_mul, Nat.pow_succ, Nat.mul_comm]

theorem natToBE'_succ_of_lt {w n : Nat} (h : n < 256 ^ w) : natToBE' (w + 1) n = 0 :: natToBE' w n := by
  unfold natToBE'
  rw [natToLE'_succ_snoc, List.reverse_append]
  have : n / 256 ^ w = 0 := Nat.div_eq_of_lt h
  simp [this]

theorem sec_eq_serP (X : Pt) : sec X true = Spec.BIP32.serP X := by
  cases X with
  | inf => rfl
  | aff x y =>
    simp only [sec, Spec.BIP32.serP, Spec.BIP32.ser256, if_true]
    rcases Nat.mod_two_eq_zero_or_one y with h | h <;> simp [h]

/-! ## the model against Buidl.Spec.BIP32 -/

section spec
variable (hmac : Bytes → Bytes → Bytes) (h160 : Bytes → Bytes)

theorem N_lt : N < 256 ^ 32 := by decide
theorem spec_n_eq : Spec.BIP32.n = N := by decide

/-- the HMAC input of HDPrivateKey.child is the one of the BIP -/
theorem priv_childData_eq_spec (k : HDPriv) (i : Nat) (hs : k.secret < N) (hi : i < 2 ^ 32) :
    k.childData i
    = (if i ≥ 2 ^ 31 then some (0x00 :: Spec.BIP32.ser256 k.secret ++ Spec.BIP32.ser32 i)
       else (Spec.BIP32.serP (Spec.BIP32.point k.secret)).map (· ++ Spec.BIP32.ser32 i)) := by
  have hN := N_lt
  have h33 : k.secret < 256 ^ 33 := by
    have : (256:Nat) ^ 32 < 256 ^ 33 := by decide
    omega
  have h4 : i < 256 ^ 4 := by
    have : (256:Nat) ^ 4 = 2 ^ 32 := by decide
    omega
  unfold HDPriv.childData
  by_cases h : i ≥ 2 ^ 31
  · have hc : cmpOp Gen.hdPrivHardOp i Gen.hdPrivHardT = true := by
      simp [cmpOp, Gen.hdPrivHardOp, Gen.hdPrivHardT]; omega
    rw [if_pos hc, if_pos h]
    simp only [Gen.hdPrivChildSecretW, Gen.hdPrivChildIndexWHard, natToBE, h33, h4, if_true, Option.bind_some]
    rw [natToBE'_succ_of_lt (by omega : k.secret < 256 ^ 32)]
    rfl
  · have hc : cmpOp Gen.hdPrivHardOp i Gen.hdPrivHardT = false := by
      simp [cmpOp, Gen.hdPrivHardOp, Gen.hdPrivHardT]; omega
    rw [if_neg (by simp [hc]), if_neg h]
    simp only [Gen.hdPrivChildIndexW, natToBE, h4, if_true, Option.bind_some, sec_eq_serP, Spec.BIP32.point]
    cases Spec.BIP32.serP (smul (↑k.secret) G) <;> rfl

theorem priv_child_eq_spec_rel (k : HDPriv) (i : Nat) (hs : k.secret < N) (hi : i < 2 ^ 32)
    (hIL : ∀ d, beToNat ((hmac k.chainCode d).take 32) < Spec.BIP32.n)
    (hpt : (sec (smul (k.secret : Int) G) true).isSome) :
    (k.child hmac h160 i).map (fun k' => (k'.secret, k'.chainCode))
      = (Spec.BIP32.CKDpriv hmac k.secret k.chainCode i).bind Spec.BIP32.Result.toOption := by
  rw [HDPriv.child, priv_childData_eq_spec k i hs hi]
  unfold Spec.BIP32.CKDpriv
  simp only []
  cases hd : (if i ≥ 2 ^ 31 then some (0x00 :: Spec.BIP32.ser256 k.secret ++ Spec.BIP32.ser32 i)
       else (Spec.BIP32.serP (Spec.BIP32.point k.secret)).map (· ++ Spec.BIP32.ser32 i)) with
  | none => simp
  | some d =>
    simp only [Option.bind_some, Option.map_some]
    have hil := hIL d
    obtain ⟨spt, hspt⟩ := Option.isSome_iff_exists.mp hpt
    have hfp : HDPriv.fingerprint h160 k = some ((h160 spt).take Gen.hdFingerprintW) := by
      simp [HDPriv.fingerprint, HDPub.fingerprint, HDPriv.pub, hspt]
    simp only [HDPriv.childFromData, hfp, Option.bind_some, Spec.BIP32.parse256, Spec.BIP32.IL, Spec.BIP32.IR,
      spec_n_eq, Gen.hdPrivChildKeyHi, Gen.hdPrivChildChainLo]
    rw [spec_n_eq] at hil
    by_cases hz : (beToNat (List.take 32 (hmac k.chainCode d)) + k.secret) % N = 0
    · rw [hz]
      simp [mkSecret, Spec.BIP32.Result.toOption]
    · have hlt : (beToNat (List.take 32 (hmac k.chainCode d)) + k.secret) % N < N := Nat.mod_lt _ (by decide)
      rw [mkSecret_of_range (by omega) hlt]
      have : ¬ (beToNat (List.take 32 (hmac k.chainCode d)) ≥ N ∨
          (beToNat (List.take 32 (hmac k.chainCode d)) + k.secret) % N = 0) := by
        intro h; rcases h with h | h
        · omega
        · exact hz h
      simp [this, Spec.BIP32.Result.toOption]

theorem priv_child_fields (k k' : HDPriv) (i : Nat) (h : k.child hmac h160 i = some k') :
    k'.depth = k.depth + 1 ∧ k'.childNumber = i ∧
    some k'.parentFp = Spec.BIP32.fingerprint h160 (Spec.BIP32.point k.secret) ∧
    k'.network = k.network ∧ k'.privVersion = k.privVersion ∧ k'.pubVersion = k.pubVersion := by
  simp only [HDPriv.child, HDPriv.childFromData, Option.bind_eq_some_iff] at h
  obtain ⟨d, -, s', -, fp, hfp, hk⟩ := h
  cases hk
  refine ⟨rfl, rfl, ?_, rfl, rfl, rfl⟩
  simp only [HDPriv.fingerprint, HDPub.fingerprint, HDPriv.pub, sec_eq_serP] at hfp
  simp only [Spec.BIP32.fingerprint, Spec.BIP32.point]
  exact hfp.symm

theorem fingerprint_eq_spec (p : HDPub) : p.fingerprint h160 = Spec.BIP32.fingerprint h160 p.point := by
  simp only [HDPub.fingerprint, Spec.BIP32.fingerprint, sec_eq_serP]

theorem pub_child_eq_spec_rel (p : HDPub) (i : Nat)
    (hIL : ∀ d, beToNat ((hmac p.chainCode d).take 32) < Spec.BIP32.n)
    (hK : ∀ d, saddInt p.point ((beToNat ((hmac p.chainCode d).take 32) : Nat) : Int) ≠ .inf)
    (hcomm : ∀ a : Nat, sadd (smul (a : Int) G) p.point = sadd p.point (smul (a : Int) G)) :
    (p.child hmac h160 i).map (fun q => (q.point, q.chainCode))
      = (Spec.BIP32.CKDpub hmac p.point p.chainCode i).bind Spec.BIP32.Result.toOption := by
  unfold Spec.BIP32.CKDpub
  by_cases h : i ≥ 2 ^ 31
  · rw [pub_child_hardened hmac h160 p i h, if_pos h]
    rfl
  · rw [if_neg h, pub_child_normal hmac h160 p i (by omega)]
    have h4 : i < 256 ^ 4 := by
      have : (256:Nat) ^ 4 = 2 ^ 32 := by decide
      omega
    simp only [Gen.hdPubChildIndexW, natToBE, h4, if_true, Option.bind_some, sec_eq_serP]
    cases hsp : Spec.BIP32.serP p.point with
    | none => simp
    | some sp =>
      have hfp : p.fingerprint h160 = some ((h160 sp).take Gen.hdFingerprintW) := by
        simp [HDPub.fingerprint, sec_eq_serP, hsp]
      simp only [Option.bind_some, Option.map_some, HDPub.childFromData, hfp, Spec.BIP32.ser32,
        Spec.BIP32.parse256, Spec.BIP32.IL, Spec.BIP32.IR, Spec.BIP32.point, Gen.hdPubChildKeyHi, Gen.hdPubChildChainLo]
      have hil := hIL (sp ++ natToBE' 4 i)
      have hk := hK (sp ++ natToBE' 4 i)
      simp only [hcomm]
      have : ¬ (beToNat (List.take 32 (hmac p.chainCode (sp ++ natToBE' 4 i))) ≥ Spec.BIP32.n ∨
          sadd p.point (smul (↑(beToNat (List.take 32 (hmac p.chainCode (sp ++ natToBE' 4 i))))) G) = Pt.inf) := by
        intro h; rcases h with h | h
        · omega
        · exact hk h
      simp [this, Spec.BIP32.Result.toOption, saddInt]

theorem mkPriv_some_fields {s : Nat} {c fp : Bytes} {d cn : Nat} {net : String} {pv bv : Option Bytes} {k : HDPriv}
    (h : mkPriv s c d fp cn net pv bv = some k) :
    k.secret = s ∧ k.chainCode = c ∧ k.depth = d ∧ k.parentFp = fp ∧ k.childNumber = cn ∧ k.network = net := by
  simp only [mkPriv, mkPub, Option.bind_eq_bind, Option.pure_def, Option.bind_eq_some_iff] at h
  obtain ⟨v1, -, pub, ⟨v2, -, hp⟩, hk⟩ := h
  cases hp; cases hk
  exact ⟨rfl, rfl, rfl, rfl, rfl, rfl⟩

theorem mkPriv_isSome (s : Nat) (c fp : Bytes) (d cn : Nat) (net : String) (pv bv : Option Bytes)
    (hpv : (versionOr pv Gen.hdXprv net).isSome) (hbv : (versionOr bv Gen.hdXpub net).isSome) :
    (mkPriv s c d fp cn net pv bv).isSome := by
  obtain ⟨v1, h1⟩ := Option.isSome_iff_exists.mp hpv
  obtain ⟨v2, h2⟩ := Option.isSome_iff_exists.mp hbv
  simp [mkPriv, mkPub, h1, h2]

theorem from_seed_eq_spec (seed : Bytes) (net : String) (pv bv : Option Bytes)
    (hpv : (versionOr pv Gen.hdXprv net).isSome) (hbv : (versionOr bv Gen.hdXpub net).isSome) :
    (fromSeed hmac seed net pv bv).map (fun k => (k.secret, k.chainCode, k.depth, k.parentFp, k.childNumber))
      = (Spec.BIP32.master hmac seed).toOption.map (fun kc => (kc.1, kc.2, 0, [0, 0, 0, 0], 0)) := by
  have hkey : Gen.hdSeedKey = Spec.BIP32.seedKey := by decide
  simp only [fromSeed, Spec.BIP32.master, hkey, Gen.hdSeedKeyHi, Gen.hdSeedChainLo, Spec.BIP32.parse256,
    Spec.BIP32.IL, Spec.BIP32.IR, spec_n_eq, Option.bind_eq_bind]
  generalize hI : hmac Spec.BIP32.seedKey seed = I
  by_cases hz : beToNat (List.take 32 I) = 0 ∨ beToNat (List.take 32 I) ≥ N
  · have : mkSecret (beToNat (List.take 32 I)) = none := by
      unfold mkSecret
      rcases hz with h | h
      · simp [h]
      · have : 0 < N := by decide
        rw [if_pos (by omega)]
    simp [this, hz, Spec.BIP32.Result.toOption]
  · have hr : mkSecret (beToNat (List.take 32 I)) = some (beToNat (List.take 32 I)) :=
      mkSecret_of_range (by omega) (by omega)
    simp only [hr, Option.bind_some, if_neg hz, Spec.BIP32.Result.toOption, Option.map_some]
    obtain ⟨k, hk⟩ := Option.isSome_iff_exists.mp
      (mkPriv_isSome (beToNat (List.take 32 I)) (List.drop 32 I) [0, 0, 0, 0] 0 0 net pv bv hpv hbv)
    rw [hk]
    obtain ⟨h1, h2, h3, h4, h5, -⟩ := mkPriv_some_fields hk
    simp [h1, h2, h3, h4, h5]

end spec

/-! ## the 78-byte codec -/

theorem inSet_xprv_length {v : Bytes}
    (h : inSet Gen.hdAllTestnetXprvs v = true ∨ inSet Gen.hdAllMainnetXprvs v = true) : v.length = 4 := by
  simp only [inSet, Gen.hdAllTestnetXprvs, Gen.hdAllMainnetXprvs, List.any_cons, List.any_nil, Bool.or_false,
    Bool.or_eq_true, beq_iff_eq] at h
  rcases h with h | h
  · rcases h with h | h | h | h | h <;> subst h <;> rfl
  · rcases h with h | h | h | h | h <;> subst h <;> rfl

theorem inSet_xpub_length {v : Bytes}
    (h : inSet Gen.hdAllTestnetXpubs v = true ∨ inSet Gen.hdAllMainnetXpubs v = true) : v.length = 4 := by
  simp only [inSet, Gen.hdAllTestnetXpubs, Gen.hdAllMainnetXpubs, List.any_cons, List.any_nil, Bool.or_false,
    Bool.or_eq_true, beq_iff_eq] at h
  rcases h with h | h
  · rcases h with h | h | h | h | h <;> subst h <;> rfl
  · rcases h with h | h | h | h | h <;> subst h <;> rfl

/-- well-formedness of a private key for the 78-byte serialisation with version `v` -/
structure PrivSerWF (k : HDPriv) (v : Bytes) : Prop where
  depth : k.depth ≤ 255
  child : k.childNumber < 2 ^ 32
  fp : k.parentFp.length = 4
  cc : k.chainCode.length = 32
  sec1 : 1 ≤ k.secret
  sec2 : k.secret < N
  ver : inSet Gen.hdAllTestnetXprvs v = true ∨ inSet Gen.hdAllMainnetXprvs v = true

theorem priv_rawSerialize_eq (k : HDPriv) (v : Bytes) (wf : PrivSerWF k v) :
    k.rawSerialize v = some (v ++ ([UInt8.ofNat k.depth] ++ (k.parentFp ++ (natToBE' 4 k.childNumber ++
      (k.chainCode ++ (0 :: natToBE' 32 k.secret)))))) := by
  have hN : N < 256 ^ 32 := by decide
  have h33 : k.secret < 256 ^ 33 := by
    have : (256:Nat) ^ 32 < 256 ^ 33 := by decide
    have := wf.sec2
    omega
  have h4 : k.childNumber < 256 ^ 4 := by
    have : (256:Nat) ^ 4 = 2 ^ 32 := by decide
    have := wf.child
    omega
  have hd : ¬ k.depth > 255 := by have := wf.depth; omega
  simp only [HDPriv.rawSerialize, intToByte, hd, if_false, Gen.hdPrivSerChildW, Gen.hdPrivSerSecretW, natToBE,
    h33, h4, if_true, Option.bind_eq_bind, Option.bind_some, Option.pure_def]
  rw [natToBE'_succ_of_lt (by have := wf.sec2; omega : k.secret < 256 ^ 32)]
  simp

/-- what HDPrivateKey.parse returns for the serialisation of `k` with version `v`: the same key, the
    network chosen from the version bytes, `pub_version` the default of that network -/
def parsedPriv (k : HDPriv) (v : Bytes) : HDPriv :=
  if inSet Gen.hdAllTestnetXprvs v then
    { k with network := "testnet", privVersion := v, pubVersion := [4, 53, 135, 207] }
  else
    { k with network := "mainnet", privVersion := v, pubVersion := [4, 136, 178, 30] }

theorem priv_rawParse_rawSerialize (k : HDPriv) (v : Bytes) (wf : PrivSerWF k v) :
    ∃ raw, k.rawSerialize v = some raw ∧ raw.length = 78 ∧ HDPriv.rawParse raw none = some (parsedPriv k v) := by
  refine ⟨_, priv_rawSerialize_eq k v wf, ?_, ?_⟩
  · simp [inSet_xprv_length wf.ver, wf.fp, wf.cc]
  · have hv := inSet_xprv_length wf.ver
    have hN : N < 256 ^ 32 := by decide
    have h32 : k.secret < 256 ^ 32 := by have := wf.sec2; omega
    have h4 : k.childNumber < 256 ^ 4 := by
      have : (256:Nat) ^ 4 = 2 ^ 32 := by decide
      have := wf.child
      omega
    simp only [HDPriv.rawParse, sread, Gen.hdPrivParVersionW, Gen.hdPrivParDepthW, Gen.hdPrivParFpW,
      Gen.hdPrivParChildW, Gen.hdPrivParChainW, Gen.hdPrivParZeroW, Gen.hdPrivParSecretW]
    rw [take_append_len _ _ 4 hv, drop_append_len _ _ 4 hv,
      take_append_len _ _ 1 rfl, drop_append_len _ _ 1 rfl,
      take_append_len _ _ 4 wf.fp, drop_append_len _ _ 4 wf.fp,
      take_append_len _ _ 4 (natToBE'_length 4 _), drop_append_len _ _ 4 (natToBE'_length 4 _),
      take_append_len _ _ 32 wf.cc, drop_append_len _ _ 32 wf.cc]
    have hsec : mkSecret k.secret = some k.secret := mkSecret_of_range wf.sec1 wf.sec2
    have hdep : (UInt8.ofNat k.depth).toNat = k.depth := by
      rw [u8_ofNat_toNat]; have := wf.depth; omega
    simp only [List.take, List.drop, byteToInt, List.head?_cons, Option.map_some, hdep,
      beToNat_natToBE' h4, Option.bind_eq_bind, Option.bind_some]
    have hz : cmpOp Gen.hdPrivParseZeroOp (UInt8.toNat 0) Gen.hdPrivParseZeroT = false := by decide
    have ht : List.take 32 (natToBE' 32 k.secret) = natToBE' 32 k.secret := by
      apply List.take_of_length_le; simp
    simp only [hz, ht, beToNat_natToBE' h32, hsec, Bool.false_eq_true, if_false, Option.bind_some]
    unfold parsedPriv netOfVersion
    by_cases htest : inSet Gen.hdAllTestnetXprvs v = true
    · simp only [htest, if_true, Option.getD_none, Option.bind_some]
      simp [mkPriv, mkPub, versionOr, dictGet, Gen.hdXpub, List.lookup]
    · have hmain : inSet Gen.hdAllMainnetXprvs v = true := by
        rcases wf.ver with h | h
        · exact absurd h htest
        · exact h
      simp only [htest, hmain, if_true, if_false, Option.bind_some, Bool.false_eq_true]
      simp [mkPriv, mkPub, versionOr, dictGet, Gen.hdXpub, List.lookup]

theorem parsedPriv_rawSerialize (k : HDPriv) (v w : Bytes) : (parsedPriv k v).rawSerialize w = k.rawSerialize w := by
  unfold parsedPriv
  split <;> rfl

/-- the Base58Check round trip (C09: `Buidl.Base58.rawDecodeBase58_encodeBase58Checksum`) -/
def B58RoundTrip (hash256 : Bytes → Bytes) : Prop :=
  ∀ (p : Bytes) (s : Base58.Str), Base58.encodeBase58Checksum hash256 p = some s →
    Base58.rawDecodeBase58 hash256 s = some p

theorem priv_parse_xprv_rel (hash256 : Bytes → Bytes) (hb : B58RoundTrip hash256) (k : HDPriv) (v : Bytes)
    (wf : PrivSerWF k v) (x : Str) (hx : k.xprv hash256 (some v) = some x) :
    HDPriv.parse hash256 x = some (parsedPriv k v) := by
  obtain ⟨raw, hraw, hlen, hparse⟩ := priv_rawParse_rawSerialize k v wf
  simp only [HDPriv.xprv, Option.getD_some, hraw, Option.bind_eq_bind, Option.bind_some] at hx
  have hdec := hb raw x hx
  have hc : cmpOp Gen.hdPrivParseLenOp raw.length Gen.hdPrivParseLenT = false := by
    rw [hlen]; decide
  simp [HDPriv.parse, hdec, hc, hparse]

theorem priv_xprv_isSome_rel (hash256 : Bytes → Bytes) (k : HDPriv) (v : Bytes) (wf : PrivSerWF k v) :
    k.xprv hash256 (some v) = Base58.encodeBase58Checksum hash256 (v ++ ([UInt8.ofNat k.depth] ++ (k.parentFp ++
      (natToBE' 4 k.childNumber ++ (k.chainCode ++ (0 :: natToBE' 32 k.secret)))))) := by
  simp [HDPriv.xprv, priv_rawSerialize_eq k v wf]

/-- well-formedness of a public key for the 78-byte serialisation with version `v` -/
structure PubSerWF (p : HDPub) (v : Bytes) : Prop where
  depth : p.depth ≤ 255
  child : p.childNumber < 2 ^ 32
  fp : p.parentFp.length = 4
  cc : p.chainCode.length = 32
  ver : inSet Gen.hdAllTestnetXpubs v = true ∨ inSet Gen.hdAllMainnetXpubs v = true

def parsedPub (p : HDPub) (v : Bytes) : HDPub :=
  if inSet Gen.hdAllTestnetXpubs v then { p with network := "testnet", pubVersion := v }
  else { p with network := "mainnet", pubVersion := v }

theorem pub_serialize_eq (p : HDPub) (v : Bytes) (wf : PubSerWF p v) (s : Bytes) (hs : sec p.point true = some s) :
    p.serialize v = some (v ++ ([UInt8.ofNat p.depth] ++ (p.parentFp ++ (natToBE' 4 p.childNumber ++
      (p.chainCode ++ s))))) := by
  have h4 : p.childNumber < 256 ^ 4 := by
    have : (256:Nat) ^ 4 = 2 ^ 32 := by decide
    have := wf.child
    omega
  have hd : ¬ p.depth > 255 := by have := wf.depth; omega
  simp [HDPub.serialize, intToByte, hd, Gen.hdPubSerChildW, natToBE, h4, hs]

theorem pub_rawParse_serialize (p : HDPub) (v : Bytes) (wf : PubSerWF p v) (s : Bytes)
    (hs : sec p.point true = some s) (hlen : s.length = 33) (hpp : parsePoint s = some p.point) :
    ∃ raw, p.serialize v = some raw ∧ raw.length = 78 ∧ HDPub.rawParse raw none = some (parsedPub p v) := by
  refine ⟨_, pub_serialize_eq p v wf s hs, ?_, ?_⟩
  · simp [inSet_xpub_length wf.ver, wf.fp, wf.cc, hlen]
  · have hv := inSet_xpub_length wf.ver
    have h4 : p.childNumber < 256 ^ 4 := by
      have : (256:Nat) ^ 4 = 2 ^ 32 := by decide
      have := wf.child
      omega
    simp only [HDPub.rawParse, sread, Gen.hdPubParVersionW, Gen.hdPubParDepthW, Gen.hdPubParFpW,
      Gen.hdPubParChildW, Gen.hdPubParChainW, Gen.hdPubParSecW]
    rw [take_append_len _ _ 4 hv, drop_append_len _ _ 4 hv,
      take_append_len _ _ 1 rfl, drop_append_len _ _ 1 rfl,
      take_append_len _ _ 4 wf.fp, drop_append_len _ _ 4 wf.fp,
      take_append_len _ _ 4 (natToBE'_length 4 _), drop_append_len _ _ 4 (natToBE'_length 4 _),
      take_append_len _ _ 32 wf.cc, drop_append_len _ _ 32 wf.cc]
    have hdep : (UInt8.ofNat p.depth).toNat = p.depth := by
      rw [u8_ofNat_toNat]; have := wf.depth; omega
    have ht : List.take 33 s = s := by
      apply List.take_of_length_le; omega
    simp only [byteToInt, List.head?_cons, Option.map_some, hdep, beToNat_natToBE' h4, Option.bind_eq_bind,
      Option.bind_some, ht, hpp]
    unfold parsedPub netOfVersion
    by_cases htest : inSet Gen.hdAllTestnetXpubs v = true
    · simp only [htest, if_true, Option.getD_none, Option.bind_some]
      simp [mkPub, versionOr]
    · have hmain : inSet Gen.hdAllMainnetXpubs v = true := by
        rcases wf.ver with h | h
        · exact absurd h htest
        · exact h
      simp only [htest, hmain, if_true, if_false, Option.bind_some, Bool.false_eq_true]
      simp [mkPub, versionOr]

theorem pub_parse_xpub_rel (hash256 : Bytes → Bytes) (hb : B58RoundTrip hash256) (p : HDPub) (v : Bytes)
    (wf : PubSerWF p v) (hsec : ∀ s, sec p.point true = some s → s.length = 33 ∧ parsePoint s = some p.point)
    (x : Str) (hx : p.xpub hash256 (some v) = some x) :
    HDPub.parse hash256 x = some (parsedPub p v) := by
  cases hs : sec p.point true with
  | none => simp [HDPub.xpub, HDPub.serialize, hs] at hx
  | some s =>
    obtain ⟨hl, hpp⟩ := hsec s hs
    obtain ⟨raw, hraw, hlen, hparse⟩ := pub_rawParse_serialize p v wf s hs hl hpp
    simp only [HDPub.xpub, Option.getD_some, hraw, Option.bind_eq_bind, Option.bind_some] at hx
    have hdec := hb raw x hx
    have hc : cmpOp Gen.hdPubParseLenOp raw.length Gen.hdPubParseLenT = false := by
      rw [hlen]; decide
    simp [HDPub.parse, hdec, hc, hparse]

theorem parsedPub_serialize (p : HDPub) (v w : Bytes) : (parsedPub p v).serialize w = p.serialize w := by
  unfold parsedPub
  split <;> rfl


/-! ## walks on both sides, combine_bip32_paths, blind_xpub -/

section
variable (hmac : Bytes → Bytes → Bytes) (h160 : Bytes → Bytes)

theorem pub_childI_some {p q : HDPub} {i : Int} (h : p.childI hmac h160 i = some q) :
    0 ≤ i ∧ i < 2 ^ 31 ∧ p.child hmac h160 i.toNat = some q := by
  by_cases h1 : 2 ^ 31 ≤ i
  · rw [pub_childI_hardened hmac h160 p i h1] at h; cases h
  · by_cases h2 : i < 0
    · rw [pub_childI_neg hmac h160 p i h2] at h; cases h
    · refine ⟨by omega, by omega, ?_⟩
      have c1 : cmpOpI Gen.hdPubHardOp i Gen.hdPubHardT = false := by
        simp [cmpOpI, Gen.hdPubHardOp, Gen.hdPubHardT]; omega
      have c2 : cmpOpI Gen.hdPubNegOp i Gen.hdPubNegT = false := by
        simp [cmpOpI, Gen.hdPubNegOp, Gen.hdPubNegT]; omega
      unfold HDPub.childI at h
      rw [if_neg (by rw [c1]; decide), if_neg (by rw [c2]; decide)] at h
      exact h

theorem priv_childI_nonneg (k : HDPriv) {i : Int} (h : 0 ≤ i) :
    k.childI hmac h160 i = k.child hmac h160 i.toNat := by
  have c : cmpOpI Gen.hdPrivNegOp i Gen.hdPrivNegT = false := by
    simp [cmpOpI, Gen.hdPrivNegOp, Gen.hdPrivNegT]; omega
  unfold HDPriv.childI
  rw [if_neg (by rw [c]; decide)]

theorem pubIndex_some {c : Str} {i : Int} (h : pubIndex c = some i) : privIndex c = some i := by
  unfold pubIndex at h
  unfold privIndex
  split at h
  · cases h
  · rename_i hne
    rw [if_neg hne]; exact h

/-- whenever both the private and the public walk over the same components succeed, they arrive at the
    same public key -/
theorem priv_pub_walk_consistent_rel (hg : GroupAdd) (cs : List Str) (k k' : HDPriv) (q : HDPub)
    (hk : k.walk hmac h160 cs = some k') (hq : k.pub.walk hmac h160 cs = some q) : q = k'.pub := by
  induction cs generalizing k with
  | nil =>
    simp only [HDPriv.walk, HDPub.walk] at hk hq
    cases hk; cases hq; rfl
  | cons c cs ih =>
    simp only [HDPub.walk, Option.bind_eq_bind, Option.bind_eq_some_iff] at hq
    obtain ⟨i, hi, q1, hq1, hq⟩ := hq
    obtain ⟨h0, h31, hc⟩ := pub_childI_some hmac h160 hq1
    simp only [HDPriv.walk, pubIndex_some hi, Option.bind_eq_bind, Option.bind_some, priv_childI_nonneg hmac h160 k h0,
      Option.bind_eq_some_iff] at hk
    obtain ⟨k1, hk1, hk⟩ := hk
    have hlt : i.toNat < 2 ^ 31 := by omega
    have := child_pub_consistent_rel hmac h160 hg k i.toNat hlt k1 hk1
    rw [this] at hc
    cases hc
    exact ih k1 hk hq

theorem priv_traverse_m (k : HDPriv) : k.traverse hmac h160 ['m'] = some k := by
  simp [HDPriv.traverse, normPath, lower, replaceChar, startsWith, components, split, HDPriv.walk, List.isPrefixOf]

theorem pub_traverse_m (p : HDPub) : p.traverse hmac h160 ['m'] = some p := by
  simp [HDPub.traverse, normPath, lower, replaceChar, startsWith, components, split, HDPub.walk, List.isPrefixOf]

theorem valid_forgive_shape {s : Str} (h : isValidBip32Path s = true) :
    forgive s = ['m'] ∨ ∃ rest, forgive s = 'm' :: '/' :: rest := by
  unfold isValidBip32Path at h
  simp only [] at h
  by_cases h1 : forgive s = ['m']
  · exact Or.inl h1
  · right
    rw [if_neg h1] at h
    by_cases h2 : startsWith ['m', '/'] (forgive s) = true
    · generalize forgive s = f at h2
      match f, h2 with
      | [], h2 => simp [startsWith, List.isPrefixOf] at h2
      | [a], h2 => simp [startsWith, List.isPrefixOf] at h2
      | a :: b :: rest, h2 =>
        simp [startsWith, List.isPrefixOf] at h2
        exact ⟨rest, by rw [h2.1, h2.2]⟩
    · rw [if_pos h2] at h; cases h

theorem combinePaths_some {p s full : Str} (h : combinePaths p s = some full) :
    isValidBip32Path p = true ∧ isValidBip32Path s = true ∧
      full = (if forgive p = ['m'] then forgive s else if forgive s = ['m'] then forgive p
              else forgive p ++ '/' :: (forgive s).drop 2) := by
  unfold combinePaths at h
  by_cases h1 : isValidBip32Path p = true
  · by_cases h2 : isValidBip32Path s = true
    · rw [if_neg (by simp [h1]), if_neg (by simp [h2])] at h
      refine ⟨h1, h2, ?_⟩
      simp only [] at h
      split at h
      · next hp => cases h; rw [if_pos hp]
      · next hp =>
        rw [if_neg hp]
        split at h
        · next hs => cases h; rw [if_pos hs]
        · next hs => cases h; rw [if_neg hs]
    · rw [if_neg (by simp [h1]), if_pos (by simp [h2])] at h; cases h
  · rw [if_pos (by simp [h1])] at h; cases h

/-- the key at the combined path is the key at the second path below the key at the first path -/
theorem combine_traverse_priv (k : HDPriv) (p s full : Str) (h : combinePaths p s = some full) :
    k.traverse hmac h160 full
      = (k.traverse hmac h160 (forgive p)).bind (fun k' => k'.traverse hmac h160 (forgive s)) := by
  obtain ⟨-, hs, hfull⟩ := combinePaths_some h
  subst hfull
  by_cases hp1 : forgive p = ['m']
  · rw [if_pos hp1, hp1, priv_traverse_m]; rfl
  · rw [if_neg hp1]
    by_cases hs1 : forgive s = ['m']
    · rw [if_pos hs1, hs1]
      simp only [priv_traverse_m]
      cases k.traverse hmac h160 (forgive p) <;> rfl
    · rw [if_neg hs1]
      rcases valid_forgive_shape hs with h' | ⟨rest, h'⟩
      · exact absurd h' hs1
      · rw [h']
        exact priv_traverse_append hmac h160 k (forgive p) rest

theorem combine_traverse_pub (k : HDPub) (p s full : Str) (h : combinePaths p s = some full) :
    k.traverse hmac h160 full
      = (k.traverse hmac h160 (forgive p)).bind (fun k' => k'.traverse hmac h160 (forgive s)) := by
  obtain ⟨-, hs, hfull⟩ := combinePaths_some h
  subst hfull
  by_cases hp1 : forgive p = ['m']
  · rw [if_pos hp1, hp1, pub_traverse_m]; rfl
  · rw [if_neg hp1]
    by_cases hs1 : forgive s = ['m']
    · rw [if_pos hs1, hs1]
      simp only [pub_traverse_m]
      cases k.traverse hmac h160 (forgive p) <;> rfl
    · rw [if_neg hs1]
      rcases valid_forgive_shape hs with h' | ⟨rest, h'⟩
      · exact absurd h' hs1
      · rw [h']
        exact pub_traverse_append hmac h160 k (forgive p) rest

/-- blind_xpub, unfolded: what it parses, checks, derives and returns -/
theorem blindXpub_some (hash256 : Bytes → Bytes) {x p s cx full : Str}
    (h : blindXpub hash256 hmac h160 x p s = some (cx, full)) :
    ∃ X c, HDPub.parse hash256 x = some X ∧ X.depth = count '/' p ∧ X.traverse hmac h160 s = some c ∧
      c.xpub hash256 none = some cx ∧ combinePaths p s = some full := by
  simp only [blindXpub, Option.bind_eq_bind, Option.pure_def, Option.bind_eq_some_iff] at h
  obtain ⟨X, hX, h⟩ := h
  by_cases hd : X.depth = count '/' p
  · simp only [hd, ne_eq, not_true_eq_false, if_false, Option.bind_eq_some_iff] at h
    obtain ⟨c, hc, cx', hcx, full', hfull, hr⟩ := h
    cases hr
    exact ⟨X, c, hX, hd, hc, hcx, hfull⟩
  · simp [hd] at h

theorem priv_pub_traverse_consistent_rel (hg : GroupAdd) (path : Str) (k k' : HDPriv) (q : HDPub)
    (hk : k.traverse hmac h160 path = some k') (hq : k.pub.traverse hmac h160 path = some q) : q = k'.pub := by
  unfold HDPriv.traverse at hk
  unfold HDPub.traverse at hq
  simp only [] at hk hq
  by_cases hs : startsWith ['m'] (normPath path) = true
  · rw [if_neg (by simp [hs])] at hk hq
    exact priv_pub_walk_consistent_rel hmac h160 hg _ k k' q hk hq
  · rw [if_pos (by simp [hs])] at hk; cases hk

/-- blind_xpub returns the key found at the combined path from the root: if `x` parses to the public key
    of the key at `p` below `root`, and the key at the combined path exists, its xpub is the one returned.
    Paths are taken in the normal form that `combine_bip32_paths` produces (`forgive p = p`). -/
theorem blind_is_key_at_combined_path_rel (hash256 : Bytes → Bytes) (hg : GroupAdd) (root kp kf : HDPriv)
    (x p s cx full : Str) (hp : forgive p = p) (hs : forgive s = s)
    (hkp : root.traverse hmac h160 p = some kp) (hx : HDPub.parse hash256 x = some kp.pub)
    (hb : blindXpub hash256 hmac h160 x p s = some (cx, full))
    (hkf : root.traverse hmac h160 full = some kf) :
    kf.pub.xpub hash256 none = some cx := by
  obtain ⟨X, c, hX, -, hc, hcx, hfull⟩ := blindXpub_some hmac h160 hash256 hb
  rw [hx] at hX; cases hX
  rw [combine_traverse_priv hmac h160 root p s full hfull, hp, hs, hkp] at hkf
  simp only [Option.bind_some] at hkf
  have := priv_pub_traverse_consistent_rel hmac h160 hg s kp kf c hkf hc
  rw [← this]; exact hcx

end

end Buidl.HD
