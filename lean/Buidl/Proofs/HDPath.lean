/-
  Buidl.Proofs.HDPath — Mathlib-free helper lemmas for C08: Python-string lemmas (split, normalisation)
  and the loops of HDPrivateKey.traverse / HDPublicKey.traverse.
-/
import Buidl.Model.HD
import Buidl.Proofs.Bytes
namespace Buidl.HD
open Buidl Buidl.EC Buidl.PyStr

/-! ## Python strings -/

theorem split_ne_nil (sep : Char) (s : Str) : split sep s ≠ [] := by
  cases s with
  | nil => simp [split]
  | cons x xs =>
    simp only [split]
    split
    · simp
    · split <;> simp

theorem split_append (sep : Char) (a b : Str) : split sep (a ++ sep :: b) = split sep a ++ split sep b := by
  induction a with
  | nil => simp [split]
  | cons x a ih =>
    simp only [List.cons_append, split]
    by_cases hx : x = sep
    · simp [hx, ih]
    · simp only [hx, if_false, ih]
      cases hs : split sep a with
      | nil => exact absurd hs (split_ne_nil sep a)
      | cons p ps => simp

theorem components_append (p rest : Str) :
    components (p ++ '/' :: rest) = components p ++ split '/' rest := by
  unfold components
  rw [split_append]
  cases hs : split '/' p with
  | nil => exact absurd hs (split_ne_nil _ p)
  | cons h t => simp

theorem components_m_slash (rest : Str) : components ('m' :: '/' :: rest) = split '/' rest := by
  simp [components, split]

theorem normPath_append (a b : Str) : normPath (a ++ b) = normPath a ++ normPath b := by
  simp [normPath, lower, replaceChar]

theorem normPath_m_slash (rest : Str) : normPath ('m' :: '/' :: rest) = 'm' :: '/' :: normPath rest := by
  simp [normPath, lower, replaceChar]

theorem startsWith_m_normPath_append (p rest : Str) :
    startsWith ['m'] (normPath (p ++ '/' :: rest)) = startsWith ['m'] (normPath p) := by
  cases p with
  | nil => simp [startsWith, normPath, lower, replaceChar, List.isPrefixOf]
  | cons c p => simp [startsWith, normPath, lower, replaceChar, List.isPrefixOf]

/-! ## the loops of traverse -/

section walk
variable (hmac : Bytes → Bytes → Bytes) (h160 : Bytes → Bytes)

theorem priv_walk_append (k : HDPriv) (cs ds : List Str) :
    k.walk hmac h160 (cs ++ ds) = (k.walk hmac h160 cs).bind (fun k' => k'.walk hmac h160 ds) := by
  induction cs generalizing k with
  | nil => simp [HDPriv.walk]
  | cons c cs ih =>
    simp only [List.cons_append, HDPriv.walk]
    cases privIndex c with
    | none => simp
    | some i =>
      simp only [Option.bind_eq_bind, Option.bind_some, Option.bind_assoc]
      congr 1
      funext k'
      exact ih k'

theorem pub_walk_append (p : HDPub) (cs ds : List Str) :
    p.walk hmac h160 (cs ++ ds) = (p.walk hmac h160 cs).bind (fun p' => p'.walk hmac h160 ds) := by
  induction cs generalizing p with
  | nil => simp [HDPub.walk]
  | cons c cs ih =>
    simp only [List.cons_append, HDPub.walk]
    cases pubIndex c with
    | none => simp
    | some i =>
      simp only [Option.bind_eq_bind, Option.bind_some, Option.bind_assoc]
      congr 1
      funext p'
      exact ih p'

theorem priv_traverse_append (k : HDPriv) (p rest : Str) :
    k.traverse hmac h160 (p ++ '/' :: rest)
      = (k.traverse hmac h160 p).bind (fun k' => k'.traverse hmac h160 ('m' :: '/' :: rest)) := by
  have hm : ∀ k' : HDPriv, k'.traverse hmac h160 ('m' :: '/' :: rest) = k'.walk hmac h160 (split '/' (normPath rest)) := by
    intro k'
    simp [HDPriv.traverse, normPath_m_slash, components_m_slash, startsWith]
  simp only [HDPriv.traverse, startsWith_m_normPath_append]
  by_cases hs : startsWith ['m'] (normPath p) = true
  · simp only [hs, not_true_eq_false, if_false]
    rw [normPath_append]
    have : normPath ('/' :: rest) = '/' :: normPath rest := by simp [normPath, lower, replaceChar]
    rw [this, components_append, priv_walk_append]
    simp [normPath_m_slash, components_m_slash, startsWith]
  · simp [hs]

theorem pub_traverse_append (k : HDPub) (p rest : Str) :
    k.traverse hmac h160 (p ++ '/' :: rest)
      = (k.traverse hmac h160 p).bind (fun k' => k'.traverse hmac h160 ('m' :: '/' :: rest)) := by
  have hm : ∀ k' : HDPub, k'.traverse hmac h160 ('m' :: '/' :: rest) = k'.walk hmac h160 (split '/' (normPath rest)) := by
    intro k'
    simp [HDPub.traverse, normPath_m_slash, components_m_slash, startsWith]
  simp only [HDPub.traverse, startsWith_m_normPath_append]
  by_cases hs : startsWith ['m'] (normPath p) = true
  · simp only [hs, not_true_eq_false, if_false]
    rw [normPath_append]
    have : normPath ('/' :: rest) = '/' :: normPath rest := by simp [normPath, lower, replaceChar]
    rw [this, components_append, pub_walk_append]
    simp [normPath_m_slash, components_m_slash, startsWith]
  · simp [hs]

/-- the loops are the monadic left fold of `child` over the components -/
theorem priv_walk_eq_foldlM (k : HDPriv) (cs : List Str) :
    k.walk hmac h160 cs = cs.foldlM (fun k c => (privIndex c).bind (k.childI hmac h160)) k := by
  induction cs generalizing k with
  | nil => simp [HDPriv.walk]
  | cons c cs ih =>
    simp only [HDPriv.walk, List.foldlM_cons, Option.bind_eq_bind, Option.bind_assoc]
    congr 1; funext i; congr 1; funext k'; exact ih k'

theorem pub_walk_eq_foldlM (p : HDPub) (cs : List Str) :
    p.walk hmac h160 cs = cs.foldlM (fun p c => (pubIndex c).bind (p.childI hmac h160)) p := by
  induction cs generalizing p with
  | nil => simp [HDPub.walk]
  | cons c cs ih =>
    simp only [HDPub.walk, List.foldlM_cons, Option.bind_eq_bind, Option.bind_assoc]
    congr 1; funext i; congr 1; funext p'; exact ih p'

/-! ## hardened derivation from a public key -/

theorem pub_child_hardened (p : HDPub) (i : Nat) (hi : 2 ^ 31 ≤ i) : p.child hmac h160 i = none := by
  have h : cmpOp Gen.hdPubHardOp i Gen.hdPubHardT = true := by
    simp [cmpOp, Gen.hdPubHardOp]; omega
  simp [HDPub.child, h]

theorem pub_childI_hardened (p : HDPub) (i : Int) (hi : 2 ^ 31 ≤ i) : p.childI hmac h160 i = none := by
  have h : cmpOpI Gen.hdPubHardOp i Gen.hdPubHardT = true := by
    simp [cmpOpI, Gen.hdPubHardOp]; omega
  unfold HDPub.childI
  rw [if_pos h]

theorem pub_childI_neg (p : HDPub) (i : Int) (hi : i < 0) : p.childI hmac h160 i = none := by
  have h : cmpOpI Gen.hdPubNegOp i Gen.hdPubNegT = true := by
    simp [cmpOpI, Gen.hdPubNegOp]; omega
  unfold HDPub.childI
  rw [if_pos h]
  split <;> rfl

theorem pub_walk_reject_of_step (p : HDPub) (cs : List Str)
    (h : ∃ c ∈ cs, ∀ q : HDPub, (pubIndex c).bind (q.childI hmac h160) = none) : p.walk hmac h160 cs = none := by
  induction cs generalizing p with
  | nil => obtain ⟨c, hc, _⟩ := h; cases hc
  | cons c cs ih =>
    rw [pub_walk_eq_foldlM, List.foldlM_cons]
    by_cases hc : ∀ q : HDPub, (pubIndex c).bind (q.childI hmac h160) = none
    · simp [hc p]
    · have h' : ∃ c ∈ cs, ∀ q : HDPub, (pubIndex c).bind (q.childI hmac h160) = none := by
        obtain ⟨d, hd, hde⟩ := h
        rcases List.mem_cons.mp hd with rfl | hd
        · exact absurd hde hc
        · exact ⟨d, hd, hde⟩
      cases hq : (pubIndex c).bind (p.childI hmac h160) with
      | none => simp
      | some p' =>
        simp only [Option.bind_eq_bind, Option.bind_some]
        rw [← pub_walk_eq_foldlM]
        exact ih p' h'

/-- a component written as hardened (`'`, `h`, `H` after normalisation) makes the public walk fail -/
theorem pub_walk_hardened (p : HDPub) (cs : List Str) (h : ∃ c ∈ cs, endsWithChar '\'' c = true) :
    p.walk hmac h160 cs = none := by
  apply pub_walk_reject_of_step
  obtain ⟨c, hc, he⟩ := h
  exact ⟨c, hc, fun q => by simp [pubIndex, he]⟩

/-- a component whose number is a hardened index makes the public walk fail -/
theorem pub_walk_hardened_index (p : HDPub) (cs : List Str)
    (h : ∃ c ∈ cs, ∃ i : Int, pyInt c = some i ∧ 2 ^ 31 ≤ i) : p.walk hmac h160 cs = none := by
  apply pub_walk_reject_of_step
  obtain ⟨c, hc, i, hi, hge⟩ := h
  refine ⟨c, hc, fun q => ?_⟩
  unfold pubIndex
  split
  · simp
  · simp [hi, pub_childI_hardened hmac h160 q i hge]

/-! ## upper-case `M` (finding F08a) -/

theorem normPath_M (rest : Str) : normPath ('M' :: rest) = normPath ('m' :: rest) := by
  simp [normPath, lower, replaceChar]

theorem pub_traverse_M (p : HDPub) (rest : Str) :
    p.traverse hmac h160 ('M' :: rest) = p.traverse hmac h160 ('m' :: rest) := by
  simp only [HDPub.traverse, normPath_M]

theorem priv_traverse_M (k : HDPriv) (rest : Str) :
    k.traverse hmac h160 ('M' :: rest) = k.traverse hmac h160 ('m' :: rest) := by
  simp only [HDPriv.traverse, normPath_M]

theorem pub_traverseF08a_M (p : HDPub) (rest : Str) : p.traverseF08a hmac h160 ('M' :: rest) = none := by
  simp [HDPub.traverseF08a, startsWith, List.isPrefixOf]

end walk

end Buidl.HD
