/-
  Buidl.Proofs.TaprootRel — the group facts consumed by C12 / C13, as one explicit hypothesis
  `GroupLaw`, and the C12 lemmas that depend on them (`…_relGroup`).

  `GroupLaw` is discharged by `Buidl.Taproot.groupLaw` in Buidl.Proofs.TaprootGroup from the
  secp256k1 development of C03 (Buidl.Proofs.Secp256k1 / SecpCodec: group law transported from
  Mathlib, N prime, G of order exactly N, parity of negation, square roots).  Everything here is
  about points `smul k G` — every key the library derives from a secret (Mathlib has no Hasse bound,
  so it is not known that every curve point is a multiple of G).
-/
import Buidl.Proofs.Taproot

namespace Buidl.Taproot
open Buidl Buidl.EC Buidl.Script

/-- the facts about `smul` / `sadd` on `⟨G⟩` used by the taproot and MuSig theorems -/
structure GroupLaw : Prop where
  /-- additivity -/
  add : ∀ a b : Int, sadd (smul a G) (smul b G) = smul (a + b) G
  /-- compatibility with multiplication -/
  mul : ∀ a b : Int, smul a (smul b G) = smul (a * b) G
  /-- G has order exactly N -/
  inj : ∀ a b : Int, smul a G = smul b G → a % (N : Int) = b % (N : Int)
  /-- negation flips the parity of y -/
  neg_parity : ∀ a : Int, smul a G ≠ .inf → parity (smul (-a) G) + parity (smul a G) = 1
  /-- negation keeps x -/
  neg_xonly : ∀ a : Int, xonly (smul (-a) G) = xonly (smul a G)
  /-- points with the same x are equal or opposite -/
  xonly_inj : ∀ a b : Int, smul a G ≠ .inf → smul b G ≠ .inf → xonly (smul a G) = xonly (smul b G) →
    smul a G = smul b G ∨ smul a G = smul (-b) G
  /-- `lift_x`: parse_xonly inverts xonly up to the even representative -/
  lift_x : ∀ a : Int, smul a G ≠ .inf → parseXonly (xonly (smul a G)) = some (evenPoint (smul a G))

/-! ### consequences that need no hypothesis: `smul` reduces its scalar modulo N -/

theorem smul_congr {a b : Int} (X : Pt) (h : a % (N : Int) = b % (N : Int)) : smul a X = smul b X := by
  unfold smul; rw [h]

theorem smul_emod' (a : Int) (X : Pt) : smul (a % (N : Int)) X = smul a X :=
  smul_congr X (Int.emod_emod a _)

theorem smul_zero' (X : Pt) : smul 0 X = .inf := by
  unfold smul pmul
  simp [pmulAux]

theorem N_pos' : (0 : Int) < (N : Int) := by decide

namespace GroupLaw
variable (gl : GroupLaw)
include gl

theorem smul_eq_inf_iff (a : Int) : smul a G = .inf ↔ a % (N : Int) = 0 := by
  constructor
  · intro h
    have := gl.inj a 0 (by rw [h, smul_zero'])
    simpa using this
  · intro h
    rw [← smul_emod', h, smul_zero']

/-- the even representative of `a·G` is `a·G` or `(−a)·G` -/
theorem evenPoint_smul (a : Int) :
    evenPoint (smul a G) = if parity (smul a G) = 1 then smul (-a) G else smul a G := by
  unfold evenPoint
  split
  · rw [gl.mul]; congr 1; omega
  · rfl

theorem parity_evenPoint_smul (a : Int) (h : smul a G ≠ .inf) : parity (evenPoint (smul a G)) = 0 := by
  rw [gl.evenPoint_smul]
  split
  · next hp => have := gl.neg_parity a h; omega
  · next hp =>
    cases hs : smul a G with
    | inf => exact absurd hs h
    | aff x y => rw [hs] at hp; simp only [parity] at hp ⊢; omega

theorem xonly_evenPoint_smul (a : Int) : xonly (evenPoint (smul a G)) = xonly (smul a G) := by
  rw [gl.evenPoint_smul]
  split
  · exact gl.neg_xonly a
  · rfl

theorem neg_ne_inf (a : Int) (h : smul a G ≠ .inf) : smul (-a) G ≠ .inf := by
  intro h'
  apply h
  rw [gl.smul_eq_inf_iff] at h' ⊢
  have := Int.dvd_of_emod_eq_zero h'
  exact Int.emod_eq_zero_of_dvd (Int.dvd_neg.mp this)

theorem evenPoint_smul_ne_inf (a : Int) (h : smul a G ≠ .inf) : evenPoint (smul a G) ≠ .inf := by
  rw [gl.evenPoint_smul]
  split
  · exact gl.neg_ne_inf a h
  · exact h

/-- the even representative as a multiple of G: `e·G` with `e ≡ ±a` -/
theorem evenPoint_smul_exists (a : Int) :
    ∃ e : Int, evenPoint (smul a G) = smul e G ∧ (e = a ∨ e = -a) ∧
      (parity (smul a G) = 1 → e = -a) ∧ (parity (smul a G) ≠ 1 → e = a) := by
  rw [gl.evenPoint_smul]
  split
  · next h => exact ⟨-a, rfl, Or.inr rfl, fun _ => rfl, fun h' => absurd h h'⟩
  · next h => exact ⟨a, rfl, Or.inl rfl, fun h' => absurd h' h, fun _ => rfl⟩

end GroupLaw

/-! ### C12: private keys -/

theorem privPoint_some {d : Nat} {pt : Pt} (h : privPoint d = some pt) : 1 ≤ d ∧ d < N ∧ pt = smul (d : Int) G := by
  unfold privPoint at h
  split at h
  · cases h
  · split at h
    · cases h
    · cases h
      have : 0 < N := by decide
      exact ⟨by omega, by omega, rfl⟩

/-- **PrivateKey.even_secret is the discrete logarithm of `point.even_point()`**, which has even y -/
theorem evenSecret_point_relGroup (gl : GroupLaw) {d e : Nat} {pt : Pt} (hp : privPoint d = some pt)
    (he : evenSecret d pt = some e) :
    smul (e : Int) G = evenPoint pt ∧ parity (evenPoint pt) = 0 ∧ 1 ≤ e ∧ e < N := by
  obtain ⟨h1, h2, rfl⟩ := privPoint_some hp
  unfold evenSecret at he
  cases hpar : parityOf (smul (d : Int) G) with
  | none => simp [hpar] at he
  | some par =>
    obtain ⟨hne, hpp⟩ := parityOf_some hpar
    simp only [hpar, Option.bind_eq_bind, Option.bind_some, Option.pure_def, Option.some.injEq] at he
    refine ⟨?_, gl.parity_evenPoint_smul _ hne, ?_, ?_⟩
    · rw [gl.evenPoint_smul, ← hpp]
      split
      · next h =>
        rw [if_pos h] at he
        subst he
        apply smul_congr
        rw [Int.ofNat_sub (by omega)]
        rw [show ((N : Nat) : Int) - (d : Int) = -(d : Int) + 1 * (N : Int) by omega, Int.add_mul_emod_self_right]
      · next h => rw [if_neg h] at he; rw [he]
    · split at he <;> omega
    · split at he <;> omega

/-- **the tweaked private key is the discrete logarithm of the tweaked public key** -/
theorem privTweakedKey_point_relGroup (gl : GroupLaw) (H : Hashes) {d d' : Nat} {pt' : Pt} {root : Bytes}
    (h : privTweakedKey H d root = some (d', pt')) :
    ∃ pt, privPoint d = some pt ∧ tweakedKey H pt root = some pt' ∧ pt' = smul (d' : Int) G ∧ 1 ≤ d' ∧ d' < N := by
  unfold privTweakedKey at h
  cases hp : privPoint d with
  | none => simp [hp] at h
  | some pt =>
    cases he : evenSecret d pt with
    | none => simp [hp, he] at h
    | some e =>
      simp only [hp, he, Option.bind_eq_bind, Option.bind_some] at h
      cases hp' : privPoint ((e + beToNat (tweak H pt root)) % N) with
      | none => simp [hp'] at h
      | some q =>
        simp only [hp', Option.bind_some, Option.pure_def, Option.some.injEq, Prod.mk.injEq] at h
        obtain ⟨hd', hq⟩ := h
        subst hd' hq
        obtain ⟨g1, g2, g3⟩ := privPoint_some hp'
        obtain ⟨f1, _, _, _⟩ := evenSecret_point_relGroup gl hp he
        obtain ⟨_, _, hpt⟩ := privPoint_some hp
        have hne : pt ≠ .inf := by
          unfold evenSecret at he
          cases hpar : parityOf pt with
          | none => simp [hpar] at he
          | some par => exact (parityOf_some hpar).1
        refine ⟨pt, rfl, ?_, g3, g1, g2⟩
        rw [tweakedKey_eq H hne, g3, ← f1, gl.add]
        congr 1
        apply smul_congr
        unfold tweak
        rw [Int.natCast_emod, Int.emod_emod]
        rfl

/-- the only way `PrivateKey.tweaked_key` raises on a valid key: the tweaked public key is the point at
    infinity (`H_TapTweak ≡ −even_secret mod N`) -/
theorem privTweakedKey_none_iff_relGroup (gl : GroupLaw) (H : Hashes) {d : Nat} {pt : Pt} {root : Bytes}
    (hp : privPoint d = some pt) :
    privTweakedKey H d root = none ↔ tweakedKey H pt root = some .inf := by
  obtain ⟨_, _, hpt⟩ := privPoint_some hp
  have hne : pt ≠ .inf := by
    rw [hpt, Ne, gl.smul_eq_inf_iff]
    rw [Int.emod_eq_of_lt (by omega) (by omega)]; omega
  obtain ⟨e, he⟩ : ∃ e, evenSecret d pt = some e := by
    unfold evenSecret; rw [parityOf_eq hne]; exact ⟨_, rfl⟩
  obtain ⟨f1, _, _, _⟩ := evenSecret_point_relGroup gl hp he
  have key : tweakedKey H pt root = some (smul (((e + beToNat (tweak H pt root)) % N : Nat) : Int) G) := by
    rw [tweakedKey_eq H hne, ← f1, gl.add]
    congr 1
    apply smul_congr
    unfold tweak
    rw [Int.natCast_emod, Int.emod_emod]
    rfl
  have hlt : (e + beToNat (tweak H pt root)) % N < N := Nat.mod_lt _ (by decide)
  rw [key]
  unfold privTweakedKey
  simp only [hp, he, Option.bind_eq_bind, Option.bind_some]
  constructor
  · intro h
    by_cases h0 : (e + beToNat (tweak H pt root)) % N = 0
    · rw [h0]; simp [smul_zero']
    · have : privPoint ((e + beToNat (tweak H pt root)) % N) = some (smul (((e + beToNat (tweak H pt root)) % N : Nat) : Int) G) := by
        unfold privPoint
        rw [if_neg (by omega), if_neg (by omega)]
      simp [this] at h
  · intro h
    have h0 := (gl.smul_eq_inf_iff _).mp (Option.some.inj h)
    have : (e + beToNat (tweak H pt root)) % N = 0 := by
      have h1 : (((e + beToNat (tweak H pt root)) % N : Nat) : Int) % (N : Int) = (((e + beToNat (tweak H pt root)) % N : Nat) : Int) :=
        Int.emod_eq_of_lt (by omega) (by omega)
      omega
    rw [this]
    simp [privPoint]

/-- the key a control block's x-only bytes parse to has the same even point as the internal key `a·G` -/
theorem evenPointOf_parse_relGroup (gl : GroupLaw) {a : Int} (ha : smul a G ≠ .inf) {X : Pt}
    (hX : parseXonly (xonly (smul a G)) = some X) : evenPointOf X = evenPointOf (smul a G) := by
  rw [gl.lift_x a ha] at hX
  cases hX
  rw [evenPointOf_eq ha, evenPointOf_eq (gl.evenPoint_smul_ne_inf a ha)]
  congr 1
  have h0 := gl.parity_evenPoint_smul a ha
  generalize evenPoint (smul a G) = E at h0 ⊢
  unfold evenPoint
  rw [if_neg (by omega)]

end Buidl.Taproot
