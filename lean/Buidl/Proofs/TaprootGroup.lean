/-
  Buidl.Proofs.TaprootGroup — `GroupLaw` holds: the seven facts about `smul` / `sadd` on `⟨G⟩`
  consumed by C12 / C13, from the secp256k1 development of C03 (Buidl.Proofs.Secp256k1,
  Buidl.Proofs.SecpCodec: the model's point addition is Mathlib's group law on the Weierstrass
  curve over ZMod P, P and N prime, N·G = ∞, parity of negation, square roots for P ≡ 3 mod 4).
-/
import Buidl.Proofs.TaprootRel
import Buidl.Proofs.SecpCodec

namespace Buidl.Taproot
open Buidl Buidl.EC

theorem groupLaw : GroupLaw where
  add := fun a b => smul_add G_tors a b
  mul := fun a b => smul_smul G_tors a b
  inj := fun _ _ h => smul_G_inj h
  neg_parity := fun a h => parity_smul_neg G_tors a h
  neg_xonly := fun a => xonly_smul_neg G_tors a
  xonly_inj := fun a b ha hb h => xonly_inj_smul G_tors a b ha hb h
  lift_x := fun a h => parseXonly_xonly_smul_G a h

end Buidl.Taproot
